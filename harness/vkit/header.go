package vkit

import (
	"time"

	"github.com/celestiaorg/celestia-node/header"
	"github.com/celestiaorg/celestia-node/share"
)

// MinimalHeader returns an ExtendedHeader carrying only what getters / stores / availability read:
// height, time, data hash and the DAH. It is NOT a valid signed header (no commit / validators).
func MinimalHeader(height uint64, roots *share.AxisRoots, t time.Time) *header.ExtendedHeader {
	h := &header.ExtendedHeader{DAH: roots}
	h.RawHeader.Height = int64(height)
	h.RawHeader.Time = t
	h.RawHeader.DataHash = roots.Hash()
	h.RawHeader.ChainID = "verif"
	return h
}
