package vkit

import (
	"encoding/json"
	"fmt"
	"hash/fnv"
	"os"
	"path/filepath"
	"regexp"
	"runtime/debug"
	"sort"
	"strings"
	"sync"
	"testing"
	"time"
)

// Violation is one oracle firing. Sig identifies the *specific* failing scenario class (input
// shape, call site or history); it is what known_findings.json is matched against.
type Violation struct {
	Sig    string `json:"sig"`
	Detail any    `json:"detail"`
	Count  int    `json:"count"`
}

// Run collects what a check observed and turns it into evidence + a verdict.
type Run struct {
	ID    string
	Level string
	t     testing.TB
	start time.Time

	mu           sync.Mutex
	evals        int64
	distinct     map[uint64]struct{}
	counters     map[string]int64
	sets         map[string]map[string]struct{}
	samples      []any
	sampleSeen   int
	violations   map[string]*Violation
	vorder       []string
	inconclusive []string
	requires     map[string]int64
	rule         string
	assumptions  []string
	extra        map[string]any
	exhaustive   bool
	finished     bool
}

// NewRun starts bookkeeping for property id.
func NewRun(t testing.TB, id, level, rule string) *Run {
	return &Run{
		ID: id, Level: level, t: t, start: time.Now(),
		distinct:   map[uint64]struct{}{},
		counters:   map[string]int64{},
		sets:       map[string]map[string]struct{}{},
		violations: map[string]*Violation{},
		requires:   map[string]int64{},
		rule:       rule,
		extra:      map[string]any{},
	}
}

// Eval counts n evaluated cases.
func (r *Run) Eval(n int) {
	r.mu.Lock()
	r.evals += int64(n)
	r.mu.Unlock()
}

// Evals returns the number of evaluations so far (progress indicator for watchdogs).
func (r *Run) Evals() int64 {
	r.mu.Lock()
	defer r.mu.Unlock()
	return r.evals
}

// Distinct records a non-trivial case by its identity key; duplicates collapse.
func (r *Run) Distinct(key string) {
	h := fnv.New64a()
	h.Write([]byte(key))
	v := h.Sum64()
	r.mu.Lock()
	r.distinct[v] = struct{}{}
	r.mu.Unlock()
}

// Count adds n to a named counter that is written into the evidence.
func (r *Run) Count(name string, n int) {
	r.mu.Lock()
	r.counters[name] += int64(n)
	r.mu.Unlock()
}

// Max keeps the maximum of a named counter.
func (r *Run) Max(name string, v int) {
	r.mu.Lock()
	if int64(v) > r.counters[name] {
		r.counters[name] = int64(v)
	}
	r.mu.Unlock()
}

// Get reads a counter.
func (r *Run) Get(name string) int64 {
	r.mu.Lock()
	defer r.mu.Unlock()
	return r.counters[name]
}

// SetAdd records membership in a named set (e.g. distinct interleaving signatures); the set size
// is written to the evidence as "<name>_distinct".
func (r *Run) SetAdd(name, member string) {
	r.mu.Lock()
	s := r.sets[name]
	if s == nil {
		s = map[string]struct{}{}
		r.sets[name] = s
	}
	s[member] = struct{}{}
	r.mu.Unlock()
}

// SetSize returns the size of a named set.
func (r *Run) SetSize(name string) int {
	r.mu.Lock()
	defer r.mu.Unlock()
	return len(r.sets[name])
}

// Sample keeps a few of the actual cases explored (first 4 + 4 spread out later ones).
func (r *Run) Sample(v any) {
	r.mu.Lock()
	defer r.mu.Unlock()
	r.sampleSeen++
	if len(r.samples) < 4 {
		r.samples = append(r.samples, v)
		return
	}
	// keep power-of-two-th samples up to 8 total
	n := r.sampleSeen
	if n&(n-1) == 0 && n >= 64 {
		if len(r.samples) < 8 {
			r.samples = append(r.samples, v)
		} else {
			r.samples[4+(n%4)] = v
		}
	}
}

// Extra stores an arbitrary coverage field.
func (r *Run) Extra(key string, v any) {
	r.mu.Lock()
	r.extra[key] = v
	r.mu.Unlock()
}

// Assume records an assumption of the check.
func (r *Run) Assume(s string) {
	r.mu.Lock()
	r.assumptions = append(r.assumptions, s)
	r.mu.Unlock()
}

// Exhaustive marks that a finite space was enumerated completely.
func (r *Run) Exhaustive(b bool) { r.mu.Lock(); r.exhaustive = b; r.mu.Unlock() }

// Require demands a minimum for a counter at Finish; unmet ⇒ inconclusive (never "held").
func (r *Run) Require(counter string, min int) {
	r.mu.Lock()
	r.requires[counter] = int64(min)
	r.mu.Unlock()
}

// Inconclusive records something that could not be decided.
func (r *Run) Inconclusive(what string) {
	r.mu.Lock()
	if len(r.inconclusive) < 50 {
		r.inconclusive = append(r.inconclusive, what)
	}
	r.counters["inconclusive"]++
	r.mu.Unlock()
}

// Violation records an oracle firing. sig must identify the scenario class, detail the witness.
func (r *Run) Violation(sig string, detail any) {
	r.mu.Lock()
	defer r.mu.Unlock()
	v := r.violations[sig]
	if v == nil {
		v = &Violation{Sig: sig, Detail: detail}
		r.violations[sig] = v
		r.vorder = append(r.vorder, sig)
	}
	v.Count++
}

// Violations returns the number of distinct violation signatures so far.
func (r *Run) Violations() int {
	r.mu.Lock()
	defer r.mu.Unlock()
	return len(r.violations)
}

// NoPanic runs f and converts a panic into a violation with the given signature.
func (r *Run) NoPanic(sig string, detail any, f func()) (panicked bool) {
	defer func() {
		if p := recover(); p != nil {
			panicked = true
			st := string(debug.Stack())
			r.Violation(sig+" panic@"+panicSite(st), map[string]any{"panic": fmt.Sprint(p), "input": detail, "stack": trimStack(st)})
		}
	}()
	f()
	return false
}

// Recover runs f and returns the panic value + site, if any, without recording.
func Recover(f func()) (p any, site string) {
	defer func() {
		if x := recover(); x != nil {
			p = x
			site = panicSite(string(debug.Stack()))
		}
	}()
	f()
	return nil, ""
}

var frameRe = regexp.MustCompile(`(?m)^(\S+)\(.*\)\n\t(\S+):(\d+)`)

// panicSite returns the first repository frame (function name) below the panic machinery.
func panicSite(stack string) string {
	ms := frameRe.FindAllStringSubmatch(stack, -1)
	seenPanic := false
	first := ""
	for _, m := range ms {
		fn := m[1]
		if strings.HasPrefix(fn, "panic") || strings.HasPrefix(fn, "runtime.") {
			seenPanic = true
			continue
		}
		if !seenPanic {
			continue
		}
		if strings.Contains(fn, "vkit.") && (strings.Contains(fn, "NoPanic") || strings.Contains(fn, "Recover")) {
			continue
		}
		if first == "" {
			first = fn
		}
		if strings.Contains(fn, "celestia-node/") && !strings.Contains(fn, "zz_verif") {
			return shortFn(fn)
		}
	}
	return shortFn(first)
}

func shortFn(fn string) string {
	if i := strings.LastIndex(fn, "/"); i >= 0 {
		fn = fn[i+1:]
	}
	return fn
}

func trimStack(s string) string {
	if len(s) > 3000 {
		return s[:3000] + "…"
	}
	return s
}

type knownFile struct {
	Findings []struct {
		Property  string `json:"property"`
		Signature string `json:"signature"`
		What      string `json:"what"`
		Status    string `json:"status"` // "known" suppresses; "fixed" suppresses nothing
		Commit    string `json:"commit,omitempty"`
	} `json:"findings"`
}

func envOr(k, d string) string {
	if v := os.Getenv(k); v != "" {
		return v
	}
	return d
}

// Finish writes evidence, replay files and the verdict lines. It fails the test when an unlisted
// violation was observed, and marks the run inconclusive when minimum coverage was not reached.
func (r *Run) Finish() {
	r.mu.Lock()
	defer r.mu.Unlock()
	if r.finished {
		return
	}
	r.finished = true

	outDir := envOr("VERIF_EVIDENCE_DIR", "/verif/evidence")
	repDir := envOr("VERIF_REPLAY_DIR", "/verif/replays")
	knownPath := envOr("VERIF_KNOWN", "/verif/known_findings.json")
	statusPath := os.Getenv("VERIF_STATUS_FILE")
	_ = os.MkdirAll(outDir, 0o755)
	_ = os.MkdirAll(repDir, 0o755)

	var kf knownFile
	if b, err := os.ReadFile(knownPath); err == nil {
		_ = json.Unmarshal(b, &kf)
	}
	known := map[string]string{}
	for _, f := range kf.Findings {
		if f.Property == r.ID && f.Status == "known" {
			known[f.Signature] = f.What
		}
	}

	for c, min := range r.requires {
		if r.counters[c] < min {
			r.inconclusive = append(r.inconclusive, fmt.Sprintf("minimum coverage not reached: %s=%d < %d", c, r.counters[c], min))
			r.counters["inconclusive"]++
		}
	}

	var unlisted, listed []string
	var lines []string
	for _, sig := range r.vorder {
		v := r.violations[sig]
		if what, ok := known[sig]; ok {
			listed = append(listed, sig)
			lines = append(lines, fmt.Sprintf("KNOWN-FINDING: property=%s %s [sig=%s observed=%d]", r.ID, what, sig, v.Count))
			continue
		}
		unlisted = append(unlisted, sig)
		h := fnv.New32a()
		h.Write([]byte(sig))
		p := filepath.Join(repDir, fmt.Sprintf("%s-%08x-seed%d.json", r.ID, h.Sum32(), Seed()))
		rep := map[string]any{"property": r.ID, "seed": Seed(), "tier": Tier(), "sig": sig, "count": v.Count, "detail": v.Detail}
		b, err := json.MarshalIndent(rep, "", " ")
		if err != nil {
			b, _ = json.MarshalIndent(map[string]any{"property": r.ID, "seed": Seed(), "tier": Tier(), "sig": sig, "detail": fmt.Sprintf("%+v", v.Detail)}, "", " ")
		}
		_ = os.WriteFile(p, b, 0o644)
		lines = append(lines, fmt.Sprintf("VIOLATION property=%s replay=%s", r.ID, p))
		lines = append(lines, fmt.Sprintf("  sig: %s (observed %d times)", sig, v.Count))
	}

	cov := map[string]any{
		"evaluations":         r.evals,
		"distinct_nontrivial": len(r.distinct),
		"rule":                r.rule,
		"samples":             r.samples,
		"exhaustive":          r.exhaustive,
	}
	names := make([]string, 0, len(r.counters))
	for k := range r.counters {
		names = append(names, k)
	}
	sort.Strings(names)
	cnt := map[string]int64{}
	for _, k := range names {
		cnt[k] = r.counters[k]
	}
	cov["counters"] = cnt
	for k, s := range r.sets {
		cov[k+"_distinct"] = len(s)
	}
	for k, v := range r.extra {
		cov[k] = v
	}
	if len(r.inconclusive) > 0 {
		cov["inconclusive"] = r.inconclusive
	}
	if len(listed) > 0 {
		cov["known_findings_observed"] = listed
	}
	if len(unlisted) > 0 {
		cov["violation_signatures"] = unlisted
	}
	if len(r.samples) == 0 {
		cov["samples"] = []any{"(no sample recorded)"}
	}
	ev := map[string]any{
		"property_id": r.ID,
		"tier":        Tier(),
		"seed":        int64(Seed()),
		"level":       r.Level,
		"coverage":    cov,
		"assumptions": append([]string{}, r.assumptions...),
		"wall_s":      time.Since(r.start).Seconds(),
		"violations":  len(unlisted),
	}
	b, err := json.MarshalIndent(ev, "", " ")
	if err != nil {
		cov["samples"] = []any{fmt.Sprintf("%+v", r.samples)}
		b, _ = json.MarshalIndent(ev, "", " ")
	}
	_ = os.WriteFile(filepath.Join(outDir, r.ID+".json"), b, 0o644)

	for _, l := range lines {
		fmt.Println(l)
	}
	verdict := "held"
	if len(unlisted) > 0 {
		verdict = "violated"
	} else if len(r.inconclusive) > 0 {
		verdict = "inconclusive"
		for _, s := range r.inconclusive {
			fmt.Printf("INCONCLUSIVE property=%s %s\n", r.ID, s)
		}
	}
	fmt.Printf("VERDICT property=%s %s evaluations=%d distinct=%d unlisted_violations=%d known_findings=%d wall=%.1fs\n",
		r.ID, verdict, r.evals, len(r.distinct), len(unlisted), len(listed), time.Since(r.start).Seconds())
	if statusPath != "" {
		sb, _ := json.Marshal(map[string]any{"property": r.ID, "verdict": verdict, "unlisted": unlisted, "listed": listed, "inconclusive": r.inconclusive})
		_ = os.WriteFile(statusPath, sb, 0o644)
	}
	if verdict != "held" {
		r.t.Fail()
	}
}

// Focus returns VERIF_FOCUS (a violation signature to concentrate a replay on), or "".
func Focus() string { return os.Getenv("VERIF_FOCUS") }
