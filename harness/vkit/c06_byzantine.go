package vkit

// Byzantine peers for the shrex and bitswap protocols (DESIGN §3.3).
//
//   - ServeScriptedShrex installs, on a libp2p host, stream handlers for the five shrex protocols
//     whose answer to every single request is decided by a script (status only, arbitrary payload,
//     reset at a chosen stage, half-written then stall, never answer).
//   - ShrexPayload produces the exact bytes an honest server streams for an identifier over an
//     accessor; asked with *another* identifier or another square it yields "valid data for the
//     wrong position" and "data from a twin square".
//   - TapHost wraps a host so that the handlers a *real* shrex.Server registers through it report
//     what they read and wrote (who asked what, was the reply written completely).
//   - ByzBlockstore is a boxo Blockstore whose Get returns whatever its script says for a CID: what
//     a hostile bitswap server controls.

import (
	"bytes"
	"context"
	"fmt"
	"io"
	"sync"
	"sync/atomic"
	"time"

	"github.com/ipfs/boxo/blockstore"
	blocks "github.com/ipfs/go-block-format"
	"github.com/ipfs/go-cid"
	ipld "github.com/ipfs/go-ipld-format"
	"github.com/libp2p/go-libp2p/core/host"
	"github.com/libp2p/go-libp2p/core/network"
	"github.com/libp2p/go-libp2p/core/peer"
	"github.com/libp2p/go-libp2p/core/protocol"

	"github.com/celestiaorg/go-libp2p-messenger/serde"

	"github.com/celestiaorg/celestia-node/share/shwap"
	"github.com/celestiaorg/celestia-node/share/shwap/p2p/shrex"
	shrexpb "github.com/celestiaorg/celestia-node/share/shwap/p2p/shrex/pb"
)

// ShrexID is what the five shwap request identifiers implement (pointer receivers).
type ShrexID interface {
	io.WriterTo
	io.ReaderFrom
	Name() string
	Height() uint64
	ResponseReader(ctx context.Context, acc shwap.Accessor) (io.Reader, error)
}

// ShrexNames are the request names of the five shrex protocols.
var ShrexNames = []string{
	shwap.SampleID{}.Name(), shwap.RowID{}.Name(), shwap.EdsID{}.Name(),
	shwap.NamespaceDataID{}.Name(), shwap.RangeNamespaceDataID{}.Name(),
}

// NewShrexID returns an empty identifier for a protocol name (nil if unknown).
func NewShrexID(name string) ShrexID {
	switch name {
	case shwap.SampleID{}.Name():
		return &shwap.SampleID{}
	case shwap.RowID{}.Name():
		return &shwap.RowID{}
	case shwap.EdsID{}.Name():
		return &shwap.EdsID{}
	case shwap.NamespaceDataID{}.Name():
		return &shwap.NamespaceDataID{}
	case shwap.RangeNamespaceDataID{}.Name():
		return &shwap.RangeNamespaceDataID{}
	}
	return nil
}

// ShrexIDBytes is the wire form of an identifier (also a convenient map key).
func ShrexIDBytes(id io.WriterTo) []byte {
	var b bytes.Buffer
	if _, err := id.WriteTo(&b); err != nil {
		panic(err)
	}
	return b.Bytes()
}

// ShrexPayload returns the bytes an honest shrex server streams after the OK status when asked for
// id and holding acc.
func ShrexPayload(ctx context.Context, id ShrexID, acc shwap.Accessor) ([]byte, error) {
	r, err := id.ResponseReader(ctx, acc)
	if err != nil {
		return nil, err
	}
	return io.ReadAll(r)
}

// ShrexKind is the shape of a scripted answer.
type ShrexKind int

const (
	// ShrexStatusOnly writes the status frame and closes.
	ShrexStatusOnly ShrexKind = iota
	// ShrexPayloadClose writes status OK, the payload, and closes.
	ShrexPayloadClose
	// ShrexResetAt resets the stream at ResetStage.
	ShrexResetAt
	// ShrexStall writes status OK and Payload (the part to be written), then neither writes nor
	// closes until Release is closed (or the hold limit passes), then resets.
	ShrexStall
	// ShrexSilent reads the request and never answers until Release is closed, then resets.
	ShrexSilent
)

// Reset stages.
const (
	ShrexResetAfterRequest = iota // request read, nothing written
	ShrexResetAfterStatus         // status OK written
	ShrexResetMidPayload          // status OK and half of Payload written
	ShrexResetStages
)

// ShrexAction is one scripted answer.
type ShrexAction struct {
	Kind       ShrexKind
	Status     shrexpb.Status
	Payload    []byte
	ResetStage int
	Release    <-chan struct{}
	Label      string
}

// ShrexReq is a request as received by a scripted peer or reported by a TapHost.
type ShrexReq struct {
	Name   string
	ID     ShrexID
	Key    string // Name + wire bytes of the identifier
	Remote peer.ID
	Local  peer.ID
	Start  time.Time
}

// ShrexOutcome is what happened to an answer.
type ShrexOutcome struct {
	Written  int
	Err      error // first write/close error
	Complete bool  // everything scripted was written and the stream closed without error
	End      time.Time
}

// ShrexScript decides and observes the answers of a scripted peer.
type ShrexScript interface {
	Plan(req ShrexReq) ShrexAction
	Done(req ShrexReq, act ShrexAction, out ShrexOutcome)
}

// ShrexHoldLimit bounds how long a stalled / silent handler keeps its stream when Release never fires.
var ShrexHoldLimit = 2 * time.Minute

// ServeScriptedShrex installs scripted handlers for all shrex protocols of networkID on h.
func ServeScriptedShrex(h host.Host, networkID string, s ShrexScript) {
	for _, name := range ShrexNames {
		name := name
		h.SetStreamHandler(shrex.ProtocolID(networkID, name), func(st network.Stream) {
			serveScripted(h.ID(), name, st, s)
		})
	}
}

func serveScripted(local peer.ID, name string, st network.Stream, s ShrexScript) {
	req := ShrexReq{Name: name, ID: NewShrexID(name), Remote: st.Conn().RemotePeer(), Local: local, Start: time.Now()}
	if _, err := req.ID.ReadFrom(st); err != nil {
		_ = st.Reset()
		return
	}
	_ = st.CloseRead()
	req.Key = name + "|" + string(ShrexIDBytes(req.ID))
	act := s.Plan(req)
	var out ShrexOutcome
	write := func(b []byte) bool {
		if out.Err != nil {
			return false
		}
		n, err := st.Write(b)
		out.Written += n
		if err != nil {
			out.Err = err
			return false
		}
		return true
	}
	status := func(code shrexpb.Status) bool {
		if out.Err != nil {
			return false
		}
		n, err := serde.Write(st, &shrexpb.Response{Status: code})
		out.Written += n
		if err != nil {
			out.Err = err
			return false
		}
		return true
	}
	hold := func() {
		t := time.NewTimer(ShrexHoldLimit)
		defer t.Stop()
		if act.Release == nil {
			<-t.C
			return
		}
		select {
		case <-act.Release:
		case <-t.C:
		}
	}
	finish := func(closeIt bool) {
		if closeIt {
			if err := st.Close(); err != nil && out.Err == nil {
				out.Err = err
			}
			out.Complete = out.Err == nil
		} else {
			_ = st.Reset()
		}
		out.End = time.Now()
		s.Done(req, act, out)
	}
	switch act.Kind {
	case ShrexStatusOnly:
		status(act.Status)
		finish(true)
	case ShrexPayloadClose:
		if status(shrexpb.Status_OK) {
			// in chunks, as io.Copy from a file would
			for b := act.Payload; len(b) > 0; {
				n := min(len(b), 32<<10)
				if !write(b[:n]) {
					break
				}
				b = b[n:]
			}
		}
		finish(true)
	case ShrexResetAt:
		switch act.ResetStage {
		case ShrexResetAfterStatus:
			status(shrexpb.Status_OK)
		case ShrexResetMidPayload:
			if status(shrexpb.Status_OK) {
				write(act.Payload[:len(act.Payload)/2])
			}
		}
		finish(false)
	case ShrexStall:
		if status(shrexpb.Status_OK) {
			write(act.Payload)
		}
		hold()
		finish(false)
	default: // ShrexSilent
		hold()
		finish(false)
	}
}

// ---------------------------------------------------------------------------------------------
// TapHost

// TapReport is what one stream handled through a TapHost did.
type TapReport struct {
	Protocol protocol.ID
	Remote   peer.ID
	Read     []byte // everything the handler read (the request)
	Head     []byte // first bytes the handler wrote (the status frame)
	Written  int
	WriteErr error
	CloseErr error
	Closed   bool
	Reset    bool
	Start    time.Time
	End      time.Time
}

// Status decodes the status frame the handler wrote (ok=false if none / undecodable).
func (r TapReport) Status() (shrexpb.Status, bool) {
	var resp shrexpb.Response
	if _, err := serde.Read(bytes.NewReader(r.Head), &resp); err != nil {
		return 0, false
	}
	return resp.Status, true
}

// Complete reports that the handler wrote a reply and closed the stream without any error or reset.
func (r TapReport) Complete() bool {
	return r.Closed && !r.Reset && r.WriteErr == nil && r.CloseErr == nil && r.Written > 0
}

// TapHost is a host whose SetStreamHandler wraps the handler so that OnDone is called with a
// report after each handled stream. Everything else is the wrapped host.
type TapHost struct {
	host.Host
	OnDone func(TapReport)
}

// SetStreamHandler implements host.Host.
func (t *TapHost) SetStreamHandler(pid protocol.ID, h network.StreamHandler) {
	t.Host.SetStreamHandler(pid, func(s network.Stream) {
		ts := &tapStream{Stream: s}
		ts.rep.Protocol = pid
		ts.rep.Remote = s.Conn().RemotePeer()
		ts.rep.Start = time.Now()
		h(ts)
		ts.mu.Lock()
		ts.rep.End = time.Now()
		rep := ts.rep
		ts.mu.Unlock()
		if t.OnDone != nil {
			t.OnDone(rep)
		}
	})
}

type tapStream struct {
	network.Stream
	mu  sync.Mutex
	rep TapReport
}

func (t *tapStream) Read(p []byte) (int, error) {
	n, err := t.Stream.Read(p)
	if n > 0 {
		t.mu.Lock()
		if len(t.rep.Read) < 1<<10 {
			t.rep.Read = append(t.rep.Read, p[:n]...)
		}
		t.mu.Unlock()
	}
	return n, err
}

func (t *tapStream) Write(p []byte) (int, error) {
	n, err := t.Stream.Write(p)
	t.mu.Lock()
	if len(t.rep.Head) < 16 && n > 0 {
		t.rep.Head = append(t.rep.Head, p[:min(n, 16-len(t.rep.Head))]...)
	}
	t.rep.Written += n
	if err != nil && t.rep.WriteErr == nil {
		t.rep.WriteErr = err
	}
	t.mu.Unlock()
	return n, err
}

func (t *tapStream) Close() error {
	err := t.Stream.Close()
	t.mu.Lock()
	t.rep.Closed = true
	if err != nil && t.rep.CloseErr == nil {
		t.rep.CloseErr = err
	}
	t.mu.Unlock()
	return err
}

func (t *tapStream) Reset() error {
	t.mu.Lock()
	t.rep.Reset = true
	t.mu.Unlock()
	return t.Stream.Reset()
}

func (t *tapStream) ResetWithError(c network.StreamErrorCode) error {
	t.mu.Lock()
	t.rep.Reset = true
	t.mu.Unlock()
	return t.Stream.ResetWithError(c)
}

// ---------------------------------------------------------------------------------------------
// bitswap

// ByzBlockstore is a read-only boxo Blockstore whose content is decided per CID by Serve: exactly
// what a hostile bitswap server controls. Serve returning (nil, nil) means "do not have".
type ByzBlockstore struct {
	Serve func(ctx context.Context, c cid.Cid) ([]byte, error)
	// Size > 0: claim to have every CID (every CID HasFn accepts, if set), with this size; Serve is
	// then called by Get only.
	Size  int
	HasFn func(c cid.Cid) bool

	gets atomic.Int64
}

var _ blockstore.Blockstore = (*ByzBlockstore)(nil)

// Gets is the number of Get calls that returned data.
func (b *ByzBlockstore) Gets() int64 { return b.gets.Load() }

func (b *ByzBlockstore) data(ctx context.Context, c cid.Cid) ([]byte, error) {
	d, err := b.Serve(ctx, c)
	if err != nil {
		return nil, err
	}
	if d == nil {
		return nil, ipld.ErrNotFound{Cid: c}
	}
	return d, nil
}

func (b *ByzBlockstore) Get(ctx context.Context, c cid.Cid) (blocks.Block, error) {
	d, err := b.data(ctx, c)
	if err != nil {
		return nil, err
	}
	b.gets.Add(1)
	return blocks.NewBlockWithCid(d, c)
}

// GetSize reports Size without consulting Serve when Size > 0 (bitswap asks for sizes to weigh and
// to answer want-have; a hostile server claims to have everything).
func (b *ByzBlockstore) GetSize(ctx context.Context, c cid.Cid) (int, error) {
	if b.Size > 0 {
		if b.HasFn != nil && !b.HasFn(c) {
			return 0, ipld.ErrNotFound{Cid: c}
		}
		return b.Size, nil
	}
	d, err := b.data(ctx, c)
	if err != nil {
		return 0, err
	}
	return len(d), nil
}

func (b *ByzBlockstore) Has(ctx context.Context, c cid.Cid) (bool, error) {
	if b.Size > 0 {
		return b.HasFn == nil || b.HasFn(c), nil
	}
	d, err := b.Serve(ctx, c)
	return d != nil && err == nil, nil
}

func (b *ByzBlockstore) Put(context.Context, blocks.Block) error {
	return fmt.Errorf("byzantine blockstore is read-only")
}
func (b *ByzBlockstore) PutMany(context.Context, []blocks.Block) error {
	return fmt.Errorf("byzantine blockstore is read-only")
}
func (b *ByzBlockstore) DeleteBlock(context.Context, cid.Cid) error { return nil }
func (b *ByzBlockstore) AllKeysChan(context.Context) (<-chan cid.Cid, error) {
	ch := make(chan cid.Cid)
	close(ch)
	return ch, nil
}
func (b *ByzBlockstore) HashOnRead(bool) {}
