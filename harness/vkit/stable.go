package vkit

import (
	"hash/fnv"
	"os"
	"regexp"
	"runtime"
	"sort"
	"strings"
	"time"
)

// StableOpts tunes the stable-state hang oracle.
type StableOpts struct {
	// Polls is the number of consecutive identical goroutine dumps that make a state stable.
	Polls int
	// Every is the poll interval. Polls*Every must exceed every real timer that could still
	// unblock the awaited operation (workloads use virtual clocks, so normally there is none).
	Every time.Duration
	// MaxWait is the outer watchdog; reaching it without "done" or "stable" is inconclusive.
	MaxWait time.Duration
	// Ignore: goroutines whose stack contains one of these substrings are left out of the
	// comparison (e.g. background tickers of libraries that legitimately keep waking up).
	Ignore []string
	// AllowSleep: goroutines in time.Sleep containing one of these substrings are known bounded
	// timers; if present the state is never declared stable while they sleep.
	AllowSleep []string
}

var (
	goHdr   = regexp.MustCompile(`^goroutine (\d+)(?: gp=\S+ m=\S+(?: mp=\S+)?)? \[([^\],]+)(?:, [^\]]*)?\]:`)
	hexArgs = regexp.MustCompile(`\(0x[0-9a-f][^)]*\)|\(\.\.\.\)|\(\)`)
	plusOff = regexp.MustCompile(` \+0x[0-9a-f]+`)
)

// DumpSig normalises a full goroutine dump: per goroutine "state | frames" with addresses and
// wait durations stripped. It returns the signature, whether some goroutine other than the
// caller is running/runnable, and the raw dump.
func DumpSig(ignore []string) (sig uint64, busy bool, sleeping []string, raw string) {
	buf := make([]byte, 1<<20)
	for {
		n := runtime.Stack(buf, true)
		if n < len(buf) {
			buf = buf[:n]
			break
		}
		buf = make([]byte, 2*len(buf))
	}
	raw = string(buf)
	var items []string
	for i, g := range strings.Split(raw, "\n\n") {
		lines := strings.Split(g, "\n")
		m := goHdr.FindStringSubmatch(lines[0])
		if m == nil {
			continue
		}
		state := m[2]
		if i == 0 {
			continue // the caller itself (always first, "running")
		}
		skip := false
		for _, ig := range ignore {
			if strings.Contains(g, ig) {
				skip = true
				break
			}
		}
		if skip {
			continue
		}
		var frames []string
		for _, l := range lines[1:] {
			if strings.HasPrefix(l, "\t") || strings.HasPrefix(l, "created by") {
				continue
			}
			frames = append(frames, hexArgs.ReplaceAllString(plusOff.ReplaceAllString(l, ""), ""))
		}
		if state == "running" || state == "runnable" {
			busy = true
		}
		if state == "sleep" {
			sleeping = append(sleeping, strings.Join(frames, ";"))
		}
		items = append(items, m[1]+"|"+state+"|"+strings.Join(frames, ";"))
	}
	sort.Strings(items)
	h := fnv.New64a()
	for _, it := range items {
		h.Write([]byte(it))
		h.Write([]byte{0})
	}
	return h.Sum64(), busy, sleeping, raw
}

// WaitStable waits for done; it returns "done", or "hang" when the process reached a state that
// cannot change by itself (identical dumps, nothing runnable) with the dump as witness, or
// "inconclusive" when the watchdog expired while things were still moving.
func WaitStable(done <-chan struct{}, o StableOpts) (verdict string, dump string) {
	if o.Polls == 0 {
		o.Polls = 25
	}
	if o.Every == 0 {
		o.Every = 40 * time.Millisecond
	}
	if o.MaxWait == 0 {
		o.MaxWait = 2 * time.Minute
	}
	deadline := time.Now().Add(o.MaxWait)
	var last uint64
	same := 0
	for {
		select {
		case <-done:
			return "done", ""
		case <-time.After(o.Every):
		}
		sig, busy, sleeping, raw := DumpSig(o.Ignore)
		blockedByTimer := false
		for _, s := range sleeping {
			for _, a := range o.AllowSleep {
				if strings.Contains(s, a) {
					blockedByTimer = true
				}
			}
		}
		if busy || blockedByTimer || sig != last {
			same = 0
			last = sig
		} else {
			same++
			if same >= o.Polls {
				select {
				case <-done:
					return "done", ""
				default:
				}
				return "hang", raw
			}
		}
		if time.Now().After(deadline) {
			return "inconclusive", raw
		}
	}
}

// RepoFrames extracts the celestia-node frames (not harness) of blocked goroutines from a dump,
// for a compact witness / signature.
func RepoFrames(dump string) []string {
	seen := map[string]bool{}
	var out []string
	for _, g := range strings.Split(dump, "\n\n") {
		lines := strings.Split(g, "\n")
		if len(lines) == 0 || !strings.HasPrefix(lines[0], "goroutine ") {
			continue
		}
		for _, l := range lines[1:] {
			if strings.HasPrefix(l, "\t") {
				continue
			}
			if strings.Contains(l, "celestia-node/") && !strings.Contains(l, "zz_verif") {
				f := shortFn(hexArgs.ReplaceAllString(l, ""))
				key := lines[0][strings.Index(lines[0], "["):] + " " + f
				key = regexp.MustCompile(`, \d+ minutes`).ReplaceAllString(key, "")
				if !seen[key] {
					seen[key] = true
					out = append(out, key)
				}
				break
			}
		}
	}
	sort.Strings(out)
	return out
}

// WatchDeadlock starts a process-wide progress monitor for a workload that may block inside the code
// under test without a watchdog of its own. Nothing is decided by the clock: when no evaluation was
// recorded for three ticks, the stable-state oracle is consulted; only a state that cannot change by
// itself (identical goroutine dumps, nothing runnable) in which goroutines are blocked on a lock in a
// frame accepted by match is a violation (sig = sigPrefix + the blocked frames). The run is then
// finished and the process exits, because the blocked workload cannot end. stop ends the monitor.
func (r *Run) WatchDeadlock(sigPrefix string, match func(frame string) bool) (stop func()) {
	finished := make(chan struct{})
	go func() {
		tick := time.NewTicker(15 * time.Second)
		defer tick.Stop()
		lastEvals, quiet := int64(-1), 0
		for {
			select {
			case <-finished:
				return
			case <-tick.C:
			}
			if e := r.Evals(); e != lastEvals {
				lastEvals, quiet = e, 0
				continue
			}
			if quiet++; quiet < 3 {
				continue
			}
			never := make(chan struct{})
			v, dump := WaitStable(never, StableOpts{Polls: 40, Every: 50 * time.Millisecond, MaxWait: 20 * time.Second})
			if v != "hang" {
				continue
			}
			var locked []string
			for _, f := range RepoFrames(dump) {
				if (strings.Contains(f, "Mutex") || strings.Contains(f, "semacquire")) && match(f) {
					locked = append(locked, f)
				}
			}
			if len(locked) == 0 {
				continue
			}
			select {
			case <-finished:
				return
			default:
			}
			if len(dump) > 8000 {
				dump = dump[len(dump)-8000:]
			}
			r.Violation(sigPrefix+strings.Join(locked, " | "), map[string]any{"dump": dump})
			r.Finish()
			os.Exit(1)
		}
	}()
	return func() { close(finished) }
}
