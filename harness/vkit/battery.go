package vkit

import (
	"bytes"
	"context"
	"fmt"
	"io"

	libshare "github.com/celestiaorg/go-square/v4/share"
	"github.com/celestiaorg/rsmt2d"

	"github.com/celestiaorg/celestia-node/share/eds"
	"github.com/celestiaorg/celestia-node/share/shwap"
)

// Problem is one disagreement between an accessor and the reference square.
type Problem struct {
	Call string // e.g. "Sample", "AxisHalf", "RowNamespaceData/absent", "Reader/511", "bounds/Sample"
	What string
}

// BatteryOpts selects how deep the read-equality battery goes.
type BatteryOpts struct {
	// Exhaustive: every coordinate, axis, namespace; otherwise boundary + sampled.
	Exhaustive bool
	// Samples bounds the number of sampled coordinates when not exhaustive.
	Samples int
	// Bounds: also issue out-of-range arguments and demand an error (only for accessors that
	// promise validation, i.e. what the store hands out).
	Bounds bool
	// Reader: exercise the Streamer with these read sizes (nil = skip). The accessor must be an
	// eds.AccessorStreamer for this to do anything.
	ReadSizes []int
	// SkipVerify skips proof verification (byte equality only) — for cheap repeated use.
	SkipVerify bool
}

// Battery reads the accessor through every method and compares with the reference square.
// It returns the number of accessor calls made and the problems found (empty = all equal).
func Battery(ctx context.Context, r *RNG, acc eds.Accessor, sq *Square, o BatteryOpts) (calls int, probs []Problem) {
	w, n := sq.W, 2*sq.W
	bad := func(call, format string, a ...any) {
		if len(probs) < 20 {
			probs = append(probs, Problem{Call: call, What: fmt.Sprintf(format, a...)})
		}
	}
	guard := func(call string, f func()) {
		calls++
		if p, site := Recover(f); p != nil {
			bad(call+"/panic", "panic %v at %s", p, site)
		}
	}

	guard("Size", func() {
		sz, err := acc.Size(ctx)
		if err != nil || sz != n {
			bad("Size", "got %d err=%v want %d", sz, err, n)
		}
	})
	guard("DataHash", func() {
		dh, err := acc.DataHash(ctx)
		if err != nil || !bytes.Equal(dh, sq.Roots.Hash()) {
			bad("DataHash", "got %x err=%v", []byte(dh), err)
		}
	})
	guard("AxisRoots", func() {
		ar, err := acc.AxisRoots(ctx)
		if err != nil || ar == nil || !ar.Equals(sq.Roots) {
			bad("AxisRoots", "differs err=%v", err)
		}
	})

	// --- samples
	type pos struct{ r, c int }
	var ps []pos
	if o.Exhaustive {
		for i := 0; i < n; i++ {
			for j := 0; j < n; j++ {
				ps = append(ps, pos{i, j})
			}
		}
	} else {
		for _, i := range []int{0, w - 1, w, n - 1} {
			for _, j := range []int{0, w - 1, w, n - 1} {
				ps = append(ps, pos{i, j})
			}
		}
		k := o.Samples
		if k == 0 {
			k = 16
		}
		for i := 0; i < k; i++ {
			ps = append(ps, pos{r.Intn(n), r.Intn(n)})
		}
	}
	for _, p := range ps {
		guard("Sample", func() {
			s, err := acc.Sample(ctx, shwap.SampleCoords{Row: p.r, Col: p.c})
			if err != nil {
				bad("Sample", "(%d,%d): %v", p.r, p.c, err)
				return
			}
			if !bytes.Equal(s.ToBytes(), sq.Cell(p.r, p.c)) {
				bad("Sample", "(%d,%d): share differs from the square", p.r, p.c)
				return
			}
			if !o.SkipVerify {
				if err := s.Verify(sq.Roots, p.r, p.c); err != nil {
					bad("Sample", "(%d,%d): does not verify: %v", p.r, p.c, err)
				}
			}
		})
	}

	// --- axis halves
	var axes []int
	if o.Exhaustive || n <= 16 {
		for i := 0; i < n; i++ {
			axes = append(axes, i)
		}
	} else {
		axes = []int{0, w - 1, w, n - 1, r.Intn(n), r.Intn(n)}
	}
	for _, ax := range []rsmt2d.Axis{rsmt2d.Row, rsmt2d.Col} {
		for _, i := range axes {
			guard("AxisHalf", func() {
				h, err := acc.AxisHalf(ctx, ax, i)
				if err != nil {
					bad("AxisHalf", "axis=%d idx=%d: %v", ax, i, err)
					return
				}
				if len(h.Shares) != w {
					bad("AxisHalf", "axis=%d idx=%d: %d shares, want %d", ax, i, len(h.Shares), w)
					return
				}
				ext, err := h.Extended()
				if err != nil {
					bad("AxisHalf", "axis=%d idx=%d: extend: %v", ax, i, err)
					return
				}
				var want []libshare.Share
				if ax == rsmt2d.Row {
					want = sq.ExtRowShares(i)
				} else {
					want = sq.ExtColShares(i)
				}
				if !EqualShares(ext, want) {
					bad("AxisHalf", "axis=%d idx=%d parity=%v: extended axis differs from the square", ax, i, h.IsParity)
					return
				}
				if ax == rsmt2d.Row && !o.SkipVerify {
					row := h.ToRow()
					if err := row.Verify(sq.Roots, i); err != nil {
						bad("AxisHalf", "row %d: ToRow().Verify: %v", i, err)
					}
				}
			})
		}
	}

	// --- shares
	guard("Shares", func() {
		sh, err := acc.Shares(ctx)
		if err != nil || !EqualShares(sh, sq.ODS) {
			bad("Shares", "differs (len %d want %d) err=%v", len(sh), len(sq.ODS), err)
		}
	})

	// --- namespace data, per row and whole
	var nss []libshare.Namespace
	present := sq.DistinctNamespaces()
	if o.Exhaustive || len(present) <= 6 {
		nss = append(nss, present...)
	} else {
		nss = append(nss, present[0], present[len(present)-1], present[len(present)/2], Pick(r, present), Pick(r, present))
	}
	for _, l := range sq.AbsentNamespaces() {
		nss = append(nss, l...)
	}
	for _, ns := range nss {
		if ns.ValidateForData() != nil {
			continue // tail padding / parity: not a namespace a client may ask for
		}
		rows := sq.RowsCovering(ns)
		for _, row := range rows {
			guard("RowNamespaceData", func() {
				rnd, err := acc.RowNamespaceData(ctx, ns, row)
				want, _ := sq.RowSharesOf(ns, row)
				if err != nil {
					bad("RowNamespaceData", "ns=%x row=%d: %v", ns.ID()[18:], row, err)
					return
				}
				if !EqualShares(rnd.Shares, want) {
					bad("RowNamespaceData", "ns=%x row=%d: %d shares, want %d (or content differs)", ns.ID()[18:], row, len(rnd.Shares), len(want))
					return
				}
				if !o.SkipVerify {
					if err := rnd.Verify(sq.Roots, ns, row); err != nil {
						bad("RowNamespaceData", "ns=%x row=%d: does not verify: %v", ns.ID()[18:], row, err)
					}
				}
			})
		}
		guard("NamespaceData", func() {
			nd, err := eds.NamespaceData(ctx, acc, ns)
			if err != nil {
				bad("NamespaceData", "ns=%x: %v", ns.ID()[18:], err)
				return
			}
			if !EqualShares(nd.Flatten(), sq.SharesOf(ns)) || len(nd) != len(rows) {
				bad("NamespaceData", "ns=%x: %d rows/%d shares, want %d rows/%d shares", ns.ID()[18:], len(nd), len(nd.Flatten()), len(rows), len(sq.SharesOf(ns)))
				return
			}
			if !o.SkipVerify {
				if err := nd.Verify(sq.Roots, ns); err != nil {
					bad("NamespaceData", "ns=%x: does not verify: %v", ns.ID()[18:], err)
				}
			}
		})
	}

	// --- ranges inside one namespace
	var ranges [][2]int
	for _, run := range sq.Runs {
		a, b := run.Start, run.Start+run.Count
		ranges = append(ranges, [2]int{a, b})
		if run.Count > 1 {
			ranges = append(ranges, [2]int{a, a + 1}, [2]int{b - 1, b})
			x := a + r.Intn(run.Count)
			y := x + 1 + r.Intn(b-x)
			ranges = append(ranges, [2]int{x, y})
		}
	}
	if !o.Exhaustive && len(ranges) > 12 {
		r.Shuffle(len(ranges), func(i, j int) { ranges[i], ranges[j] = ranges[j], ranges[i] })
		ranges = ranges[:12]
	}
	for _, g := range ranges {
		guard("RangeNamespaceData", func() {
			rd, err := acc.RangeNamespaceData(ctx, g[0], g[1])
			if err != nil {
				bad("RangeNamespaceData", "[%d,%d): %v", g[0], g[1], err)
				return
			}
			if !EqualShares(rd.Flatten(), sq.ODS[g[0]:g[1]]) {
				bad("RangeNamespaceData", "[%d,%d): shares differ from the square", g[0], g[1])
				return
			}
			if !o.SkipVerify {
				fc, _ := shwap.SampleCoordsFrom1DIndex(g[0], w)
				tc, _ := shwap.SampleCoordsFrom1DIndex(g[1]-1, w)
				if err := rd.VerifyInclusion(fc, tc, w, sq.Roots.RowRoots[fc.Row:tc.Row+1]); err != nil {
					bad("RangeNamespaceData", "[%d,%d): does not verify: %v", g[0], g[1], err)
				}
			}
		})
	}

	// --- streamed original square
	if st, ok := acc.(eds.Streamer); ok && len(o.ReadSizes) > 0 {
		var ref []byte
		for _, s := range sq.ODS {
			ref = append(ref, s.ToBytes()...)
		}
		tailStart := (len(sq.ODS) - sq.Tail) * libshare.ShareSize
		for _, rs := range o.ReadSizes {
			guard(fmt.Sprintf("Reader/%d", rs), func() {
				rd, err := st.Reader()
				if err != nil {
					bad("Reader", "open: %v", err)
					return
				}
				var got []byte
				buf := make([]byte, rs)
				for {
					k, err := rd.Read(buf)
					got = append(got, buf[:k]...)
					if err == io.EOF {
						break
					}
					if err != nil {
						bad("Reader", "read size %d: %v after %d bytes", rs, err, len(got))
						return
					}
					if len(got) > len(ref) {
						break
					}
				}
				// the stream is the ODS row by row; trailing tail padding may be omitted (readers
				// substitute it), nothing else may be.
				if len(got) > len(ref) || len(got) < tailStart || len(got)%libshare.ShareSize != 0 || !bytes.Equal(got, ref[:len(got)]) {
					bad("Reader", "read size %d: stream of %d bytes is not the ODS (ref %d bytes, data part %d)", rs, len(got), len(ref), tailStart)
					return
				}
				acc2, err := eds.ReadAccessor(ctx, bytes.NewReader(got), sq.Roots)
				if err != nil {
					bad("Reader", "read size %d: ReadAccessor rejects the stream: %v", rs, err)
					return
				}
				if !bytes.Equal(flat(acc2.FlattenedODS()), ref) {
					bad("Reader", "read size %d: re-imported square differs", rs)
				}
			})
		}
	}

	// --- out-of-bounds arguments must be refused, never mis-served
	if o.Bounds {
		mustErr := func(call string, f func() error) {
			guard("bounds/"+call, func() {
				if err := f(); err == nil {
					bad("bounds/"+call, "out-of-range argument was served without error")
				}
			})
		}
		for _, c := range []shwap.SampleCoords{{Row: -1, Col: 0}, {Row: 0, Col: -1}, {Row: n, Col: 0}, {Row: 0, Col: n}, {Row: n + 1, Col: n + 1}, {Row: 1 << 20, Col: 0}} {
			mustErr(fmt.Sprintf("Sample(%d,%d)", c.Row, c.Col), func() error { _, err := acc.Sample(ctx, c); return err })
		}
		for _, i := range []int{-1, n, n + 1, 1 << 20} {
			mustErr(fmt.Sprintf("AxisHalf(row,%d)", i), func() error { _, err := acc.AxisHalf(ctx, rsmt2d.Row, i); return err })
			mustErr(fmt.Sprintf("AxisHalf(col,%d)", i), func() error { _, err := acc.AxisHalf(ctx, rsmt2d.Col, i); return err })
			mustErr(fmt.Sprintf("RowNamespaceData(row=%d)", i), func() error {
				_, err := acc.RowNamespaceData(ctx, sq.ODS[0].Namespace(), i)
				return err
			})
		}
		for _, ns := range []libshare.Namespace{libshare.ParitySharesNamespace, libshare.TailPaddingNamespace} {
			mustErr("RowNamespaceData(ns="+ns.String()[50:]+")", func() error { _, err := acc.RowNamespaceData(ctx, ns, 0); return err })
		}
		total := w * w
		for _, g := range [][2]int{{-1, 1}, {0, 0}, {1, 1}, {2, 1}, {0, total + 1}, {total, total + 1}, {total - 1, total + 5}, {0, 1 << 30}} {
			mustErr(fmt.Sprintf("RangeNamespaceData[%d,%d)", g[0], g[1]), func() error {
				rd, err := acc.RangeNamespaceData(ctx, g[0], g[1])
				if err == nil && len(rd.Flatten()) == 0 {
					return fmt.Errorf("empty result") // nothing mis-served
				}
				return err
			})
		}
	}
	return calls, probs
}

func flat(b [][]byte) []byte {
	var out []byte
	for _, x := range b {
		out = append(out, x...)
	}
	return out
}
