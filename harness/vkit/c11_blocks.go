package vkit

// Blocks built by the REAL square-layout rules (go-square/v4 square.Builder, the same code
// celestia-app's da.ConstructEDS runs and the same call a bridge node makes for every block it
// stores) from PRNG-generated blob multisets, together with the CONSTRUCTION RECORD: what was
// put into the block and where the builder placed it. The record is the reference model for the
// blob monitors (C11 retrieval, C12 proofs) and is meant for reuse (C15 bridge storage, C20
// subscriptions).
//
//	blk := vkit.GenBlock(rng, vkit.BlockOpts{Height: 7})         // random profile
//	blk := vkit.BuildBlock(7, normalTxs, [][]*libshare.Blob{...}) // explicit content
//	blk.Blobs                 // record, in block order (ascending ODS start index)
//	blk.BlobsOf(ns)           // record restricted to one namespace, block order
//	blk.EDS / .Roots / .Header / .Txs / .Sq (share-level reference model, see square.go)
//	vkit.NewMemGetter(blk...) // shwap.Getter straight over the in-memory squares
//
// Trusted base: go-square (layout rules, share splitting, inclusion.CreateCommitment), rsmt2d,
// nmt. Nothing of celestia-node's blob package is used here.

import (
	"bytes"
	"context"
	"encoding/binary"
	"fmt"
	"sort"
	"time"

	"github.com/celestiaorg/celestia-app/v9/pkg/appconsts"
	"github.com/celestiaorg/celestia-app/v9/pkg/da"
	"github.com/celestiaorg/go-square/merkle"
	square "github.com/celestiaorg/go-square/v4"
	"github.com/celestiaorg/go-square/v4/inclusion"
	libshare "github.com/celestiaorg/go-square/v4/share"
	"github.com/celestiaorg/go-square/v4/tx"
	"github.com/celestiaorg/rsmt2d"

	"github.com/celestiaorg/celestia-node/header"
	"github.com/celestiaorg/celestia-node/share/eds"
	"github.com/celestiaorg/celestia-node/share/shwap"
)

// BlobRec is one blob of the construction record.
type BlobRec struct {
	NS           libshare.Namespace
	Data         []byte
	Signer       []byte // nil for share version 0
	ShareVersion uint8
	// Commitment is computed here with go-square's inclusion.CreateCommitment over the blob as it
	// was handed to the builder (never taken from the code under test).
	Commitment []byte
	// Start is the row-major ODS index of the blob's first share, as reported by the builder
	// (Builder.FindBlobStartingIndex); Len is the number of shares (Builder.BlobShareLength).
	Start, Len int
	// Tx is the index of the carrying transaction in Block.Txs, Idx the blob's index inside it.
	Tx, Idx int
	// Lib is the go-square blob that was given to the builder.
	Lib *libshare.Blob
}

// EDSIndex converts the ODS start index into the row-major index over the extended square of
// width 2w (the convention blob.Blob.Index() uses).
func (b *BlobRec) EDSIndex(w int) int { return (b.Start/w)*2*w + b.Start%w }

// Key identifies blob content (namespace, version, signer, data): byte-identical twins share it.
func (b *BlobRec) Key() string {
	return fmt.Sprintf("%x|%d|%x|%x", b.NS.Bytes(), b.ShareVersion, b.Signer, b.Data)
}

// Block is a generated block and its construction record.
type Block struct {
	Height  uint64
	Profile string
	W       int      // ODS width
	Txs     [][]byte // exactly the tx list given to the builder: ordinary txs, then BlobTxs
	NormalN int      // number of ordinary txs (Txs[:NormalN])
	EDS     *rsmt2d.ExtendedDataSquare
	Sq      *Square // share-level reference model of the same square (ODS, Roots, Runs, ...)
	Header  *header.ExtendedHeader
	Blobs   []*BlobRec // block order: ascending Start
}

// Roots are the axis roots the header commits to.
func (b *Block) Roots() *da.DataAvailabilityHeader { return b.Sq.Roots }

// DataRoot is the data hash of the block.
func (b *Block) DataRoot() []byte { return b.Sq.Roots.Hash() }

// Desc is a short description for evidence samples.
func (b *Block) Desc() string {
	return fmt.Sprintf("h=%d profile=%s w=%d txs=%d+%d blobs=%d ns=%d", b.Height, b.Profile, b.W, b.NormalN, len(b.Txs)-b.NormalN, len(b.Blobs), len(b.Namespaces()))
}

// Namespaces returns the distinct blob namespaces of the block in ascending (= block) order.
func (b *Block) Namespaces() []libshare.Namespace {
	var out []libshare.Namespace
	for _, bl := range b.Blobs {
		if n := len(out); n == 0 || !out[n-1].Equals(bl.NS) {
			out = append(out, bl.NS)
		}
	}
	return out
}

// BlobsOf returns the record of one namespace in block order (empty for an absent namespace).
func (b *Block) BlobsOf(ns libshare.Namespace) []*BlobRec {
	var out []*BlobRec
	for _, bl := range b.Blobs {
		if bl.NS.Equals(ns) {
			out = append(out, bl)
		}
	}
	return out
}

// HasNamespace reports whether a blob of ns is in the block.
func (b *Block) HasNamespace(ns libshare.Namespace) bool { return len(b.BlobsOf(ns)) > 0 }

// AbsentBlobNamespaces returns blob-capable (version 0, non-reserved) namespaces that are not in
// the block: just below the first, between neighbours (+1 / -1 of present ones, so that some
// row's namespace range covers them and an absence proof is produced), above the last, and a
// far-away random one.
func (b *Block) AbsentBlobNamespaces(r *RNG) []libshare.Namespace {
	present := b.Namespaces()
	has := func(ns libshare.Namespace) bool {
		for _, p := range present {
			if p.Equals(ns) {
				return true
			}
		}
		return false
	}
	var out []libshare.Namespace
	add := func(ns libshare.Namespace, err error) {
		if err != nil || has(ns) || ns.ValidateForBlob() != nil {
			return
		}
		for _, o := range out {
			if o.Equals(ns) {
				return
			}
		}
		out = append(out, ns)
	}
	for _, p := range present {
		add(p.AddInt(1))
		add(p.AddInt(-1))
	}
	if len(present) > 0 {
		add(present[len(present)-1].AddInt(1 << 20))
	}
	add(MkNamespace(uint64(r.Range(1<<40, 1<<41))), nil)
	add(MkNamespace(uint64(r.Range(300, 900))), nil) // below every generated namespace
	return out
}

// BlockOpts steers GenBlock. The zero value picks a random profile.
type BlockOpts struct {
	Height uint64
	// Profile: "" (random) or one of BlockProfiles.
	Profile string
	// MaxShares bounds the approximate number of blob shares (default 700 ⇒ ODS width ≤ 32).
	MaxShares int
}

// BlockProfiles understood by GenBlock.
//
//	tiny     1–3 small blobs, few or no ordinary txs (widths 2–4)
//	mixed    2–12 namespaces, 1–8 blob txs with 1–4 blobs each, boundary sizes, v0 and v1
//	samens   1–2 namespaces, many adjacent blobs of one namespace, twins
//	big      blobs above the subtree-root threshold (65–400 shares) mixed with small ones:
//	         alignment padding between blobs, blobs spanning several rows
//	rows     blob sizes that are exact multiples of the likely row width (end at row boundaries)
//	txheavy  many/large ordinary txs so that reserved namespaces fill the first rows
//	onlytx   no blobs at all (every namespace is absent)
var BlockProfiles = []string{"tiny", "mixed", "samens", "big", "rows", "txheavy", "mixed", "samens", "big", "mixed", "samens", "big", "onlytx"}

// sparse share payload capacities
const (
	firstV0 = libshare.FirstSparseShareContentSize
	firstV1 = libshare.FirstSparseShareContentSizeWithSigner
	contSz  = libshare.ContinuationSparseShareContentSize
)

// BlobDataLen returns the data length that makes a blob of the given share version occupy
// exactly `shares` shares, minus `slack` bytes (slack 0 = completely full last share).
func BlobDataLen(version uint8, shares, slack int) int {
	first := firstV0
	if version == libshare.ShareVersionOne {
		first = firstV1
	}
	n := first + (shares-1)*contSz - slack
	if n < 1 {
		n = 1
	}
	return n
}

func genBlobSize(r *RNG, version uint8, maxShares int) int {
	if maxShares < 1 {
		maxShares = 1
	}
	switch r.Intn(10) {
	case 0:
		return 1
	case 1:
		return r.Range(2, 40)
	case 2: // one share, minus one / exact / plus one
		return BlobDataLen(version, 1, 0) + r.Range(-1, 1)
	case 3: // two shares boundary
		return BlobDataLen(version, 2, 0) + r.Range(-1, 1)
	case 4, 5: // k shares boundary
		k := r.Range(1, min(maxShares, 12))
		return max(1, BlobDataLen(version, k, 0)+r.Range(-1, 1))
	case 6: // power-of-two share counts and their neighbours (row widths)
		k := 1 << uint(r.Range(0, 6))
		k = min(k+r.Range(-1, 1), maxShares)
		return BlobDataLen(version, max(k, 1), r.Intn(3))
	default:
		k := r.Range(1, maxShares)
		return BlobDataLen(version, k, r.Intn(contSz))
	}
}

func genBlobData(r *RNG, n int) []byte {
	switch r.Intn(12) {
	case 0: // all zero: looks like padding payload
		return make([]byte, n)
	case 1: // starts like a share of its own: namespace-looking prefix + info byte + length
		d := r.Bytes(n)
		pre := append(append([]byte{0}, make([]byte, 18)...), r.Bytes(10)...)
		pre = append(pre, 1, 0, 0, 0, 0)
		copy(d, pre)
		return d
	case 2: // zero prefix, random rest
		d := r.Bytes(n)
		for i := 0; i < len(d) && i < 40; i++ {
			d[i] = 0
		}
		return d
	default:
		return r.Bytes(n)
	}
}

// GenBlob makes one blob (share version 0, or 1 with a 20-byte signer).
func GenBlob(r *RNG, ns libshare.Namespace, version uint8, dataLen int) *libshare.Blob {
	var signer []byte
	if version == libshare.ShareVersionOne {
		signer = r.Bytes(libshare.SignerSize)
	}
	b, err := libshare.NewBlob(ns, genBlobData(r, dataLen), version, signer)
	if err != nil {
		panic(err)
	}
	return b
}

func cloneBlob(b *libshare.Blob) *libshare.Blob {
	var signer []byte
	if b.Signer() != nil {
		signer = append([]byte(nil), b.Signer()...)
	}
	c, err := libshare.NewBlob(b.Namespace(), append([]byte(nil), b.Data()...), b.ShareVersion(), signer)
	if err != nil {
		panic(err)
	}
	return c
}

// GenOrdinaryTx returns opaque bytes that the builder classifies as an ordinary transaction.
func GenOrdinaryTx(r *RNG, n int) []byte {
	for {
		b := r.Bytes(max(n, 1))
		if _, isBlob, _ := tx.UnmarshalBlobTx(b); isBlob {
			continue
		}
		if ft, err := tx.TryParseFibreTx(b); ft != nil || err != nil {
			continue
		}
		return b
	}
}

// GenBlock generates a block of the requested (or a random) profile.
func GenBlock(r *RNG, o BlockOpts) *Block {
	prof := o.Profile
	if prof == "" {
		prof = Pick(r, BlockProfiles)
	}
	budget := o.MaxShares
	if budget <= 0 {
		budget = 700
	}
	nsBase := uint64(r.Range(1000, 1<<30))
	mkNS := func(i int) libshare.Namespace { return MkNamespace(nsBase + uint64(i)*uint64(r.Range(1, 3))) }

	var (
		nNS, nTx, maxPerTx, maxBlobShares int
		nNormal                           int
		normalMax                         = 600
		v1Chance                          = 3 // of 10
		twinChance                        = 2 // of 10
	)
	switch prof {
	case "tiny":
		nNS, nTx, maxPerTx, maxBlobShares, nNormal = r.Range(1, 2), r.Range(1, 2), 2, 3, r.Intn(2)
	case "samens":
		nNS, nTx, maxPerTx, maxBlobShares, nNormal = r.Range(1, 2), r.Range(1, 8), 5, 20, r.Intn(3)
		twinChance = 4
	case "big":
		nNS, nTx, maxPerTx, maxBlobShares, nNormal = r.Range(1, 5), r.Range(1, 5), 3, 400, r.Intn(4)
	case "rows":
		nNS, nTx, maxPerTx, maxBlobShares, nNormal = r.Range(1, 6), r.Range(1, 6), 3, 64, r.Intn(3)
	case "txheavy":
		nNS, nTx, maxPerTx, maxBlobShares, nNormal = r.Range(1, 6), r.Range(1, 5), 3, 16, r.Range(3, 14)
		normalMax = 4000
	case "onlytx":
		nNS, nTx, nNormal = 0, 0, r.Range(1, 5)
	default:
		prof = "mixed"
		nNS, nTx, maxPerTx, maxBlobShares, nNormal = r.Range(2, 12), r.Range(1, 8), 4, 40, r.Intn(5)
	}
	nss := make([]libshare.Namespace, 0, nNS)
	seen := map[string]bool{}
	for i := 0; len(nss) < nNS; i++ {
		ns := mkNS(i)
		if !seen[string(ns.Bytes())] {
			seen[string(ns.Bytes())] = true
			nss = append(nss, ns)
		}
	}

	var normal [][]byte
	for i := 0; i < nNormal; i++ {
		normal = append(normal, GenOrdinaryTx(r, r.Range(20, normalMax)))
	}

	used := 0
	var all []*libshare.Blob
	var blobTxs [][]*libshare.Blob
	for t := 0; t < nTx && used < budget; t++ {
		k := r.Range(1, maxPerTx)
		var blobs []*libshare.Blob
		for j := 0; j < k && used < budget; j++ {
			// byte-identical twin of an earlier blob (same or different tx)
			if len(all) > 0 && r.Chance(twinChance, 10) {
				src := Pick(r, all)
				if j > 0 && r.Bool() {
					src = blobs[r.Intn(len(blobs))] // same tx
				}
				c := cloneBlob(src)
				blobs = append(blobs, c)
				used += libshare.SparseSharesNeeded(uint32(len(c.Data())), c.HasSigner())
				continue
			}
			ns := Pick(r, nss)
			if j > 0 && r.Chance(4, 10) { // adjacent blobs of one namespace
				ns = blobs[j-1].Namespace()
			}
			ver := libshare.ShareVersionZero
			if r.Chance(v1Chance, 10) {
				ver = libshare.ShareVersionOne
			}
			lim := min(maxBlobShares, budget-used)
			var n int
			switch prof {
			case "big":
				if r.Chance(6, 10) && lim > 65 {
					n = BlobDataLen(ver, r.Range(65, lim), r.Intn(contSz))
				} else {
					n = genBlobSize(r, ver, min(lim, 12))
				}
			case "rows":
				w := 1 << uint(r.Range(1, 4))
				n = BlobDataLen(ver, min(w*r.Range(1, 3), max(lim, 1)), r.Intn(2))
			default:
				n = genBlobSize(r, ver, lim)
			}
			b := GenBlob(r, ns, ver, n)
			blobs = append(blobs, b)
			all = append(all, b)
			used += libshare.SparseSharesNeeded(uint32(len(b.Data())), b.HasSigner())
		}
		if len(blobs) > 0 {
			blobTxs = append(blobTxs, blobs)
		}
	}
	blk := BuildBlock(o.Height, normal, blobTxs, r.Split("inner"))
	blk.Profile = prof
	return blk
}

// BuildBlock builds the block with exactly the given content: ordinary txs first, then one
// BlobTx per entry of blobTxs (inner tx bytes are opaque to the layout rules; r, which may be
// nil, fills them). It panics on builder errors: a generator bug, never a finding.
func BuildBlock(height uint64, normal [][]byte, blobTxs [][]*libshare.Blob, r *RNG) *Block {
	if r == nil {
		r = NewRNG(height, "BuildBlock")
	}
	txs := make([][]byte, 0, len(normal)+len(blobTxs))
	txs = append(txs, normal...)
	for _, blobs := range blobTxs {
		inner := r.Bytes(r.Range(60, 400))
		raw, err := tx.MarshalBlobTx(inner, blobs...)
		if err != nil {
			panic(fmt.Sprintf("vkit.BuildBlock: MarshalBlobTx: %v", err))
		}
		txs = append(txs, raw)
	}
	builder, err := square.NewBuilder(appconsts.SquareSizeUpperBound, appconsts.SubtreeRootThreshold, txs...)
	if err != nil {
		panic(fmt.Sprintf("vkit.BuildBlock: NewBuilder: %v", err))
	}
	sq, err := builder.Export()
	if err != nil {
		panic(fmt.Sprintf("vkit.BuildBlock: Export: %v", err))
	}
	w, err := sq.Size()
	if err != nil {
		panic(err)
	}
	// the path the node itself takes for a block (core/listener.go, core/exchange.go)
	e, err := da.ConstructEDS(txs, appconsts.Version, -1)
	if err != nil {
		panic(fmt.Sprintf("vkit.BuildBlock: ConstructEDS: %v", err))
	}
	ods := make([]libshare.Share, len(sq))
	copy(ods, sq)
	ref := BuildSquare(ods, w, "real")
	if !bytes.Equal(flat(e.FlattenedODS()), flat(ref.EDS.FlattenedODS())) || int(e.Width()) != 2*w {
		panic("vkit.BuildBlock: da.ConstructEDS and square.Builder disagree")
	}
	blk := &Block{Height: height, Profile: "explicit", W: w, Txs: txs, NormalN: len(normal), EDS: e, Sq: ref}

	for ti, blobs := range blobTxs {
		for bi, lb := range blobs {
			txIdx := len(normal) + ti
			start, err := builder.FindBlobStartingIndex(txIdx, bi)
			if err != nil {
				panic(fmt.Sprintf("vkit.BuildBlock: FindBlobStartingIndex(%d,%d): %v", txIdx, bi, err))
			}
			n, err := builder.BlobShareLength(txIdx, bi)
			if err != nil {
				panic(fmt.Sprintf("vkit.BuildBlock: BlobShareLength(%d,%d): %v", txIdx, bi, err))
			}
			com, err := inclusion.CreateCommitment(lb, merkle.HashFromByteSlices, appconsts.SubtreeRootThreshold)
			if err != nil {
				panic(fmt.Sprintf("vkit.BuildBlock: CreateCommitment: %v", err))
			}
			rec := &BlobRec{
				NS: lb.Namespace(), Data: lb.Data(), Signer: lb.Signer(), ShareVersion: lb.ShareVersion(),
				Commitment: com, Start: start, Len: n, Tx: txIdx, Idx: bi, Lib: lb,
			}
			// generator self-check against the share-level model: the blob's shares sit at
			// [start, start+n) of the ODS, the first one opening a sequence of len(data).
			if start+n > len(ods) || !ods[start].Namespace().Equals(rec.NS) || !ods[start].IsSequenceStart() ||
				int(ods[start].SequenceLen()) != len(rec.Data) || ods[start].Version() != rec.ShareVersion {
				panic(fmt.Sprintf("vkit.BuildBlock: builder index %d does not hold blob (%d,%d)", start, txIdx, bi))
			}
			blk.Blobs = append(blk.Blobs, rec)
		}
	}
	sort.SliceStable(blk.Blobs, func(i, j int) bool { return blk.Blobs[i].Start < blk.Blobs[j].Start })
	for i := 1; i < len(blk.Blobs); i++ {
		if a, b := blk.Blobs[i-1], blk.Blobs[i]; a.Start+a.Len > b.Start || b.NS.IsLessThan(a.NS) {
			panic("vkit.BuildBlock: record overlaps or is not namespace-ordered")
		}
	}
	blk.Header = MakeHeader(height, ref)
	return blk
}

// MakeHeader returns a minimal ExtendedHeader (height, data hash, DAH, deterministic time and
// chain id) for a square. It carries no commit / validator set: enough for everything that
// reads blocks, not for header verification.
func MakeHeader(height uint64, sq *Square) *header.ExtendedHeader {
	eh := &header.ExtendedHeader{DAH: sq.Roots}
	eh.RawHeader.ChainID = "verif"
	eh.RawHeader.Height = int64(height)
	eh.RawHeader.Time = time.Unix(1_700_000_000+int64(height)*6, 0).UTC()
	eh.RawHeader.DataHash = sq.Roots.Hash()
	eh.RawHeader.Version.App = appconsts.Version
	var h [8]byte
	binary.BigEndian.PutUint64(h[:], height)
	eh.RawHeader.ProposerAddress = append(make([]byte, 12), h[:]...)
	return eh
}

// ---------------------------------------------------------------------------------------------

// MemGetter is a shwap.Getter that answers straight from in-memory squares by height (the
// "in-memory accessor" getter). Unknown heights yield shwap.ErrNotFound.
type MemGetter struct {
	byHeight map[uint64]*Block
}

var _ shwap.Getter = (*MemGetter)(nil)

// NewMemGetter serves the given blocks.
func NewMemGetter(blocks ...*Block) *MemGetter {
	g := &MemGetter{byHeight: map[uint64]*Block{}}
	for _, b := range blocks {
		g.byHeight[b.Height] = b
	}
	return g
}

func (g *MemGetter) acc(h *header.ExtendedHeader) (*eds.Rsmt2D, error) {
	b, ok := g.byHeight[h.Height()]
	if !ok || !bytes.Equal(b.DataRoot(), h.DAH.Hash()) {
		return nil, shwap.ErrNotFound
	}
	return &eds.Rsmt2D{ExtendedDataSquare: b.EDS}, nil
}

func (g *MemGetter) GetSamples(ctx context.Context, h *header.ExtendedHeader, idx []shwap.SampleCoords) ([]shwap.Sample, error) {
	a, err := g.acc(h)
	if err != nil {
		return nil, err
	}
	out := make([]shwap.Sample, len(idx))
	for i, c := range idx {
		if out[i], err = a.Sample(ctx, c); err != nil {
			return nil, err
		}
	}
	return out, nil
}

func (g *MemGetter) GetEDS(_ context.Context, h *header.ExtendedHeader) (*rsmt2d.ExtendedDataSquare, error) {
	a, err := g.acc(h)
	if err != nil {
		return nil, err
	}
	return a.ExtendedDataSquare, nil
}

func (g *MemGetter) GetRow(ctx context.Context, h *header.ExtendedHeader, row int) (shwap.Row, error) {
	a, err := g.acc(h)
	if err != nil {
		return shwap.Row{}, err
	}
	half, err := a.AxisHalf(ctx, rsmt2d.Row, row)
	if err != nil {
		return shwap.Row{}, err
	}
	return half.ToRow(), nil
}

func (g *MemGetter) GetNamespaceData(ctx context.Context, h *header.ExtendedHeader, ns libshare.Namespace) (shwap.NamespaceData, error) {
	a, err := g.acc(h)
	if err != nil {
		return nil, err
	}
	return eds.NamespaceData(ctx, a, ns)
}

func (g *MemGetter) GetRangeNamespaceData(ctx context.Context, h *header.ExtendedHeader, from, to int) (shwap.RangeNamespaceData, error) {
	a, err := g.acc(h)
	if err != nil {
		return shwap.RangeNamespaceData{}, err
	}
	return a.RangeNamespaceData(ctx, from, to)
}
