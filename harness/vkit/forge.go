package vkit

import (
	"github.com/celestiaorg/celestia-app/v9/pkg/wrapper"
	libshare "github.com/celestiaorg/go-square/v4/share"
	"github.com/celestiaorg/nmt"
)

// ProofParts is an NMT proof opened up so that forgeries can be assembled from valid material.
type ProofParts struct {
	Start, End int
	Nodes      [][]byte
	LeafHash   []byte
	IgnoreMax  bool
}

// OpenProof splits a proof into its parts (deep copy).
func OpenProof(p *nmt.Proof) ProofParts {
	if p == nil {
		return ProofParts{}
	}
	pp := ProofParts{Start: p.Start(), End: p.End(), IgnoreMax: p.IsMaxNamespaceIDIgnored()}
	for _, n := range p.Nodes() {
		pp.Nodes = append(pp.Nodes, append([]byte(nil), n...))
	}
	if lh := p.LeafHash(); lh != nil {
		pp.LeafHash = append([]byte(nil), lh...)
	}
	return pp
}

// Build reassembles a proof.
func (pp ProofParts) Build() *nmt.Proof {
	var p nmt.Proof
	if pp.LeafHash != nil {
		p = nmt.NewAbsenceProof(pp.Start, pp.End, pp.Nodes, pp.LeafHash, pp.IgnoreMax)
	} else {
		p = nmt.NewInclusionProof(pp.Start, pp.End, pp.Nodes, pp.IgnoreMax)
	}
	return &p
}

// NamedProof is a forged proof with the name of the operator that made it.
type NamedProof struct {
	Op    string
	Proof *nmt.Proof
}

// ProofForgeries derives structurally plausible forgeries from an honest proof: node dropped,
// duplicated, reordered, replaced; Start/End widened, narrowed, shifted; flag flips.
func ProofForgeries(r *RNG, honest *nmt.Proof) []NamedProof {
	if honest == nil {
		return nil
	}
	var out []NamedProof
	add := func(op string, f func(pp *ProofParts) bool) {
		pp := OpenProof(honest)
		if f(&pp) {
			out = append(out, NamedProof{Op: op, Proof: pp.Build()})
		}
	}
	add("node-drop-first", func(pp *ProofParts) bool {
		if len(pp.Nodes) == 0 {
			return false
		}
		pp.Nodes = pp.Nodes[1:]
		return true
	})
	add("node-drop-last", func(pp *ProofParts) bool {
		if len(pp.Nodes) == 0 {
			return false
		}
		pp.Nodes = pp.Nodes[:len(pp.Nodes)-1]
		return true
	})
	add("node-dup", func(pp *ProofParts) bool {
		if len(pp.Nodes) == 0 {
			return false
		}
		i := r.Intn(len(pp.Nodes))
		pp.Nodes = append(pp.Nodes[:i+1], pp.Nodes[i:]...)
		return true
	})
	add("node-swap", func(pp *ProofParts) bool {
		if len(pp.Nodes) < 2 {
			return false
		}
		i := r.Intn(len(pp.Nodes) - 1)
		pp.Nodes[i], pp.Nodes[i+1] = pp.Nodes[i+1], pp.Nodes[i]
		return true
	})
	add("node-reverse", func(pp *ProofParts) bool {
		if len(pp.Nodes) < 2 {
			return false
		}
		for i, j := 0, len(pp.Nodes)-1; i < j; i, j = i+1, j-1 {
			pp.Nodes[i], pp.Nodes[j] = pp.Nodes[j], pp.Nodes[i]
		}
		return true
	})
	add("node-bitflip", func(pp *ProofParts) bool {
		if len(pp.Nodes) == 0 {
			return false
		}
		i := r.Intn(len(pp.Nodes))
		if len(pp.Nodes[i]) == 0 {
			return false
		}
		pp.Nodes[i][r.Intn(len(pp.Nodes[i]))] ^= 1 << uint(r.Intn(8))
		return true
	})
	add("node-append-copy", func(pp *ProofParts) bool {
		if len(pp.Nodes) == 0 {
			return false
		}
		pp.Nodes = append(pp.Nodes, pp.Nodes[len(pp.Nodes)-1])
		return true
	})
	add("nodes-nil", func(pp *ProofParts) bool {
		if len(pp.Nodes) == 0 {
			return false
		}
		pp.Nodes = nil
		return true
	})
	add("range-shift+1", func(pp *ProofParts) bool { pp.Start++; pp.End++; return true })
	add("range-shift-1", func(pp *ProofParts) bool {
		if pp.Start == 0 {
			return false
		}
		pp.Start--
		pp.End--
		return true
	})
	add("range-widen-end", func(pp *ProofParts) bool { pp.End++; return true })
	add("range-widen-start", func(pp *ProofParts) bool {
		if pp.Start == 0 {
			return false
		}
		pp.Start--
		return true
	})
	add("range-narrow-end", func(pp *ProofParts) bool {
		if pp.End-pp.Start < 2 {
			return false
		}
		pp.End--
		return true
	})
	add("range-narrow-start", func(pp *ProofParts) bool {
		if pp.End-pp.Start < 2 {
			return false
		}
		pp.Start++
		return true
	})
	add("range-empty", func(pp *ProofParts) bool { pp.End = pp.Start; return true })
	add("range-negative", func(pp *ProofParts) bool { pp.Start = -1; return true })
	add("range-inverted", func(pp *ProofParts) bool { pp.Start, pp.End = pp.End, pp.Start; return pp.Start != pp.End })
	add("range-huge", func(pp *ProofParts) bool { pp.End = 1 << 30; return true })
	add("flip-ignoremax", func(pp *ProofParts) bool { pp.IgnoreMax = !pp.IgnoreMax; return true })
	add("leafhash-add", func(pp *ProofParts) bool {
		if pp.LeafHash != nil || len(pp.Nodes) == 0 {
			return false
		}
		pp.LeafHash = append([]byte(nil), pp.Nodes[0]...)
		return true
	})
	add("leafhash-drop", func(pp *ProofParts) bool {
		if pp.LeafHash == nil {
			return false
		}
		pp.LeafHash = nil
		return true
	})
	add("leafhash-bitflip", func(pp *ProofParts) bool {
		if len(pp.LeafHash) == 0 {
			return false
		}
		pp.LeafHash[r.Intn(len(pp.LeafHash))] ^= 1 << uint(r.Intn(8))
		return true
	})
	return out
}

// RowTree builds the erasured NMT of an extended row (2w shares) of a square of ODS width w.
func RowTree(ext []libshare.Share, w, rowIdx int) *wrapper.ErasuredNamespacedMerkleTree {
	tree := wrapper.NewErasuredNamespacedMerkleTree(uint64(w), uint(rowIdx))
	for _, s := range ext {
		if err := tree.Push(s.ToBytes()); err != nil {
			panic(err)
		}
	}
	return &tree
}

// RangeProof is an honestly generated inclusion proof for leaves [from,to) of an extended axis.
func RangeProof(ext []libshare.Share, w, axisIdx, from, to int) *nmt.Proof {
	tree := RowTree(ext, w, axisIdx)
	p, err := tree.ProveRange(from, to)
	if err != nil {
		panic(err)
	}
	return &p
}

// MutateBytes returns a wire-level mutation of b and the operator name.
func MutateBytes(r *RNG, b []byte) ([]byte, string) {
	out := append([]byte(nil), b...)
	if len(out) == 0 {
		return []byte{byte(r.Intn(256))}, "insert-into-empty"
	}
	switch r.Intn(9) {
	case 0:
		i := r.Intn(len(out))
		out[i] ^= 1 << uint(r.Intn(8))
		return out, "bitflip"
	case 1:
		n := r.Intn(len(out))
		return out[:n], "truncate"
	case 2:
		i := r.Intn(len(out) + 1)
		ins := r.Bytes(r.Range(1, 4))
		out = append(out[:i], append(ins, out[i:]...)...)
		return out, "insert"
	case 3:
		i := r.Intn(len(out))
		n := min(r.Range(1, 4), len(out)-i)
		out = append(out[:i], out[i+n:]...)
		return out, "delete"
	case 4:
		i := r.Intn(len(out))
		out[i] = byte(r.Intn(256))
		return out, "setbyte"
	case 5:
		// early bytes carry protobuf tags / varint lengths
		i := r.Intn(min(len(out), 12))
		out[i] = byte(r.Intn(256))
		return out, "header-setbyte"
	case 6:
		return append(out, out...), "concat-self"
	case 7:
		i := r.Intn(len(out))
		out[i] = 0xff
		return out, "set-ff"
	default:
		i := r.Intn(len(out))
		j := r.Intn(len(out))
		out[i], out[j] = out[j], out[i]
		return out, "swap-bytes"
	}
}
