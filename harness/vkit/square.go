package vkit

import (
	"bytes"
	"encoding/binary"
	"fmt"

	"github.com/celestiaorg/celestia-app/v9/pkg/wrapper"
	libshare "github.com/celestiaorg/go-square/v4/share"
	"github.com/celestiaorg/rsmt2d"

	"github.com/celestiaorg/celestia-node/share"
)

// NsRun is a maximal run of ODS shares (row-major 1-D index) of one namespace.
type NsRun struct {
	NS    libshare.Namespace
	Start int
	Count int
}

// Square is a generated data square together with its reference model: the byte matrix, the
// roots the header commits to, and linear-scan answers to "which shares does namespace N have".
// The model is the single source of truth the monitors compare the real code against.
type Square struct {
	W      int // ODS width
	Layout string
	ODS    []libshare.Share // w*w, row-major
	EDS    *rsmt2d.ExtendedDataSquare
	Roots  *share.AxisRoots
	Runs   []NsRun // includes the tail-padding run, if any
	Tail   int     // number of tail padding shares
}

// Desc is a short description for evidence samples.
func (s *Square) Desc() string {
	return fmt.Sprintf("w=%d layout=%s runs=%d tail=%d", s.W, s.Layout, len(s.Runs), s.Tail)
}

// Cell returns the EDS cell (row, col) bytes.
func (s *Square) Cell(row, col int) []byte { return s.EDS.GetCell(uint(row), uint(col)) }

// RowBytes returns the full extended row.
func (s *Square) RowBytes(row int) [][]byte { return s.EDS.Row(uint(row)) }

// ColBytes returns the full extended column.
func (s *Square) ColBytes(col int) [][]byte { return s.EDS.Col(uint(col)) }

// OdsAt returns the ODS share at 1-D index.
func (s *Square) OdsAt(i int) libshare.Share { return s.ODS[i] }

// SharesOf returns all ODS shares of ns in block order (linear scan).
func (s *Square) SharesOf(ns libshare.Namespace) []libshare.Share {
	var out []libshare.Share
	for i := range s.ODS {
		if s.ODS[i].Namespace().Equals(ns) {
			out = append(out, s.ODS[i])
		}
	}
	return out
}

// RowSharesOf returns the shares of ns in ODS row r and the column of the first one.
func (s *Square) RowSharesOf(ns libshare.Namespace, r int) (out []libshare.Share, from int) {
	from = -1
	for c := 0; c < s.W; c++ {
		sh := s.ODS[r*s.W+c]
		if sh.Namespace().Equals(ns) {
			if from < 0 {
				from = c
			}
			out = append(out, sh)
		}
	}
	return out, from
}

// RowsCovering returns the ODS rows whose [first namespace, last namespace] interval covers ns
// (parity rows carry only the parity namespace and never cover a data namespace).
func (s *Square) RowsCovering(ns libshare.Namespace) []int {
	var rows []int
	for r := 0; r < s.W; r++ {
		lo := s.ODS[r*s.W].Namespace()
		hi := s.ODS[r*s.W+s.W-1].Namespace()
		if !ns.IsLessThan(lo) && ns.IsLessOrEqualThan(hi) {
			rows = append(rows, r)
		}
	}
	return rows
}

// Range returns ODS shares [from,to) by 1-D index.
func (s *Square) Range(from, to int) []libshare.Share { return s.ODS[from:to] }

// DistinctNamespaces returns the namespaces present in the ODS in order.
func (s *Square) DistinctNamespaces() []libshare.Namespace {
	out := make([]libshare.Namespace, 0, len(s.Runs))
	for _, r := range s.Runs {
		out = append(out, r.NS)
	}
	return out
}

// EqualShares reports byte equality of two share lists.
func EqualShares(a, b []libshare.Share) bool {
	if len(a) != len(b) {
		return false
	}
	for i := range a {
		if !bytes.Equal(a[i].ToBytes(), b[i].ToBytes()) {
			return false
		}
	}
	return true
}

// EqualBytes2 reports equality of two [][]byte.
func EqualBytes2(a, b [][]byte) bool {
	if len(a) != len(b) {
		return false
	}
	for i := range a {
		if !bytes.Equal(a[i], b[i]) {
			return false
		}
	}
	return true
}

// MkNamespace returns the v0 namespace whose 10-byte user id is the big-endian of v (v>0).
func MkNamespace(v uint64) libshare.Namespace {
	id := make([]byte, libshare.NamespaceVersionZeroIDSize)
	binary.BigEndian.PutUint64(id[len(id)-8:], v)
	ns, err := libshare.NewV0Namespace(id)
	if err != nil {
		panic(err)
	}
	return ns
}

// mkShare builds a sparse share of namespace ns with pseudo-random payload.
func mkShare(r *RNG, ns libshare.Namespace, seqStart bool) libshare.Share {
	b := make([]byte, 0, libshare.ShareSize)
	b = append(b, ns.Bytes()...)
	info := byte(0) // share version 0
	if seqStart {
		info |= 1
	}
	b = append(b, info)
	if seqStart {
		var l [4]byte
		binary.BigEndian.PutUint32(l[:], uint32(r.Range(1, 4000)))
		b = append(b, l[:]...)
	}
	b = append(b, r.Bytes(libshare.ShareSize-len(b))...)
	sh, err := libshare.NewShare(b)
	if err != nil {
		panic(err)
	}
	return sh
}

// Layouts understood by GenSquare.
var Layouts = []string{"runs", "rowfill", "single", "alldistinct", "reserved", "padded"}

// GenSquare builds an ODS of width w with the given namespace layout and exactly tail
// tail-padding shares (0 <= tail < w*w), extends and commits it.
//
//	runs        random sorted namespaces with random run lengths (runs may span rows)
//	rowfill     every namespace fills whole rows exactly / ends at row boundaries
//	single      one namespace fills the data part
//	alldistinct every share its own namespace
//	reserved    tx + PFB + primary-reserved-padding shares first, then runs
//	padded      runs with namespace-padding shares inside / between runs
func GenSquare(r *RNG, w int, layout string, tail int) *Square {
	total := w * w
	if tail < 0 {
		tail = 0
	}
	if tail >= total {
		tail = total - 1
	}
	data := total - tail
	shares := make([]libshare.Share, 0, total)
	nsCounter := uint64(r.Range(1000, 5000)) // ids <= 255 are primary-reserved namespaces
	nextNS := func() libshare.Namespace {
		nsCounter += uint64(r.Range(1, 50))
		return MkNamespace(nsCounter)
	}
	addRun := func(ns libshare.Namespace, n int, padEvery bool) {
		for i := 0; i < n && len(shares) < data; i++ {
			if padEvery && i > 0 && r.Chance(1, 4) {
				p, err := libshare.NamespacePaddingShare(ns, libshare.ShareVersionZero)
				if err != nil {
					panic(err)
				}
				shares = append(shares, p)
				continue
			}
			shares = append(shares, mkShare(r, ns, i == 0 || r.Chance(1, 5)))
		}
	}
	switch layout {
	case "single":
		addRun(nextNS(), data, false)
	case "alldistinct":
		for len(shares) < data {
			addRun(nextNS(), 1, false)
		}
	case "rowfill":
		for len(shares) < data {
			rows := r.Range(1, 2)
			n := rows*w - len(shares)%w
			addRun(nextNS(), n, false)
		}
	case "reserved":
		addRun(libshare.TxNamespace, r.Range(1, max(1, data/4)), false)
		if len(shares) < data {
			addRun(libshare.PayForBlobNamespace, r.Range(1, max(1, data/4)), false)
		}
		if len(shares) < data && r.Bool() {
			n := r.Range(1, max(1, w/2))
			for i := 0; i < n && len(shares) < data; i++ {
				shares = append(shares, libshare.ReservedPaddingShare())
			}
		}
		for len(shares) < data {
			addRun(nextNS(), r.Range(1, max(1, w+w/2)), false)
		}
	case "padded":
		for len(shares) < data {
			addRun(nextNS(), r.Range(1, max(2, w+1)), true)
		}
	default: // runs
		layout = "runs"
		for len(shares) < data {
			addRun(nextNS(), r.Range(1, max(1, 2*w)), false)
		}
	}
	shares = append(shares, libshare.TailPaddingShares(tail)...)
	return BuildSquare(shares, w, layout)
}

// BuildSquare extends and commits an explicit ODS share list.
func BuildSquare(ods []libshare.Share, w int, layout string) *Square {
	if len(ods) != w*w {
		panic(fmt.Sprintf("ods has %d shares for width %d", len(ods), w))
	}
	eds, err := rsmt2d.ComputeExtendedDataSquare(libshare.ToBytes(ods), share.DefaultRSMT2DCodec(), wrapper.NewConstructor(uint64(w)))
	if err != nil {
		panic(err)
	}
	roots, err := share.NewAxisRoots(eds)
	if err != nil {
		panic(err)
	}
	sq := &Square{W: w, Layout: layout, ODS: ods, EDS: eds, Roots: roots}
	for i := 0; i < len(ods); i++ {
		ns := ods[i].Namespace()
		if n := len(sq.Runs); n > 0 && sq.Runs[n-1].NS.Equals(ns) {
			sq.Runs[n-1].Count++
			continue
		}
		sq.Runs = append(sq.Runs, NsRun{NS: ns, Start: i, Count: 1})
	}
	if n := len(sq.Runs); n > 0 && sq.Runs[n-1].NS.Equals(libshare.TailPaddingNamespace) {
		sq.Tail = sq.Runs[n-1].Count
	}
	return sq
}

// Twin returns a square with the same layout (same namespaces at the same positions) but
// different payload bytes: material for cross-square substitution forgeries.
func (s *Square) Twin(r *RNG) *Square {
	ods := make([]libshare.Share, len(s.ODS))
	for i, sh := range s.ODS {
		ns := sh.Namespace()
		if ns.Equals(libshare.TailPaddingNamespace) || ns.Equals(libshare.PrimaryReservedPaddingNamespace) {
			ods[i] = sh
			continue
		}
		ods[i] = mkShare(r, ns, sh.IsSequenceStart())
	}
	return BuildSquare(ods, s.W, s.Layout+"/twin")
}

// EmptySquare is the canonical empty block.
func EmptySquare() *Square {
	eds := share.EmptyEDS()
	w := int(eds.Width()) / 2
	ods := make([]libshare.Share, 0, w*w)
	for r := 0; r < w; r++ {
		for c := 0; c < w; c++ {
			sh, err := libshare.NewShare(eds.GetCell(uint(r), uint(c)))
			if err != nil {
				panic(err)
			}
			ods = append(ods, sh)
		}
	}
	return BuildSquare(ods, w, "empty")
}

// ExtRowShares returns the extended row as shares.
func (s *Square) ExtRowShares(row int) []libshare.Share {
	shs, err := libshare.FromBytes(s.EDS.Row(uint(row)))
	if err != nil {
		panic(err)
	}
	return shs
}

// ExtColShares returns the extended column as shares.
func (s *Square) ExtColShares(col int) []libshare.Share {
	shs, err := libshare.FromBytes(s.EDS.Col(uint(col)))
	if err != nil {
		panic(err)
	}
	return shs
}

// AbsentNamespaces returns namespaces not present in the square, classified:
// "inside": strictly between two present namespaces (some row's range may cover it),
// "below": below the first namespace, "above": above the last data namespace.
func (s *Square) AbsentNamespaces() map[string][]libshare.Namespace {
	out := map[string][]libshare.Namespace{}
	present := s.DistinctNamespaces()
	has := func(ns libshare.Namespace) bool {
		for _, p := range present {
			if p.Equals(ns) {
				return true
			}
		}
		return false
	}
	for i := 0; i+1 < len(present); i++ {
		if !present[i].IsUsableNamespace() && !present[i].IsTx() && !present[i].IsPayForBlob() && !present[i].IsPrimaryReservedPadding() {
			continue
		}
		c, err := present[i].AddInt(1)
		if err == nil && !has(c) && c.IsLessThan(present[i+1]) && c.ValidateForData() == nil {
			out["inside"] = append(out["inside"], c)
		}
	}
	if len(present) > 0 {
		first := present[0]
		if first.IsUsableNamespace() {
			c, err := first.AddInt(-1)
			if err == nil && c.ValidateForData() == nil && !has(c) {
				out["below"] = append(out["below"], c)
			}
		}
		// above the last non-tail namespace
		last := present[len(present)-1]
		if last.IsTailPadding() && len(present) > 1 {
			last = present[len(present)-2]
		}
		if last.IsUsableNamespace() {
			c, err := last.AddInt(1000)
			if err == nil && c.ValidateForData() == nil && !has(c) {
				out["above"] = append(out["above"], c)
			}
		}
	}
	return out
}
