// Package vkit is the shared kit of the runtime monitors: deterministic PRNG, evidence /
// verdict bookkeeping, generated squares with their reference model.
package vkit

import (
	"hash/fnv"
	"math/rand/v2"
	"os"
	"strconv"
)

// RNG is a splittable deterministic PRNG. Every random choice of a check derives from
// VERIF_SEED through it, so a (seed, tier) pair fixes the whole case list.
type RNG struct {
	*rand.Rand
	seed uint64
}

func mix(seed uint64, label string) uint64 {
	h := fnv.New64a()
	var b [8]byte
	for i := range b {
		b[i] = byte(seed >> (8 * i))
	}
	h.Write(b[:])
	h.Write([]byte(label))
	x := h.Sum64()
	// splitmix64 finalizer
	x ^= x >> 30
	x *= 0xbf58476d1ce4e5b9
	x ^= x >> 27
	x *= 0x94d049bb133111eb
	x ^= x >> 31
	return x
}

// NewRNG derives a generator from a seed and a label.
func NewRNG(seed uint64, label string) *RNG {
	s := mix(seed, label)
	return &RNG{Rand: rand.New(rand.NewPCG(s, mix(s, "stream"))), seed: s}
}

// Split derives an independent child generator; it does not advance the parent.
func (r *RNG) Split(label string) *RNG { return NewRNG(r.seed, label) }

// SplitN derives an independent child generator for an index.
func (r *RNG) SplitN(label string, n int) *RNG { return NewRNG(r.seed, label+"#"+strconv.Itoa(n)) }

// Intn returns a value in [0,n); n<=0 yields 0.
func (r *RNG) Intn(n int) int {
	if n <= 0 {
		return 0
	}
	return r.IntN(n)
}

// Range returns a value in [lo,hi].
func (r *RNG) Range(lo, hi int) int {
	if hi <= lo {
		return lo
	}
	return lo + r.IntN(hi-lo+1)
}

// Bool returns true with probability 1/2.
func (r *RNG) Bool() bool { return r.IntN(2) == 0 }

// Chance returns true with probability num/den.
func (r *RNG) Chance(num, den int) bool { return r.IntN(den) < num }

// Bytes returns n pseudo-random bytes.
func (r *RNG) Bytes(n int) []byte {
	b := make([]byte, n)
	i := 0
	for ; i+8 <= n; i += 8 {
		v := r.Uint64()
		for j := 0; j < 8; j++ {
			b[i+j] = byte(v >> (8 * j))
		}
	}
	if i < n {
		v := r.Uint64()
		for ; i < n; i++ {
			b[i] = byte(v)
			v >>= 8
		}
	}
	return b
}

// Pick returns a random element index of a collection of length n.
func Pick[T any](r *RNG, xs []T) T { return xs[r.Intn(len(xs))] }

// Seed is VERIF_SEED (default 1).
func Seed() uint64 {
	if s := os.Getenv("VERIF_SEED"); s != "" {
		if v, err := strconv.ParseUint(s, 10, 64); err == nil {
			return v
		}
		if v, err := strconv.ParseInt(s, 10, 64); err == nil {
			return uint64(v)
		}
	}
	return 1
}

// Tier is "quick" or "thorough" (VERIF_TIER, default quick).
func Tier() string {
	if os.Getenv("VERIF_TIER") == "thorough" {
		return "thorough"
	}
	return "quick"
}

// Thorough reports whether the thorough tier is selected.
func Thorough() bool { return Tier() == "thorough" }

// Scale picks the case count for the tier.
func Scale(quick, thorough int) int {
	if Thorough() {
		return thorough
	}
	return quick
}
