package checks

import (
	"bytes"
	"context"
	"errors"
	"fmt"
	"io"
	"os"
	"path/filepath"
	"runtime"
	"sort"
	"strings"
	"sync"
	"sync/atomic"
	"testing"
	"time"

	"github.com/anishathalye/porcupine"
	libshare "github.com/celestiaorg/go-square/v4/share"
	"github.com/celestiaorg/rsmt2d"

	"github.com/celestiaorg/celestia-node/libs/verifhook"
	"github.com/celestiaorg/celestia-node/share/eds"
	"github.com/celestiaorg/celestia-node/share/shwap"
	"github.com/celestiaorg/celestia-node/store"
	"github.com/celestiaorg/celestia-node/zz_verif/vkit"
)

// C08 — concurrent store use is safe: no torn reads, no deadlock, no use-after-close.
//
// Workload: goroutines issue PRNG-determined Put(ODS|ODSQ4) / GetByHeight(+reads, optionally
// holding the accessor) / HasByHeight / GetByHash / RemoveODSQ4 / RemoveQ4 / cached GetByHeight over
// a few heights that collide on lock stripes and cache slots; verifhook markers yield at the real
// suspension points. Every height has one fixed square, so "the right bytes" is decidable.
// Oracles: (1) every read through every accessor == reference (an error on a held accessor is a
// violation: nothing in the workload legitimately invalidates it); (2) all operations return
// (stable-state hang oracle); (3) porcupine per height over the mutators + observations taken after
// quiescence against the model {absent, ods, ods+q4}; (4) no fd into the store directory after all
// accessors are closed and all heights removed; (5) race reports in store packages (driver).

type c08event struct {
	g, idx   int
	kind     string
	h        int // height index
	call     int64
	ret      int64
	err      string
	has      bool
	hasQ4    bool
	notFound bool
}

type c08hist struct {
	id       int
	dir      string
	s        *store.Store
	cs       *store.CachedStore
	heights  []uint64
	squares  []*vkit.Square
	clock    *atomic.Int64
	mu       sync.Mutex
	events   []c08event
	retOrder []string
	run      *vkit.Run
	desc     string
}

var c08yieldCtr atomic.Uint64
var c08yieldSeed atomic.Uint64

// c08hook yields / sleeps pseudo-randomly at store markers to widen interleavings.
func c08hook() *verifhook.Handler {
	return &verifhook.Handler{Point: func(name string, _ any) {
		n := c08yieldCtr.Add(1)
		x := (n + c08yieldSeed.Load()) * 0x9e3779b97f4a7c15
		x ^= x >> 29
		if name == "ods.readods.before-lock" || name == "odsq4.before-open-q4" || name == "cache.remove.before-close" {
			// rare windows between a check and the action that depends on it: always widen them
			runtime.Gosched()
			if x%2 == 0 {
				time.Sleep(100 * time.Microsecond)
			}
			return
		}
		switch x % 16 {
		case 0, 1, 2, 3:
			runtime.Gosched()
		case 4:
			time.Sleep(20 * time.Microsecond)
		case 5:
			if strings.HasPrefix(name, "store.") || strings.HasPrefix(name, "cache.") || strings.HasPrefix(name, "odsq4.") {
				time.Sleep(200 * time.Microsecond)
			}
		}
	}}
}

func (hst *c08hist) record(ev c08event) {
	hst.mu.Lock()
	hst.events = append(hst.events, ev)
	hst.retOrder = append(hst.retOrder, fmt.Sprintf("%d.%d", ev.g, ev.idx))
	hst.mu.Unlock()
}

// c08read performs one random read through acc and compares with the reference square.
func c08read(ctx context.Context, r *vkit.RNG, acc eds.AccessorStreamer, sq *vkit.Square) (kind, problem string) {
	n := 2 * sq.W
	switch r.Intn(8) {
	case 0, 1, 2:
		row, col := r.Intn(n), r.Intn(n)
		kind = "Sample"
		s, err := acc.Sample(ctx, shwap.SampleCoords{Row: row, Col: col})
		if err != nil {
			return kind, "error: " + err.Error()
		}
		if !bytes.Equal(s.ToBytes(), sq.Cell(row, col)) {
			return kind, fmt.Sprintf("(%d,%d) share differs", row, col)
		}
		if err := s.Verify(sq.Roots, row, col); err != nil {
			return kind, fmt.Sprintf("(%d,%d) does not verify: %v", row, col, err)
		}
	case 3, 4:
		ax := rsmt2d.Axis(r.Intn(2))
		i := r.Intn(n)
		kind = "AxisHalf"
		h, err := acc.AxisHalf(ctx, ax, i)
		if err != nil {
			return kind, "error: " + err.Error()
		}
		ext, err := h.Extended()
		if err != nil {
			return kind, "extend error: " + err.Error()
		}
		want := sq.ExtRowShares(i)
		if ax == rsmt2d.Col {
			want = sq.ExtColShares(i)
		}
		if !vkit.EqualShares(ext, want) {
			return kind, fmt.Sprintf("axis=%d idx=%d parity=%v differs", ax, i, h.IsParity)
		}
	case 5:
		kind = "Shares"
		sh, err := acc.Shares(ctx)
		if err != nil {
			return kind, "error: " + err.Error()
		}
		if !vkit.EqualShares(sh, sq.ODS) {
			return kind, "differs"
		}
	case 6:
		kind = "RowNamespaceData"
		row := r.Intn(sq.W)
		ns := sq.ODS[row*sq.W+r.Intn(sq.W)].Namespace()
		if ns.ValidateForData() != nil {
			return kind, ""
		}
		rnd, err := acc.RowNamespaceData(ctx, ns, row)
		if err != nil {
			return kind, "error: " + err.Error()
		}
		want, _ := sq.RowSharesOf(ns, row)
		if !vkit.EqualShares(rnd.Shares, want) {
			return kind, "differs"
		}
		if err := rnd.Verify(sq.Roots, ns, row); err != nil {
			return kind, "does not verify: " + err.Error()
		}
	default:
		kind = "Reader"
		rd, err := acc.Reader()
		if err != nil {
			return kind, "error: " + err.Error()
		}
		got, err := io.ReadAll(rd)
		if err != nil {
			return kind, "read error: " + err.Error()
		}
		var ref []byte
		for _, s := range sq.ODS {
			ref = append(ref, s.ToBytes()...)
		}
		dataLen := (len(sq.ODS) - sq.Tail) * libshare.ShareSize
		if len(got) > len(ref) || len(got) < dataLen || !bytes.Equal(got, ref[:len(got)]) {
			return kind, fmt.Sprintf("stream of %d bytes is not the ODS", len(got))
		}
	}
	return kind, ""
}

func c08errClass(p string) string {
	switch {
	case strings.Contains(p, "file already closed") || strings.Contains(p, "closed"):
		return "error(use-after-close)"
	case strings.HasPrefix(p, "error") || strings.Contains(p, "error:"):
		return "error"
	case strings.Contains(p, "verify"):
		return "unverifiable data"
	default:
		return "wrong bytes"
	}
}

func (hst *c08hist) useAccessor(ctx context.Context, r *vkit.RNG, acc eds.AccessorStreamer, hi int, via string, reads int, hold bool) {
	sq := hst.squares[hi]
	for k := 0; k < reads; k++ {
		kind, prob := c08read(ctx, r, acc, sq)
		hst.run.Count("reads/"+kind, 1)
		hst.run.Count("reads_verified", 1)
		if prob != "" {
			hst.run.Violation(fmt.Sprintf("C08 accessor from %s: %s returned %s", via, kind, c08errClass(prob)), map[string]any{
				"history": hst.desc, "height": hst.heights[hi], "problem": prob, "square": sq.Desc()})
		}
		if hold && k == 0 {
			// keep the accessor across other goroutines' operations
			for y := 0; y < 1+r.Intn(20); y++ {
				runtime.Gosched()
			}
			if r.Chance(1, 3) {
				time.Sleep(time.Duration(50+r.Intn(400)) * time.Microsecond)
			}
		}
	}
	_ = acc.Close()
}

var c08mutators = map[string]bool{"put-odsq4": true, "put-ods": true, "rm-odsq4": true, "rm-q4": true}

func (hst *c08hist) worker(ctx context.Context, g int, r *vkit.RNG, nops int) {
	kinds := []string{"put-odsq4", "put-odsq4", "put-ods", "get", "get", "get-hold", "has", "get-hash", "rm-odsq4", "rm-q4", "cached-get", "cached-get", "cached-burst", "hasq4"}
	for i := 0; i < nops; i++ {
		kind := vkit.Pick(r, kinds)
		if (kind == "cached-get" || kind == "cached-burst") && hst.cs == nil {
			kind = "get"
		}
		hi := r.Intn(len(hst.heights))
		h, sq := hst.heights[hi], hst.squares[hi]
		ev := c08event{g: g, idx: i, kind: kind, h: hi, call: hst.clock.Add(1)}
		var err error
		hst.run.Count("ops/"+kind, 1)
		switch kind {
		case "put-odsq4":
			err = hst.s.PutODSQ4(ctx, sq.Roots, h, sq.EDS)
		case "put-ods":
			err = hst.s.PutODS(ctx, sq.Roots, h, sq.EDS)
		case "rm-odsq4":
			err = hst.s.RemoveODSQ4(ctx, h, sq.Roots.Hash())
		case "rm-q4":
			err = hst.s.RemoveQ4(ctx, h, sq.Roots.Hash())
		case "has":
			ev.has, err = hst.s.HasByHeight(ctx, h)
		case "hasq4":
			ev.hasQ4, err = hst.s.HasQ4ByHash(ctx, sq.Roots.Hash())
		case "get", "get-hold":
			var acc eds.AccessorStreamer
			acc, err = hst.s.GetByHeight(ctx, h)
			if err == nil {
				hst.useAccessor(ctx, r, acc, hi, "Store.GetByHeight", 1+r.Intn(5), kind == "get-hold")
			}
		case "cached-get":
			var acc eds.AccessorStreamer
			acc, err = hst.cs.GetByHeight(ctx, h)
			if err == nil {
				hst.useAccessor(ctx, r, acc, hi, "CachedStore.GetByHeight", 1+r.Intn(5), r.Bool())
			}
		case "cached-burst":
			// several readers share one cached (file-backed) accessor at the same time
			var bw sync.WaitGroup
			for b := 0; b < 3; b++ {
				acc, e2 := hst.cs.GetByHeight(ctx, h)
				if e2 != nil {
					err = e2
					continue
				}
				bw.Add(1)
				go func(b int, acc eds.AccessorStreamer) {
					defer bw.Done()
					hst.useAccessor(ctx, r.SplitN(fmt.Sprintf("burst%d", i), b), acc, hi, "CachedStore.GetByHeight", 4, false)
				}(b, acc)
			}
			bw.Wait()
		case "get-hash":
			var acc eds.AccessorStreamer
			acc, err = hst.s.GetByHash(ctx, sq.Roots.Hash())
			if err == nil {
				hst.useAccessor(ctx, r, acc, hi, "Store.GetByHash", 1+r.Intn(3), false)
			}
		}
		if err != nil {
			if errors.Is(err, store.ErrNotFound) {
				ev.notFound = true
			} else {
				ev.err = err.Error()
				if c08mutators[kind] {
					// a mutator failing on a healthy file system under concurrency
					hst.run.Violation("C08 "+kind+" fails under concurrency", map[string]any{"history": hst.desc, "height": h, "err": err.Error()})
				} else {
					hst.run.Violation("C08 "+kind+" returns an unexpected error", map[string]any{"history": hst.desc, "height": h, "err": err.Error()})
				}
			}
		}
		ev.ret = hst.clock.Add(1)
		hst.record(ev)
	}
}

// --- porcupine model: per height, state ∈ {0 absent, 1 ods, 2 ods+q4}

type c08in struct {
	kind string
}
type c08out struct {
	failed     bool
	has, hasQ4 bool
}

var c08model = porcupine.NondeterministicModel{
	Init: func() []any { return []any{0} },
	Step: func(st any, in any, out any) []any {
		s := st.(int)
		i, o := in.(c08in), out.(c08out)
		if o.failed {
			return []any{0, 1, 2} // a failed mutator may or may not have taken effect / rolled back
		}
		switch i.kind {
		case "put-odsq4":
			return []any{2}
		case "put-ods":
			if s == 0 {
				return []any{1}
			}
			return []any{s}
		case "rm-odsq4":
			return []any{0}
		case "rm-q4":
			if s == 2 {
				return []any{1}
			}
			return []any{s}
		case "observe":
			ok := (s == 0 && !o.has && !o.hasQ4) || (s == 1 && o.has && !o.hasQ4) || (s == 2 && o.has && o.hasQ4)
			if ok {
				return []any{s}
			}
			return nil
		}
		return []any{s}
	},
	Equal: func(a, b any) bool { return a.(int) == b.(int) },
	DescribeOperation: func(in any, out any) string {
		return fmt.Sprintf("%s -> %+v", in.(c08in).kind, out.(c08out))
	},
}

func c08fds(dir string) []string {
	var out []string
	ents, err := os.ReadDir("/proc/self/fd")
	if err != nil {
		return nil
	}
	for _, e := range ents {
		t, err := os.Readlink(filepath.Join("/proc/self/fd", e.Name()))
		if err == nil && strings.HasPrefix(t, dir) {
			out = append(out, strings.TrimPrefix(t, dir))
		}
	}
	sort.Strings(out)
	return out
}

func (hst *c08hist) finish(ctx context.Context, r *vkit.RNG) {
	run := hst.run
	// observations after quiescence
	obs := make([]c08out, len(hst.heights))
	for hi, h := range hst.heights {
		sq := hst.squares[hi]
		has, err1 := hst.s.HasByHeight(ctx, h)
		hasQ4, err2 := hst.s.HasQ4ByHash(ctx, sq.Roots.Hash())
		if err1 != nil || err2 != nil {
			run.Violation("C08 existence check fails after quiescence", map[string]any{"history": hst.desc, "err": fmt.Sprint(err1, err2)})
		}
		obs[hi] = c08out{has: has, hasQ4: hasQ4}
		acc, err := hst.s.GetByHeight(ctx, h)
		switch {
		case err == nil:
			for k := 0; k < 8; k++ {
				kind, prob := c08read(ctx, r, acc, sq)
				run.Count("reads_verified", 1)
				if prob != "" {
					run.Violation("C08 block read after quiescence is wrong ("+kind+")", map[string]any{"history": hst.desc, "height": h, "what": prob})
					break
				}
			}
			_ = acc.Close()
			if !has {
				run.Violation("C08 after quiescence HasByHeight=false but GetByHeight serves the block", map[string]any{"history": hst.desc, "height": h})
			}
		case errors.Is(err, store.ErrNotFound):
			if has {
				run.Violation("C08 after quiescence HasByHeight=true but GetByHeight says not found", map[string]any{"history": hst.desc, "height": h})
			}
		default:
			run.Violation("C08 GetByHeight fails after quiescence", map[string]any{"history": hst.desc, "height": h, "err": err.Error()})
		}
	}
	// porcupine per height
	for hi := range hst.heights {
		var ops []porcupine.Operation
		var last int64
		for _, ev := range hst.events {
			if ev.h != hi || !c08mutators[ev.kind] {
				continue
			}
			ops = append(ops, porcupine.Operation{ClientId: ev.g, Input: c08in{ev.kind}, Call: ev.call, Output: c08out{failed: ev.err != ""}, Return: ev.ret})
			if ev.ret > last {
				last = ev.ret
			}
		}
		end := hst.clock.Load() + 10
		ops = append(ops, porcupine.Operation{ClientId: 1000, Input: c08in{"observe"}, Call: end, Output: obs[hi], Return: end + 1})
		res, _ := porcupine.CheckOperationsVerbose(c08model.ToModel(), ops, 20*time.Second)
		run.Count("porcupine/histories", 1)
		run.Count("porcupine/ops", len(ops))
		switch res {
		case porcupine.Ok:
			run.Count("porcupine/ok", 1)
		case porcupine.Unknown:
			run.Inconclusive("porcupine timeout")
		default:
			var hs []string
			for _, o := range ops {
				hs = append(hs, fmt.Sprintf("c%d [%d,%d] %s", o.ClientId, o.Call, o.Return, c08model.DescribeOperation(o.Input, o.Output)))
			}
			run.Violation(fmt.Sprintf("C08 final content not explained by any sequential order (observed has=%v q4=%v)", obs[hi].has, obs[hi].hasQ4),
				map[string]any{"history": hst.desc, "height": hst.heights[hi], "ops": hs})
		}
	}
	// release everything, then no fd may point into the store directory
	for hi, h := range hst.heights {
		if err := hst.s.RemoveODSQ4(ctx, h, hst.squares[hi].Roots.Hash()); err != nil {
			run.Violation("C08 final removal fails", map[string]any{"history": hst.desc, "err": err.Error()})
		}
	}
	_ = hst.s.Stop(ctx)
	var fds []string
	for try := 0; try < 200; try++ {
		fds = c08fds(hst.dir)
		if len(fds) == 0 {
			break
		}
		run.Count("fd_wait_polls", 1)
		if try%20 == 19 {
			runtime.GC() // unreferenced files are closed by finalizers; should not be needed
		}
		time.Sleep(2 * time.Millisecond) // evictions close files in their own goroutines
	}
	run.Count("fd_checks", 1)
	if len(fds) > 0 {
		run.Violation("C08 files still open after all accessors were closed and all blocks removed", map[string]any{"history": hst.desc, "fds": fds})
	}
	h := strings.Join(hst.retOrder, ",")
	run.SetAdd("interleavings", h)
	if hst.id%16 == 0 {
		var evs []string
		for k, ev := range hst.events {
			if k >= 14 {
				break
			}
			evs = append(evs, fmt.Sprintf("g%d %s h=%d [%d,%d] err=%q notfound=%v", ev.g, ev.kind, hst.heights[ev.h], ev.call, ev.ret, ev.err, ev.notFound))
		}
		run.Sample(map[string]any{"history": hst.desc, "first_operations_in_return_order": evs, "total_operations": len(hst.events)})
	}
}

func TestC08(t *testing.T) {
	run := vkit.NewRun(t, "C08", "exploration",
		"cases = histories: PRNG-determined multisets of concurrent store operations from 6-14 goroutines over 3-5 heights colliding on "+
			"lock stripes / cache slots, cache sizes {0,1,2,8} x serving cache {none,1,4}, yields injected at verifhook markers; "+
			"distinct = distinct orders in which operations returned (interleaving signature)")
	defer run.Finish()
	seed := vkit.Seed()
	rng := vkit.NewRNG(seed, "C08")
	c08yieldSeed.Store(seed)
	restore := verifhook.Set(c08hook())
	defer restore()
	base := t.TempDir()
	ctx := context.Background()

	nHist := vkit.Scale(60, 1500)
	par := 6
	// pool of squares (distinct data hashes)
	var pool []*vkit.Square
	for i := 0; i < 12; i++ {
		r := rng.SplitN("sq", i)
		w := vkit.Pick(r, []int{2, 2, 4, 4, 8})
		pool = append(pool, vkit.GenSquare(r, w, vkit.Pick(r, vkit.Layouts), r.Intn(w*w)))
	}
	for b := 0; b < nHist; b += par {
		var wg sync.WaitGroup
		done := make(chan struct{})
		hists := make([]*c08hist, 0, par)
		for i := b; i < b+par && i < nHist; i++ {
			r := rng.SplitN("hist", i)
			dir := filepath.Join(base, fmt.Sprintf("h%d", i))
			_ = os.MkdirAll(dir, 0o755)
			recent := vkit.Pick(r, []int{0, 1, 2, 8})
			serving := vkit.Pick(r, []int{0, 1, 4})
			s, err := store.NewStore(&store.Parameters{RecentBlocksCacheSize: recent}, dir)
			if err != nil {
				t.Fatal(err)
			}
			hst := &c08hist{id: i, dir: dir, s: s, clock: &atomic.Int64{}, run: run}
			if serving > 0 {
				if hst.cs, err = s.WithCache("serving", serving); err != nil {
					t.Fatal(err)
				}
			}
			baseH := uint64(1 + r.Intn(200))
			cands := []uint64{baseH, baseH + 1024, baseH + 2048, baseH + 256, baseH + 1, baseH + 512}
			nh := 3 + r.Intn(3)
			perm := r.Perm(len(pool))
			for k := 0; k < nh; k++ {
				hst.heights = append(hst.heights, cands[k])
				hst.squares = append(hst.squares, pool[perm[k]])
			}
			ng := 6 + r.Intn(9)
			nops := 8 + r.Intn(10)
			hst.desc = fmt.Sprintf("hist#%d seed=%d recent=%d serving=%d heights=%v goroutines=%d ops/g=%d", i, seed, recent, serving, hst.heights, ng, nops)
			hists = append(hists, hst)
			run.Eval(1)
			for g := 0; g < ng; g++ {
				wg.Add(1)
				go func(g int) {
					defer wg.Done()
					hst.worker(ctx, g, r.SplitN("g", g), nops)
				}(g)
			}
		}
		tStart := time.Now()
		go func() { wg.Wait(); close(done) }()
		v, dump := vkit.WaitStable(done, vkit.StableOpts{Polls: 10, Every: 400 * time.Millisecond, MaxWait: 5 * time.Minute})
		switch v {
		case "hang":
			run.Violation("C08 store operations never return: "+strings.Join(vkit.RepoFrames(dump), " | "), map[string]any{
				"histories": []string{hists[0].desc}, "dump": tailStr(dump, 6000)})
			return // the hung goroutines hold locks; nothing more can be decided in this process
		case "inconclusive":
			run.Inconclusive("batch did not finish within the watchdog and never became stable")
			return
		}
		run.Count("time_ms/workers", int(time.Since(tStart).Milliseconds()))
		tFin := time.Now()
		defer func() {}()
		for _, hst := range hists {
			hst.finish(ctx, rng.SplitN("fin", hst.id))
			run.Distinct(strings.Join(hst.retOrder, ","))
			_ = os.RemoveAll(hst.dir)
		}
		run.Count("time_ms/finish", int(time.Since(tFin).Milliseconds()))
	}
	restore() // directed scenarios install their own marker handler
	c08directed(ctx, run, rng.Split("directed"), base, pool)
	c08firstMiss(ctx, run, rng.Split("first-miss"), base, pool)
	restore = verifhook.Set(c08hook())
	if vkit.Thorough() {
		c08forcedClose(ctx, run, rng.Split("forced-close"), base, pool)
	}
	run.Require("directed/scenarios", 10)
	run.Require("reads_verified", 500)
	run.Require("porcupine/ok", 20)
	run.Require("fd_checks", 10)
	run.Assume("the accessor cache's bounded forced close (1 minute) is not reached: no reader holds an accessor while calling other store operations")
	run.Assume("heights use distinct squares (distinct data hashes), so per-height histories are independent")
}

// c08directed forces the window "a removal is waiting for a reader of the cached accessor" (marker
// cache.accessor.close.waiting) and lets other operations come and go inside it; the same oracles
// apply: every read correct, everything returns, final content = some sequential order, no fd left.
func c08directed(ctx context.Context, run *vkit.Run, r *vkit.RNG, base string, pool []*vkit.Square) {
	type variant struct {
		recent, serving int
		remover         string
		holdVia         string // where reader 1 gets its accessor
		middle          []string
	}
	var vs []variant
	for _, recent := range []int{0, 1} {
		for _, serving := range []int{1, 4} {
			for _, remover := range []string{"rm-odsq4", "rm-q4"} {
				for _, holdVia := range []string{"cached", "store"} {
					for _, middle := range [][]string{{"cached-get"}, {"get"}, {"cached-get", "cached-get"}, {"has", "cached-get", "get"}, {"put-odsq4"}} {
						vs = append(vs, variant{recent, serving, remover, holdVia, middle})
					}
				}
			}
		}
	}
	if !vkit.Thorough() {
		r.Shuffle(len(vs), func(i, j int) { vs[i], vs[j] = vs[j], vs[i] })
		vs = vs[:40]
	}
	for i, v := range vs {
		dir := filepath.Join(base, fmt.Sprintf("d%d", i))
		_ = os.MkdirAll(dir, 0o755)
		s, err := store.NewStore(&store.Parameters{RecentBlocksCacheSize: v.recent}, dir)
		if err != nil {
			run.Inconclusive("directed: " + err.Error())
			return
		}
		cs, err := s.WithCache("serving", v.serving)
		if err != nil {
			run.Inconclusive("directed: " + err.Error())
			return
		}
		sqi := r.Intn(len(pool))
		sq := pool[sqi]
		h := uint64(40 + r.Intn(100))
		hst := &c08hist{id: 100000 + i, dir: dir, s: s, cs: cs, clock: &atomic.Int64{}, run: run, heights: []uint64{h}, squares: []*vkit.Square{sq}}
		hst.desc = fmt.Sprintf("directed#%d recent=%d serving=%d remover=%s reader1-via=%s middle=%v height=%d %s", i, v.recent, v.serving, v.remover, v.holdVia, v.middle, h, sq.Desc())
		run.Eval(1)
		run.Count("directed/scenarios", 1)
		if i%8 == 0 {
			run.Sample(map[string]any{"directed": hst.desc})
		}
		rec := func(kind string, f func() error) {
			ev := c08event{g: 0, kind: kind, h: 0, call: hst.clock.Add(1)}
			if err := f(); err != nil && !errors.Is(err, store.ErrNotFound) {
				ev.err = err.Error()
				run.Violation("C08 "+kind+" fails under concurrency", map[string]any{"history": hst.desc, "err": err.Error()})
			}
			ev.ret = hst.clock.Add(1)
			hst.record(ev)
		}
		rec("put-odsq4", func() error { return s.PutODSQ4(ctx, sq.Roots, h, sq.EDS) })
		// push the block out of the recent cache so that accessors are file-backed
		if v.recent > 0 {
			o := pool[(sqi+1+r.Intn(len(pool)-1))%len(pool)] // another block: one data hash lives under one height
			_ = s.PutODSQ4(ctx, o.Roots, h+1, o.EDS)
			_ = s.RemoveODSQ4(ctx, h+1, o.Roots.Hash())
		}
		var r1 eds.AccessorStreamer
		if v.holdVia == "cached" {
			r1, err = cs.GetByHeight(ctx, h)
		} else {
			r1, err = s.GetByHeight(ctx, h)
		}
		if err != nil {
			run.Violation("C08 get of a stored block fails", map[string]any{"history": hst.desc, "err": err.Error()})
			_ = s.Stop(ctx)
			continue
		}
		waiting := make(chan struct{}, 4)
		restore := verifhook.Set(&verifhook.Handler{Point: func(name string, _ any) {
			if name == "cache.accessor.close.waiting" {
				select {
				case waiting <- struct{}{}:
				default:
				}
			}
		}})
		removed := make(chan struct{})
		go func() {
			defer close(removed)
			rec(v.remover, func() error {
				if v.remover == "rm-q4" {
					return s.RemoveQ4(ctx, h, sq.Roots.Hash())
				}
				return s.RemoveODSQ4(ctx, h, sq.Roots.Hash())
			})
		}()
		// wait until the removal waits for reader 1 (or finished: nothing cached to wait for)
		inWindow := false
		select {
		case <-waiting:
			inWindow = true
			run.Count("directed/window_reached", 1)
		case <-removed:
		}
		if inWindow {
			var mw sync.WaitGroup
			for k, m := range v.middle {
				switch m {
				case "cached-get", "get":
					// must not block behind the removal for ever; run asynchronously and join at the end
					mw.Add(1)
					go func(k int, m string) {
						defer mw.Done()
						var acc eds.AccessorStreamer
						var err error
						if m == "cached-get" {
							acc, err = cs.GetByHeight(ctx, h)
						} else {
							acc, err = s.GetByHeight(ctx, h)
						}
						if err == nil {
							hst.useAccessor(ctx, r.SplitN("mid", k), acc, 0, "GetByHeight during a removal", 3, false)
						}
					}(k, m)
				case "has":
					mw.Add(1)
					go func() { defer mw.Done(); _, _ = s.HasByHeight(ctx, h) }()
				case "put-odsq4":
					mw.Add(1)
					go func() {
						defer mw.Done()
						rec("put-odsq4", func() error { return s.PutODSQ4(ctx, sq.Roots, h, sq.EDS) })
					}()
				}
			}
			// give the middle operations the chance to run inside the window: they either finish or block
			// behind the store lock held by the removal (then they complete after it)
			for y := 0; y < 200; y++ {
				runtime.Gosched()
			}
			time.Sleep(2 * time.Millisecond)
			hst.useAccessor(ctx, r.Split("r1"), r1, 0, "accessor held across a removal", 4, false)
			done := make(chan struct{})
			go func() { mw.Wait(); <-removed; close(done) }()
			if vd, dump := vkit.WaitStable(done, vkit.StableOpts{Polls: 25, MaxWait: 3 * time.Minute}); vd != "done" {
				restore()
				if vd == "hang" {
					run.Violation("C08 store operations never return: "+strings.Join(vkit.RepoFrames(dump), " | "), map[string]any{"history": hst.desc, "dump": tailStr(dump, 5000)})
				} else {
					run.Inconclusive("directed scenario did not finish")
				}
				return
			}
		} else {
			_ = r1.Close()
		}
		restore()
		hst.finish(ctx, r.SplitN("dfin", i))
		_ = os.RemoveAll(dir)
	}
}

// c08forcedClose exercises the one legitimate way a held accessor is invalidated: a reader holds a
// cached accessor and then blocks behind the stripe lock of a removal that itself waits for that very
// reader; after the cache's bounded wait (one minute) the accessor is closed forcibly and everything
// proceeds. Statement-level oracle: every operation returns, and whatever the reader still reads is
// either refused with an error or correct - never wrong bytes.
func c08forcedClose(ctx context.Context, run *vkit.Run, r *vkit.RNG, base string, pool []*vkit.Square) {
	dir := filepath.Join(base, "forced")
	_ = os.MkdirAll(dir, 0o755)
	s, err := store.NewStore(&store.Parameters{RecentBlocksCacheSize: 4}, dir)
	if err != nil {
		run.Inconclusive("forced-close: " + err.Error())
		return
	}
	sq, sq2 := pool[0], pool[1]
	h := uint64(77)
	h2 := h + 1024 // same height stripe: Put(h2) needs the lock the removal of h holds
	if err := s.PutODSQ4(ctx, sq.Roots, h, sq.EDS); err != nil {
		run.Inconclusive("forced-close: " + err.Error())
		return
	}
	acc, err := s.GetByHeight(ctx, h) // recent cache: reference counted
	if err != nil {
		run.Inconclusive("forced-close: " + err.Error())
		return
	}
	waiting := make(chan struct{}, 2)
	restore := verifhook.Set(&verifhook.Handler{Point: func(name string, _ any) {
		if name == "cache.accessor.close.waiting" {
			select {
			case waiting <- struct{}{}:
			default:
			}
		}
	}})
	defer restore()
	done := make(chan struct{})
	var rmErr, putErr error
	wrong := 0
	refused := 0
	go func() {
		defer close(done)
		var wg sync.WaitGroup
		wg.Add(2)
		go func() { defer wg.Done(); rmErr = s.RemoveODSQ4(ctx, h, sq.Roots.Hash()) }()
		go func() {
			defer wg.Done()
			<-waiting // the removal holds the locks and waits for our reference
			putErr = s.PutODSQ4(ctx, sq2.Roots, h2, sq2.EDS)
			// the accessor was closed under us by now: reads are refused or correct
			for k := 0; k < 12; k++ {
				_, prob := c08read(ctx, r, acc, sq)
				switch {
				case prob == "":
				case strings.Contains(prob, "error"):
					refused++
				default:
					wrong++
				}
			}
			_ = acc.Close()
		}()
		wg.Wait()
	}()
	// the bounded wait is a real one-minute timer inside a select: the stability window must exceed it
	v, dump := vkit.WaitStable(done, vkit.StableOpts{Polls: 200, Every: 400 * time.Millisecond, MaxWait: 4 * time.Minute})
	run.Count("forced_close/scenarios", 1)
	switch v {
	case "hang":
		run.Violation("C08 store operations never return (reader blocked behind a removal that waits for it): "+strings.Join(vkit.RepoFrames(dump), " | "), map[string]any{"dump": tailStr(dump, 5000)})
		return
	case "inconclusive":
		run.Inconclusive("forced-close scenario did not finish")
		return
	}
	run.Count("forced_close/reads_refused", refused)
	if wrong > 0 {
		run.Violation("C08 accessor closed forcibly serves wrong bytes", map[string]any{"wrong_reads": wrong})
	}
	if rmErr != nil || putErr != nil {
		run.Violation("C08 operation fails after the forced close", map[string]any{"remove": fmt.Sprint(rmErr), "put": fmt.Sprint(putErr)})
	}
	_ = s.RemoveODSQ4(ctx, h2, sq2.Roots.Hash())
	_ = s.Stop(ctx)
	_ = os.RemoveAll(dir)
}

// c08firstMiss: many readers ask the serving cache for the same, not yet cached height at the same
// moment (a burst of requests for a fresh block). Every reader's accessor serves the block; once all
// of them closed theirs and the block was removed, no descriptor into the store directory is left —
// whichever of the concurrent loads the cache kept. Rounds × readers released by a barrier; decided by
// the descriptor table at quiescence, not by timing.
func c08firstMiss(ctx context.Context, run *vkit.Run, r *vkit.RNG, base string, pool []*vkit.Square) {
	rounds := vkit.Scale(60, 600)
	dir := filepath.Join(base, "firstmiss")
	_ = os.MkdirAll(dir, 0o755)
	for _, cfg := range []struct{ recent, serving int }{{0, 8}, {0, 1}, {2, 4}} {
		sdir := filepath.Join(dir, fmt.Sprintf("r%ds%d", cfg.recent, cfg.serving))
		_ = os.MkdirAll(sdir, 0o755)
		s, err := store.NewStore(&store.Parameters{RecentBlocksCacheSize: cfg.recent}, sdir)
		if err != nil {
			run.Inconclusive("first-miss: " + err.Error())
			return
		}
		cs, err := s.WithCache("serving", cfg.serving)
		if err != nil {
			run.Inconclusive("first-miss: " + err.Error())
			return
		}
		for round := 0; round < rounds/3; round++ {
			rr := r.SplitN(fmt.Sprintf("fm%d/%d", cfg.recent, cfg.serving), round)
			si := rr.Intn(len(pool))
			sq := pool[si]
			h := uint64(5000 + round)
			withQ4 := rr.Bool()
			desc := fmt.Sprintf("first-miss recent=%d serving=%d round=%d height=%d q4=%v %s", cfg.recent, cfg.serving, round, h, withQ4, sq.Desc())
			if withQ4 {
				err = s.PutODSQ4(ctx, sq.Roots, h, sq.EDS)
			} else {
				err = s.PutODS(ctx, sq.Roots, h, sq.EDS)
			}
			if err != nil {
				run.Violation("C08 put fails under concurrency", map[string]any{"history": desc, "err": err.Error()})
				continue
			}
			// push the block out of the recent-blocks cache: the serving cache then loads it from the file
			for k := 0; k < cfg.recent; k++ {
				o := pool[(si+1+rr.Intn(len(pool)-1))%len(pool)] // another block: one data hash lives under one height
				_ = s.PutODS(ctx, o.Roots, h+100000+uint64(k), o.EDS)
				_ = s.RemoveODSQ4(ctx, h+100000+uint64(k), o.Roots.Hash())
			}
			readers := 2 + rr.Intn(7)
			start := make(chan struct{})
			var wg sync.WaitGroup
			var mu sync.Mutex
			var probs []string
			for g := 0; g < readers; g++ {
				wg.Add(1)
				go func(g int) {
					defer wg.Done()
					gr := rr.SplitN("reader", g)
					<-start
					acc, err := cs.GetByHeight(ctx, h)
					if err != nil {
						mu.Lock()
						probs = append(probs, "CachedStore.GetByHeight: "+err.Error())
						mu.Unlock()
						return
					}
					for k := 0; k < 3; k++ {
						if kind, p := c08read(ctx, gr, acc, sq); p != "" {
							mu.Lock()
							probs = append(probs, kind+": "+p)
							mu.Unlock()
						}
					}
					if err := acc.Close(); err != nil {
						mu.Lock()
						probs = append(probs, "Close: "+err.Error())
						mu.Unlock()
					}
				}(g)
			}
			close(start)
			wg.Wait()
			run.Eval(1)
			run.Count("first-miss/rounds", 1)
			run.Count("first-miss/readers", readers)
			for _, p := range probs {
				run.Violation("C08 read through a concurrently loaded cached accessor is wrong", map[string]any{"history": desc, "what": p})
			}
			if err := s.RemoveODSQ4(ctx, h, sq.Roots.Hash()); err != nil {
				run.Violation("C08 rm-odsq4 fails under concurrency", map[string]any{"history": desc, "err": err.Error()})
			}
			// the removal closes the cached accessor once its readers are gone (they are); descriptors of
			// the removed block show up as "(deleted)" targets
			var left []string
			for i := 0; i < 50; i++ {
				if left = c08fds(sdir); len(left) == 0 {
					break
				}
				time.Sleep(10 * time.Millisecond)
			}
			if len(left) > 0 {
				run.Violation("C08 file descriptors of a removed block stay open after all readers closed their accessors [concurrent first loads through the serving cache]",
					map[string]any{"history": desc, "open": left, "readers": readers})
				break // the leaked descriptor would be reported by every later round of this store
			}
		}
		_ = s.Stop(ctx)
	}
	run.Require("first-miss/rounds", rounds*8/10)
}
