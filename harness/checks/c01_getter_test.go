package checks

import (
	"fmt"
	"sync"
	"testing"
	"time"

	"github.com/celestiaorg/celestia-node/zz_verif/vkit"
)

// Getter-level part of C01: what the real shrex getter hands to its caller — on success and in the
// partial result that accompanies an error — is "verified" data as far as every consumer is concerned
// (light availability records each non-empty sample slot as retrieved). The forging peers of the C06
// harness (scripted shrex servers over mocknet in front of the real client, peer manager and getter)
// are reused with the replies that carry content: valid data of another position, of the twin square,
// garbled / truncated / extended payloads and structurally odd proofs (empty range, no nodes, axis
// outside {row, column} incl. negative). Oracle 1 of that harness is C01's statement: every non-empty
// element returned equals the share the header commits to at that position. Reported as C01.
func c01Getter(t *testing.T, run *vkit.Run, rng *vkit.RNG) {
	warm := make(chan struct{})
	close(warm)
	g := &c06{run: run, t: t, seed: vkit.Seed(), rng: rng, prop: "C01", bsWarm: warm}
	g.sqs = []*c06Square{c06GenSquare(rng, "sq2", 2), c06GenSquare(rng, "sq4", 4), c06GenSquare(rng, "sq8", 8)}
	for i, s := range g.sqs {
		s.storeHeight = uint64(i + 1)
	}
	net, cleanup, err := g.newNet(2)
	if err != nil {
		run.Inconclusive("C01 getter part: network setup failed: " + err.Error())
		return
	}
	defer cleanup()
	var cases []*c06ShrexCase
	idx := 0
	reps := vkit.Scale(1, 4)
	for rep := 0; rep < reps; rep++ {
		for _, b := range []c06Beh{c06WrongPos, c06Twin, c06Garbled, c06Truncated, c06Extended, c06OddProof, c06OddProof, c06OddProof} {
			for k := c06Kind(0); k < c06Kinds; k++ {
				if b == c06OddProof && k != c06Samples && k != c06ND && idx%3 != 0 {
					continue // for the other kinds the behaviour degenerates to the twin reply
				}
				for _, honest := range []bool{false, true} {
					cs := &c06ShrexCase{idx: idx, height: uint64(1000 + idx), script: []c06Beh{b}, honest: honest, mode: "nodl",
						done: make(chan struct{}), notify: make(chan struct{}, 1)}
					cs.rng = rng.SplitN("getter-case", idx)
					cs.req = c06GenReq(cs.rng.Split("req"), k, vkit.Pick(cs.rng.Split("sq"), g.sqs), idx)
					if !honest {
						// nobody can serve the data: the call ends with the deadline and its partial result
						cs.mode, cs.deadline = "dl-short", time.Duration(cs.rng.Range(150, 400))*time.Millisecond
					}
					cs.keys = c06Keys(cs.req, cs.height)
					cases = append(cases, cs)
					idx++
				}
			}
		}
	}
	sem := make(chan struct{}, 32)
	var wg sync.WaitGroup
	for _, cs := range cases {
		wg.Add(1)
		sem <- struct{}{}
		go func(cs *c06ShrexCase) {
			defer wg.Done()
			defer func() { <-sem }()
			g.runShrexCase(net, cs)
		}(cs)
	}
	wg.Wait()
	run.Count("getter/cases", len(cases))
	run.Require("shrex/cases", len(cases)*9/10)
	run.Require("shrex/peer-behaviour/oddproof/"+c06KindNames[c06Samples], 4)
	run.Require("oracle1/nonempty-elements-compared/success", 20)
	_ = fmt.Sprint
}
