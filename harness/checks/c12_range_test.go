package checks

import (
	"bytes"
	"context"
	"encoding/json"
	"fmt"
	"math"
	"strings"

	"github.com/cometbft/cometbft/crypto/merkle"
	tmbytes "github.com/cometbft/cometbft/libs/bytes"
	tmproto "github.com/cometbft/cometbft/proto/tendermint/types"
	"github.com/cometbft/cometbft/types"

	libshare "github.com/celestiaorg/go-square/v4/share"

	nodeshare "github.com/celestiaorg/celestia-node/nodebuilder/share"
	"github.com/celestiaorg/celestia-node/zz_verif/vkit"
)

// ---------------------------------------------------------------------------------------------
// share.GetRangeResult (Module.GetRange → newGetRangeResult) and its Verify

func c12CloneRR(in *nodeshare.GetRangeResult) *nodeshare.GetRangeResult {
	out := &nodeshare.GetRangeResult{}
	if in.Shares != nil {
		out.Shares = make([]libshare.Share, len(in.Shares))
		copy(out.Shares, in.Shares)
	}
	if in.Proof == nil {
		return out
	}
	p := in.Proof
	q := &types.ShareProof{Data: c12clone2(p.Data), NamespaceID: c12clone(p.NamespaceID), NamespaceVersion: p.NamespaceVersion}
	if p.ShareProofs != nil {
		q.ShareProofs = make([]*tmproto.NMTProof, len(p.ShareProofs))
		for i, sp := range p.ShareProofs {
			if sp != nil {
				q.ShareProofs[i] = &tmproto.NMTProof{Start: sp.Start, End: sp.End, Nodes: c12clone2(sp.Nodes), LeafHash: c12clone(sp.LeafHash)}
			}
		}
	}
	q.RowProof.StartRow, q.RowProof.EndRow = p.RowProof.StartRow, p.RowProof.EndRow
	if p.RowProof.RowRoots != nil {
		q.RowProof.RowRoots = make([]tmbytes.HexBytes, len(p.RowProof.RowRoots))
		for i, rr := range p.RowProof.RowRoots {
			q.RowProof.RowRoots[i] = c12clone(rr)
		}
	}
	if p.RowProof.Proofs != nil {
		q.RowProof.Proofs = make([]*merkle.Proof, len(p.RowProof.Proofs))
		for i, mp := range p.RowProof.Proofs {
			if mp != nil {
				q.RowProof.Proofs[i] = &merkle.Proof{Total: mp.Total, Index: mp.Index, LeafHash: c12clone(mp.LeafHash), Aunts: c12clone2(mp.Aunts)}
			}
		}
	}
	out.Proof = q
	return out
}

// c12RRClaim: what an accepted range result asserts — r.Shares are exactly the shares of the
// square at the positions bound by the proof (axis = merkle index of each row proof, columns =
// NMT start/end), against the block's data root.
func c12RRClaim(b *c12Blk, res *nodeshare.GetRangeResult, root []byte) (ok bool, why string) {
	if pn, _ := vkit.Recover(func() { ok, why = c12RRClaimInner(b, res, root) }); pn != nil {
		return false, fmt.Sprintf("reference evaluation impossible on this object: %v", pn)
	}
	return ok, why
}

func c12RRClaimInner(b *c12Blk, res *nodeshare.GetRangeResult, root []byte) (bool, string) {
	if !bytes.Equal(root, b.DataRoot()) {
		return false, "root is not the block's data root"
	}
	p := res.Proof
	if p == nil || len(p.ShareProofs) != len(p.RowProof.Proofs) || len(p.ShareProofs) == 0 {
		return false, "proof counts"
	}
	cursor := 0
	for i, sp := range p.ShareProofs {
		idx := int(p.RowProof.Proofs[i].Index)
		if idx < 0 || idx >= 4*b.W {
			return false, "axis index out of the square"
		}
		axis := b.axisBytes(idx)
		s, e := int(sp.Start), int(sp.End)
		if s < 0 || e > len(axis) || s >= e {
			return false, "share range out of the axis"
		}
		for k := s; k < e; k++ {
			if cursor >= len(res.Shares) {
				return false, fmt.Sprintf("the proof proves %d+ shares, the result carries %d", cursor+1, len(res.Shares))
			}
			if !bytes.Equal(res.Shares[cursor].ToBytes(), axis[k]) {
				return false, fmt.Sprintf("share #%d is not the square's share at axis %d position %d", cursor, idx, k)
			}
			cursor++
		}
	}
	if cursor != len(res.Shares) {
		return false, fmt.Sprintf("the result carries %d shares, the proof proves %d", len(res.Shares), cursor)
	}
	return true, ""
}

func c12DescRR(res *nodeshare.GetRangeResult) map[string]any {
	d := map[string]any{"shares": len(res.Shares)}
	if res.Proof == nil {
		d["proof"] = nil
		return d
	}
	d["data"] = len(res.Proof.Data)
	var sps []any
	for _, sp := range res.Proof.ShareProofs {
		if sp == nil {
			sps = append(sps, nil)
		} else {
			sps = append(sps, fmt.Sprintf("[%d,%d) nodes=%d", sp.Start, sp.End, len(sp.Nodes)))
		}
	}
	d["share_proofs"] = sps
	d["start_row"], d["end_row"] = res.Proof.RowProof.StartRow, res.Proof.RowProof.EndRow
	d["row_roots"], d["row_proofs"] = len(res.Proof.RowProof.RowRoots), len(res.Proof.RowProof.Proofs)
	return d
}

type c12rrCase struct {
	c       *c12
	blk     *c12Blk
	from    int
	to      int
	hjson   []byte
	root    []byte
	distKey string
}

func (k *c12rrCase) try(op string, res *nodeshare.GetRangeResult, root []byte) {
	c, run := k.c, k.c.run
	c.tried("range", op, fmt.Sprintf("[%d,%d) w=%d", k.from, k.to, k.blk.W), k.blk.Block)
	run.Distinct(k.distKey + op)
	opc := op
	if strings.HasPrefix(op, "json/") {
		opc = "json"
	}
	var err error
	pn, kind, where := c12Recover(func() { err = res.Verify(root) })
	if pn != nil {
		run.Violation(fmt.Sprintf("C12 GetRangeResult.Verify panics: %s in %s", kind, where), map[string]any{
			"panic": fmt.Sprint(pn), "block": k.blk.Desc(), "range": []int{k.from, k.to}, "candidate": c12DescRR(res), "op": op, "seed": vkit.Seed()})
		run.Count("range/panicked", 1)
		return
	}
	if err != nil {
		run.Count("range/rejected", 1)
		return
	}
	run.Count("range/"+op+"/accepted", 1)
	if ok, why := c12RRClaim(k.blk, res, root); !ok {
		if strings.Contains(why, "the result carries") {
			// one root cause whatever operator produced it: fewer shares in the result than the proof proves
			opc = "fewer-shares-than-proven"
		}
		run.Violation("C12 GetRangeResult accepted-but-false op="+opc, map[string]any{
			"block": k.blk.Desc(), "range": []int{k.from, k.to}, "op": op, "why_false": why, "candidate": c12DescRR(res),
			"root": fmt.Sprintf("%x", root), "seed": vkit.Seed()})
		return
	}
	if !bytes.Equal(c12JSON(res), k.hjson) || !bytes.Equal(root, k.root) {
		run.Count("range/accepted-nonidentical/"+op, 1)
	}
}

func (c *c12) rangeResults(ctx context.Context, r *vkit.RNG, env *c12Env, blk, other *c12Blk) {
	run := c.run
	w := blk.W
	type rg struct{ from, to int }
	var list []rg
	for _, nsrun := range blk.Sq.Runs {
		a, b := nsrun.Start, nsrun.Start+nsrun.Count
		var cand []rg
		if w <= 4 {
			for x := a; x < b; x++ {
				for y := x + 1; y <= b; y++ {
					cand = append(cand, rg{x, y})
				}
			}
		} else {
			cand = append(cand, rg{a, b}, rg{a, a + 1}, rg{b - 1, b})
			for i := 0; i < 3 && nsrun.Count > 1; i++ {
				x := a + r.Intn(nsrun.Count)
				y := x + 1 + r.Intn(b-x)
				cand = append(cand, rg{x, y})
			}
			// row-boundary aligned pieces
			if ra := (a + w - 1) / w * w; ra+w <= b {
				cand = append(cand, rg{ra, ra + w}, rg{ra, min(b, ra+2*w)})
				if ra > a {
					cand = append(cand, rg{ra - 1, ra + 1})
				}
			}
		}
		list = append(list, cand...)
	}
	lim := vkit.Scale(14, 40)
	if w <= 4 {
		lim = vkit.Scale(60, 400)
	}
	if len(list) > lim {
		r.Shuffle(len(list), func(i, j int) { list[i], list[j] = list[j], list[i] })
		list = list[:lim]
	}
	get := func(b *c12Blk, from, to int) (*nodeshare.GetRangeResult, error) {
		var res *nodeshare.GetRangeResult
		var err error
		if pn, site := vkit.Recover(func() { res, err = env.mod.GetRange(ctx, b.Height, from, to) }); pn != nil {
			run.Violation("C12 GetRange panics @"+site, map[string]any{"panic": fmt.Sprint(pn), "block": b.Desc(), "range": []int{from, to}, "seed": vkit.Seed()})
			return nil, fmt.Errorf("panic")
		}
		return res, err
	}

	// invalid requests: refused, never mis-served
	total := w * w
	for _, g := range []rg{{-1, 1}, {0, 0}, {3, 3}, {2, 1}, {0, total + 1}, {total, total + 1}, {total - 1, total + 3}, {0, math.MaxInt32}} {
		c.tried("range", "invalid-request", fmt.Sprintf("[%d,%d)", g.from, g.to), blk.Block)
		res, err := get(blk, g.from, g.to)
		if err == nil && res != nil {
			run.Violation("C12 GetRange serves an invalid range", map[string]any{"block": blk.Desc(), "range": []int{g.from, g.to}, "result": c12DescRR(res), "seed": vkit.Seed()})
		} else {
			run.Count("range/invalid-request/refused", 1)
		}
	}
	// a range crossing a namespace boundary: if served at all it must verify and be exact
	for i := 0; i+1 < len(blk.Sq.Runs) && i < 4; i++ {
		bnd := blk.Sq.Runs[i+1].Start
		c.tried("range", "cross-namespace-request", "", blk.Block)
		res, err := get(blk, bnd-1, bnd+1)
		if err != nil || res == nil {
			run.Count("range/cross-namespace/refused", 1)
			continue
		}
		var verr error
		vkit.Recover(func() { verr = res.Verify(blk.DataRoot()) })
		if verr != nil || !vkit.EqualShares(res.Shares, blk.Sq.ODS[bnd-1:bnd+1]) {
			run.Violation("C12 GetRange serves a cross-namespace range whose proof does not verify", map[string]any{"block": blk.Desc(), "range": []int{bnd - 1, bnd + 1}, "err": fmt.Sprint(verr), "seed": vkit.Seed()})
		} else {
			run.Count("range/cross-namespace/served-and-verifies", 1)
		}
	}

	var otherRes *nodeshare.GetRangeResult
	if other != blk && len(other.Sq.Runs) > 0 {
		nr := vkit.Pick(r, other.Sq.Runs)
		otherRes, _ = get(other, nr.Start, nr.Start+min(nr.Count, 3))
	}

	for gi, g := range list {
		from, to := g.from, g.to
		root := blk.DataRoot()
		c.tried("range", "honest", fmt.Sprintf("[%d,%d) w=%d", from, to, w), blk.Block)
		honest, err := get(blk, from, to)
		nsName := c11NS(blk.Sq.ODS[from].Namespace())
		if err != nil || honest == nil {
			run.Violation("C12 GetRange fails for a range inside one namespace", map[string]any{"block": blk.Desc(), "range": []int{from, to}, "ns": nsName, "err": fmt.Sprint(err), "seed": vkit.Seed()})
			continue
		}
		k := &c12rrCase{c: c, blk: blk, from: from, to: to, hjson: c12JSON(honest), root: root, distKey: fmt.Sprintf("%d|range|%d-%d|", blk.Height, from, to)}
		run.Distinct(k.distKey + "honest")
		var herr error
		if pn, site := vkit.Recover(func() { herr = honest.Verify(root) }); pn != nil || herr != nil {
			run.Violation("C12 GetRangeResult honest-rejected", map[string]any{"block": blk.Desc(), "range": []int{from, to}, "ns": nsName, "err": fmt.Sprint(herr), "panic": fmt.Sprint(pn), "site": site, "result": c12DescRR(honest), "seed": vkit.Seed()})
			continue
		}
		// exactly the requested shares, at exactly the requested position
		okPos := vkit.EqualShares(honest.Shares, blk.Sq.ODS[from:to]) && len(honest.Proof.ShareProofs) == (to-1)/w-from/w+1
		if okPos {
			for i, sp := range honest.Proof.ShareProofs {
				row := from/w + i
				ws, we := 0, w
				if i == 0 {
					ws = from % w
				}
				if row == (to-1)/w {
					we = (to-1)%w + 1
				}
				okPos = okPos && int(sp.Start) == ws && int(sp.End) == we && int(honest.Proof.RowProof.Proofs[i].Index) == row
			}
			okPos = okPos && int(honest.Proof.RowProof.StartRow) == from/w && int(honest.Proof.RowProof.EndRow) == (to-1)/w
		}
		if ok, why := c12RRClaim(blk, honest, root); !ok || !okPos {
			run.Violation("C12 GetRangeResult honest result is not the requested range", map[string]any{"block": blk.Desc(), "range": []int{from, to}, "why": why, "result": c12DescRR(honest), "seed": vkit.Seed()})
			continue
		}
		run.Count("range/honest/accepted", 1)
		if len(honest.Proof.ShareProofs) > 1 {
			run.Count("range/honest/multi-row", 1)
		}
		if blk.Sq.ODS[from].Namespace().ValidateForBlob() != nil {
			run.Count("range/honest/reserved-namespace", 1)
		}
		{
			var back nodeshare.GetRangeResult
			if err := json.Unmarshal(k.hjson, &back); err != nil || back.Verify(root) != nil || !bytes.Equal(c12JSON(&back), k.hjson) {
				run.Violation("C12 GetRangeResult honest JSON round trip differs or is rejected", map[string]any{"block": blk.Desc(), "range": []int{from, to}, "err": fmt.Sprint(err), "seed": vkit.Seed()})
			} else {
				run.Count("range/honest/json-roundtrip", 1)
			}
		}
		// for big squares run the full operator set on a subset of the ranges only
		if w > 4 && gi >= vkit.Scale(6, 20) {
			continue
		}
		mut := func(op string, f func(x *nodeshare.GetRangeResult) bool) {
			x := c12CloneRR(honest)
			if f(x) {
				k.try(op, x, root)
			}
		}
		n := len(honest.Shares)
		np := len(honest.Proof.ShareProofs)

		// --- roots
		k.try("root-bitflip", c12CloneRR(honest), c12flip(r, root))
		k.try("root-empty", c12CloneRR(honest), nil)
		k.try("root-short", c12CloneRR(honest), root[:31])
		if other != blk {
			k.try("root-of-other-block", c12CloneRR(honest), other.DataRoot())
		}
		// --- shares vs proven data
		mut("shares-trim-last", func(x *nodeshare.GetRangeResult) bool { x.Shares = x.Shares[:n-1]; return true })
		mut("shares-trim-first", func(x *nodeshare.GetRangeResult) bool { x.Shares = x.Shares[1:]; return true })
		mut("shares-empty", func(x *nodeshare.GetRangeResult) bool { x.Shares = nil; return true })
		mut("shares-append-copy", func(x *nodeshare.GetRangeResult) bool { x.Shares = append(x.Shares, x.Shares[n-1]); return true })
		mut("shares-append-next", func(x *nodeshare.GetRangeResult) bool {
			if to >= total {
				return false
			}
			x.Shares = append(x.Shares, blk.Sq.ODS[to])
			return true
		})
		mut("share-bitflip", func(x *nodeshare.GetRangeResult) bool {
			i := r.Intn(n)
			sh, err := libshare.NewShare(c12flip(r, x.Shares[i].ToBytes()))
			if err != nil {
				return false
			}
			x.Shares[i] = sh
			return true
		})
		mut("share+data-bitflip", func(x *nodeshare.GetRangeResult) bool {
			i := r.Intn(n)
			b := x.Shares[i].ToBytes()
			fb := c12clone(b)
			fb[libshare.NamespaceSize+r.Intn(len(fb)-libshare.NamespaceSize)] ^= 1 << uint(r.Intn(8))
			sh, err := libshare.NewShare(fb)
			if err != nil {
				return false
			}
			x.Shares[i] = sh
			x.Proof.Data[i] = c12clone(fb)
			return true
		})
		if n > 1 {
			mut("shares+data-swap", func(x *nodeshare.GetRangeResult) bool {
				i := r.Intn(n - 1)
				if bytes.Equal(x.Proof.Data[i], x.Proof.Data[i+1]) {
					return false
				}
				x.Shares[i], x.Shares[i+1] = x.Shares[i+1], x.Shares[i]
				x.Proof.Data[i], x.Proof.Data[i+1] = x.Proof.Data[i+1], x.Proof.Data[i]
				return true
			})
			mut("shares+data-trim-last", func(x *nodeshare.GetRangeResult) bool {
				x.Shares = x.Shares[:n-1]
				x.Proof.Data = x.Proof.Data[:n-1]
				return true
			})
			mut("shares+data+proof-end-trim-last", func(x *nodeshare.GetRangeResult) bool {
				x.Shares = x.Shares[:n-1]
				x.Proof.Data = x.Proof.Data[:n-1]
				x.Proof.ShareProofs[np-1].End--
				return x.Proof.ShareProofs[np-1].End > x.Proof.ShareProofs[np-1].Start
			})
		}
		mut("data-trim-last", func(x *nodeshare.GetRangeResult) bool { x.Proof.Data = x.Proof.Data[:n-1]; return true })
		mut("data-nil", func(x *nodeshare.GetRangeResult) bool { x.Proof.Data = nil; return true })
		mut("data-append-copy", func(x *nodeshare.GetRangeResult) bool {
			x.Proof.Data = append(x.Proof.Data, c12clone(x.Proof.Data[n-1]))
			return true
		})
		mut("data-entry-nil", func(x *nodeshare.GetRangeResult) bool { x.Proof.Data[r.Intn(n)] = nil; return true })
		mut("data-entry-short", func(x *nodeshare.GetRangeResult) bool {
			i := r.Intn(n)
			x.Proof.Data[i] = x.Proof.Data[i][:100]
			return true
		})
		mut("proof-nil", func(x *nodeshare.GetRangeResult) bool { x.Proof = nil; return true })
		mut("proof-nil+shares-empty", func(x *nodeshare.GetRangeResult) bool { x.Proof, x.Shares = nil, nil; return true })
		mut("proof-zero", func(x *nodeshare.GetRangeResult) bool { x.Proof = &types.ShareProof{}; return true })
		mut("proof-zero+shares-empty", func(x *nodeshare.GetRangeResult) bool { x.Proof, x.Shares = &types.ShareProof{}, nil; return true })
		// shares of a neighbouring window presented with this proof, and the other way round
		if from > 0 {
			mut("shares+data-of-shifted-window", func(x *nodeshare.GetRangeResult) bool {
				for i := 0; i < n; i++ {
					x.Shares[i] = blk.Sq.ODS[from-1+i]
					x.Proof.Data[i] = c12clone(blk.Sq.ODS[from-1+i].ToBytes())
				}
				return !vkit.EqualShares(x.Shares, honest.Shares)
			})
		}
		if otherRes != nil {
			mut("proof-of-other-block", func(x *nodeshare.GetRangeResult) bool { x.Proof = c12CloneRR(otherRes).Proof; return true })
			mut("rowproof-of-other-block", func(x *nodeshare.GetRangeResult) bool {
				x.Proof.RowProof = c12CloneRR(otherRes).Proof.RowProof
				return true
			})
			k.try("whole-result-of-other-block", c12CloneRR(otherRes), root)
		}
		if gi+1 < len(list) {
			if sib, err := get(blk, list[gi+1].from, list[gi+1].to); err == nil && sib != nil && !bytes.Equal(c12JSON(sib), k.hjson) {
				mut("shareproofs-of-other-range", func(x *nodeshare.GetRangeResult) bool {
					x.Proof.ShareProofs = c12CloneRR(sib).Proof.ShareProofs
					return true
				})
				mut("shares-of-other-range", func(x *nodeshare.GetRangeResult) bool {
					x.Shares = c12CloneRR(sib).Shares
					return !vkit.EqualShares(x.Shares, honest.Shares)
				})
				mut("shares+data-of-other-range", func(x *nodeshare.GetRangeResult) bool {
					s := c12CloneRR(sib)
					x.Shares, x.Proof.Data = s.Shares, s.Proof.Data
					return !vkit.EqualShares(x.Shares, honest.Shares)
				})
			}
		}
		// --- share proofs
		mut("sp-nil-list", func(x *nodeshare.GetRangeResult) bool { x.Proof.ShareProofs = nil; return true })
		mut("sp-entry-nil", func(x *nodeshare.GetRangeResult) bool { x.Proof.ShareProofs[r.Intn(np)] = nil; return true })
		mut("sp-drop-last", func(x *nodeshare.GetRangeResult) bool { x.Proof.ShareProofs = x.Proof.ShareProofs[:np-1]; return true })
		mut("sp-append-copy", func(x *nodeshare.GetRangeResult) bool {
			x.Proof.ShareProofs = append(x.Proof.ShareProofs, c12CloneRR(honest).Proof.ShareProofs[np-1])
			return true
		})
		if np > 1 {
			mut("sp-swap", func(x *nodeshare.GetRangeResult) bool {
				x.Proof.ShareProofs[0], x.Proof.ShareProofs[np-1] = x.Proof.ShareProofs[np-1], x.Proof.ShareProofs[0]
				return true
			})
			mut("last-row-dropped-consistently", func(x *nodeshare.GetRangeResult) bool {
				l := x.Proof.ShareProofs[np-1]
				cnt := int(l.End - l.Start)
				x.Shares = x.Shares[:n-cnt]
				x.Proof.Data = x.Proof.Data[:n-cnt]
				x.Proof.ShareProofs = x.Proof.ShareProofs[:np-1]
				x.Proof.RowProof.Proofs = x.Proof.RowProof.Proofs[:np-1]
				x.Proof.RowProof.RowRoots = x.Proof.RowProof.RowRoots[:np-1]
				x.Proof.RowProof.EndRow--
				return true
			})
		}
		msp := func(op string, f func(q *tmproto.NMTProof) bool) {
			mut("sp/"+op, func(x *nodeshare.GetRangeResult) bool { return f(x.Proof.ShareProofs[r.Intn(np)]) })
		}
		msp("range-shift+1", func(q *tmproto.NMTProof) bool { q.Start++; q.End++; return true })
		msp("range-shift-1", func(q *tmproto.NMTProof) bool { q.Start--; q.End--; return true })
		msp("range-widen-end", func(q *tmproto.NMTProof) bool { q.End++; return true })
		msp("range-widen-start", func(q *tmproto.NMTProof) bool { q.Start--; return true })
		msp("range-narrow-end", func(q *tmproto.NMTProof) bool { q.End--; return true })
		msp("range-empty", func(q *tmproto.NMTProof) bool { q.End = q.Start; return true })
		msp("range-inverted", func(q *tmproto.NMTProof) bool { q.Start, q.End = q.End, q.Start; return true })
		msp("range-negative", func(q *tmproto.NMTProof) bool { q.Start = -1; return true })
		msp("range-huge", func(q *tmproto.NMTProof) bool { q.End = math.MaxInt32; return true })
		msp("range-overflow", func(q *tmproto.NMTProof) bool { q.Start, q.End = math.MinInt32, math.MaxInt32; return true })
		msp("nodes-nil", func(q *tmproto.NMTProof) bool {
			if len(q.Nodes) == 0 {
				return false
			}
			q.Nodes = nil
			return true
		})
		msp("node-drop-first", func(q *tmproto.NMTProof) bool {
			if len(q.Nodes) == 0 {
				return false
			}
			q.Nodes = q.Nodes[1:]
			return true
		})
		msp("node-drop-last", func(q *tmproto.NMTProof) bool {
			if len(q.Nodes) == 0 {
				return false
			}
			q.Nodes = q.Nodes[:len(q.Nodes)-1]
			return true
		})
		msp("node-append-copy", func(q *tmproto.NMTProof) bool {
			if len(q.Nodes) == 0 {
				return false
			}
			q.Nodes = append(q.Nodes, c12clone(q.Nodes[len(q.Nodes)-1]))
			return true
		})
		msp("node-append-random", func(q *tmproto.NMTProof) bool { q.Nodes = append(q.Nodes, r.Bytes(90)); return true })
		msp("node-swap", func(q *tmproto.NMTProof) bool {
			if len(q.Nodes) < 2 {
				return false
			}
			q.Nodes[0], q.Nodes[1] = q.Nodes[1], q.Nodes[0]
			return true
		})
		msp("node-bitflip", func(q *tmproto.NMTProof) bool {
			if len(q.Nodes) == 0 {
				return false
			}
			q.Nodes[0] = c12flip(r, q.Nodes[0])
			return true
		})
		msp("node-nil", func(q *tmproto.NMTProof) bool {
			if len(q.Nodes) == 0 {
				return false
			}
			q.Nodes[0] = nil
			return true
		})
		msp("node-short", func(q *tmproto.NMTProof) bool {
			if len(q.Nodes) == 0 {
				return false
			}
			q.Nodes[0] = q.Nodes[0][:7]
			return true
		})
		msp("leafhash-add", func(q *tmproto.NMTProof) bool { q.LeafHash = r.Bytes(90); return true })
		// --- namespace
		mut("nsid-other", func(x *nodeshare.GetRangeResult) bool {
			x.Proof.NamespaceID = c12flip(r, x.Proof.NamespaceID)
			return true
		})
		mut("nsid-nil", func(x *nodeshare.GetRangeResult) bool { x.Proof.NamespaceID = nil; return true })
		mut("nsversion-other", func(x *nodeshare.GetRangeResult) bool { x.Proof.NamespaceVersion++; return true })
		mut("nsversion-huge", func(x *nodeshare.GetRangeResult) bool { x.Proof.NamespaceVersion = math.MaxUint32; return true })
		// --- row proof
		mut("rp-rowroots-drop-last", func(x *nodeshare.GetRangeResult) bool {
			x.Proof.RowProof.RowRoots = x.Proof.RowProof.RowRoots[:np-1]
			return true
		})
		mut("rp-rowroots-nil", func(x *nodeshare.GetRangeResult) bool { x.Proof.RowProof.RowRoots = nil; return true })
		mut("rp-rowroot-bitflip", func(x *nodeshare.GetRangeResult) bool {
			i := r.Intn(np)
			x.Proof.RowProof.RowRoots[i] = c12flip(r, x.Proof.RowProof.RowRoots[i])
			return true
		})
		mut("rp-rowroot-nil", func(x *nodeshare.GetRangeResult) bool { x.Proof.RowProof.RowRoots[r.Intn(np)] = nil; return true })
		mut("rp-rowroot-short", func(x *nodeshare.GetRangeResult) bool {
			i := r.Intn(np)
			x.Proof.RowProof.RowRoots[i] = x.Proof.RowProof.RowRoots[i][:10]
			return true
		})
		mut("rp-rowroot-is-other-row", func(x *nodeshare.GetRangeResult) bool {
			i := r.Intn(np)
			o := (int(x.Proof.RowProof.Proofs[i].Index) + 1) % (2 * w)
			x.Proof.RowProof.RowRoots[i] = c12clone(blk.Sq.Roots.RowRoots[o])
			return true
		})
		mut("rp-proofs-drop-last", func(x *nodeshare.GetRangeResult) bool {
			x.Proof.RowProof.Proofs = x.Proof.RowProof.Proofs[:np-1]
			return true
		})
		mut("rp-proofs-nil", func(x *nodeshare.GetRangeResult) bool { x.Proof.RowProof.Proofs = nil; return true })
		mut("rp-proofs-entry-nil", func(x *nodeshare.GetRangeResult) bool { x.Proof.RowProof.Proofs[r.Intn(np)] = nil; return true })
		if np > 1 {
			mut("rp-proofs-swap", func(x *nodeshare.GetRangeResult) bool {
				p := x.Proof.RowProof.Proofs
				p[0], p[np-1] = p[np-1], p[0]
				return true
			})
		}
		mrp := func(op string, f func(q *merkle.Proof) bool) {
			mut("rp-proof/"+op, func(x *nodeshare.GetRangeResult) bool { return f(x.Proof.RowProof.Proofs[r.Intn(np)]) })
		}
		mrp("index+1", func(q *merkle.Proof) bool { q.Index++; return true })
		mrp("index-negative", func(q *merkle.Proof) bool { q.Index = -1; return true })
		mrp("index-huge", func(q *merkle.Proof) bool { q.Index = math.MaxInt64; return true })
		mrp("total+1", func(q *merkle.Proof) bool { q.Total++; return true })
		mrp("total-0", func(q *merkle.Proof) bool { q.Total = 0; return true })
		mrp("total-negative", func(q *merkle.Proof) bool { q.Total = -1; return true })
		mrp("total-huge", func(q *merkle.Proof) bool { q.Total = math.MaxInt64; return true })
		mrp("aunts-drop-last", func(q *merkle.Proof) bool {
			if len(q.Aunts) == 0 {
				return false
			}
			q.Aunts = q.Aunts[:len(q.Aunts)-1]
			return true
		})
		mrp("aunts-append-copy", func(q *merkle.Proof) bool {
			if len(q.Aunts) == 0 {
				return false
			}
			q.Aunts = append(q.Aunts, c12clone(q.Aunts[0]))
			return true
		})
		mrp("aunts-swap", func(q *merkle.Proof) bool {
			if len(q.Aunts) < 2 {
				return false
			}
			q.Aunts[0], q.Aunts[1] = q.Aunts[1], q.Aunts[0]
			return true
		})
		mrp("aunts-nil", func(q *merkle.Proof) bool { q.Aunts = nil; return true })
		mrp("aunt-bitflip", func(q *merkle.Proof) bool {
			if len(q.Aunts) == 0 {
				return false
			}
			q.Aunts[0] = c12flip(r, q.Aunts[0])
			return true
		})
		mrp("leafhash-bitflip", func(q *merkle.Proof) bool { q.LeafHash = c12flip(r, q.LeafHash); return true })
		mrp("leafhash-nil", func(q *merkle.Proof) bool { q.LeafHash = nil; return true })
		mut("rp-rows-shifted", func(x *nodeshare.GetRangeResult) bool {
			x.Proof.RowProof.StartRow++
			x.Proof.RowProof.EndRow++
			return true
		})
		mut("rp-endrow+1", func(x *nodeshare.GetRangeResult) bool { x.Proof.RowProof.EndRow++; return true })
		mut("rp-startrow>endrow", func(x *nodeshare.GetRangeResult) bool {
			x.Proof.RowProof.StartRow = x.Proof.RowProof.EndRow + 1
			return true
		})
		mut("rp-endrow-maxuint32", func(x *nodeshare.GetRangeResult) bool {
			x.Proof.RowProof.StartRow, x.Proof.RowProof.EndRow = 0, math.MaxUint32
			return true
		})

		// --- JSON form
		for i := 0; i < vkit.Scale(4, 16); i++ {
			mb, mop := vkit.MutateBytes(r, k.hjson)
			var x nodeshare.GetRangeResult
			var derr error
			if pn, site := vkit.Recover(func() { derr = json.Unmarshal(mb, &x) }); pn != nil {
				c.tried("range", "json-decode", "", blk.Block)
				run.Violation("C12 GetRangeResult JSON decode panics @"+site, map[string]any{"panic": fmt.Sprint(pn), "json_len": len(mb), "op": mop, "seed": vkit.Seed()})
				continue
			}
			if derr != nil {
				run.Count("range/json/undecodable", 1)
				continue
			}
			run.Count("range/json/decoded", 1)
			k.try("json/"+mop, &x, root)
		}
		for _, key := range []string{`"share_proofs":[`, `"proofs":[`} { // a null where a proof object is expected
			if i := bytes.Index(k.hjson, []byte(key+"{")); i >= 0 {
				j := i + len(key)
				if e := bytes.IndexByte(k.hjson[j:], '}'); e > 0 {
					js := append(append(append([]byte{}, k.hjson[:j]...), []byte("null")...), k.hjson[j+e+1:]...)
					var x nodeshare.GetRangeResult
					if json.Unmarshal(js, &x) == nil {
						k.try("json-null-proof-entry", &x, root)
					}
				}
			}
		}
		for _, js := range []string{`{"Shares":[],"Proof":null}`, `{"Shares":null}`, `{}`} {
			var x nodeshare.GetRangeResult
			if json.Unmarshal([]byte(js), &x) == nil {
				k.try("json-proof-null", &x, root)
			}
		}
	}
}
