package checks

import (
	"bytes"
	"context"
	"encoding/json"
	"fmt"
	"io"
	"reflect"
	"sort"
	"sync"
	"sync/atomic"
	"testing"

	"github.com/ipfs/go-cid"
	pubsub "github.com/libp2p/go-libp2p-pubsub"
	pubsubpb "github.com/libp2p/go-libp2p-pubsub/pb"
	"github.com/libp2p/go-libp2p/core/peer"
	mh "github.com/multiformats/go-multihash"

	libshare "github.com/celestiaorg/go-square/v4/share"
	"github.com/celestiaorg/nmt"
	"github.com/celestiaorg/rsmt2d"

	"github.com/celestiaorg/celestia-node/share"
	"github.com/celestiaorg/celestia-node/share/eds"
	"github.com/celestiaorg/celestia-node/share/shwap"
	"github.com/celestiaorg/celestia-node/share/shwap/p2p/bitswap"
	"github.com/celestiaorg/celestia-node/share/shwap/p2p/shrex/shrexsub"
	shrexsubpb "github.com/celestiaorg/celestia-node/share/shwap/p2p/shrex/shrexsub/pb"
	"github.com/celestiaorg/celestia-node/share/shwap/pb"
	"github.com/celestiaorg/celestia-node/zz_verif/vkit"
)

// C18 — share identifiers and containers survive the wire unchanged or are refused.
//
// Oracles (each is one clause of the statement):
//
//	R  round trip     a value built by the node's own constructors / producers either is refused by the
//	                  encoder (error) or decode(encode(x)) succeeds and equals x field by field
//	                  (equality is computed from exported fields, never through the codec under test);
//	B  bounds         ID.Verify(size) == nil ⇒ every addressed position lies inside a square of that size
//	                  (and, for completeness, in-range identifiers of protocol-sized squares are accepted);
//	A  arbitrary      every decoder returns (value, nil) or an error on random / mutated bytes, never
//	   bytes          panics; fixed-width ID decoders refuse every other length, the value they return
//	                  passes its own Validate and re-encodes to exactly the input; a decoded container
//	                  has well-formed (512-byte) shares and survives its own encoder unchanged.
//
// Not demanded (protobuf is not a canonical format): encode(decode(b)) == b for containers, rejection
// of unknown protobuf fields, rejection of a stream that ends right after a length prefix.

type c18 struct {
	run *vkit.Run
	n   atomic.Int64
}

func (c *c18) sample(v map[string]any) {
	if n := c.n.Add(1); n%7919 == 1 {
		v["n"] = n
		c.run.Sample(v)
	}
}

func c18hex(b []byte) string {
	if len(b) > 96 {
		return fmt.Sprintf("%x…(%d bytes)", b[:96], len(b))
	}
	return fmt.Sprintf("%x", b)
}

// ---------------------------------------------------------------------------------------------
// generic codec descriptions

// c18idc describes one fixed-width identifier encoding.
type c18idc[T any] struct {
	name       string
	size       int
	fromBinary func([]byte) (T, error)
	readFrom   func(io.Reader) (T, int64, error)
	marshal    func(T) ([]byte, error)
	writeTo    func(T, io.Writer) (int64, error)
	validate   func(T) error
	equal      func(a, b T) bool
	desc       func(T) string

	mu    sync.Mutex
	valid [][]byte // encodings of constructor-made values: seeds for mutation
}

// c18idRoundTrip applies oracle R to a value returned by the type's constructor without error.
func c18idRoundTrip[T any](c *c18, cd *c18idc[T], v T) {
	c.run.Eval(1)
	c.run.Count("id/"+cd.name+"/constructed", 1)
	c.run.Distinct("id|" + cd.name + "|" + cd.desc(v))
	c.sample(map[string]any{"kind": "id/" + cd.name, "value": cd.desc(v), "op": "round-trip"})
	var enc []byte
	var err error
	if p, site := vkit.Recover(func() { enc, err = cd.marshal(v) }); p != nil {
		c.run.Violation("C18 id/"+cd.name+" encoder panics @"+site, map[string]any{"panic": fmt.Sprint(p), "value": cd.desc(v)})
		return
	}
	if err != nil {
		c.run.Count("id/"+cd.name+"/encode-refused", 1)
		return
	}
	if len(enc) != cd.size {
		c.run.Violation("C18 id/"+cd.name+" encodes to the wrong length", map[string]any{"value": cd.desc(v), "len": len(enc), "want": cd.size})
		return
	}
	var dec T
	if p, site := vkit.Recover(func() { dec, err = cd.fromBinary(enc) }); p != nil {
		c.run.Violation("C18 id/"+cd.name+" decoder panics @"+site, map[string]any{"panic": fmt.Sprint(p), "bytes": c18hex(enc)})
		return
	}
	if err != nil || !cd.equal(v, dec) {
		got := "error: " + fmt.Sprint(err)
		if err == nil {
			got = cd.desc(dec)
		}
		c.run.Violation("C18 id/"+cd.name+" binary round trip is not the identity", map[string]any{
			"value": cd.desc(v), "encoded": c18hex(enc), "decoded": got,
			"why": "the encoder returned no error, yet decode(encode(x)) != x: a field was silently altered"})
		return
	}
	// the stream form (WriteTo / ReadFrom) used by shrex requests
	var buf bytes.Buffer
	var sdec T
	if p, site := vkit.Recover(func() {
		if _, err = cd.writeTo(v, &buf); err == nil {
			sdec, _, err = cd.readFrom(bytes.NewReader(buf.Bytes()))
		}
	}); p != nil {
		c.run.Violation("C18 id/"+cd.name+" stream codec panics @"+site, map[string]any{"panic": fmt.Sprint(p), "value": cd.desc(v)})
		return
	}
	if err != nil || !cd.equal(v, sdec) || !bytes.Equal(buf.Bytes(), enc) {
		c.run.Violation("C18 id/"+cd.name+" stream round trip is not the identity", map[string]any{
			"value": cd.desc(v), "written": c18hex(buf.Bytes()), "err": fmt.Sprint(err)})
		return
	}
	c.run.Count("id/"+cd.name+"/round-trip-ok", 1)
	cd.mu.Lock()
	if len(cd.valid) < 200000 {
		cd.valid = append(cd.valid, enc)
	}
	cd.mu.Unlock()
}

// c18idBytes applies oracle A to one byte string.
func c18idBytes[T any](c *c18, cd *c18idc[T], b []byte, op string) {
	c.run.Eval(1)
	c.run.Count("id/"+cd.name+"/bytes/"+op, 1)
	if op != "random" {
		c.run.Distinct("idbytes|" + cd.name + "|" + string(b))
	}
	var v T
	var err error
	if p, site := vkit.Recover(func() { v, err = cd.fromBinary(b) }); p != nil {
		c.run.Violation("C18 id/"+cd.name+" decoder panics @"+site, map[string]any{"panic": fmt.Sprint(p), "bytes": c18hex(b)})
		return
	}
	// stream reader on the same bytes: must agree with the binary decoder, must not panic
	var sv T
	var serr error
	if p, site := vkit.Recover(func() { sv, _, serr = cd.readFrom(bytes.NewReader(b)) }); p != nil {
		c.run.Violation("C18 id/"+cd.name+" stream decoder panics @"+site, map[string]any{"panic": fmt.Sprint(p), "bytes": c18hex(b)})
		return
	}
	if len(b) < cd.size && serr == nil {
		c.run.Violation("C18 id/"+cd.name+" stream decoder accepts a short input", map[string]any{"bytes": c18hex(b), "decoded": cd.desc(sv)})
	}
	if len(b) == cd.size && (serr == nil) != (err == nil) {
		c.run.Violation("C18 id/"+cd.name+" stream and binary decoders disagree", map[string]any{"bytes": c18hex(b), "binary_err": fmt.Sprint(err), "stream_err": fmt.Sprint(serr)})
	}
	if err != nil {
		c.run.Count("id/"+cd.name+"/bytes-rejected", 1)
		return
	}
	c.run.Count("id/"+cd.name+"/bytes-decoded", 1)
	if len(b) != cd.size {
		c.run.Violation("C18 id/"+cd.name+" decoder accepts an input of the wrong length", map[string]any{"bytes": c18hex(b), "len": len(b), "want": cd.size, "decoded": cd.desc(v)})
		return
	}
	if verr := cd.validate(v); verr != nil {
		c.run.Violation("C18 id/"+cd.name+" decoder accepts a value its own Validate rejects", map[string]any{
			"bytes": c18hex(b), "decoded": cd.desc(v), "validate": verr.Error()})
		return
	}
	re, err := cd.marshal(v)
	if err != nil || !bytes.Equal(re, b) {
		c.run.Violation("C18 id/"+cd.name+" decode→encode changes the bytes", map[string]any{"bytes": c18hex(b), "decoded": cd.desc(v), "reencoded": c18hex(re), "err": fmt.Sprint(err)})
	}
}

// c18idFuzz feeds random bytes of every length 0…2×nominal and mutations of valid encodings.
// c18idRetain: identifiers decoded from a stream stay what they were decoded as while further
// identifiers are decoded (a server decodes the next request while the previous one is being served;
// a decoder that hands out memory it reuses would change an identifier after the fact). The retained
// values are judged by re-encoding them: their bytes must still be the bytes they were decoded from.
func c18idRetain[T any](c *c18, cd *c18idc[T]) {
	cd.mu.Lock()
	encs := c18spread(cd.valid, 96)
	cd.mu.Unlock()
	if len(encs) < 2 {
		return
	}
	vals := make([]T, len(encs))
	ok := make([]bool, len(encs))
	for i, e := range encs {
		if p, _ := vkit.Recover(func() {
			v, _, err := cd.readFrom(bytes.NewReader(e))
			vals[i], ok[i] = v, err == nil
		}); p != nil {
			ok[i] = false
		}
	}
	for i, e := range encs {
		if !ok[i] {
			continue
		}
		c.run.Eval(1)
		c.run.Count("id/"+cd.name+"/retained-while-decoding-others", 1)
		var again []byte
		var err error
		if p, _ := vkit.Recover(func() { again, err = cd.marshal(vals[i]) }); p != nil || err != nil || !bytes.Equal(again, e) {
			c.run.Violation("C18 id/"+cd.name+" decoded from a stream changes while later identifiers are decoded", map[string]any{
				"decoded_from": c18hex(e), "re-encodes_to": c18hex(again), "err": fmt.Sprint(err), "decoded_after_it": len(encs) - i - 1,
				"why": "the value returned by ReadFrom no longer encodes to the bytes it was read from: it shares memory with the decoder"})
			return
		}
	}
}

func c18idFuzz[T any](c *c18, cd *c18idc[T], r *vkit.RNG) {
	c18idRetain(c, cd)
	per := vkit.Scale(60, 600)
	for l := 0; l <= 2*cd.size; l++ {
		n := per
		if l == cd.size {
			n = per * 40
		}
		for k := 0; k < n; k++ {
			c18idBytes(c, cd, r.Bytes(l), "random")
		}
	}
	for _, fill := range []byte{0x00, 0xff, 0x01, 0x80} {
		for l := 0; l <= 2*cd.size; l++ {
			c18idBytes(c, cd, bytes.Repeat([]byte{fill}, l), "constant")
		}
	}
	cd.mu.Lock()
	seeds := c18spread(cd.valid, 48)
	cd.mu.Unlock()
	for _, s := range seeds {
		for k := 0; k < vkit.Scale(200, 2000); k++ {
			mb, _ := vkit.MutateBytes(r, s)
			c18idBytes(c, cd, mb, "mutated")
		}
		// every single-field extreme
		for i := 0; i < len(s); i++ {
			for _, bv := range []byte{0x00, 0xff} {
				m := append([]byte(nil), s...)
				m[i] = bv
				c18idBytes(c, cd, m, "byte-extreme")
			}
		}
	}
}

// c18spread picks up to n evenly spaced elements.
func c18spread(all [][]byte, n int) [][]byte {
	if len(all) <= n {
		return all
	}
	out := make([][]byte, 0, n)
	for i := 0; i < n; i++ {
		out = append(out, all[i*(len(all)-1)/(n-1)])
	}
	return out
}

// verdict of oracle B for one (identifier, size) pair.
func (c *c18) bounds(kind, desc string, size int, verr error, inside, mustAccept bool) {
	c.run.Eval(1)
	c.run.Count("id/"+kind+"/verify-calls", 1)
	if verr == nil {
		c.run.Count("id/"+kind+"/verify-accepted", 1)
		if !inside {
			c.run.Violation("C18 id/"+kind+" Verify accepts a position outside the square", map[string]any{"id": desc, "size": size})
		}
		return
	}
	if mustAccept {
		c.run.Violation("C18 id/"+kind+" Verify refuses an in-range identifier", map[string]any{"id": desc, "size": size, "err": verr.Error()})
	}
}

func c18eid(h uint64) shwap.EdsID {
	id, _ := shwap.NewEdsID(h)
	return id
}

func c18nsClasses(r *vkit.RNG) map[string]libshare.Namespace {
	return map[string]libshare.Namespace{
		"user-a":                   vkit.MkNamespace(uint64(r.Range(1000, 1<<30))),
		"user-max":                 libshare.MustNewV0Namespace(bytes.Repeat([]byte{0xff}, libshare.NamespaceVersionZeroIDSize)),
		"tx":                       libshare.TxNamespace,
		"pfb":                      libshare.PayForBlobNamespace,
		"primary-reserved-padding": libshare.PrimaryReservedPaddingNamespace,
		"min-secondary-reserved":   libshare.MinSecondaryReservedNamespace,
		"tail-padding":             libshare.TailPaddingNamespace,
		"parity":                   libshare.ParitySharesNamespace,
	}
}

func c18sortedKeys[V any](m map[string]V) []string {
	ks := make([]string, 0, len(m))
	for k := range m {
		ks = append(ks, k)
	}
	sort.Strings(ks)
	return ks
}

// ---------------------------------------------------------------------------------------------

func TestC18(t *testing.T) {
	run := vkit.NewRun(t, "C18", "exploration",
		"cases = (identifier type × height × index × square size × namespace class, built by the node's constructors) ∪ (container "+
			"value from a generated square × codec ∈ {protobuf, length-delimited stream, JSON}) ∪ (byte string: random of every length "+
			"0…2× nominal, mutation of a valid encoding, structured JSON mutation) fed to every decoder; distinct = distinct identifier "+
			"values / container values / non-random byte strings; non-trivial = constructor-made value or mutation of a valid encoding")
	defer run.Finish()
	c := &c18{run: run}
	rng := vkit.NewRNG(vkit.Seed(), "C18")

	var wg sync.WaitGroup
	for _, f := range []func(){
		func() { c.ids(rng.Split("ids")) },
		func() { c.coords(rng.Split("coords")) },
		func() { c.cids(rng.Split("cids")) },
		func() { c.notifications(rng.Split("shrexsub")) },
		func() { c.containers(rng.Split("containers")) },
	} {
		wg.Add(1)
		go func() { defer wg.Done(); f() }()
	}
	wg.Wait()

	for _, k := range []string{"EdsID", "RowID", "SampleID", "NamespaceDataID", "RowNamespaceDataID", "RangeNamespaceDataID", "RangeNamespaceDataIDV0"} {
		run.Require("id/"+k+"/constructed", 20)
		run.Require("id/"+k+"/bytes-decoded", 20)
		run.Require("id/"+k+"/bytes-rejected", 20)
	}
	for _, k := range []string{"RowID", "SampleID", "RowNamespaceDataID", "RangeNamespaceDataID"} {
		run.Require("id/"+k+"/verify-accepted", 20)
	}
	for _, k := range []string{"row", "sample", "rnd", "range"} {
		run.Require("cid/"+k+"/constructed", 20)
		run.Require("cid/"+k+"/fuzz-decoded", 5)
	}
	run.Require("shrexsub/delivered-equal", 10)
	run.Require("shrexsub/rejected", 10)
	for _, k := range []string{"sample/pb", "sample/stream", "sample/json", "row/pb", "row/stream", "row/json", "rnd/pb", "rnd/stream", "rnd/json",
		"nd/stream", "nd/json", "range/pb", "range/stream", "range/json"} {
		run.Require("container/"+k+"/round-trip-ok", 10)
		run.Require("container/"+k+"/fuzz-decoded", 5)
		run.Require("container/"+k+"/fuzz-rejected", 5)
	}
	for _, k := range []string{"rnd/inclusion", "rnd/absence", "rnd/nil-proof", "range/0-proofs", "range/1-proofs", "range/2-proofs", "row/left", "row/right", "row/both"} {
		run.Require("values/"+k, 5)
	}
	run.Assume("identifiers are the ones the node's constructors return for square sizes up to the protocol maximum (ODS 512 / EDS 1024)")
	run.Assume("containers are the ones honest producers build from a generated square; protobuf is not required to be canonical")
}

// ---------------------------------------------------------------------------------------------
// identifiers

func (c *c18) ids(r *vkit.RNG) {
	heights := []uint64{0, 1, 2, 1<<32 - 1, 1 << 32, 1<<64 - 1}
	maxEDS := 2 * share.MaxSquareSize
	maxODS := share.MaxSquareSize
	edsSizes := []int{0, 1, 2, 3, 4, 8, 16, 64, 256, 512, 1024, 2048, 1 << 17, -1, -4}
	odsSizes := []int{0, 1, 2, 3, 4, 8, 16, 64, 128, 255, 256, 257, 512, 1024}
	idxFor := func(size int) []int {
		l := []int{-1 << 16, -1, 0, 1, size/2 - 1, size / 2, size - 1, size, size + 1, 255, 256, 65535, 65536, 65537, 1 << 31}
		for k := 0; k < 4; k++ {
			l = append(l, r.Intn(max(size, 1)))
		}
		return l
	}
	nss := c18nsClasses(r)
	nsNames := c18sortedKeys(nss)
	nsEq := func(a, b libshare.Namespace) bool { return bytes.Equal(a.Bytes(), b.Bytes()) }

	// --- EdsID
	edsCd := &c18idc[shwap.EdsID]{name: "EdsID", size: shwap.EdsIDSize,
		fromBinary: shwap.EdsIDFromBinary,
		readFrom:   func(rd io.Reader) (v shwap.EdsID, n int64, err error) { n, err = v.ReadFrom(rd); return },
		marshal:    func(v shwap.EdsID) ([]byte, error) { return v.MarshalBinary() },
		writeTo:    func(v shwap.EdsID, w io.Writer) (int64, error) { return v.WriteTo(w) },
		validate:   func(v shwap.EdsID) error { return v.Validate() },
		equal:      func(a, b shwap.EdsID) bool { return a.Height() == b.Height() },
		desc:       func(v shwap.EdsID) string { return fmt.Sprintf("EdsID{height=%d}", v.Height()) },
	}
	hs := append([]uint64(nil), heights...)
	for k := 0; k < 40; k++ {
		hs = append(hs, r.Uint64()>>uint(r.Intn(64)))
	}
	for _, h := range hs {
		id, err := shwap.NewEdsID(h)
		if (err == nil) != (h != 0) {
			c.run.Violation("C18 id/EdsID constructor verdict wrong", map[string]any{"height": h, "err": fmt.Sprint(err)})
		}
		if err == nil {
			c18idRoundTrip(c, edsCd, id)
		}
	}
	c18idFuzz(c, edsCd, r.Split("eds"))

	// --- RowID
	rowCd := &c18idc[shwap.RowID]{name: "RowID", size: shwap.RowIDSize,
		fromBinary: shwap.RowIDFromBinary,
		readFrom:   func(rd io.Reader) (v shwap.RowID, n int64, err error) { n, err = v.ReadFrom(rd); return },
		marshal:    func(v shwap.RowID) ([]byte, error) { return v.MarshalBinary() },
		writeTo:    func(v shwap.RowID, w io.Writer) (int64, error) { return v.WriteTo(w) },
		validate:   func(v shwap.RowID) error { return v.Validate() },
		equal:      func(a, b shwap.RowID) bool { return a.Height() == b.Height() && a.RowIndex == b.RowIndex },
		desc:       func(v shwap.RowID) string { return fmt.Sprintf("RowID{height=%d row=%d}", v.Height(), v.RowIndex) },
	}
	for _, h := range heights {
		for _, size := range edsSizes {
			for _, idx := range idxFor(size) {
				id := shwap.RowID{EdsID: c18eid(h), RowIndex: idx}
				inside := size > 0 && idx >= 0 && idx < size
				c.bounds("RowID", rowCd.desc(id), size, id.Verify(size), inside, inside && h > 0 && size <= maxEDS)
				if made, err := shwap.NewRowID(h, idx, size); err == nil {
					if !inside {
						c.run.Violation("C18 id/RowID constructor accepts a position outside the square", map[string]any{"id": rowCd.desc(made), "size": size})
					} else if size <= maxEDS {
						c18idRoundTrip(c, rowCd, made)
					} else {
						c.run.Count("id/RowID/beyond-protocol-size-not-judged", 1)
					}
				}
			}
		}
	}
	c18idFuzz(c, rowCd, r.Split("row"))

	// --- SampleID
	smpCd := &c18idc[shwap.SampleID]{name: "SampleID", size: shwap.SampleIDSize,
		fromBinary: shwap.SampleIDFromBinary,
		readFrom:   func(rd io.Reader) (v shwap.SampleID, n int64, err error) { n, err = v.ReadFrom(rd); return },
		marshal:    func(v shwap.SampleID) ([]byte, error) { return v.MarshalBinary() },
		writeTo:    func(v shwap.SampleID, w io.Writer) (int64, error) { return v.WriteTo(w) },
		validate:   func(v shwap.SampleID) error { return v.Validate() },
		equal: func(a, b shwap.SampleID) bool {
			return a.Height() == b.Height() && a.RowIndex == b.RowIndex && a.ShareIndex == b.ShareIndex
		},
		desc: func(v shwap.SampleID) string {
			return fmt.Sprintf("SampleID{height=%d row=%d col=%d}", v.Height(), v.RowIndex, v.ShareIndex)
		},
	}
	for _, h := range heights {
		for _, size := range edsSizes {
			idx := idxFor(size)
			for _, row := range idx {
				for _, col := range idx {
					if row != col && row > 1 && col > 1 && row < size-1 && col < size-1 && !r.Chance(1, 4) {
						continue
					}
					id := shwap.SampleID{RowID: shwap.RowID{EdsID: c18eid(h), RowIndex: row}, ShareIndex: col}
					inside := size > 0 && row >= 0 && row < size && col >= 0 && col < size
					c.bounds("SampleID", smpCd.desc(id), size, id.Verify(size), inside, inside && h > 0 && size <= maxEDS)
					if made, err := shwap.NewSampleID(h, shwap.SampleCoords{Row: row, Col: col}, size); err == nil {
						if !inside {
							c.run.Violation("C18 id/SampleID constructor accepts a position outside the square", map[string]any{"id": smpCd.desc(made), "size": size})
						} else if size <= maxEDS {
							c18idRoundTrip(c, smpCd, made)
							c.sampleIDJSON(made)
						}
					}
				}
			}
		}
	}
	c18idFuzz(c, smpCd, r.Split("sample"))

	// --- NamespaceDataID
	ndCd := &c18idc[shwap.NamespaceDataID]{name: "NamespaceDataID", size: shwap.NamespaceDataIDSize,
		fromBinary: shwap.NamespaceDataIDFromBinary,
		readFrom:   func(rd io.Reader) (v shwap.NamespaceDataID, n int64, err error) { n, err = v.ReadFrom(rd); return },
		marshal:    func(v shwap.NamespaceDataID) ([]byte, error) { return v.MarshalBinary() },
		writeTo:    func(v shwap.NamespaceDataID, w io.Writer) (int64, error) { return v.WriteTo(w) },
		validate:   func(v shwap.NamespaceDataID) error { return v.Validate() },
		equal: func(a, b shwap.NamespaceDataID) bool {
			return a.Height() == b.Height() && nsEq(a.DataNamespace, b.DataNamespace)
		},
		desc: func(v shwap.NamespaceDataID) string {
			return fmt.Sprintf("NamespaceDataID{height=%d ns=%x}", v.Height(), v.DataNamespace.Bytes())
		},
	}
	for _, h := range heights {
		for _, nn := range nsNames {
			ns := nss[nn]
			made, err := shwap.NewNamespaceDataID(h, ns)
			want := h > 0 && ns.IsUsableNamespace()
			if (err == nil) != want {
				c.run.Violation("C18 id/NamespaceDataID constructor verdict wrong ns="+nn, map[string]any{"height": h, "err": fmt.Sprint(err)})
			}
			if err == nil {
				c18idRoundTrip(c, ndCd, made)
			}
		}
	}
	for k := 0; k < 40; k++ {
		if made, err := shwap.NewNamespaceDataID(1+r.Uint64()>>1, vkit.MkNamespace(r.Uint64()|1<<12)); err == nil {
			c18idRoundTrip(c, ndCd, made)
		}
	}
	c18idFuzz(c, ndCd, r.Split("nd"))

	// --- RowNamespaceDataID
	rndCd := &c18idc[shwap.RowNamespaceDataID]{name: "RowNamespaceDataID", size: shwap.RowNamespaceDataIDSize,
		fromBinary: shwap.RowNamespaceDataIDFromBinary,
		readFrom:   func(rd io.Reader) (v shwap.RowNamespaceDataID, n int64, err error) { n, err = v.ReadFrom(rd); return },
		marshal:    func(v shwap.RowNamespaceDataID) ([]byte, error) { return v.MarshalBinary() },
		writeTo:    func(v shwap.RowNamespaceDataID, w io.Writer) (int64, error) { return v.WriteTo(w) },
		validate:   func(v shwap.RowNamespaceDataID) error { return v.Validate() },
		equal: func(a, b shwap.RowNamespaceDataID) bool {
			return a.Height() == b.Height() && a.RowIndex == b.RowIndex && nsEq(a.DataNamespace, b.DataNamespace)
		},
		desc: func(v shwap.RowNamespaceDataID) string {
			return fmt.Sprintf("RowNamespaceDataID{height=%d row=%d ns=%x}", v.Height(), v.RowIndex, v.DataNamespace.Bytes())
		},
	}
	for _, h := range heights {
		for _, size := range edsSizes {
			for _, idx := range idxFor(size) {
				for _, nn := range nsNames {
					ns := nss[nn]
					id := shwap.RowNamespaceDataID{RowID: shwap.RowID{EdsID: c18eid(h), RowIndex: idx}, DataNamespace: ns}
					inside := size > 0 && idx >= 0 && idx < size
					c.bounds("RowNamespaceDataID", rndCd.desc(id), size, id.Verify(size), inside, inside && h > 0 && size <= maxEDS && ns.IsUsableNamespace())
					if made, err := shwap.NewRowNamespaceDataID(h, idx, ns, size); err == nil {
						switch {
						case !inside:
							c.run.Violation("C18 id/RowNamespaceDataID constructor accepts a position outside the square", map[string]any{"id": rndCd.desc(made), "size": size})
						case !ns.IsUsableNamespace():
							c.run.Violation("C18 id/RowNamespaceDataID constructor accepts a non-data namespace ns="+nn, map[string]any{"id": rndCd.desc(made)})
						case size <= maxEDS:
							c18idRoundTrip(c, rndCd, made)
						}
					}
				}
			}
		}
	}
	c18idFuzz(c, rndCd, r.Split("rnd"))

	// --- RangeNamespaceDataID (32-bit fields) and its V0 (16-bit fields, the bitswap CID payload)
	rngCd := &c18idc[shwap.RangeNamespaceDataID]{name: "RangeNamespaceDataID", size: shwap.RangeNamespaceDataIDSize,
		fromBinary: shwap.RangeNamespaceDataIDFromBinary,
		readFrom:   func(rd io.Reader) (v shwap.RangeNamespaceDataID, n int64, err error) { n, err = v.ReadFrom(rd); return },
		marshal:    func(v shwap.RangeNamespaceDataID) ([]byte, error) { return v.MarshalBinary() },
		writeTo:    func(v shwap.RangeNamespaceDataID, w io.Writer) (int64, error) { return v.WriteTo(w) },
		validate:   func(v shwap.RangeNamespaceDataID) error { return v.Validate() },
		equal: func(a, b shwap.RangeNamespaceDataID) bool {
			return a.Height() == b.Height() && a.From == b.From && a.To == b.To
		},
		desc: func(v shwap.RangeNamespaceDataID) string {
			return fmt.Sprintf("RangeNamespaceDataID{height=%d from=%d to=%d}", v.Height(), v.From, v.To)
		},
	}
	v0Cd := &c18idc[shwap.RangeNamespaceDataIDV0]{name: "RangeNamespaceDataIDV0", size: shwap.RangeNamespaceDataIDV0Size,
		fromBinary: shwap.RangeNamespaceDataIDV0FromBinary,
		readFrom: func(rd io.Reader) (v shwap.RangeNamespaceDataIDV0, n int64, err error) {
			n, err = v.ReadFrom(rd)
			return
		},
		marshal:  func(v shwap.RangeNamespaceDataIDV0) ([]byte, error) { return v.MarshalBinary() },
		writeTo:  func(v shwap.RangeNamespaceDataIDV0, w io.Writer) (int64, error) { return v.WriteTo(w) },
		validate: func(v shwap.RangeNamespaceDataIDV0) error { return v.Validate() },
		equal: func(a, b shwap.RangeNamespaceDataIDV0) bool {
			return a.Height() == b.Height() && a.From == b.From && a.To == b.To
		},
		desc: func(v shwap.RangeNamespaceDataIDV0) string {
			return fmt.Sprintf("RangeNamespaceDataIDV0{height=%d from=%d to=%d}", v.Height(), v.From, v.To)
		},
	}
	for _, h := range heights {
		for _, w := range odsSizes {
			ww := w * w
			pts := []int{-1, 0, 1, w - 1, w, w + 1, ww / 2, ww - 1, ww, ww + 1, 255, 256, 65534, 65535, 65536, 65537, 131072, 1 << 32, 1<<32 + 1}
			for k := 0; k < 3; k++ {
				pts = append(pts, r.Intn(max(ww, 1)))
			}
			for _, from := range pts {
				for _, to := range pts {
					if from >= 0 && to >= 0 && from >= to && !r.Chance(1, 8) {
						continue
					}
					id := shwap.RangeNamespaceDataID{EdsID: c18eid(h), From: from, To: to}
					inside := w > 0 && from >= 0 && from < to && to <= ww
					c.bounds("RangeNamespaceDataID", rngCd.desc(id), w, id.Verify(w), inside, inside && h > 0 && w <= maxODS)
					if h == 0 {
						continue
					}
					if made, err := shwap.NewRangeNamespaceDataID(c18eid(h), from, to, w); err == nil {
						if !inside {
							c.run.Violation("C18 id/RangeNamespaceDataID constructor accepts a range outside the square", map[string]any{"id": rngCd.desc(made), "ods": w})
						} else if w <= maxODS {
							c18idRoundTrip(c, rngCd, made)
						}
					}
					if made, err := shwap.NewRangeNamespaceDataIDV0(c18eid(h), from, to, w); err == nil {
						if !inside {
							c.run.Violation("C18 id/RangeNamespaceDataIDV0 constructor accepts a range outside the square", map[string]any{"id": v0Cd.desc(made), "ods": w})
						} else if w <= maxODS {
							c18idRoundTrip(c, v0Cd, made)
						}
					}
				}
			}
		}
	}
	c18idFuzz(c, rngCd, r.Split("range"))
	c18idFuzz(c, v0Cd, r.Split("rangev0"))
}

// sampleIDJSON: the one identifier with a JSON form. Round trip only (its JSON decoder performs no
// validation by design of the type: Verify is the caller's step); arbitrary JSON must not panic.
func (c *c18) sampleIDJSON(id shwap.SampleID) {
	c.run.Eval(1)
	var back shwap.SampleID
	var err error
	var enc []byte
	if p, site := vkit.Recover(func() {
		if enc, err = json.Marshal(id); err == nil {
			err = json.Unmarshal(enc, &back)
		}
	}); p != nil {
		c.run.Violation("C18 id/SampleID JSON codec panics @"+site, map[string]any{"panic": fmt.Sprint(p)})
		return
	}
	if err != nil || back.Height() != id.Height() || back.RowIndex != id.RowIndex || back.ShareIndex != id.ShareIndex {
		c.run.Violation("C18 id/SampleID JSON round trip is not the identity", map[string]any{"json": string(enc), "err": fmt.Sprint(err)})
		return
	}
	c.run.Count("id/SampleID/json-round-trip-ok", 1)
}

// coords: the 1-D ↔ 2-D index conversions every range request goes through.
func (c *c18) coords(r *vkit.RNG) {
	for _, size := range []int{1, 2, 3, 4, 8, 16, 64, 256, 512, 1024} {
		pts := []int{-1, 0, 1, size - 1, size, size*size - 1, size * size, size*size + 1, 65535, 65536, 1 << 31}
		for k := 0; k < 20; k++ {
			pts = append(pts, r.Intn(size*size))
		}
		for _, idx := range pts {
			c.run.Eval(1)
			co, err := shwap.SampleCoordsFrom1DIndex(idx, size)
			inside := idx >= 0 && idx < size*size
			if (err == nil) != inside {
				c.run.Violation("C18 coords From1DIndex verdict wrong", map[string]any{"idx": idx, "size": size, "err": fmt.Sprint(err)})
				continue
			}
			if err != nil {
				continue
			}
			back, err := shwap.SampleCoordsAs1DIndex(co, size)
			if err != nil || back != idx || co.Row < 0 || co.Row >= size || co.Col < 0 || co.Col >= size {
				c.run.Violation("C18 coords 1-D→2-D→1-D is not the identity", map[string]any{"idx": idx, "size": size, "coords": co.String(), "back": back})
				continue
			}
			c.run.Count("coords/round-trip-ok", 1)
		}
		for _, co := range []shwap.SampleCoords{{Row: -1, Col: 0}, {Row: 0, Col: -1}, {Row: size, Col: 0}, {Row: 0, Col: size}, {Row: size - 1, Col: size - 1}} {
			c.run.Eval(1)
			_, err := shwap.SampleCoordsAs1DIndex(co, size)
			inside := co.Row >= 0 && co.Row < size && co.Col >= 0 && co.Col < size
			if (err == nil) != inside {
				c.run.Violation("C18 coords As1DIndex verdict wrong", map[string]any{"coords": co.String(), "size": size, "err": fmt.Sprint(err)})
			}
		}
	}
}

// ---------------------------------------------------------------------------------------------
// bitswap CIDs

func (c *c18) cids(r *vkit.RNG) {
	heights := []uint64{1, 2, 1<<32 - 1, 1 << 32, 1<<64 - 1}
	describe := func(b bitswap.Block) string {
		switch x := b.(type) {
		case *bitswap.RowBlock:
			return fmt.Sprintf("row{height=%d row=%d}", x.ID.Height(), x.ID.RowIndex)
		case *bitswap.SampleBlock:
			return fmt.Sprintf("sample{height=%d row=%d col=%d}", x.ID.Height(), x.ID.RowIndex, x.ID.ShareIndex)
		case *bitswap.RowNamespaceDataBlock:
			return fmt.Sprintf("rnd{height=%d row=%d ns=%x}", x.ID.Height(), x.ID.RowIndex, x.ID.DataNamespace.Bytes())
		case *bitswap.RangeNamespaceDataBlock:
			return fmt.Sprintf("range{height=%d from=%d to=%d}", x.ID.Height(), x.ID.From, x.ID.To)
		}
		return fmt.Sprintf("%T", b)
	}
	validate := func(b bitswap.Block) error {
		switch x := b.(type) {
		case *bitswap.RowBlock:
			return x.ID.Validate()
		case *bitswap.SampleBlock:
			return x.ID.Validate()
		case *bitswap.RowNamespaceDataBlock:
			return x.ID.Validate()
		case *bitswap.RangeNamespaceDataBlock:
			return x.ID.Validate()
		}
		return fmt.Errorf("unknown block type %T", b)
	}
	seeds := map[string][][]byte{}
	roundTrip := func(kind string, blk bitswap.Block) {
		c.run.Eval(1)
		c.run.Count("cid/"+kind+"/constructed", 1)
		want := describe(blk)
		c.run.Distinct("cid|" + want)
		c.sample(map[string]any{"kind": "cid/" + kind, "value": want, "op": "round-trip"})
		var got bitswap.Block
		var raw []byte
		var err error
		if p, site := vkit.Recover(func() {
			id := blk.CID()
			raw = id.Bytes()
			var back cid.Cid
			if back, err = cid.Cast(raw); err == nil {
				got, err = bitswap.EmptyBlock(back)
			}
		}); p != nil {
			c.run.Violation("C18 cid/"+kind+" mapping panics @"+site, map[string]any{"panic": fmt.Sprint(p), "block": want})
			return
		}
		if err != nil || describe(got) != want {
			g := "error: " + fmt.Sprint(err)
			if err == nil {
				g = describe(got)
			}
			c.run.Violation("C18 cid/"+kind+" round trip is not the identity", map[string]any{"block": want, "cid": c18hex(raw), "decoded": g,
				"why": "a block built by the node's constructor maps to a CID that addresses something else"})
			return
		}
		c.run.Count("cid/"+kind+"/round-trip-ok", 1)
		if len(seeds[kind]) < 24 {
			seeds[kind] = append(seeds[kind], raw)
		}
	}
	nss := c18nsClasses(r)
	for _, h := range heights {
		for _, size := range []int{2, 4, 16, 128, 512, 1024} {
			for _, idx := range []int{0, 1, size/2 - 1, size / 2, size - 1, r.Intn(size)} {
				if b, err := bitswap.NewEmptyRowBlock(h, idx, size); err == nil {
					roundTrip("row", b)
				}
				for _, col := range []int{0, size - 1, r.Intn(size)} {
					if b, err := bitswap.NewEmptySampleBlock(h, shwap.SampleCoords{Row: idx, Col: col}, size); err == nil {
						roundTrip("sample", b)
					}
				}
				for _, nn := range []string{"user-a", "user-max", "tx", "min-secondary-reserved"} {
					if b, err := bitswap.NewEmptyRowNamespaceDataBlock(h, idx, nss[nn], size); err == nil {
						roundTrip("rnd", b)
					}
				}
			}
			w := size / 2
			ww := w * w
			pts := []int{0, 1, w, ww / 2, ww - 1, ww, 255, 256, 65535, 65536, 65537, 131072}
			for _, from := range pts {
				for _, to := range pts {
					if from >= to {
						continue
					}
					if b, err := bitswap.NewEmptyRangeNamespaceDataBlock(h, from, to, w); err == nil {
						roundTrip("range", b)
					}
				}
			}
		}
	}
	// arbitrary CIDs: mutations of valid ones, right codec with a wrong-length / foreign digest
	feed := func(kind string, raw []byte, op string) {
		c.run.Eval(1)
		c.run.Count("cid/"+kind+"/fuzz-fed", 1)
		c.run.Distinct("cidbytes|" + string(raw))
		var blk bitswap.Block
		var id cid.Cid
		var err error
		if p, site := vkit.Recover(func() {
			if id, err = cid.Cast(raw); err == nil {
				blk, err = bitswap.EmptyBlock(id)
			}
		}); p != nil {
			c.run.Violation("C18 cid/"+kind+" decoder panics @"+site, map[string]any{"panic": fmt.Sprint(p), "cid": c18hex(raw), "op": op})
			return
		}
		if err != nil {
			c.run.Count("cid/"+kind+"/fuzz-rejected", 1)
			return
		}
		c.run.Count("cid/"+kind+"/fuzz-decoded", 1)
		if verr := validate(blk); verr != nil {
			c.run.Violation("C18 cid/"+kind+" decoder accepts an identifier its own Validate rejects", map[string]any{"cid": c18hex(raw), "decoded": describe(blk), "validate": verr.Error()})
			return
		}
		var back cid.Cid
		if p, site := vkit.Recover(func() { back = blk.CID() }); p != nil {
			c.run.Violation("C18 cid/"+kind+" re-encode panics @"+site, map[string]any{"panic": fmt.Sprint(p), "cid": c18hex(raw)})
			return
		}
		if !back.Equals(id) {
			c.run.Violation("C18 cid/"+kind+" decode→encode changes the CID", map[string]any{"cid": c18hex(raw), "decoded": describe(blk), "reencoded": c18hex(back.Bytes())})
		}
	}
	for _, kind := range c18sortedKeys(seeds) {
		for _, s := range seeds[kind] {
			for k := 0; k < vkit.Scale(300, 3000); k++ {
				mb, op := vkit.MutateBytes(r, s)
				feed(kind, mb, op)
			}
			// keep the CID header, replace the digest by extremes
			pre, err := cid.PrefixFromBytes(s)
			if err != nil {
				continue
			}
			hdr := len(s) - pre.MhLength
			for _, fill := range []byte{0x00, 0xff} {
				m := append([]byte(nil), s[:hdr]...)
				m = append(m, bytes.Repeat([]byte{fill}, pre.MhLength)...)
				feed(kind, m, "digest-extreme")
			}
			for k := 0; k < vkit.Scale(20, 200); k++ {
				m := append([]byte(nil), s[:hdr]...)
				m = append(m, r.Bytes(pre.MhLength)...)
				feed(kind, m, "digest-random")
			}
			// digest of another length under the same codes
			for _, d := range []int{-1, 1, -pre.MhLength} {
				if digest, err := mh.Encode(r.Bytes(pre.MhLength+d), pre.MhType); err == nil {
					feed(kind, cid.NewCidV1(pre.Codec, digest).Bytes(), "digest-wrong-length")
				}
			}
		}
	}
}

// ---------------------------------------------------------------------------------------------
// shrexsub notifications

func (c *c18) notifications(r *vkit.RNG) {
	ctx := context.Background()
	empty := share.EmptyEDSDataHash()
	deliver := func(b []byte) (got *shrexsub.Notification, res pubsub.ValidationResult) {
		v := shrexsub.ValidatorFn(func(_ context.Context, _ peer.ID, n shrexsub.Notification) pubsub.ValidationResult {
			cp := shrexsub.Notification{Height: n.Height, DataHash: append([]byte(nil), n.DataHash...)}
			got = &cp
			return pubsub.ValidationAccept
		})
		res = shrexsub.VerifValidate(ctx, v, "", &pubsub.Message{Message: &pubsubpb.Message{Data: b}})
		return got, res
	}
	hashes := [][]byte{nil, {}, r.Bytes(1), r.Bytes(31), r.Bytes(32), r.Bytes(32), r.Bytes(33), r.Bytes(64), bytes.Repeat([]byte{0}, 32), bytes.Repeat([]byte{0xff}, 32), empty}
	var valid [][]byte
	for _, h := range []uint64{0, 1, 2, 127, 128, 1<<32 - 1, 1 << 32, 1<<63 - 1, 1 << 63, 1<<64 - 1} {
		for _, dh := range hashes {
			c.run.Eval(1)
			c.run.Distinct(fmt.Sprintf("shrexsub|%d|%x", h, dh))
			// what Broadcast puts on the wire
			enc, err := (&shrexsubpb.RecentEDSNotification{Height: h, DataHash: dh}).Marshal()
			if err != nil {
				c.run.Count("shrexsub/encode-refused", 1)
				continue
			}
			// what Subscription.Next hands out
			var pbmsg shrexsubpb.RecentEDSNotification
			if p, site := vkit.Recover(func() { err = pbmsg.Unmarshal(enc) }); p != nil {
				c.run.Violation("C18 shrexsub decoder panics @"+site, map[string]any{"panic": fmt.Sprint(p), "bytes": c18hex(enc)})
				continue
			}
			if err != nil || pbmsg.Height != h || !bytes.Equal(pbmsg.DataHash, dh) {
				c.run.Violation("C18 shrexsub notification round trip is not the identity", map[string]any{"height": h, "hash": c18hex(dh), "err": fmt.Sprint(err)})
				continue
			}
			got, _ := deliver(enc)
			want := h != 0 && len(dh) == 32 && !bytes.Equal(dh, empty)
			switch {
			case got == nil && want:
				c.run.Violation("C18 shrexsub validator refuses a well-formed notification", map[string]any{"height": h, "hash": c18hex(dh)})
			case got == nil:
				c.run.Count("shrexsub/rejected", 1)
			case !want:
				c.run.Violation("C18 shrexsub validator delivers a notification with out-of-range fields", map[string]any{"height": h, "hash": c18hex(dh)})
			case got.Height != h || !bytes.Equal(got.DataHash, dh):
				c.run.Violation("C18 shrexsub notification delivered differs from the one sent", map[string]any{"sent_height": h, "got_height": got.Height, "sent": c18hex(dh), "got": c18hex(got.DataHash)})
			default:
				c.run.Count("shrexsub/delivered-equal", 1)
				valid = append(valid, enc)
			}
		}
	}
	feed := func(b []byte) {
		c.run.Eval(1)
		c.run.Count("shrexsub/fuzz-fed", 1)
		var pbmsg shrexsubpb.RecentEDSNotification
		if p, site := vkit.Recover(func() { _ = pbmsg.Unmarshal(b) }); p != nil {
			c.run.Violation("C18 shrexsub decoder panics @"+site, map[string]any{"panic": fmt.Sprint(p), "bytes": c18hex(b)})
			return
		}
		got, _ := deliver(b)
		if got == nil {
			c.run.Count("shrexsub/fuzz-rejected", 1)
			return
		}
		c.run.Count("shrexsub/fuzz-delivered", 1)
		if got.Height == 0 || len(got.DataHash) != 32 || bytes.Equal(got.DataHash, empty) {
			c.run.Violation("C18 shrexsub validator delivers a notification with out-of-range fields", map[string]any{"bytes": c18hex(b), "height": got.Height, "hash": c18hex(got.DataHash)})
		}
	}
	for _, s := range valid {
		for k := 0; k < vkit.Scale(300, 3000); k++ {
			mb, _ := vkit.MutateBytes(r, s)
			c.run.Distinct("shrexsubbytes|" + string(mb))
			feed(mb)
		}
	}
	for l := 0; l <= 80; l++ {
		for k := 0; k < vkit.Scale(8, 80); k++ {
			feed(r.Bytes(l))
		}
	}
}

// ---------------------------------------------------------------------------------------------
// containers

// c18cc describes one (container kind, codec) pair.
type c18cc[T any] struct {
	kind, codec string
	enc         func(T) ([]byte, error)
	dec         func([]byte) (T, error)
	eq          func(a, b T) bool
	desc        func(T) string
	malformed   func(T) string // "" when every share the value exposes is well-formed
	witness     func(T) any    // optional: what happens when the malformed value is used
	// decInto (stream codecs): decode into an existing receiver, the way the shrex getter reuses one
	// response variable across the peers it tries
	decInto func(*T, []byte) error

	mu    sync.Mutex
	valid [][]byte
}

func (cc *c18cc[T]) key() string { return cc.kind + "/" + cc.codec }

func c18ccRoundTrip[T any](c *c18, cc *c18cc[T], v T, want T) {
	c.run.Eval(1)
	c.run.Count("container/"+cc.key()+"/values", 1)
	c.sample(map[string]any{"kind": "container/" + cc.key(), "value": cc.desc(v), "op": "round-trip"})
	var enc []byte
	var err error
	if p, site := vkit.Recover(func() { enc, err = cc.enc(v) }); p != nil {
		c.run.Violation("C18 "+cc.key()+" encoder panics @"+site, map[string]any{"panic": fmt.Sprint(p), "value": cc.desc(v)})
		return
	}
	if err != nil {
		c.run.Count("container/"+cc.key()+"/encode-refused", 1)
		return
	}
	c.run.Distinct("container|" + cc.key() + "|" + string(enc))
	var back T
	if p, site := vkit.Recover(func() { back, err = cc.dec(enc) }); p != nil {
		c.run.Violation("C18 "+cc.key()+" decoder panics @"+site, map[string]any{"panic": fmt.Sprint(p), "value": cc.desc(v), "bytes": c18hex(enc)})
		return
	}
	if err != nil || !cc.eq(want, back) {
		got := "error: " + fmt.Sprint(err)
		if err == nil {
			got = cc.desc(back)
		}
		c.run.Violation("C18 "+cc.key()+" round trip is not the identity", map[string]any{"value": cc.desc(v), "decoded": got, "bytes": c18hex(enc)})
		return
	}
	c.run.Count("container/"+cc.key()+"/round-trip-ok", 1)
	cc.mu.Lock()
	cc.valid = append(cc.valid, enc)
	cc.mu.Unlock()
}

func c18ccFeed[T any](c *c18, cc *c18cc[T], b []byte, op string) {
	c.run.Eval(1)
	c.run.Count("container/"+cc.key()+"/fuzz-fed", 1)
	if op != "random" {
		c.run.Distinct("containerbytes|" + cc.key() + "|" + string(b))
	}
	var v T
	var err error
	if p, site := vkit.Recover(func() { v, err = cc.dec(b) }); p != nil {
		in := c18hex(b)
		if cc.codec == "json" && len(b) < 4096 {
			in = string(b)
		}
		c.run.Violation("C18 "+cc.key()+" decoder panics @"+site, map[string]any{"panic": fmt.Sprint(p), "input": in, "op": op})
		return
	}
	if err != nil {
		c.run.Count("container/"+cc.key()+"/fuzz-rejected", 1)
		return
	}
	c.run.Count("container/"+cc.key()+"/fuzz-decoded", 1)
	if why := cc.malformed(v); why != "" {
		in := c18hex(b)
		if cc.codec == "json" && len(b) < 4096 {
			in = string(b)
		}
		d := map[string]any{"input": in, "op": op, "decoded": cc.desc(v)}
		if cc.witness != nil {
			d["consequence"] = cc.witness(v)
		}
		c.run.Violation("C18 "+cc.key()+" decoder accepts a malformed container: "+why, d)
		return
	}
	// the decoded value must survive its own encoder unchanged
	var re []byte
	if p, site := vkit.Recover(func() { re, err = cc.enc(v) }); p != nil {
		c.run.Violation("C18 "+cc.key()+" encoder panics on a decoded value @"+site, map[string]any{"panic": fmt.Sprint(p), "input": c18hex(b), "decoded": cc.desc(v)})
		return
	}
	if err != nil {
		c.run.Count("container/"+cc.key()+"/fuzz-reencode-refused", 1)
		return
	}
	var v2 T
	if p, site := vkit.Recover(func() { v2, err = cc.dec(re) }); p != nil {
		c.run.Violation("C18 "+cc.key()+" decoder panics @"+site, map[string]any{"panic": fmt.Sprint(p), "input": c18hex(re)})
		return
	}
	if err != nil {
		// e.g. the empty Sample: its JSON form carries "share":null, which the share decoder refuses.
		// An error is a refusal, not a silently different value: recorded, not judged.
		c.run.Count("observed/"+cc.key()+"/own-encoding-of-decoded-value-refused", 1)
		return
	}
	if !cc.eq(v, v2) {
		c.run.Violation("C18 "+cc.key()+" decoded value changes when re-encoded", map[string]any{"input": c18hex(b), "decoded": cc.desc(v), "after": cc.desc(v2)})
	}
}

// c18ccReuse: (1) values stay what they were decoded as while further values are decoded (judged by
// re-encoding the retained values); (2) decoding into a receiver that already holds another value — or
// the remains of a failed decode — gives what decoding into a fresh receiver gives.
func c18ccReuse[T any](c *c18, cc *c18cc[T], r *vkit.RNG) {
	cc.mu.Lock()
	encs := c18spread(cc.valid, 40)
	cc.mu.Unlock()
	if len(encs) < 2 {
		return
	}
	// canonical encodings only: enc(dec(b)) == b when judged at once
	var keep [][]byte
	for _, e := range encs {
		var again []byte
		var err error
		if p, _ := vkit.Recover(func() {
			var v T
			if v, err = cc.dec(e); err == nil {
				again, err = cc.enc(v)
			}
		}); p == nil && err == nil && bytes.Equal(again, e) {
			keep = append(keep, e)
		}
	}
	vals := make([]T, len(keep))
	for i, e := range keep {
		_, _ = vkit.Recover(func() { vals[i], _ = cc.dec(e) })
	}
	for i, e := range keep {
		c.run.Eval(1)
		c.run.Count("container/"+cc.key()+"/retained-while-decoding-others", 1)
		var again []byte
		var err error
		if p, _ := vkit.Recover(func() { again, err = cc.enc(vals[i]) }); p != nil || err != nil || !bytes.Equal(again, e) {
			c.run.Violation("C18 "+cc.key()+" decoded value changes while later values are decoded", map[string]any{
				"decoded_from": c18hex(e), "re-encodes_to": c18hex(again), "err": fmt.Sprint(err), "decoded_after_it": len(keep) - i - 1})
			break
		}
	}
	if cc.decInto == nil {
		return
	}
	for i, a := range encs {
		for j, b := range encs {
			if i == j {
				continue
			}
			var recv, fresh T
			var errA, errB, errF error
			first := a
			if (i+j)%5 == 0 && len(a) > 2 { // the remains of a failed decode
				first = a[:len(a)-1-r.Intn(len(a)/2)]
			}
			if p, site := vkit.Recover(func() {
				errA = cc.decInto(&recv, first)
				errB = cc.decInto(&recv, b)
				fresh, errF = cc.dec(b)
			}); p != nil {
				c.run.Violation("C18 "+cc.key()+" decoder panics @"+site, map[string]any{"panic": fmt.Sprint(p), "first": c18hex(first), "then": c18hex(b)})
				return
			}
			_ = errA
			c.run.Eval(1)
			c.run.Count("container/"+cc.key()+"/decoded-into-used-receiver", 1)
			if (errB == nil) != (errF == nil) || (errB == nil && !cc.eq(recv, fresh)) {
				got := "error: " + fmt.Sprint(errB)
				if errB == nil {
					got = cc.desc(recv)
				}
				want := "error: " + fmt.Sprint(errF)
				if errF == nil {
					want = cc.desc(fresh)
				}
				c.run.Violation("C18 "+cc.key()+" decoding into a used receiver differs from decoding into a fresh one", map[string]any{
					"receiver_held": c18hex(first), "first_decode_failed": errA != nil, "decoded": c18hex(b), "got": got, "fresh": want})
				return
			}
		}
	}
}

func c18ccFuzz[T any](c *c18, cc *c18cc[T], r *vkit.RNG) {
	c18ccReuse(c, cc, r.Split("reuse"))
	cc.mu.Lock()
	all := append([][]byte(nil), cc.valid...)
	cc.mu.Unlock()
	// values are produced concurrently: order them by content so that (seed, tier) fixes the case list
	sort.Slice(all, func(i, j int) bool {
		if len(all[i]) != len(all[j]) {
			return len(all[i]) < len(all[j])
		}
		return bytes.Compare(all[i], all[j]) < 0
	})
	seeds := c18spread(all, 40)
	for _, s := range seeds {
		for k := 0; k < vkit.Scale(150, 1500); k++ {
			mb, op := vkit.MutateBytes(r, s)
			c18ccFeed(c, cc, mb, "mutate/"+op)
		}
		if cc.codec == "json" {
			for _, m := range c18jsonMutations(s) {
				c18ccFeed(c, cc, m, "json-structural")
			}
		}
	}
	for l := 0; l <= 48; l++ {
		for k := 0; k < vkit.Scale(40, 400); k++ {
			c18ccFeed(c, cc, r.Bytes(l), "random")
		}
	}
	for _, l := range []int{64, 100, 511, 512, 513, 515, 600, 1024, 2000} {
		for k := 0; k < vkit.Scale(4, 40); k++ {
			c18ccFeed(c, cc, r.Bytes(l), "random")
		}
	}
	if cc.codec == "json" {
		for _, s := range []string{``, `null`, `{}`, `[]`, `0`, `""`, `true`, `{"side":"LEFT"}`, `{"side":"left"}`, `{"side":""}`, `{"side":null}`,
			`{"shares":[],"side":"BOTH"}`, `{"shares":null,"side":"RIGHT"}`, `{"shares":[null],"side":"LEFT"}`, `{"shares":[""],"side":"LEFT"}`,
			`{"share":null}`, `{"proof":{}}`, `{"proof":{"start":0,"end":1}}`, `{"proof":null,"proof_type":1}`, `{"proof_type":-1}`, `{"proof_type":7}`,
			`[{}]`, `[null]`, `[{"shares":null,"proof":null}]`, `{"shares":[[]]}`, `{"shares":[null]}`, `{"shares":[[null]]}`, `{"first_row_proof":{}}`,
			`{"shares":null,"proof":{"start":-1,"end":-5,"nodes":[""],"leaf_hash":""}}`} {
			c18ccFeed(c, cc, []byte(s), "json-literal")
		}
	}
}

// c18jsonMutations derives structural mutations of a JSON object / array: every top-level key
// deleted, nulled, retyped; string values replaced.
func c18jsonMutations(valid []byte) [][]byte {
	var out [][]byte
	var obj map[string]json.RawMessage
	if json.Unmarshal(valid, &obj) == nil && obj != nil {
		for _, k := range c18sortedKeys(obj) {
			for _, repl := range []string{"", `null`, `0`, `-1`, `"x"`, `""`, `[]`, `{}`, `true`, `"LEFT"`, `"RIGHT"`, `"BOTH"`, `"left"`, `"UNKNOWN"`, `[null]`, `[[]]`, `["AA=="]`} {
				m := map[string]json.RawMessage{}
				for kk, vv := range obj {
					m[kk] = vv
				}
				if repl == "" {
					delete(m, k)
				} else {
					m[k] = json.RawMessage(repl)
				}
				if b, err := json.Marshal(m); err == nil {
					out = append(out, b)
				}
			}
		}
		return out
	}
	var arr []json.RawMessage
	if json.Unmarshal(valid, &arr) == nil {
		for _, repl := range []string{`null`, `{}`, `0`, `"x"`, `[]`} {
			m := append([]json.RawMessage{json.RawMessage(repl)}, arr...)
			if b, err := json.Marshal(m); err == nil {
				out = append(out, b)
			}
			if len(arr) > 0 {
				m2 := append([]json.RawMessage(nil), arr...)
				m2[len(m2)-1] = json.RawMessage(repl)
				if b, err := json.Marshal(m2); err == nil {
					out = append(out, b)
				}
			}
		}
		if len(arr) > 0 {
			for _, inner := range c18jsonMutations(arr[0]) {
				m := append([]json.RawMessage{json.RawMessage(inner)}, arr[1:]...)
				if b, err := json.Marshal(m); err == nil {
					out = append(out, b)
				}
			}
		}
	}
	return out
}

// --- equality on exported fields

func c18proofEq(a, b *nmt.Proof) bool {
	if (a == nil) != (b == nil) {
		return false
	}
	if a == nil {
		return true
	}
	pa, pb := vkit.OpenProof(a), vkit.OpenProof(b)
	if pa.Start != pb.Start || pa.End != pb.End || pa.IgnoreMax != pb.IgnoreMax || len(pa.Nodes) != len(pb.Nodes) || !bytes.Equal(pa.LeafHash, pb.LeafHash) {
		return false
	}
	return vkit.EqualBytes2(pa.Nodes, pb.Nodes)
}

func c18proofDesc(p *nmt.Proof) string {
	if p == nil {
		return "nil"
	}
	return fmt.Sprintf("[%d,%d) nodes=%d leafhash=%d ignoremax=%v", p.Start(), p.End(), len(p.Nodes()), len(p.LeafHash()), p.IsMaxNamespaceIDIgnored())
}

func c18sharesMalformed(shs []libshare.Share) string {
	for i := range shs {
		if l := len(shs[i].ToBytes()); l != libshare.ShareSize {
			return fmt.Sprintf("share %d has %d bytes", i, l)
		}
	}
	return ""
}

func c18rndEq(a, b shwap.RowNamespaceData) bool {
	return vkit.EqualShares(a.Shares, b.Shares) && c18proofEq(a.Proof, b.Proof)
}

func c18rndDesc(v shwap.RowNamespaceData) string {
	return fmt.Sprintf("RowNamespaceData{shares=%d proof=%s}", len(v.Shares), c18proofDesc(v.Proof))
}

func c18ndEq(a, b shwap.NamespaceData) bool {
	if len(a) != len(b) {
		return false
	}
	for i := range a {
		if !c18rndEq(a[i], b[i]) {
			return false
		}
	}
	return true
}

func c18rangeEq(a, b shwap.RangeNamespaceData) bool {
	if len(a.Shares) != len(b.Shares) || !c18proofEq(a.FirstIncompleteRowProof, b.FirstIncompleteRowProof) || !c18proofEq(a.LastIncompleteRowProof, b.LastIncompleteRowProof) {
		return false
	}
	for i := range a.Shares {
		if !vkit.EqualShares(a.Shares[i], b.Shares[i]) {
			return false
		}
	}
	return true
}

func c18rangeDesc(v shwap.RangeNamespaceData) string {
	lens := make([]int, len(v.Shares))
	for i := range v.Shares {
		lens[i] = len(v.Shares[i])
	}
	return fmt.Sprintf("RangeNamespaceData{rows=%v first=%s last=%s}", lens, c18proofDesc(v.FirstIncompleteRowProof), c18proofDesc(v.LastIncompleteRowProof))
}

func c18sampleEq(a, b shwap.Sample) bool {
	return bytes.Equal(a.Share.ToBytes(), b.Share.ToBytes()) && a.ProofType == b.ProofType && c18proofEq(a.Proof, b.Proof)
}

func c18sampleDesc(v shwap.Sample) string {
	return fmt.Sprintf("Sample{share=%d bytes axis=%d proof=%s}", len(v.Share.ToBytes()), v.ProofType, c18proofDesc(v.Proof))
}

// c18rowDesc looks into a Row without going through any of its codecs.
func c18rowDesc(v shwap.Row) string {
	rv := reflect.ValueOf(v)
	return fmt.Sprintf("Row{shares=%d side=%d}", rv.FieldByName("shares").Len(), rv.FieldByName("side").Int())
}

func c18rowShares(v shwap.Row) int { return reflect.ValueOf(v).FieldByName("shares").Len() }

func c18rowMalformed(v shwap.Row) string {
	f := reflect.ValueOf(v).FieldByName("shares")
	for i := 0; i < f.Len(); i++ {
		if l := f.Index(i).FieldByName("data").Len(); l != libshare.ShareSize {
			return fmt.Sprintf("share %d has %d bytes", i, l)
		}
	}
	if s := reflect.ValueOf(v).FieldByName("side").Int(); s < int64(shwap.Left) || s > int64(shwap.Both) {
		return fmt.Sprintf("side %d is not a row side", s)
	}
	return ""
}

func c18pbDec[M interface{ Unmarshal([]byte) error }, T any](m M, from func(M) (T, error)) func([]byte) (T, error) {
	return func(b []byte) (T, error) {
		var zero T
		nm := reflect.New(reflect.TypeOf(m).Elem()).Interface().(M)
		if err := nm.Unmarshal(b); err != nil {
			return zero, err
		}
		return from(nm)
	}
}

func (c *c18) containers(r *vkit.RNG) {
	// --- codecs
	smpMal := func(v shwap.Sample) string {
		if v.Proof == nil && len(v.Share.ToBytes()) == 0 {
			return "" // the empty container
		}
		if l := len(v.Share.ToBytes()); l != libshare.ShareSize {
			return fmt.Sprintf("sample with a proof carries a %d-byte share", l)
		}
		return ""
	}
	vsq := vkit.GenSquare(r.Split("witness"), 2, "runs", 0)
	smpWit := func(v shwap.Sample) any {
		var err error
		if p, site := vkit.Recover(func() { err = v.Verify(vsq.Roots, 0, int(v.Proof.Start())) }); p != nil {
			return fmt.Sprintf("Sample.Verify on the decoded value panics @%s: %v", site, p)
		}
		return fmt.Sprintf("Sample.Verify on the decoded value returns: %v", err)
	}
	smpPB := &c18cc[shwap.Sample]{kind: "sample", codec: "pb", eq: c18sampleEq, desc: c18sampleDesc, malformed: smpMal,
		enc: func(v shwap.Sample) ([]byte, error) { return v.ToProto().Marshal() },
		dec: c18pbDec(&pb.Sample{}, shwap.SampleFromProto)}
	smpST := &c18cc[shwap.Sample]{decInto: func(v *shwap.Sample, b []byte) error { _, err := v.ReadFrom(bytes.NewReader(b)); return err }, kind: "sample", codec: "stream", eq: c18sampleEq, desc: c18sampleDesc, malformed: smpMal,
		enc: func(v shwap.Sample) ([]byte, error) {
			var b bytes.Buffer
			_, err := v.WriteTo(&b)
			return b.Bytes(), err
		},
		dec: func(b []byte) (v shwap.Sample, err error) { _, err = v.ReadFrom(bytes.NewReader(b)); return }}
	smpJS := &c18cc[shwap.Sample]{kind: "sample", codec: "json", eq: c18sampleEq, desc: c18sampleDesc, malformed: smpMal, witness: smpWit,
		enc: func(v shwap.Sample) ([]byte, error) { return json.Marshal(v) },
		dec: func(b []byte) (v shwap.Sample, err error) { err = json.Unmarshal(b, &v); return }}

	rowEqLoose := func(a, b shwap.Row) bool { // nil and empty share lists are the same row
		if c18rowShares(a) == 0 && c18rowShares(b) == 0 {
			return reflect.ValueOf(a).FieldByName("side").Int() == reflect.ValueOf(b).FieldByName("side").Int()
		}
		return reflect.DeepEqual(a, b)
	}
	rowPB := &c18cc[shwap.Row]{kind: "row", codec: "pb", eq: rowEqLoose, desc: c18rowDesc, malformed: c18rowMalformed,
		enc: func(v shwap.Row) ([]byte, error) { return v.ToProto().Marshal() },
		dec: c18pbDec(&pb.Row{}, shwap.RowFromProto)}
	rowST := &c18cc[shwap.Row]{decInto: func(v *shwap.Row, b []byte) error { _, err := v.ReadFrom(bytes.NewReader(b)); return err }, kind: "row", codec: "stream", eq: rowEqLoose, desc: c18rowDesc, malformed: c18rowMalformed,
		enc: func(v shwap.Row) ([]byte, error) { var b bytes.Buffer; _, err := v.WriteTo(&b); return b.Bytes(), err },
		dec: func(b []byte) (v shwap.Row, err error) { _, err = v.ReadFrom(bytes.NewReader(b)); return }}
	rowJS := &c18cc[shwap.Row]{kind: "row", codec: "json", eq: rowEqLoose, desc: c18rowDesc, malformed: c18rowMalformed,
		enc: func(v shwap.Row) ([]byte, error) { return json.Marshal(v) },
		dec: func(b []byte) (v shwap.Row, err error) { err = json.Unmarshal(b, &v); return }}

	rndMal := func(v shwap.RowNamespaceData) string { return c18sharesMalformed(v.Shares) }
	rndPB := &c18cc[shwap.RowNamespaceData]{kind: "rnd", codec: "pb", eq: c18rndEq, desc: c18rndDesc, malformed: rndMal,
		enc: func(v shwap.RowNamespaceData) ([]byte, error) { return v.ToProto().Marshal() },
		dec: c18pbDec(&pb.RowNamespaceData{}, shwap.RowNamespaceDataFromProto)}
	rndST := &c18cc[shwap.RowNamespaceData]{decInto: func(v *shwap.RowNamespaceData, b []byte) error { _, err := v.ReadFrom(bytes.NewReader(b)); return err }, kind: "rnd", codec: "stream", eq: c18rndEq, desc: c18rndDesc, malformed: rndMal,
		enc: func(v shwap.RowNamespaceData) ([]byte, error) {
			var b bytes.Buffer
			_, err := v.WriteTo(&b)
			return b.Bytes(), err
		},
		dec: func(b []byte) (v shwap.RowNamespaceData, err error) { _, err = v.ReadFrom(bytes.NewReader(b)); return }}
	rndJS := &c18cc[shwap.RowNamespaceData]{kind: "rnd", codec: "json", eq: c18rndEq, desc: c18rndDesc, malformed: rndMal,
		enc: func(v shwap.RowNamespaceData) ([]byte, error) { return json.Marshal(v) },
		dec: func(b []byte) (v shwap.RowNamespaceData, err error) { err = json.Unmarshal(b, &v); return }}

	ndMal := func(v shwap.NamespaceData) string {
		for i := range v {
			if s := c18sharesMalformed(v[i].Shares); s != "" {
				return fmt.Sprintf("row %d: %s", i, s)
			}
		}
		return ""
	}
	ndDesc := func(v shwap.NamespaceData) string {
		out := "NamespaceData["
		for i := range v {
			out += c18rndDesc(v[i]) + " "
		}
		return out + "]"
	}
	ndST := &c18cc[shwap.NamespaceData]{decInto: func(v *shwap.NamespaceData, b []byte) error { _, err := v.ReadFrom(bytes.NewReader(b)); return err }, kind: "nd", codec: "stream", eq: c18ndEq, desc: ndDesc, malformed: ndMal,
		enc: func(v shwap.NamespaceData) ([]byte, error) {
			var b bytes.Buffer
			_, err := v.WriteTo(&b)
			return b.Bytes(), err
		},
		dec: func(b []byte) (v shwap.NamespaceData, err error) { _, err = v.ReadFrom(bytes.NewReader(b)); return }}
	ndJS := &c18cc[shwap.NamespaceData]{kind: "nd", codec: "json", eq: c18ndEq, desc: ndDesc, malformed: ndMal,
		enc: func(v shwap.NamespaceData) ([]byte, error) { return json.Marshal(v) },
		dec: func(b []byte) (v shwap.NamespaceData, err error) { err = json.Unmarshal(b, &v); return }}

	rgMal := func(v shwap.RangeNamespaceData) string {
		for i := range v.Shares {
			if s := c18sharesMalformed(v.Shares[i]); s != "" {
				return fmt.Sprintf("row %d: %s", i, s)
			}
		}
		return ""
	}
	rgPB := &c18cc[shwap.RangeNamespaceData]{kind: "range", codec: "pb", eq: c18rangeEq, desc: c18rangeDesc, malformed: rgMal,
		enc: func(v shwap.RangeNamespaceData) ([]byte, error) { return v.ToProto().Marshal() },
		dec: c18pbDec(&pb.RangeNamespaceData{}, shwap.RangeNamespaceDataFromProto)}
	rgST := &c18cc[shwap.RangeNamespaceData]{decInto: func(v *shwap.RangeNamespaceData, b []byte) error {
		_, err := v.ReadFrom(bytes.NewReader(b))
		return err
	}, kind: "range", codec: "stream", eq: c18rangeEq, desc: c18rangeDesc, malformed: rgMal,
		enc: func(v shwap.RangeNamespaceData) ([]byte, error) {
			var b bytes.Buffer
			_, err := v.WriteTo(&b)
			return b.Bytes(), err
		},
		dec: func(b []byte) (v shwap.RangeNamespaceData, err error) {
			_, err = v.ReadFrom(bytes.NewReader(b))
			return
		}}
	rgJS := &c18cc[shwap.RangeNamespaceData]{kind: "range", codec: "json", eq: c18rangeEq, desc: c18rangeDesc, malformed: rgMal,
		enc: func(v shwap.RangeNamespaceData) ([]byte, error) { return json.Marshal(v) },
		dec: func(b []byte) (v shwap.RangeNamespaceData, err error) { err = json.Unmarshal(b, &v); return }}

	// --- values from generated squares
	type sqcase struct {
		w      int
		layout string
		tail   int
	}
	var cases []sqcase
	for _, w := range []int{1, 2, 4, 8} {
		cases = append(cases, sqcase{w, "single", 0})
		for _, l := range []string{"runs", "padded", "reserved", "rowfill"} {
			cases = append(cases, sqcase{w, l, r.Intn(w*w/2 + 1)})
		}
	}
	if vkit.Thorough() {
		for _, w := range []int{4, 8, 16, 32} {
			for _, l := range vkit.Layouts {
				for k := 0; k < 3; k++ {
					cases = append(cases, sqcase{w, l, r.Intn(w*w/2 + 1)})
				}
			}
		}
	} else {
		for _, l := range []string{"runs", "single", "padded", "alldistinct"} {
			cases = append(cases, sqcase{4, l, r.Intn(8)}, sqcase{8, l, r.Intn(32)}, sqcase{16, l, r.Intn(100)})
		}
		cases = append(cases, sqcase{16, "single", 0}, sqcase{32, "runs", 17})
	}
	ctx := context.Background()
	var wg sync.WaitGroup
	sem := make(chan struct{}, 8)
	for i, cs := range cases {
		wg.Add(1)
		sem <- struct{}{}
		go func(i int, cs sqcase) {
			defer wg.Done()
			defer func() { <-sem }()
			rr := r.SplitN("square", i)
			sq := vkit.GenSquare(rr, cs.w, cs.layout, cs.tail)
			acc := &eds.Rsmt2D{ExtendedDataSquare: sq.EDS}
			w, n := sq.W, 2*sq.W
			c.run.Count("container/squares", 1)

			// samples
			type pos struct{ r, c int }
			ps := []pos{{0, 0}, {0, n - 1}, {n - 1, 0}, {n - 1, n - 1}, {w - 1, w - 1}, {w % n, w % n}}
			for k := 0; k < 6; k++ {
				ps = append(ps, pos{rr.Intn(n), rr.Intn(n)})
			}
			for _, p := range ps {
				for _, ax := range []rsmt2d.Axis{rsmt2d.Row, rsmt2d.Col} {
					s, err := acc.SampleForProofAxis(shwap.SampleCoords{Row: p.r, Col: p.c}, ax)
					if err != nil {
						continue
					}
					c.run.Count("values/sample", 1)
					c18ccRoundTrip(c, smpPB, s, s)
					c18ccRoundTrip(c, smpST, s, s)
					c18ccRoundTrip(c, smpJS, s, s)
				}
			}
			// rows
			for _, i := range []int{0, w - 1, w % n, n - 1, rr.Intn(n)} {
				ext := sq.ExtRowShares(i)
				for _, side := range []shwap.RowSide{shwap.Left, shwap.Right, shwap.Both} {
					row, err := shwap.RowFromEDS(sq.EDS, i, side)
					if err != nil {
						c.run.Violation("C18 row producer refuses a valid side", map[string]any{"side": int(side), "err": err.Error()})
						continue
					}
					c.run.Count("values/row/"+map[shwap.RowSide]string{shwap.Left: "left", shwap.Right: "right", shwap.Both: "both"}[side], 1)
					// over protobuf a complete row travels as its left half (documented in ToProto)
					wire := row
					if side == shwap.Both {
						wire = shwap.NewRow(c18CloneShares(ext[:w]), shwap.Left)
					}
					c18ccRoundTrip(c, rowPB, row, wire)
					c18ccRoundTrip(c, rowST, row, wire)
					c18ccRoundTrip(c, rowJS, row, row)
				}
			}
			// row namespace data: inclusion, absence, nil proof
			var nss []libshare.Namespace
			for _, run := range sq.Runs {
				if run.NS.ValidateForData() == nil {
					nss = append(nss, run.NS)
				}
			}
			abs := sq.AbsentNamespaces()
			for _, kind := range []string{"inside", "below", "above"} { // fixed order: the case list must not depend on map iteration
				nss = append(nss, abs[kind]...)
			}
			if len(nss) > 8 {
				rr.Shuffle(len(nss), func(i, j int) { nss[i], nss[j] = nss[j], nss[i] })
				nss = nss[:8]
			}
			for _, ns := range nss {
				for _, ri := range sq.RowsCovering(ns) {
					v, err := shwap.RowNamespaceDataFromShares(sq.ExtRowShares(ri), ns, ri)
					if err != nil {
						continue
					}
					if len(v.Shares) > 0 {
						c.run.Count("values/rnd/inclusion", 1)
					} else {
						c.run.Count("values/rnd/absence", 1)
					}
					for _, x := range []shwap.RowNamespaceData{v, {Shares: v.Shares}} {
						if x.Proof == nil {
							c.run.Count("values/rnd/nil-proof", 1)
						}
						c18ccRoundTrip(c, rndPB, x, x)
						c18ccRoundTrip(c, rndST, x, x)
						c18ccRoundTrip(c, rndJS, x, x)
					}
				}
				nd, err := eds.NamespaceData(ctx, acc, ns)
				if err != nil {
					continue
				}
				c.run.Count(fmt.Sprintf("values/nd/rows=%d", min(len(nd), 3)), 1)
				c18ccRoundTrip(c, ndST, nd, nd)
				c18ccRoundTrip(c, ndJS, nd, nd)
			}
			{
				var empty shwap.RowNamespaceData
				c.run.Count("values/rnd/nil-proof", 1)
				c18ccRoundTrip(c, rndPB, empty, empty)
				c18ccRoundTrip(c, rndST, empty, empty)
				c18ccRoundTrip(c, rndJS, empty, empty)
			}
			// ranges inside one namespace: every proof shape
			var rgs [][2]int
			for _, run := range sq.Runs {
				a, b := run.Start, run.Start+run.Count
				rgs = append(rgs, [2]int{a, b}, [2]int{a, a + 1}, [2]int{b - 1, b})
				for k := 0; k < 6 && run.Count > 1; k++ {
					x := a + rr.Intn(run.Count)
					rgs = append(rgs, [2]int{x, x + 1 + rr.Intn(b-x)})
				}
				// row-aligned shapes
				for row := a / w; row <= (b-1)/w; row++ {
					s, e := max(a, row*w), min(b, (row+1)*w)
					rgs = append(rgs, [2]int{s, e})
					if e < b {
						rgs = append(rgs, [2]int{s, min(b, e+w)}, [2]int{s, min(b, e+1)})
					}
				}
			}
			if len(rgs) > 60 {
				rr.Shuffle(len(rgs), func(i, j int) { rgs[i], rgs[j] = rgs[j], rgs[i] })
				rgs = rgs[:60]
			}
			for _, g := range rgs {
				if g[0] >= g[1] {
					continue
				}
				v, err := acc.RangeNamespaceData(ctx, g[0], g[1])
				if err != nil {
					continue
				}
				np := 0
				if v.FirstIncompleteRowProof != nil {
					np++
				}
				if v.LastIncompleteRowProof != nil {
					np++
				}
				c.run.Count(fmt.Sprintf("values/range/%d-proofs", np), 1)
				c.run.Count(fmt.Sprintf("values/range/rows=%d", min(len(v.Shares), 4)), 1)
				c18ccRoundTrip(c, rgPB, v, v)
				c18ccRoundTrip(c, rgST, v, v)
				c18ccRoundTrip(c, rgJS, v, v)
			}
		}(i, cs)
	}
	wg.Wait()

	// a row built with a side outside the enumeration: encoders must refuse or keep it, not crash
	{
		sq := vkit.GenSquare(r.Split("badside"), 2, "runs", 0)
		for _, side := range []shwap.RowSide{3, -1, 255} {
			row := shwap.NewRow(sq.ExtRowShares(0)[:2], side)
			c.run.Count("values/row/invalid-side", 1)
			c18ccRoundTrip(c, rowJS, row, row)
			// protobuf has no third value: what the encoder does with it is recorded, not judged
			// (ToProto cannot return an error; Verify refuses such a row)
			if b, err := rowPB.enc(row); err == nil {
				if back, err := rowPB.dec(b); err == nil && !reflect.DeepEqual(back, row) {
					c.run.Count("observed/row/pb/invalid-side-encoded-as-RIGHT", 1)
				}
			}
		}
	}

	// --- arbitrary bytes into every decoder
	var fz sync.WaitGroup
	for i, f := range []func(*vkit.RNG){
		func(x *vkit.RNG) { c18ccFuzz(c, smpPB, x) }, func(x *vkit.RNG) { c18ccFuzz(c, smpST, x) }, func(x *vkit.RNG) { c18ccFuzz(c, smpJS, x) },
		func(x *vkit.RNG) { c18ccFuzz(c, rowPB, x) }, func(x *vkit.RNG) { c18ccFuzz(c, rowST, x) }, func(x *vkit.RNG) { c18ccFuzz(c, rowJS, x) },
		func(x *vkit.RNG) { c18ccFuzz(c, rndPB, x) }, func(x *vkit.RNG) { c18ccFuzz(c, rndST, x) }, func(x *vkit.RNG) { c18ccFuzz(c, rndJS, x) },
		func(x *vkit.RNG) { c18ccFuzz(c, ndST, x) }, func(x *vkit.RNG) { c18ccFuzz(c, ndJS, x) },
		func(x *vkit.RNG) { c18ccFuzz(c, rgPB, x) }, func(x *vkit.RNG) { c18ccFuzz(c, rgST, x) }, func(x *vkit.RNG) { c18ccFuzz(c, rgJS, x) },
	} {
		fz.Add(1)
		go func() { defer fz.Done(); f(r.SplitN("fuzz", i)) }()
	}
	fz.Wait()
}

func c18CloneShares(s []libshare.Share) []libshare.Share {
	out := make([]libshare.Share, len(s))
	copy(out, s)
	return out
}
