package checks

import (
	"bytes"
	"context"
	"fmt"
	"os"
	"strings"
	"sync"
	"sync/atomic"
	"time"

	"github.com/ipfs/boxo/blockstore"
	"github.com/ipfs/boxo/exchange"
	blocks "github.com/ipfs/go-block-format"
	"github.com/ipfs/go-cid"
	"github.com/ipfs/go-datastore"
	dssync "github.com/ipfs/go-datastore/sync"
	"github.com/libp2p/go-libp2p/core/host"
	mocknet "github.com/libp2p/go-libp2p/p2p/net/mock"

	libshare "github.com/celestiaorg/go-square/v4/share"

	"github.com/celestiaorg/celestia-node/share/availability"
	"github.com/celestiaorg/celestia-node/share/eds"
	"github.com/celestiaorg/celestia-node/share/shwap"
	"github.com/celestiaorg/celestia-node/share/shwap/p2p/bitswap"
	bitswappb "github.com/celestiaorg/celestia-node/share/shwap/p2p/bitswap/pb"
	"github.com/celestiaorg/celestia-node/store"
	"github.com/celestiaorg/celestia-node/zz_verif/vkit"
)

// bitswap part of C06: the real bitswap getter over real boxo client/server pairs on a mocknet. A
// hostile peer controls exactly the bytes its blockstore returns for a CID.

const c06BsPrefix = "/c06"

var c06BsBads = []string{"otherid", "twin", "garbage"}

// c06FixedGetter serves one stored square whatever height is asked (case heights are unique so that
// the process-global unmarshal registry of the bitswap package never mixes cases).
type c06FixedGetter struct {
	st     *store.Store
	height uint64
}

func (g c06FixedGetter) GetByHeight(ctx context.Context, _ uint64) (eds.AccessorStreamer, error) {
	return g.st.GetByHeight(ctx, g.height)
}

func (g c06FixedGetter) HasByHeight(ctx context.Context, _ uint64) (bool, error) {
	return g.st.HasByHeight(ctx, g.height)
}

// c06MemGetter serves an in-memory square.
type c06MemGetter struct{ sq *vkit.Square }

func (g c06MemGetter) GetByHeight(context.Context, uint64) (eds.AccessorStreamer, error) {
	return &eds.Rsmt2D{ExtendedDataSquare: g.sq.EDS}, nil
}
func (g c06MemGetter) HasByHeight(context.Context, uint64) (bool, error) { return true, nil }

type c06BsCase struct {
	idx    int
	height uint64
	req    *c06Req
	bad    []string
	honest bool
	// known: the node has fetched from the honest server before. (The honest server is then a
	// broadcast target of the boxo client; otherwise a want is broadcast to one random peer only and
	// the honest server may never be asked at all.)
	known  bool
	wiring string // "light" | "bridge"
	dup    bool   // the same call twice, concurrently, on the same getter
	rng    *vkit.RNG
	// hdrTamper (scripted exchange only): the header handed to the getter does not commit to one square
	// ("col-swap": two column roots exchanged, "low-row": a bottom-half row root replaced, "col-one": one
	// column root replaced); every block the servers send is the honest one for the top half
	hdrTamper string
}

func (cs *c06BsCase) servers() string {
	s := append([]string{}, cs.bad...)
	if cs.honest {
		s = append(s, "HONEST")
	}
	if cs.known {
		return strings.Join(s, ">") + " (honest known to the node)"
	}
	return strings.Join(s, ">")
}

func (cs *c06BsCase) desc() map[string]any {
	return map[string]any{"case": cs.idx, "request": cs.req.String(), "square": cs.req.s.sq.Desc(), "servers": cs.servers(),
		"wiring": cs.wiring, "concurrent_duplicate_call": cs.dup}
}

// c06OtherCIDs lists CIDs of the same block type for nearby positions.
func c06OtherCIDs(r *vkit.RNG, sq *vkit.Square, blk bitswap.Block) []cid.Cid {
	n := 2 * sq.W
	var out []cid.Cid
	add := func(b bitswap.Block, err error) {
		if err == nil && !b.CID().Equals(blk.CID()) {
			out = append(out, b.CID())
		}
	}
	switch b := blk.(type) {
	case *bitswap.SampleBlock:
		row, col, h := b.ID.RowIndex, b.ID.ShareIndex, b.Height()
		for _, o := range []shwap.SampleCoords{{Row: row, Col: (col + 1) % n}, {Row: (row + 1) % n, Col: col}, {Row: col, Col: row}, {Row: (row + sq.W) % n, Col: (col + sq.W) % n}} {
			nb, err := bitswap.NewEmptySampleBlock(h, o, n)
			add(nb, err)
		}
	case *bitswap.RowBlock:
		for _, d := range []int{1, n - 1, sq.W} {
			nb, err := bitswap.NewEmptyRowBlock(b.Height(), (b.ID.RowIndex+d)%n, n)
			add(nb, err)
		}
	case *bitswap.RowNamespaceDataBlock:
		for _, d := range []int{1, -1} {
			if rr := b.ID.RowIndex + d; rr >= 0 && rr < sq.W {
				nb, err := bitswap.NewEmptyRowNamespaceDataBlock(b.Height(), rr, b.ID.DataNamespace, n)
				add(nb, err)
			}
		}
		for _, ns := range []libshare.Namespace{sq.ODS[b.ID.RowIndex*sq.W].Namespace(), sq.ODS[b.ID.RowIndex*sq.W+sq.W-1].Namespace()} {
			if ns.ValidateForData() == nil {
				nb, err := bitswap.NewEmptyRowNamespaceDataBlock(b.Height(), b.ID.RowIndex, ns, n)
				add(nb, err)
			}
		}
	case *bitswap.RangeNamespaceDataBlock:
		for _, o := range [][2]int{{b.ID.From, b.ID.To - 1}, {b.ID.From + 1, b.ID.To}, {b.ID.From, b.ID.To + 1}, {b.ID.From - 1, b.ID.To - 1}} {
			if o[0] >= 0 && o[1] > o[0] && o[1] <= sq.W*sq.W {
				nb, err := bitswap.NewEmptyRangeNamespaceDataBlock(b.Height(), o[0], o[1], sq.W)
				add(nb, err)
			}
		}
	}
	r.Shuffle(len(out), func(i, j int) { out[i], out[j] = out[j], out[i] })
	return out
}

// c06BadStore builds the blockstore of a hostile server.
func c06BadStore(cs *c06BsCase, j int, beh string, honest blockstore.Blockstore, served *atomic.Int64) *vkit.ByzBlockstore {
	s := cs.req.s
	twin := &bitswap.Blockstore{Getter: c06MemGetter{s.twin}}
	var mu sync.Mutex
	nth := 0
	rewrap := func(raw []byte, f func(p *bitswappb.Block)) []byte {
		var p bitswappb.Block
		if p.Unmarshal(raw) != nil {
			return raw
		}
		f(&p)
		out, err := p.Marshal()
		if err != nil {
			return raw
		}
		return out
	}
	return &vkit.ByzBlockstore{
		Size: 1 << 10,
		Serve: func(ctx context.Context, c cid.Cid) ([]byte, error) {
			served.Add(1)
			mu.Lock()
			nth++
			r := cs.rng.SplitN(fmt.Sprintf("bad%d/%s", j, beh), nth)
			mu.Unlock()
			blk, err := bitswap.EmptyBlock(c)
			if err != nil {
				return nil, nil
			}
			switch beh {
			case "twin":
				b, err := twin.Get(ctx, c)
				if err != nil {
					return nil, nil
				}
				return b.RawData(), nil
			case "otherid":
				for _, oc := range c06OtherCIDs(r, s.sq, blk) {
					b, err := honest.Get(ctx, oc)
					if err != nil {
						continue
					}
					if r.Bool() {
						return b.RawData(), nil // says it is the other block
					}
					// claims to be the requested block
					return rewrap(b.RawData(), func(p *bitswappb.Block) { p.Cid = c.Bytes() }), nil
				}
				fallthrough
			default: // garbage
				b, err := honest.Get(ctx, c)
				if err != nil {
					return r.Bytes(r.Range(1, 300)), nil
				}
				raw := b.RawData()
				switch r.Intn(3) {
				case 0:
					return r.Bytes(r.Range(1, 300)), nil
				case 1:
					// valid wrapper, garbled container: reaches the container verifier
					return rewrap(raw, func(p *bitswappb.Block) {
						for i := 0; i < 8; i++ {
							m, _ := vkit.MutateBytes(r, p.Container)
							if !bytes.Equal(m, p.Container) {
								p.Container = m
								return
							}
						}
					}), nil
				default:
					for i := 0; i < 8; i++ {
						m, _ := vkit.MutateBytes(r, raw)
						if !bytes.Equal(m, raw) {
							return m, nil
						}
					}
					return raw[:len(raw)/2], nil
				}
			}
		},
	}
}

// c06BsNode is the client side of a case: the getter wired the way a node type wires it.
type c06BsNode struct {
	getter *bitswap.Getter
	close  func()
}

// c06WireBitswap reproduces nodebuilder/share: light = bitswap client over
// blockstore.NewBlockstore(datastore); bridge = client+server over bitswap.Blockstore{Getter: store};
// both behind BlockstoreWithMetrics, and the same blockstore handed to the getter.
func c06WireBitswap(ctx context.Context, h host.Host, wiring string, local *store.Store) (*c06BsNode, error) {
	net := bitswap.NewNetwork(h, c06BsPrefix)
	var bs blockstore.Blockstore
	switch wiring {
	case "light":
		m, err := bitswap.NewBlockstoreWithMetrics(blockstore.NewBlockstore(dssync.MutexWrap(datastore.NewMapDatastore())))
		if err != nil {
			return nil, err
		}
		bs = m
	default:
		m, err := bitswap.NewBlockstoreWithMetrics(&bitswap.Blockstore{Getter: local})
		if err != nil {
			return nil, err
		}
		bs = m
	}
	var ex exchange.SessionExchange
	var closeEx func()
	if wiring == "light" {
		cl := bitswap.NewClient(ctx, net, bs)
		net.Start(cl)
		ex, closeEx = cl, func() { net.Stop(); _ = cl.Close() }
	} else {
		b := bitswap.New(ctx, net, bs)
		net.Start(b.Client, b.Server)
		ex, closeEx = b, func() { net.Stop(); _ = b.Close() }
	}
	g := bitswap.NewGetter(ex, bs, availability.RequestWindow)
	g.Start()
	return &c06BsNode{getter: g, close: func() { g.Stop(); closeEx() }}, nil
}

func (c *c06) bitswapCases() []*c06BsCase {
	maxLen := vkit.Scale(2, 3)
	seqs := [][]string{{}}
	var gen func(prefix []string)
	gen = func(prefix []string) {
		if len(prefix) > 0 {
			seqs = append(seqs, append([]string{}, prefix...))
		}
		if len(prefix) == maxLen {
			return
		}
		for _, b := range c06BsBads {
			gen(append(prefix, b))
		}
	}
	gen(nil)
	var cases []*c06BsCase
	idx := 0
	reps := vkit.Scale(1, 3)
	for rep := 0; rep < reps; rep++ {
		for si, seq := range seqs {
			for _, honest := range []bool{true, false} {
				if !honest && len(seq) == 0 {
					continue
				}
				for wi, wiring := range []string{"light", "bridge"} {
					cs := &c06BsCase{idx: idx, height: uint64(500000 + idx), bad: seq, honest: honest, wiring: wiring}
					cs.rng = c.rng.SplitN("bitswap-case", idx)
					kind := c06Kind((si + wi + 2*rep + idx/3) % int(c06Kinds))
					if len(seq) <= 1 && wi == 1 && rep == 0 {
						kind = c06Samples // the bridge wiring stores fetched samples: always exercised
					}
					cs.req = c06GenReq(cs.rng.Split("req"), kind, vkit.Pick(cs.rng.Split("sq"), c.sqs), idx)
					cs.known = honest && (len(seq) == 0 || idx%4 != 3)
					cs.dup = honest && idx%5 == 0
					cases = append(cases, cs)
					idx++
				}
			}
		}
	}
	return cases
}

func (c *c06) warmDone() { c.bsWarmOnce.Do(func() { close(c.bsWarm) }) }

func (c *c06) bitswapPhase() {
	defer c.warmDone()
	ctx, cancel := context.WithCancel(context.Background())
	defer cancel()
	// the honest servers read from a real store holding the reference squares; the bridge wiring's
	// own store is a real store that does not hold the requested heights
	st, err := store.NewStore(store.DefaultParameters(), c.t.TempDir())
	if err != nil {
		c.run.Inconclusive("bitswap store setup failed: " + err.Error())
		return
	}
	defer st.Stop(context.Background()) //nolint:errcheck
	for _, s := range c.sqs {
		if err := st.PutODSQ4(ctx, s.sq.Roots, s.storeHeight, s.sq.EDS); err != nil {
			c.run.Inconclusive("bitswap store setup failed: " + err.Error())
			return
		}
	}
	local, err := store.NewStore(store.DefaultParameters(), c.t.TempDir())
	if err != nil {
		c.run.Inconclusive("bitswap store setup failed: " + err.Error())
		return
	}
	defer local.Stop(context.Background()) //nolint:errcheck

	cases := c.bitswapCases()
	if only := os.Getenv("VERIF_C06_BSCASES"); only != "" { // debugging aid: run selected bitswap cases only
		var sel []*c06BsCase
		for _, cs := range cases {
			for _, x := range strings.Split(only, ",") {
				if x == fmt.Sprint(cs.idx) {
					sel = append(sel, cs)
				}
			}
		}
		cases = sel
	}
	sem := make(chan struct{}, vkit.Scale(48, 96))
	var wg sync.WaitGroup
	for i, cs := range cases {
		if i == 0 {
			// alone first: the bitswap package shares one dont-have-timeout config between all clients
			// of the process and boxo fills in its clock lazily (a node has one client; a race
			// between the harness's many clients would only be noise in the race log)
			c.runBitswapCase(ctx, st, local, cs)
			c.warmDone()
			continue
		}
		wg.Add(1)
		sem <- struct{}{}
		go func(cs *c06BsCase) {
			defer wg.Done()
			defer func() { <-sem }()
			c.runBitswapCase(ctx, st, local, cs)
		}(cs)
	}
	wg.Wait()
}

// c06HonestBS records which CIDs the honest server handed out, and when.
type c06HonestBS struct {
	blockstore.Blockstore
	mu     sync.Mutex
	served map[cid.Cid]time.Time
}

func (h *c06HonestBS) Get(ctx context.Context, c cid.Cid) (blocks.Block, error) {
	b, err := h.Blockstore.Get(ctx, c)
	if err == nil {
		h.mu.Lock()
		if h.served == nil {
			h.served = map[cid.Cid]time.Time{}
		}
		if _, ok := h.served[c]; !ok {
			h.served[c] = time.Now()
		}
		h.mu.Unlock()
	}
	return b, err
}

// servedAll reports whether every wanted CID was handed out, and when the last of them was.
func (h *c06HonestBS) servedAll(want []cid.Cid) (bool, time.Time) {
	h.mu.Lock()
	defer h.mu.Unlock()
	var last time.Time
	for _, c := range want {
		t, ok := h.served[c]
		if !ok {
			return false, last
		}
		if t.After(last) {
			last = t
		}
	}
	return len(want) > 0, last
}

// c06WantedCIDs lists the blocks the bitswap getter asks for (as bitswap/getter.go builds them).
func c06WantedCIDs(q *c06Req, height uint64) []cid.Cid {
	sq := q.s.sq
	n := 2 * sq.W
	var out []cid.Cid
	add := func(b bitswap.Block, err error) {
		if err != nil {
			panic(err)
		}
		out = append(out, b.CID())
	}
	switch q.kind {
	case c06Samples:
		for _, c := range q.coords {
			b, err := bitswap.NewEmptySampleBlock(height, c, n)
			add(b, err)
		}
	case c06Row:
		b, err := bitswap.NewEmptyRowBlock(height, q.row, n)
		add(b, err)
	case c06EDS:
		for i := 0; i < sq.W; i++ {
			b, err := bitswap.NewEmptyRowBlock(height, i, n)
			add(b, err)
		}
	case c06ND:
		for _, r := range sq.RowsCovering(q.ns) {
			b, err := bitswap.NewEmptyRowNamespaceDataBlock(height, r, q.ns, n)
			add(b, err)
		}
	default:
		b, err := bitswap.NewEmptyRangeNamespaceDataBlock(height, q.from, q.to, sq.W)
		add(b, err)
	}
	return out
}

// c06BsEnv is one bitswap world: hostile and honest servers, and the client node.
type c06BsEnv struct {
	node   *c06BsNode
	bads   []*atomic.Int64 // hostile blocks handed out, per hostile server
	honest *c06HonestBS
	close  func()
}

func (e *c06BsEnv) badServed() int64 {
	var n int64
	for _, b := range e.bads {
		n += b.Load()
	}
	return n
}

// newBsEnv stands up the servers of a case on a private mocknet and wires the client node. The
// honest server is connected; the hostile ones are connected by connectBad (immediately unless the
// case first lets the node get to know the honest server).
func (c *c06) newBsEnv(ctx context.Context, st, local *store.Store, cs *c06BsCase) (*c06BsEnv, error) {
	q := cs.req
	env := &c06BsEnv{}
	mn := mocknet.New()
	var closers []func()
	env.close = func() {
		if env.node != nil {
			env.node.close()
		}
		for _, f := range closers {
			f()
		}
		_ = mn.Close()
	}
	clientHost, err := mn.GenPeer()
	if err != nil {
		return env, err
	}
	env.honest = &c06HonestBS{Blockstore: &bitswap.Blockstore{Getter: c06FixedGetter{st: st, height: q.s.storeHeight}}}
	var badHosts []host.Host
	startServer := func(bs blockstore.Blockstore) (host.Host, error) {
		h, err := mn.GenPeer()
		if err != nil {
			return nil, err
		}
		net := bitswap.NewNetwork(h, c06BsPrefix)
		srv := bitswap.NewServer(ctx, net, bs)
		net.Start(srv)
		closers = append(closers, func() { net.Stop(); srv.Close() })
		return h, nil
	}
	for j, beh := range cs.bad {
		cnt := new(atomic.Int64)
		h, err := startServer(c06BadStore(cs, j, beh, env.honest.Blockstore, cnt))
		if err != nil {
			return env, err
		}
		env.bads, badHosts = append(env.bads, cnt), append(badHosts, h)
	}
	var honestHost host.Host
	if cs.honest {
		if honestHost, err = startServer(env.honest); err != nil {
			return env, err
		}
	}
	if env.node, err = c06WireBitswap(ctx, clientHost, cs.wiring, local); err != nil {
		return env, err
	}
	if err := mn.LinkAll(); err != nil {
		return env, err
	}
	connect := func(h host.Host) error {
		_, err := mn.ConnectPeers(clientHost.ID(), h.ID())
		return err
	}
	if honestHost != nil {
		if err := connect(honestHost); err != nil {
			return env, err
		}
		if cs.known {
			// get to know the honest server: fetch a row of another height from it, alone. (A want
			// issued before the client has registered the connection is never sent - the fork does
			// not broadcast to newly connected peers - hence short attempts for different rows.)
			var werr error
			for try := 0; try < 12; try++ {
				time.Sleep(20 * time.Millisecond)
				wctx, wc := context.WithTimeout(ctx, 3*time.Second)
				_, werr = env.node.getter.GetRow(wctx, vkit.MinimalHeader(cs.height+c06BsWarmOffset, q.s.sq.Roots, time.Now()), try%(2*q.s.sq.W))
				wc()
				if werr == nil {
					break
				}
			}
			if werr != nil {
				return env, fmt.Errorf("warm-up fetch from the honest server alone failed: %w", werr)
			}
		}
	}
	for _, h := range badHosts {
		if err := connect(h); err != nil {
			return env, err
		}
	}
	// let the client's connection handlers run (as the repository's own bitswap tests do)
	time.Sleep(50 * time.Millisecond)
	return env, nil
}

const (
	c06BsWarmOffset     = 250000
	c06BsHonestDeadline = 12 * time.Second
	// c06BsMargin: an honest block handed out this long before the call returned had every chance to arrive
	c06BsMargin = 8 * time.Second
)

func (c *c06) runBitswapCase(ctx context.Context, st, local *store.Store, cs *c06BsCase) {
	run := c.run
	q := cs.req
	getterName := "bitswap/" + cs.wiring
	ctx, cancelAll := context.WithCancel(ctx)
	defer cancelAll()
	env, err := c.newBsEnv(ctx, st, local, cs)
	defer env.close()
	if err != nil {
		// the harness could not arrange its scenario (e.g. the getting-to-know fetch on a loaded
		// machine): nothing was observed about the property; the minimum case counts guard the rest
		run.Count("bitswap/setup-failed(case skipped)", 1)
		run.Sample(map[string]any{"bitswap_case_skipped": cs.desc(), "setup_error": err.Error()})
		return
	}
	node, bads, badServed := env.node, env.bads, env.badServed

	hdr := vkit.MinimalHeader(cs.height, q.s.sq.Roots, time.Now())
	// the deadline only decides when a call that cannot be answered ends
	dl := time.Duration(vkit.Scale(2500, 4000)) * time.Millisecond
	if cs.honest {
		dl = c06BsHonestDeadline
	}
	callCtx, c2 := context.WithTimeout(ctx, dl)
	defer c2()
	type outT struct {
		res      c06Result
		panicked bool
		at       time.Time
	}
	ncalls := 1
	if cs.dup {
		ncalls = 2
	}
	resCh := make(chan outT, ncalls)
	for i := 0; i < ncalls; i++ {
		go func() {
			var o outT
			o.panicked = run.NoPanic(fmt.Sprintf("C06 %s %s:", getterName, c06KindNames[q.kind]), cs.desc(), func() {
				o.res = c06Call(callCtx, node.getter, q, hdr)
			})
			o.at = time.Now()
			resCh <- o
		}()
	}
	wd := time.NewTimer(c06Watchdog)
	defer wd.Stop()
	var outs []outT
	for len(outs) < ncalls {
		select {
		case o := <-resCh:
			outs = append(outs, o)
		case <-wd.C:
			c06DumpOnce("bitswap watchdog")
			run.Inconclusive(fmt.Sprintf("bitswap case %d still running at the watchdog: %s %s %s", cs.idx, cs.servers(), cs.wiring, q.String()))
			cancelAll()
			return
		}
	}
	run.Eval(1)
	run.Count("bitswap/cases", 1)
	run.Count("bitswap/wiring/"+cs.wiring, 1)
	run.Count("bitswap/bad-blocks-served", int(badServed()))
	for j, b := range bads {
		if b.Load() > 0 {
			run.Count("bitswap/bad-behaviour-served/"+cs.bad[j], 1)
		}
	}
	run.Distinct(fmt.Sprintf("bitswap|%d|%s|%s|%v", q.kind, cs.servers(), cs.wiring, cs.dup))
	wanted := c06WantedCIDs(q, cs.height)
	detail := func() map[string]any {
		d := cs.desc()
		d["bad_blocks_served"] = badServed()
		all, _ := env.honest.servedAll(wanted)
		d["honest_server_handed_out_every_wanted_block"] = all
		return d
	}
	for _, o := range outs {
		if o.panicked {
			run.Count("bitswap/panicked", 1)
			continue
		}
		res := o.res
		if n := c.n.Add(1); n%23 == 1 {
			s := detail()
			s["outcome_error"] = fmt.Sprint(res.err)
			run.Sample(s)
		}
		c.judge(getterName, q, &res, detail)
		if !cs.honest {
			continue
		}
		all, last := env.honest.servedAll(wanted)
		switch {
		case res.err == nil:
			run.Count("bitswap/honest-success", 1)
			if badServed() > 0 {
				run.Count("bitswap/honest-success-after-bad-block", 1)
			}
		case cs.dup:
			// two identical concurrent calls: the second one depends on the first one's bookkeeping
			// (block_fetch.go "duplicates"); whether both are served is not this property
			run.Count("bitswap/concurrent-duplicate-call-failed", 1)
		case all && o.at.Sub(last) > c06BsMargin:
			// The honest server had handed out every wanted block long before the call gave up.
			// Seen (rarely, loaded machine) even with no hostile server at all, so it is not evidence
			// that a bad response spoiled a good one: recorded, not judged. What is demanded instead
			// is a minimum number of successes (a verifier rejecting everything would end there).
			run.Count("bitswap/failed-although-honest-blocks-were-handed-out(not-judged)", 1)
			d := detail()
			d["returned_error"] = res.err.Error()
			d["honest_blocks_handed_out_before_return"] = o.at.Sub(last).String()
			run.Sample(d)
		case !all:
			run.Count("bitswap/honest-server-never-asked(broadcast-went-to-hostile-peers-only)", 1)
		default:
			run.Count("bitswap/deadline-ended-first", 1)
		}
	}
}
