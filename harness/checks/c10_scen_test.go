package checks

import (
	"fmt"
	"strings"
	"sync"

	"github.com/ipfs/go-cid"

	"github.com/celestiaorg/celestia-node/zz_verif/vkit"
)

// Scenarios around an ALREADY POPULATED request that is still registered (DESIGN §5-23): each
// UnmarshalFn returns nil early once its container is set, so the hasher then accepts any bytes
// whose envelope names that CID. The statement speaks of *pending* requests; an accepted second
// block is a finding only where it has an observable consequence:
//
//	(a) it reaches the local blockstore (Fetch … WithStore) or the container,
//	(b) it makes a Fetch panic / return without data.
//
// Everything else is recorded as diagnostics ("second-delivery/...").

type c10ScenReqs struct {
	w    *c10World
	reqs []*c10Req // one per kind where the server can serve it
}

func (c *c10) scenarioWorld(r *vkit.RNG, i int, w int, layout string) *c10ScenReqs {
	sq := vkit.GenSquare(r.SplitN("sq", i), w, layout, r.Intn(w*w))
	wd, err := c.newWorld(r.SplitN("world", i), sq, nil, 5_000_000+uint64(i)*104729)
	if err != nil {
		c.run.Inconclusive("cannot store scenario square: " + err.Error())
		return nil
	}
	out := &c10ScenReqs{w: wd}
	n := 2 * w
	add := func(q *c10Req, err error) {
		if err != nil || q == nil {
			return
		}
		if _, err := wd.honest(q.cid); err == nil {
			out.reqs = append(out.reqs, q)
		}
	}
	add(c10SampleReq(sq, wd.h, r.Intn(n), r.Intn(n)))
	add(c10RowReq(sq, wd.h, r.Intn(n)))
	add(c10RNDReq(sq, wd.h, 0, sq.ODS[0].Namespace()))
	run := sq.Runs[0]
	add(c10RangeReq(sq, wd.h, run.Start, run.Start+min(run.Count, w+1)))
	return out
}

// garbageFor builds bytes that name the CID but cannot verify.
func (w *c10World) garbageFor(q *c10Req) []c10Garbage {
	out := []c10Garbage{
		{"random-container", c10Envelope(q.cid.Bytes(), w.r.Bytes(w.r.Range(1, 300)))},
		{"empty-container", c10Envelope(q.cid.Bytes(), nil)},
	}
	if tb, err := w.twbs.Get(w.c.ctx, q.cid); err == nil {
		out = append(out, c10Garbage{"twin-square", tb.RawData()})
	}
	return out
}

type c10Garbage struct {
	name string
	b    []byte
}

func (c *c10) scenarios(r *vkit.RNG) {
	run := c.run
	nworlds := vkit.Scale(3, 12)
	for i := 0; i < nworlds; i++ {
		s := c.scenarioWorld(r, i, []int{2, 4, 8}[i%3], vkit.Layouts[i%len(vkit.Layouts)])
		if s == nil || len(s.reqs) < 2 {
			continue
		}
		w := s.w
		for qi, q := range s.reqs {
			other := s.reqs[(qi+1)%len(s.reqs)]
			hq, _ := w.honest(q.cid)
			for _, g := range w.garbageFor(q) {
				c.scenSecondDelivery(w, q, other, hq, g.name, g.b)
				c.scenSameMessage(w, q, hq, g.name, g.b)
				c.scenLateDuplicate(w, q, other, hq, g.name, g.b)
			}
			c.scenLateDuplicate(w, q, other, hq, "honest-again", hq)
			c.scenOrphan(w, q, hq)
			c.scenNotifyBypass(w, q, hq)
		}
		run.Count("scenario/worlds", 1)
	}
}

// scenSecondDelivery: Fetch([A,B]); A arrives honestly; then bytes naming A that cannot verify.
func (c *c10) scenSecondDelivery(w *c10World, qa, qb *c10Req, ha []byte, gname string, g []byte) {
	run := c.run
	a, b := qa.fresh(), qb.fresh()
	p := c10Start(run, w.ex, w.sq.Roots, true, a, b)
	defer func() {
		if !p.finished() {
			p.stop(run)
		}
	}()
	run.Eval(1)
	run.Distinct(fmt.Sprintf("scen|second|%s|%d|%s|%s", w.sq.Desc(), w.h, qa.kind, gname))
	if sum, _, err := w.ex.receive(a.cid.Prefix(), ha); err != nil || !sum.Equals(a.cid) || a.diff() != "" {
		run.Violation("C10 "+a.kind+" honest-rejected", map[string]any{"scenario": "second-delivery", "square": w.sq.Desc(), "request": a.kind + " " + a.pos, "err": fmt.Sprint(err), "container": c10OrOK(a.diff())})
		return
	}
	sum, served, err := w.ex.receive(a.cid.Prefix(), g)
	acc := err == nil && sum.Equals(a.cid)
	if acc {
		run.Count("second-delivery/accepted-by-predicate/"+a.kind+"/"+gname, 1)
	} else {
		run.Count("second-delivery/rejected/"+a.kind+"/"+gname, 1)
	}
	if len(served) != 0 {
		run.Violation("C10 exchange model: a CID was delivered twice to one call", map[string]any{"request": a.kind})
	}
	if d := a.diff(); d != "" {
		run.Violation("C10 "+a.kind+" populated container changed op=second-delivery/"+gname, map[string]any{"square": w.sq.Desc(), "height": w.h, "request": a.kind + " " + a.pos, "container": d})
	}
	if !b.zero() {
		run.Violation("C10 "+b.kind+" filled by a block carrying a "+a.kind+" identifier op=second-delivery", map[string]any{"square": w.sq.Desc()})
	}
	// complete the fetch honestly
	hb, _ := w.honest(b.cid)
	if _, _, err := w.ex.receive(b.cid.Prefix(), hb); err != nil {
		run.Violation("C10 "+b.kind+" honest-rejected", map[string]any{"scenario": "second-delivery/complete", "err": err.Error()})
		return
	}
	if !p.wait(run) {
		return
	}
	run.Count("fetch/completed", 1)
	if p.err != nil || p.pnc != nil || a.diff() != "" || b.diff() != "" {
		run.Violation("C10 multi-block Fetch does not end with the reference data", map[string]any{"err": fmt.Sprint(p.err), "panic": fmt.Sprint(p.pnc), "a": c10OrOK(a.diff()), "b": c10OrOK(b.diff())})
	}
	for _, q := range []*c10Req{a, b} {
		if stored, ok := p.store.get(q.cid); ok {
			run.Count("store/put", 1)
			if why := w.storedDiff(q, stored); why != "" {
				run.Violation("C10 local blockstore holds bytes that do not verify for their CID", map[string]any{"scenario": "second-delivery/" + gname, "kind": q.kind, "why": why})
			}
		}
	}
}

// scenSameMessage: ONE bitswap message carries the honest block of A followed by unverifiable
// bytes that name A too. boxo hashes both (the second finds A populated) and keeps the LAST block
// per CID, which is what the pending Fetch receives, stores and re-announces.
func (c *c10) scenSameMessage(w *c10World, qa *c10Req, ha []byte, gname string, g []byte) {
	run := c.run
	for _, order := range []string{"honest-then-garbage", "garbage-then-honest"} {
		a := qa.fresh()
		p := c10Start(run, w.ex, w.sq.Roots, true, a)
		run.Eval(1)
		run.Count("scenario/same-message/"+order, 1)
		run.Distinct(fmt.Sprintf("scen|msg|%s|%d|%s|%s|%s", w.sq.Desc(), w.h, qa.kind, gname, order))
		msg := []c10Payload{{a.cid.Prefix(), ha}, {a.cid.Prefix(), g}}
		if order == "garbage-then-honest" {
			msg[0], msg[1] = msg[1], msg[0]
		}
		m, err := w.ex.decode(msg)
		if err != nil {
			run.Count("scenario/same-message/dropped/"+order, 1)
			if !a.zero() && a.diff() != "" {
				run.Violation("C10 "+a.kind+" filled-but-different op=same-message", map[string]any{"order": order, "container": a.diff()})
			}
			p.stop(run)
			continue
		}
		run.Count("scenario/same-message/decoded/"+order, 1)
		w.ex.deliver(m)
		if !p.wait(run) {
			continue
		}
		run.Count("fetch/completed", 1)
		detail := map[string]any{
			"square": w.sq.Desc(), "height": w.h, "seed": vkit.Seed(), "request": a.kind + " " + a.pos, "cid": a.cid.String(),
			"message": "payload[0] = honest block, payload[1] = " + gname + " bytes whose envelope names the same CID (same prefix)",
			"order":   order, "garbage_head": fmt.Sprintf("%x", g[:min(len(g), 96)]),
			"fetch_err": fmt.Sprint(p.err), "container": c10OrOK(a.diff()),
		}
		if p.pnc != nil || p.err != nil || a.diff() != "" {
			run.Violation("C10 Fetch does not end with the reference data after a message with two blocks for one CID", detail)
		}
		if stored, ok := p.store.get(a.cid); ok {
			run.Count("store/put", 1)
			if why := w.storedDiff(a, stored); why != "" {
				detail["stored_head"] = fmt.Sprintf("%x", stored[:min(len(stored), 96)])
				detail["why"] = why + "; the second payload entry was accepted by the hasher because the request was already populated by the first (UnmarshalFn returns nil early), replaced the honest block in boxo's per-message map and was handed to Fetch, which Put it into the WithStore blockstore and passed it to NotifyNewBlocks"
				run.Violation("C10 local blockstore receives unverified bytes accepted after the request was populated", detail)
			}
		}
	}
}

// scenLateDuplicate: Fetch1([A,B]) has A populated and waits for B; Fetch2([A]) starts (duplicate
// path: it must unmarshal by itself). The next block accepted for A goes to Fetch2.
func (c *c10) scenLateDuplicate(w *c10World, qa, qb *c10Req, ha []byte, gname string, g []byte) {
	run := c.run
	a1, b1, a2 := qa.fresh(), qb.fresh(), qa.fresh()
	p1 := c10Start(run, w.ex, w.sq.Roots, false, a1, b1)
	defer func() {
		if !p1.finished() {
			p1.stop(run)
		}
	}()
	run.Eval(1)
	run.Count("scenario/late-duplicate/"+gname, 1)
	run.Distinct(fmt.Sprintf("scen|latedup|%s|%d|%s|%s", w.sq.Desc(), w.h, qa.kind, gname))
	before := w.ex.notifs.Load()
	if sum, _, err := w.ex.receive(a1.cid.Prefix(), ha); err != nil || !sum.Equals(a1.cid) {
		run.Violation("C10 "+a1.kind+" honest-rejected", map[string]any{"scenario": "late-duplicate", "err": fmt.Sprint(err)})
		return
	}
	// Fetch#1 re-announces A through NotifyNewBlocks when it takes it from its channel; let that
	// happen before Fetch#2 exists, so that Fetch#2 really depends on the next block for A
	if !w.ex.awaitNotifs(run, before+1) {
		return
	}
	p2 := c10Start(run, w.ex, w.sq.Roots, false, a2)
	sum, served, err := w.ex.receive(a2.cid.Prefix(), g)
	acc := err == nil && sum.Equals(a2.cid)
	if !acc || len(served) == 0 {
		run.Count("scenario/late-duplicate/not-delivered/"+gname, 1)
		p2.stop(run)
		if !a2.zero() && a2.diff() != "" {
			run.Violation("C10 "+a2.kind+" filled-but-different op=late-duplicate", map[string]any{"container": a2.diff()})
		}
		return
	}
	if !p2.wait(run) {
		return
	}
	run.Count("fetch/completed", 1)
	detail := map[string]any{
		"square": w.sq.Desc(), "height": w.h, "seed": vkit.Seed(), "request": a2.kind + " " + a2.pos, "cid": a2.cid.String(),
		"history": []string{
			"Fetch#1([A,B]) pending; honest A accepted → A populated, B outstanding (A's verifier stays registered)",
			"Fetch#2([A]) starts: duplicate path",
			"bytes '" + gname + "' naming A offered: hasher finds A populated, returns nil → boxo accepts them for A and hands them to Fetch#2",
		},
		"bytes_head": fmt.Sprintf("%x", g[:min(len(g), 96)]),
		"fetch2_err": fmt.Sprint(p2.err), "fetch2_panic": fmt.Sprint(p2.pnc), "fetch2_container": c10OrOK(a2.diff()),
	}
	switch {
	case p2.pnc != nil:
		run.Violation("C10 Fetch panics on unverified bytes accepted after the request was populated (duplicate path)", detail)
	case p2.err == nil && a2.diff() != "":
		run.Violation("C10 duplicate Fetch returned nil without the reference data", detail)
	case p2.err == nil:
		run.Count("scenario/late-duplicate/populated/"+gname, 1)
	}
}

// scenOrphan (diagnostic): the original requester of a CID gives up while a duplicate still waits;
// the verifier is unregistered with it, so even the honest block is refused for the duplicate.
func (c *c10) scenOrphan(w *c10World, qa *c10Req, ha []byte) {
	run := c.run
	a1, a2 := qa.fresh(), qa.fresh()
	p1 := c10Start(run, w.ex, w.sq.Roots, false, a1)
	p2 := c10Start(run, w.ex, w.sq.Roots, false, a2)
	p1.stop(run)
	run.Eval(1)
	sum, served, err := w.ex.receive(a2.cid.Prefix(), ha)
	if err == nil && sum.Equals(a2.cid) && len(served) > 0 {
		if p2.wait(run) && (p2.pnc != nil || p2.err != nil || a2.diff() != "") {
			run.Violation("C10 duplicate Fetch does not end with the reference data after the original was cancelled", map[string]any{"err": fmt.Sprint(p2.err), "panic": fmt.Sprint(p2.pnc), "container": c10OrOK(a2.diff())})
		}
		run.Count("diag/orphaned-duplicate/served", 1)
		return
	}
	run.Count("diag/orphaned-duplicate/honest-block-refused", 1)
	if !a2.zero() && a2.diff() != "" {
		run.Violation("C10 "+a2.kind+" filled-but-different op=orphan", map[string]any{"container": a2.diff()})
	}
	p2.stop(run)
}

// c10SigBypass: a Fetch that is the registered ("original") requester of a CID trusts that any block
// arriving on its channel went through the hasher with ITS verifier. Blocks re-announced by another
// Fetch through exchange.NotifyNewBlocks (which Fetch calls for every block it receives) are
// published to all local subscribers without hashing.
const c10SigBypass = "C10 Fetch returns nil with an empty container when the block is re-announced by another Fetch (NotifyNewBlocks bypasses the verifier)"

// scenNotifyBypass: three honest fetches of one CID. O (original) and D (duplicate) wait; the
// honest block arrives; O returns (verifier unregistered) while D has not yet taken the block from
// its channel; X starts (new original); D now runs and re-announces the block.
func (c *c10) scenNotifyBypass(w *c10World, qa *c10Req, ha []byte) {
	run := c.run
	o, d, x := qa.fresh(), qa.fresh(), qa.fresh()
	run.Eval(1)
	run.Count("scenario/notify-bypass", 1)
	run.Distinct(fmt.Sprintf("scen|bypass|%s|%d|%s", w.sq.Desc(), w.h, qa.kind))
	pO := c10Start(run, w.ex, w.sq.Roots, false, o)
	pD := c10Start(run, w.ex, w.sq.Roots, false, d)
	if pO.call == nil || pD.call == nil {
		return
	}
	w.ex.hold(pD.call)
	if sum, _, err := w.ex.receive(o.cid.Prefix(), ha); err != nil || !sum.Equals(o.cid) {
		run.Violation("C10 "+o.kind+" honest-rejected", map[string]any{"scenario": "notify-bypass", "err": fmt.Sprint(err)})
		w.ex.release(pD.call)
		pO.stop(run)
		pD.stop(run)
		return
	}
	if !pO.wait(run) {
		return
	}
	pX := c10Start(run, w.ex, w.sq.Roots, true, x)
	w.ex.release(pD.call)
	if !pD.wait(run) {
		return
	}
	if pX.outstanding(w.ex) > 0 {
		// nobody re-announced it to X: serve it
		run.Count("scenario/notify-bypass/not-reannounced", 1)
		if _, _, err := w.ex.receive(x.cid.Prefix(), ha); err != nil {
			run.Violation("C10 "+x.kind+" honest-rejected", map[string]any{"scenario": "notify-bypass/serve", "err": err.Error()})
			pX.stop(run)
			return
		}
	} else {
		run.Count("scenario/notify-bypass/reannounced", 1)
	}
	if !pX.wait(run) {
		return
	}
	run.Count("fetch/completed", 1)
	for _, f := range []struct {
		name string
		p    *c10Pend
		q    *c10Req
	}{{"O", pO, o}, {"D", pD, d}, {"X", pX, x}} {
		if f.p.pnc != nil || f.p.err != nil {
			run.Violation("C10 concurrent Fetch fails with honest blocks @"+f.p.site, map[string]any{"scenario": "notify-bypass", "fetch": f.name, "err": fmt.Sprint(f.p.err), "panic": fmt.Sprint(f.p.pnc)})
			continue
		}
		if diff := f.q.diff(); diff != "" {
			run.Violation(c10SigBypass, map[string]any{
				"square": w.sq.Desc(), "height": w.h, "seed": vkit.Seed(), "request": f.q.kind + " " + f.q.pos, "cid": f.q.cid.String(), "fetch": f.name,
				"history": []string{
					"Fetch O([A]) registers the verifier (original); Fetch D([A]) finds it registered (duplicate)",
					"honest block A arrives: hasher populates O's Block; boxo hands A to O and D",
					"O takes A, NotifyNewBlocks(A), returns, unregisters the verifier; D's goroutine has not run yet",
					"Fetch X([A]) starts: no verifier registered → X registers its own (original) and subscribes",
					"D takes A from its channel and calls exchange.NotifyNewBlocks(A): boxo publishes A to X without hashing",
					"X takes A, is not a duplicate, assumes the hasher populated its Block, returns nil",
				},
				"fetch_err": fmt.Sprint(f.p.err), "container": diff, "only honest bytes involved": true,
			})
		}
	}
}

// ---------------------------------------------------------------------------------------------
// Concurrent fetches of the same identifiers (duplicate path of block_fetch.go). Every Fetch must
// end nil with the reference data. Run under the race binary: reports in p2p/bitswap decide.

func (c *c10) concurrent(r *vkit.RNG) {
	run := c.run
	var worlds []*c10ScenReqs
	for i := 0; i < 3; i++ {
		if s := c.scenarioWorld(r.Split("cw"), 100+i, []int{2, 4, 8}[i], vkit.Pick(r, vkit.Layouts)); s != nil && len(s.reqs) >= 2 {
			worlds = append(worlds, s)
		}
	}
	if len(worlds) == 0 {
		run.Inconclusive("no world for the concurrency workload")
		return
	}
	iters := vkit.Scale(80, 800)
	for it := 0; it < iters; it++ {
		s := worlds[it%len(worlds)]
		w := s.w
		ri := r.SplitN("it", it)
		m := ri.Range(1, len(s.reqs)) // CIDs of this round
		perm := ri.Perm(len(s.reqs))[:m]
		k := ri.Range(2, 8)
		late := ri.Intn(k) // fetchers started only after the first block was delivered
		if it%3 == 0 {
			late = 0
		}
		type fetcher struct {
			reqs []*c10Req
			p    *c10Pend
		}
		fs := make([]*fetcher, k)
		for j := range fs {
			f := &fetcher{}
			for _, x := range ri.Perm(m)[:ri.Range(1, m)] {
				f.reqs = append(f.reqs, s.reqs[perm[x]].fresh())
			}
			fs[j] = f
		}
		// start a group at once: the Fetches race on the verifier registry
		startAll := func(list []*fetcher) bool {
			gate := make(chan struct{})
			var ready sync.WaitGroup
			for _, f := range list {
				ready.Add(1)
				go func(f *fetcher) {
					ready.Done()
					<-gate
				}(f)
			}
			ready.Wait()
			for _, f := range list {
				f.p = c10Launch(w.ex, w.sq.Roots, false, f.reqs...)
			}
			close(gate)
			ok := true
			for _, f := range list {
				ok = f.p.awaitRegistered(run) && ok
			}
			return ok
		}
		run.Eval(1)
		run.Count("conc/rounds", 1)
		run.Distinct(fmt.Sprintf("conc|%d|k=%d|m=%d|late=%d", it, k, m, late))
		run.SetAdd("conc_shapes", fmt.Sprintf("k=%d m=%d late=%d", k, m, late))
		// serve: honest blocks, several "peers" answering the same want at the same time
		serve := func(ks []cid.Cid) {
			var wg sync.WaitGroup
			for _, kc := range ks {
				hb, err := w.honest(kc)
				if err != nil {
					continue
				}
				for g := 0; g < 1+ri.Intn(3); g++ {
					wg.Add(1)
					go func(kc cid.Cid, hb []byte) {
						defer wg.Done()
						if p, site := vkit.Recover(func() { _, _, _ = w.ex.receive(kc.Prefix(), hb) }); p != nil {
							run.Violation("C10 receive path panics @"+site+" op=honest-concurrent", map[string]any{"panic": fmt.Sprint(p)})
						}
					}(kc, hb)
				}
			}
			wg.Wait()
		}
		var all []cid.Cid
		for _, x := range perm {
			all = append(all, s.reqs[x].cid)
		}
		ok := startAll(fs[:k-late])
		if ok && late > 0 {
			serve(all[:1])
			ok = startAll(fs[k-late:])
		}
		if ok {
			// answer until no GetBlocks call waits for anything (deliveries are synchronous in the
			// exchange, so the outstanding counts are exact right after serve)
			for round := 0; round < 3; round++ {
				serve(all)
				left := 0
				for _, f := range fs {
					left += f.p.outstanding(w.ex)
				}
				if left == 0 {
					break
				}
			}
		}
		for _, f := range fs {
			if f.p == nil {
				continue
			}
			if n := f.p.outstanding(w.ex); n > 0 {
				// honest blocks for its CIDs were offered after it registered, yet it still waits
				orphan := true
				for _, q := range f.reqs {
					if !w.ex.wanted(q.cid) {
						continue
					}
					hb, _ := w.honest(q.cid)
					_, _, err := w.ex.receive(q.cid.Prefix(), hb)
					if err == nil || !strings.Contains(err.Error(), "no unmarshallers registered") {
						orphan = false
					}
				}
				f.p.stop(run)
				if orphan {
					// the original requester returned and unregistered the verifier between this
					// Fetch's registry lookup and its wait: see scenOrphan
					run.Count("diag/orphaned-duplicate/in-concurrent-round", 1)
				} else {
					run.Violation("C10 concurrent Fetch never completes although honest blocks for all its CIDs were offered", map[string]any{"square": w.sq.Desc(), "k": k, "m": m, "late": late, "seed": vkit.Seed(), "iteration": it})
				}
				continue
			}
			if !f.p.wait(run) {
				continue
			}
			if f.p.pnc != nil || f.p.err != nil {
				run.Violation("C10 concurrent Fetch fails with honest blocks @"+f.p.site, map[string]any{"err": fmt.Sprint(f.p.err), "panic": fmt.Sprint(f.p.pnc), "k": k, "m": m, "late": late, "seed": vkit.Seed(), "iteration": it})
				continue
			}
			good := true
			for _, q := range f.reqs {
				if d := q.diff(); d != "" {
					good = false
					sig := "C10 concurrent Fetch returned nil without the reference data (" + q.kind + ")"
					if q.zero() {
						// only honest bytes are offered in this workload: a Fetch can return nil with an
						// untouched Block only if it took the block from its channel without its verifier
						// having run (see scenNotifyBypass for the deterministic history)
						sig = c10SigBypass
					}
					run.Violation(sig, map[string]any{"container": d, "request": q.kind + " " + q.pos, "k": k, "m": m, "late": late, "seed": vkit.Seed(), "iteration": it, "workload": "concurrent honest fetches of the same CIDs"})
				}
			}
			if good {
				run.Count("conc/fetches-populated", 1)
			}
		}
	}
}
