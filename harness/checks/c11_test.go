package checks

import (
	"bytes"
	"context"
	"errors"
	"fmt"
	"os"
	"path/filepath"
	"strings"
	"sync"
	"sync/atomic"
	"testing"
	"time"

	logging "github.com/ipfs/go-log/v2"

	"github.com/celestiaorg/celestia-app/v9/pkg/appconsts"
	"github.com/celestiaorg/go-square/merkle"
	"github.com/celestiaorg/go-square/v4/inclusion"
	libshare "github.com/celestiaorg/go-square/v4/share"

	"github.com/celestiaorg/celestia-node/blob"
	"github.com/celestiaorg/celestia-node/header"
	"github.com/celestiaorg/celestia-node/share/shwap"
	"github.com/celestiaorg/celestia-node/store"
	"github.com/celestiaorg/celestia-node/zz_verif/vkit"
)

// C11 — blob retrieval returns exactly the blobs that are in the block.
//
// Workload: blocks built by the real square-layout rules (vkit.GenBlock) put into a real
// store.Store; a real blob.Service over the real store.Getter (and over an in-memory accessor
// getter). Oracle: differential against the construction record of the block:
//
//	GetAll(ns)        == ordered record of ns (data, signer, share version, commitment, EDS index); absent ⇒ empty, nil
//	Get(ns, c)        present ⇒ the blob, index one of the true start indices of (ns, c); absent ⇒ ErrBlobNotFound
//	GetProof(ns, c)   present ⇒ succeeds; absent ⇒ ErrBlobNotFound
//
// "absent" = a commitment that no blob of ns has in this block (random, bit-flipped, truncated,
// empty, taken from another namespace of the same block, same data under another share version)
// or a namespace without blobs (between / below / above the present ones, far away).

type c11 struct {
	run *vkit.Run
	n   atomic.Int64
}

func c11Quiet() {
	for _, l := range []string{"blob", "store", "share/eds", "shwap", "edsstore", "share/store", "eds/file", "share/file"} {
		_ = logging.SetLogLevel(l, "fatal")
	}
	// everything else too: the code under test logs every not-found at error level
	logging.SetAllLoggers(logging.LevelFatal)
}

// c11Env is a blob service over a getter, with the header index it reads from.
type c11Env struct {
	name    string
	svc     *blob.Service
	headers *sync.Map // height -> *header.ExtendedHeader
}

func c11Service(name string, g shwap.Getter, headers *sync.Map) *c11Env {
	hg := func(_ context.Context, h uint64) (*header.ExtendedHeader, error) {
		v, ok := headers.Load(h)
		if !ok {
			return nil, fmt.Errorf("header %d: not found", h)
		}
		return v.(*header.ExtendedHeader), nil
	}
	svc := blob.NewService(nil, g, hg, func(context.Context) (<-chan *header.ExtendedHeader, error) {
		return nil, errors.New("no subscription in this monitor")
	})
	_ = svc.Start(context.Background())
	return &c11Env{name: name, svc: svc, headers: headers}
}

// c11RunDir returns a scratch directory for the store.
func c11RunDir(t *testing.T, sub string) string {
	base := os.Getenv("VERIF_RUN_DIR")
	if base == "" {
		return t.TempDir()
	}
	d := filepath.Join(base, sub)
	_ = os.RemoveAll(d)
	if err := os.MkdirAll(d, 0o755); err != nil {
		return t.TempDir()
	}
	t.Cleanup(func() { _ = os.RemoveAll(d) })
	return d
}

func c11Hex(b []byte) string {
	if len(b) > 24 {
		return fmt.Sprintf("%x…(%dB)", b[:24], len(b))
	}
	return fmt.Sprintf("%x", b)
}

func c11NS(ns libshare.Namespace) string { return fmt.Sprintf("%x", ns.ID()[18:]) }

func c11Rec(w int, b *vkit.BlobRec) map[string]any {
	return map[string]any{"ns": c11NS(b.NS), "len": len(b.Data), "data": c11Hex(b.Data), "signer": c11Hex(b.Signer),
		"share_version": b.ShareVersion, "commitment": fmt.Sprintf("%x", b.Commitment), "ods_start": b.Start, "shares": b.Len,
		"eds_index": b.EDSIndex(w), "tx": b.Tx, "idx": b.Idx}
}

func c11Got(b *blob.Blob) map[string]any {
	if b == nil || b.Blob == nil {
		return map[string]any{"nil": true}
	}
	return map[string]any{"ns": c11NS(b.Namespace()), "len": len(b.Data()), "data": c11Hex(b.Data()), "signer": c11Hex(b.Signer()),
		"share_version": b.ShareVersion(), "commitment": fmt.Sprintf("%x", []byte(b.Commitment)), "index": b.Index()}
}

// c11Layout describes the shares of a namespace in the ODS (B = blob start, b = blob
// continuation, p = padding) with row breaks: the witness that makes a violation readable.
func c11Layout(blk *vkit.Block, ns libshare.Namespace) string {
	var sb bytes.Buffer
	first := -1
	for i, sh := range blk.Sq.ODS {
		if !sh.Namespace().Equals(ns) {
			continue
		}
		if first < 0 {
			first = i
			fmt.Fprintf(&sb, "from ods[%d] (row %d col %d, w=%d): ", i, i/blk.W, i%blk.W, blk.W)
		} else if i%blk.W == 0 {
			sb.WriteByte('|')
		}
		switch {
		case sh.IsPadding():
			sb.WriteByte('p')
		case sh.IsSequenceStart():
			sb.WriteByte('B')
		default:
			sb.WriteByte('b')
		}
		if sb.Len() > 700 {
			sb.WriteString("…")
			break
		}
	}
	return sb.String()
}

// c11Shape classifies the layout situation of a blob (for coverage counters).
func c11Shape(blk *vkit.Block, i int) []string {
	b := blk.Blobs[i]
	var out []string
	w := blk.W
	if b.Start/w != (b.Start+b.Len-1)/w {
		out = append(out, "spans-rows")
		if (b.Start+b.Len-1)/w-b.Start/w >= 2 {
			out = append(out, "spans-3+rows")
		}
	}
	if b.Start%w == 0 {
		out = append(out, "starts-at-row-start")
	}
	if (b.Start+b.Len)%w == 0 {
		out = append(out, "ends-at-row-end")
	}
	if b.Start > 0 && blk.Sq.ODS[b.Start-1].IsPadding() {
		if blk.Sq.ODS[b.Start-1].Namespace().Equals(b.NS) {
			out = append(out, "preceded-by-own-ns-padding")
		} else {
			out = append(out, "preceded-by-other-ns-padding")
		}
	}
	if b.Start+b.Len < len(blk.Sq.ODS) && blk.Sq.ODS[b.Start+b.Len].IsPadding() && blk.Sq.ODS[b.Start+b.Len].Namespace().Equals(b.NS) {
		out = append(out, "followed-by-own-ns-padding")
	}
	if i > 0 && blk.Blobs[i-1].NS.Equals(b.NS) {
		out = append(out, "adjacent-same-ns")
		if blk.Blobs[i-1].Start+blk.Blobs[i-1].Len == b.Start {
			out = append(out, "adjacent-same-ns-no-gap")
		}
	}
	for j, o := range blk.Blobs {
		if j != i && o.Key() == b.Key() {
			if o.Tx == b.Tx {
				out = append(out, "twin-same-tx")
			} else {
				out = append(out, "twin-other-tx")
			}
			break
		}
	}
	if b.ShareVersion == libshare.ShareVersionOne {
		out = append(out, "v1")
	} else {
		out = append(out, "v0")
	}
	switch {
	case len(b.Data) == 1:
		out = append(out, "size-1B")
	case b.Len == 1:
		out = append(out, "size-1share")
	case b.Len > 64:
		out = append(out, "size>64shares")
	}
	return out
}

func (c *c11) sample(blk *vkit.Block, env, op, what string) {
	if n := c.n.Add(1); n%1499 == 1 {
		c.run.Sample(map[string]any{"n": n, "block": blk.Desc(), "service": env, "op": op, "case": what})
	}
}

// equalBlob compares a returned blob with a record entry; returns "" or what differs.
func c11Diff(w int, got *blob.Blob, want *vkit.BlobRec) string {
	switch {
	case got == nil || got.Blob == nil:
		return "nil blob"
	case !got.Namespace().Equals(want.NS):
		return "namespace"
	case !bytes.Equal(got.Data(), want.Data):
		return "data"
	case !bytes.Equal(got.Signer(), want.Signer):
		return "signer"
	case got.ShareVersion() != want.ShareVersion:
		return "share-version"
	case !bytes.Equal(got.Commitment, want.Commitment):
		return "commitment"
	case got.Index() != want.EDSIndex(w):
		return "index"
	}
	return ""
}

func (c *c11) checkBlock(ctx context.Context, r *vkit.RNG, env *c11Env, blk *vkit.Block) {
	run, h, w := c.run, blk.Height, blk.W
	present := blk.Namespaces()
	absent := blk.AbsentBlobNamespaces(r.Split("absent"))
	key := fmt.Sprintf("%d|%s|", h, env.name)

	// ---- GetAll, one namespace at a time
	list := func(ns libshare.Namespace, isPresent bool) {
		kind := "absent-ns"
		if isPresent {
			kind = "present-ns"
		}
		want := blk.BlobsOf(ns)
		var got []*blob.Blob
		var err error
		run.Eval(1)
		run.Count("GetAll/"+kind+"/tried", 1)
		run.Distinct(key + "GetAll|" + c11NS(ns))
		c.sample(blk, env.name, "GetAll", kind+" ns="+c11NS(ns))
		if run.NoPanic("C11 GetAll "+kind, map[string]any{"block": blk.Desc(), "ns": c11NS(ns)}, func() {
			got, err = env.svc.GetAll(ctx, h, []libshare.Namespace{ns})
		}) {
			return
		}
		witness := func(what string) map[string]any {
			var wl, gl []any
			for _, b := range want {
				wl = append(wl, c11Rec(w, b))
			}
			for _, b := range got {
				gl = append(gl, c11Got(b))
			}
			return map[string]any{"block": blk.Desc(), "service": env.name, "ns": c11NS(ns), "differs": what, "err": fmt.Sprint(err),
				"want": wl, "got": gl, "ns_layout": c11Layout(blk, ns), "seed": vkit.Seed()}
		}
		if err != nil {
			run.Violation("C11 GetAll "+kind+" returns error", witness("error"))
			return
		}
		if len(got) != len(want) {
			cls := "missing-blobs"
			if len(got) > len(want) {
				cls = "extra-blobs"
			}
			run.Violation("C11 GetAll "+kind+" "+cls, witness(fmt.Sprintf("count %d want %d", len(got), len(want))))
			return
		}
		for i := range want {
			if d := c11Diff(w, got[i], want[i]); d != "" {
				run.Violation("C11 GetAll "+kind+" blob differs: "+d, witness(fmt.Sprintf("blob #%d: %s", i, d)))
				return
			}
		}
		run.Count("GetAll/"+kind+"/equal", 1)
		run.Count("GetAll/blobs-compared", len(want))
	}
	for _, ns := range present {
		list(ns, true)
	}
	for _, ns := range absent {
		list(ns, false)
	}

	// ---- GetAll over several namespaces: concatenation in the requested order
	if len(present)+len(absent) > 1 {
		req := append(append([]libshare.Namespace{}, present...), absent...)
		r.Shuffle(len(req), func(i, j int) { req[i], req[j] = req[j], req[i] })
		if len(req) > 8 {
			req = req[:8]
		}
		var want []*vkit.BlobRec
		for _, ns := range req {
			want = append(want, blk.BlobsOf(ns)...)
		}
		run.Eval(1)
		run.Count("GetAll/multi/tried", 1)
		var got []*blob.Blob
		var err error
		if !run.NoPanic("C11 GetAll multi", blk.Desc(), func() { got, err = env.svc.GetAll(ctx, h, req) }) {
			ok := err == nil && len(got) == len(want)
			for i := 0; ok && i < len(want); i++ {
				ok = c11Diff(w, got[i], want[i]) == ""
			}
			if !ok {
				var nss []string
				for _, ns := range req {
					nss = append(nss, c11NS(ns))
				}
				run.Violation("C11 GetAll multi-namespace differs from the concatenation of the records", map[string]any{
					"block": blk.Desc(), "service": env.name, "namespaces": nss, "got": len(got), "want": len(want), "err": fmt.Sprint(err), "seed": vkit.Seed()})
			} else {
				run.Count("GetAll/multi/equal", 1)
			}
		}
	}

	// ---- Get / GetProof by present commitment
	type nc struct{ ns, c string }
	done := map[nc]bool{}
	for i, rec := range blk.Blobs {
		for _, s := range c11Shape(blk, i) {
			run.Count("shape/"+s, 1)
		}
		k := nc{string(rec.NS.Bytes()), string(rec.Commitment)}
		if done[k] {
			continue
		}
		done[k] = true
		var starts []int
		twins := 0
		for _, o := range blk.BlobsOf(rec.NS) {
			if bytes.Equal(o.Commitment, rec.Commitment) {
				starts = append(starts, o.EDSIndex(w))
				twins++
			}
		}
		witness := func(got *blob.Blob, err error) map[string]any {
			return map[string]any{"block": blk.Desc(), "service": env.name, "want": c11Rec(w, rec), "true_eds_indices": starts,
				"got": c11Got(got), "err": fmt.Sprint(err), "ns_layout": c11Layout(blk, rec.NS), "seed": vkit.Seed()}
		}
		run.Eval(1)
		run.Count("Get/present/tried", 1)
		run.Distinct(key + "Get|" + c11NS(rec.NS) + fmt.Sprintf("|%x", rec.Commitment[:8]))
		c.sample(blk, env.name, "Get", fmt.Sprintf("present ns=%s shares=%d twins=%d", c11NS(rec.NS), rec.Len, twins))
		var got *blob.Blob
		var err error
		if !run.NoPanic("C11 Get present", c11Rec(w, rec), func() { got, err = env.svc.Get(ctx, h, rec.NS, rec.Commitment) }) {
			switch {
			case err != nil && errors.Is(err, blob.ErrBlobNotFound):
				run.Violation("C11 Get present commitment reported not found", witness(got, err))
			case err != nil:
				run.Violation("C11 Get present commitment returns error", witness(got, err))
			default:
				cmp := *rec
				d := c11Diff(w, got, &cmp)
				if d == "index" {
					d = "index not a true start index"
					for _, s := range starts {
						if got.Index() == s {
							d = ""
						}
					}
				}
				if d != "" {
					run.Violation("C11 Get present blob differs: "+d, witness(got, err))
				} else {
					run.Count("Get/present/equal", 1)
					if twins > 1 {
						run.Count("Get/present/equal-with-twins", 1)
					}
				}
			}
		}
		run.Eval(1)
		run.Count("GetProof/present/tried", 1)
		var pr *blob.Proof
		if !run.NoPanic("C11 GetProof present", c11Rec(w, rec), func() { pr, err = env.svc.GetProof(ctx, h, rec.NS, rec.Commitment) }) {
			switch {
			case err != nil && errors.Is(err, blob.ErrBlobNotFound):
				run.Violation("C11 GetProof present commitment reported not found", witness(nil, err))
			case err != nil:
				run.Violation("C11 GetProof present commitment returns error", witness(nil, err))
			case pr == nil || pr.Len() == 0:
				run.Violation("C11 GetProof present commitment returns empty proof", witness(nil, err))
			default:
				run.Count("GetProof/present/ok", 1)
			}
		}
	}

	// ---- absent commitments / absent namespaces
	notFound := func(kind string, ns libshare.Namespace, com []byte) {
		for _, op := range []string{"Get", "GetProof"} {
			run.Eval(1)
			run.Count(op+"/absent/"+kind+"/tried", 1)
			run.Distinct(key + op + "|absent|" + kind + "|" + c11NS(ns) + fmt.Sprintf("|%x", com))
			c.sample(blk, env.name, op, "absent "+kind+" ns="+c11NS(ns))
			var got *blob.Blob
			var pr *blob.Proof
			var err error
			in := map[string]any{"block": blk.Desc(), "ns": c11NS(ns), "commitment": fmt.Sprintf("%x", com), "kind": kind}
			if run.NoPanic("C11 "+op+" absent "+kind, in, func() {
				if op == "Get" {
					got, err = env.svc.Get(ctx, h, ns, com)
				} else {
					pr, err = env.svc.GetProof(ctx, h, ns, com)
				}
			}) {
				continue
			}
			wit := map[string]any{"block": blk.Desc(), "service": env.name, "ns": c11NS(ns), "commitment": fmt.Sprintf("%x", com),
				"kind": kind, "err": fmt.Sprint(err), "got": c11Got(got), "ns_layout": c11Layout(blk, ns), "seed": vkit.Seed()}
			switch {
			case err == nil || got != nil || pr != nil:
				run.Violation("C11 "+op+" absent "+kind+" returns a result", wit)
			case !errors.Is(err, blob.ErrBlobNotFound):
				run.Violation("C11 "+op+" absent "+kind+" returns another error", wit)
			default:
				run.Count(op+"/absent/"+kind+"/not-found", 1)
			}
		}
	}
	hasCom := func(ns libshare.Namespace, com []byte) bool {
		for _, o := range blk.BlobsOf(ns) {
			if bytes.Equal(o.Commitment, com) {
				return true
			}
		}
		return false
	}
	for _, ns := range present {
		recs := blk.BlobsOf(ns)
		rec := vkit.Pick(r, recs)
		notFound("random-commitment", ns, r.Bytes(32))
		fl := append([]byte(nil), rec.Commitment...)
		fl[r.Intn(len(fl))] ^= 1 << uint(r.Intn(8))
		notFound("bitflip-commitment", ns, fl)
		notFound("truncated-commitment", ns, rec.Commitment[:len(rec.Commitment)-1])
		notFound("extended-commitment", ns, append(append([]byte(nil), rec.Commitment...), 0))
		notFound("empty-commitment", ns, nil)
		// a commitment that exists in the block, but under another namespace
		for _, o := range blk.Blobs {
			if !o.NS.Equals(ns) && !hasCom(ns, o.Commitment) {
				notFound("commitment-of-other-ns", ns, o.Commitment)
				break
			}
		}
		// the same bytes as another blob kind: other share version / other signer / data cut by one byte
		alt := func(kind string, ver uint8, data, signer []byte) {
			lb, err := libshare.NewBlob(ns, data, ver, signer)
			if err != nil {
				return
			}
			com, err := inclusion.CreateCommitment(lb, merkle.HashFromByteSlices, appconsts.SubtreeRootThreshold)
			if err != nil || hasCom(ns, com) {
				return
			}
			notFound(kind, ns, com)
		}
		if rec.ShareVersion == libshare.ShareVersionZero {
			alt("same-data-as-v1", libshare.ShareVersionOne, rec.Data, r.Bytes(libshare.SignerSize))
		} else {
			alt("same-data-as-v0", libshare.ShareVersionZero, rec.Data, nil)
			alt("same-data-other-signer", libshare.ShareVersionOne, rec.Data, r.Bytes(libshare.SignerSize))
		}
		if len(rec.Data) > 1 {
			alt("data-minus-last-byte", rec.ShareVersion, rec.Data[:len(rec.Data)-1], rec.Signer)
		}
		alt("data-plus-one-byte", rec.ShareVersion, append(append([]byte(nil), rec.Data...), 0), rec.Signer)
		// two adjacent blobs of the namespace glued together
		if len(recs) > 1 && recs[0].ShareVersion == recs[1].ShareVersion {
			alt("two-blobs-concatenated", recs[0].ShareVersion, append(append([]byte(nil), recs[0].Data...), recs[1].Data...), recs[0].Signer)
		}
	}
	for _, ns := range absent {
		notFound("absent-ns/random-commitment", ns, r.Bytes(32))
		if len(blk.Blobs) > 0 {
			notFound("absent-ns/commitment-of-block", ns, vkit.Pick(r, blk.Blobs).Commitment)
		}
	}
}

func TestC11(t *testing.T) {
	run := vkit.NewRun(t, "C11", "exploration",
		"cases = (block built by the real layout rules from a generated blob multiset: profile × sizes × share versions × namespaces × twins × ordinary txs) × "+
			"(service over store getter | in-memory getter) × (GetAll per namespace present/absent | multi-namespace GetAll | Get / GetProof per present (ns, commitment) | "+
			"Get / GetProof per absent commitment kind and absent namespace); distinct = distinct (block, service, call, namespace, commitment) tuples issued to the real blob.Service; "+
			"non-trivial = every block comes out of square.Builder/da.ConstructEDS (real padding, alignment, row spans), answers compared field by field with the construction record")
	defer run.Finish()
	defer run.WatchDeadlock("C11 a blob service call never returns (stable state: blocked on a lock): ", func(f string) bool {
		return strings.Contains(f, "celestia-node/blob.") || strings.Contains(f, "share/eds.") || strings.Contains(f, "celestia-node/store")
	})()
	c11Quiet()
	c := &c11{run: run}
	rng := vkit.NewRNG(vkit.Seed(), "C11")
	ctx, cancel := context.WithTimeout(context.Background(), 40*time.Minute)
	defer cancel()

	st, err := store.NewStore(store.DefaultParameters(), c11RunDir(t, "c11-store"))
	if err != nil {
		t.Fatalf("store: %v", err)
	}
	defer func() { _ = st.Stop(context.Background()) }()

	nBlocks := vkit.Scale(300, 4000)
	memEvery := vkit.Scale(4, 1) // in-memory getter: every 4th block in quick, all in thorough
	const batch = 100
	headers := &sync.Map{}
	storeEnv := c11Service("store", store.NewGetter(st), headers)
	defer func() { _ = storeEnv.svc.Stop(context.Background()) }()

	for base := 0; base < nBlocks; base += batch {
		n := min(batch, nBlocks-base)
		blocks := make([]*vkit.Block, n)
		// phase 1: generate and store the whole batch (so that most of it has left the store's
		// recent-blocks cache and is read back from the ODS files in phase 2)
		var wg sync.WaitGroup
		sem := make(chan struct{}, 16)
		for i := 0; i < n; i++ {
			wg.Add(1)
			sem <- struct{}{}
			go func(i int) {
				defer wg.Done()
				defer func() { <-sem }()
				idx := base + i
				o := vkit.BlockOpts{Height: uint64(idx + 1)}
				// make sure every profile appears early, the rest is random
				if idx < len(vkit.BlockProfiles) {
					o.Profile = vkit.BlockProfiles[idx]
				}
				blk := vkit.GenBlock(rng.SplitN("block", idx), o)
				blocks[i] = blk
				var perr error
				if idx%2 == 0 {
					perr = st.PutODSQ4(ctx, blk.Sq.Roots, blk.Height, blk.EDS)
				} else {
					perr = st.PutODS(ctx, blk.Sq.Roots, blk.Height, blk.EDS)
				}
				if perr != nil {
					run.Inconclusive(fmt.Sprintf("store put of block %d failed: %v", idx, perr))
					blocks[i] = nil
					return
				}
				headers.Store(blk.Height, blk.Header)
				run.Count("blocks", 1)
				run.Count("blocks/profile/"+blk.Profile, 1)
				run.Count(fmt.Sprintf("blocks/width/%d", blk.W), 1)
				run.Count("blobs", len(blk.Blobs))
				run.Max("max-namespaces-in-block", len(blk.Namespaces()))
			}(i)
		}
		wg.Wait()
		mem := c11Service("memory", vkit.NewMemGetter(c11NonNil(blocks)...), headers)
		// phase 2: check
		for i := 0; i < n; i++ {
			if blocks[i] == nil {
				continue
			}
			wg.Add(1)
			sem <- struct{}{}
			go func(i int) {
				defer wg.Done()
				defer func() { <-sem }()
				blk := blocks[i]
				r := rng.SplitN("check", base+i)
				c.checkBlock(ctx, r.Split("store"), storeEnv, blk)
				if (base+i)%memEvery == 0 {
					c.checkBlock(ctx, r.Split("memory"), mem, blk)
				}
			}(i)
		}
		wg.Wait()
		_ = mem.svc.Stop(context.Background())
		if ctx.Err() != nil {
			run.Inconclusive("outer watchdog fired")
			break
		}
	}

	// wide squares: under the real layout rules namespace padding only precedes blobs of more than 64
	// shares, so "[X][padding][Y][Z] of one namespace inside one row" needs an ODS width of 128
	// (added after seeded change C11-b was missed)
	{
		nWide := vkit.Scale(2, 8)
		var wide []*vkit.Block
		for k := 0; k < nWide; k++ {
			r := rng.SplitN("wide", k)
			nsA := vkit.MkNamespace(uint64(5000 + 10*k))
			nsB := vkit.MkNamespace(uint64(5005 + 10*k))
			var txs [][]*libshare.Blob
			// X: 1 or 2 shares, Y: 66..120 shares (aligned to its subtree width, hence padding), Z, then again
			txs = append(txs, []*libshare.Blob{vkit.GenBlob(r, nsA, 0, vkit.BlobDataLen(0, 1+k%2, r.Intn(100)))})
			txs = append(txs, []*libshare.Blob{vkit.GenBlob(r, nsA, 0, vkit.BlobDataLen(0, r.Range(66, 120), r.Intn(300)))})
			txs = append(txs, []*libshare.Blob{vkit.GenBlob(r, nsA, uint8(k%2), vkit.BlobDataLen(uint8(k%2), r.Range(1, 3), r.Intn(100)))})
			txs = append(txs, []*libshare.Blob{vkit.GenBlob(r, nsA, 0, vkit.BlobDataLen(0, r.Range(130, 200), r.Intn(300))),
				vkit.GenBlob(r, nsA, 0, vkit.BlobDataLen(0, 1, 0))})
			// filler in a later namespace pushes the square to width 128 (> 4096 shares)
			for f := 0; f < 9; f++ {
				txs = append(txs, []*libshare.Blob{vkit.GenBlob(r, nsB, 0, vkit.BlobDataLen(0, r.Range(470, 520), r.Intn(300)))})
			}
			blk := vkit.BuildBlock(uint64(nBlocks+10+k), nil, txs, r)
			if err := st.PutODSQ4(ctx, blk.Sq.Roots, blk.Height, blk.EDS); err != nil {
				run.Inconclusive(fmt.Sprintf("store put of wide block failed: %v", err))
				continue
			}
			headers.Store(blk.Height, blk.Header)
			run.Count("blocks", 1)
			run.Count("blocks/wide", 1)
			run.Count(fmt.Sprintf("blocks/width/%d", blk.W), 1)
			run.Count("blobs", len(blk.Blobs))
			wide = append(wide, blk)
		}
		var wg sync.WaitGroup
		for k, blk := range wide {
			wg.Add(1)
			go func(k int, blk *vkit.Block) {
				defer wg.Done()
				c.checkBlock(ctx, rng.SplitN("wide-check", k), storeEnv, blk)
			}(k, blk)
		}
		wg.Wait()
		run.Require("blocks/width/128", 1)
	}

	run.Require("blocks", vkit.Scale(300, 4000))
	run.Require("GetAll/present-ns/equal", 300)
	run.Require("GetAll/absent-ns/equal", 300)
	run.Require("Get/present/equal", 500)
	run.Require("GetProof/present/ok", 500)
	run.Require("Get/absent/random-commitment/not-found", 300)
	run.Require("Get/absent/absent-ns/random-commitment/not-found", 300)
	for _, s := range []string{"spans-rows", "preceded-by-own-ns-padding", "preceded-by-other-ns-padding", "adjacent-same-ns", "twin-same-tx", "twin-other-tx", "v1", "size-1B", "size>64shares", "ends-at-row-end"} {
		run.Require("shape/"+s, 5)
	}
	run.Assume("go-square (layout rules, share splitting, commitments), rsmt2d and nmt are the definition of what a block contains")
	run.Assume("namespaces queried are blob namespaces (version 0, not reserved); reserved namespaces are not blobs and are not listed")
}

func c11NonNil(in []*vkit.Block) []*vkit.Block {
	var out []*vkit.Block
	for _, b := range in {
		if b != nil {
			out = append(out, b)
		}
	}
	return out
}
