package checks

import (
	"context"
	"errors"
	"fmt"
	"strings"
	"sync"
	"sync/atomic"
	"time"

	"github.com/ipfs/go-datastore"
	dssync "github.com/ipfs/go-datastore/sync"
	pubsub "github.com/libp2p/go-libp2p-pubsub"
	"github.com/libp2p/go-libp2p/core/host"
	"github.com/libp2p/go-libp2p/core/peer"
	"github.com/libp2p/go-libp2p/p2p/net/conngater"
	mocknet "github.com/libp2p/go-libp2p/p2p/net/mock"
	mh "github.com/multiformats/go-multihash"

	libhead "github.com/celestiaorg/go-header"

	"github.com/celestiaorg/celestia-node/header"
	"github.com/celestiaorg/celestia-node/share"
	"github.com/celestiaorg/celestia-node/share/shwap/p2p/shrex/peers"
	"github.com/celestiaorg/celestia-node/share/shwap/p2p/shrex/shrexsub"
	"github.com/celestiaorg/celestia-node/zz_verif/vkit"
)

// ---------------------------------------------------------------------------------------------
// phase M: the real Manager (exported API only).
//
// Oracles, all at the API boundary:
//   * every Peer call returns, or returns ctx.Err() after its context was cancelled; pending calls
//     return once a new discovery peer is added (suspects -> stable-state oracle);
//   * blacklisting on: a peer that the (real) connection gater already listed as blocked when the
//     Peer call started is never returned;
//   * a returned peer has a legitimate source: discovery, or an announcement of a hash that a
//     header (or a Peer call for that hash: the caller holds the header) confirmed;
//   * lower bound only, real clock: a pure discovery peer is not returned earlier than
//     PeerCooldown after the request result that cooled it.

// mock header subscription; obeys libhead.Subscription: NextHeader blocks until a header or ctx end.
type c17Sub struct {
	ch    chan *header.ExtendedHeader
	calls atomic.Int64
}

func (s *c17Sub) Subscribe() (libhead.Subscription[*header.ExtendedHeader], error) { return s, nil }
func (s *c17Sub) SetVerifier(func(context.Context, *header.ExtendedHeader) error) error {
	return nil
}
func (s *c17Sub) Cancel() {}
func (s *c17Sub) NextHeader(ctx context.Context) (*header.ExtendedHeader, error) {
	s.calls.Add(1)
	select {
	case h := <-s.ch:
		return h, nil
	case <-ctx.Done():
		return nil, ctx.Err()
	}
}

type c17Hash struct {
	name   string
	bytes  share.DataHash
	height uint64
}

type c17Span struct{ call, ret int64 }

type c17Cool struct {
	t0        time.Time
	call, ret int64
}

type c17Req struct {
	name      string
	hash      c17Hash
	cancel    context.CancelFunc
	cancelled atomic.Bool
	done      chan struct{}
}

type c17MOp struct {
	kind   string
	p      int
	h      c17Hash
	result string
	hold   time.Duration
	d      time.Duration
	sync   bool
}

type c17MS struct {
	c    *c17
	idx  int
	kind string
	r    *vkit.RNG

	ctx    context.Context
	cancel context.CancelFunc
	mn     mocknet.Mocknet
	host   host.Host
	gater  *conngater.BasicConnectionGater
	mgr    *peers.Manager
	sub    *c17Sub

	bl      bool
	cd, pvt time.Duration
	ids     []peer.ID
	names   []string
	byID    map[peer.ID]int
	nConn   int
	pure    map[int]bool // never announces anything
	confH   []c17Hash    // confirmable hashes, by height
	bogusH  []c17Hash
	nextHdr int
	fresh   int
	wakeID  peer.ID // fresh discovery peer used to wake pending calls at the end

	mu         sync.Mutex
	t          int64
	log        []string
	disc       map[int][]*c17Span // discovery adds
	discRm     map[int][]*c17Span
	ann        map[int]map[string][]*c17Span
	conf       map[string]int64
	cools      map[int][]*c17Cool
	blTrig     map[int][]*c17Span // done(ResultBlacklistPeer) spans
	reqs       []*c17Req
	blActive   atomic.Int64
	finalizing atomic.Bool
	suspected  atomic.Bool
	sentHdrs   int64
}

func (s *c17MS) tick(format string, a ...any) int64 {
	s.mu.Lock()
	defer s.mu.Unlock()
	return s.tickLocked(format, a...)
}

func (s *c17MS) tickLocked(format string, a ...any) int64 {
	s.t++
	if format == "" {
		return s.t
	}
	if len(s.log) < 600 {
		s.log = append(s.log, fmt.Sprintf("%d %s", s.t, fmt.Sprintf(format, a...)))
	}
	return s.t
}

func (s *c17MS) params() map[string]any {
	return map[string]any{"stream": s.idx, "kind": s.kind, "seed": s.c.seed, "blacklisting": s.bl, "cooldown": s.cd.String(),
		"pool_validation_timeout": s.pvt.String(), "gc_interval": "1ms", "connected_peers": s.nConn, "peers": len(s.ids)}
}

func (s *c17MS) violate(sig string, extra map[string]any) {
	s.mu.Lock()
	lg := append([]string(nil), s.log...)
	s.mu.Unlock()
	d := map[string]any{"params": s.params(), "events": lg}
	for k, v := range extra {
		d[k] = v
	}
	s.c.run.Violation(sig, d)
}

func c17GhostID(r *vkit.RNG) peer.ID {
	h, err := mh.Sum(r.Bytes(32), mh.SHA2_256, -1)
	if err != nil {
		panic(err)
	}
	return peer.ID(h)
}

func (c *c17) newMS(r *vkit.RNG, idx int, kind string, bl bool, pvt, cd time.Duration, nConn, nGhost int) (*c17MS, error) {
	s := &c17MS{c: c, idx: idx, kind: kind, r: r, bl: bl, pvt: pvt, cd: cd, nConn: nConn,
		byID: map[peer.ID]int{}, pure: map[int]bool{}, disc: map[int][]*c17Span{}, discRm: map[int][]*c17Span{},
		ann: map[int]map[string][]*c17Span{}, conf: map[string]int64{}, cools: map[int][]*c17Cool{}, blTrig: map[int][]*c17Span{},
		sub: &c17Sub{ch: make(chan *header.ExtendedHeader)}}
	s.ctx, s.cancel = context.WithCancel(context.Background())
	s.mn = mocknet.New()
	h, err := s.mn.GenPeer()
	if err != nil {
		return nil, err
	}
	s.host = h
	for i := 0; i < nConn; i++ {
		rh, err := s.mn.GenPeer()
		if err != nil {
			return nil, err
		}
		s.ids = append(s.ids, rh.ID())
		s.names = append(s.names, fmt.Sprintf("C%d", i))
	}
	if err := s.mn.LinkAll(); err != nil {
		return nil, err
	}
	for i := 0; i < nConn; i++ {
		if _, err := s.mn.ConnectPeers(h.ID(), s.ids[i]); err != nil {
			return nil, err
		}
	}
	for i := 0; i < nGhost; i++ {
		s.ids = append(s.ids, c17GhostID(r))
		s.names = append(s.names, fmt.Sprintf("G%d", i))
	}
	for i, id := range s.ids {
		s.byID[id] = i
	}
	s.wakeID = c17GhostID(r)
	ps, err := shrexsub.NewPubSub(s.ctx, h, "c17")
	if err != nil {
		return nil, err
	}
	s.gater, err = conngater.NewBasicConnectionGater(dssync.MutexWrap(datastore.NewMapDatastore()))
	if err != nil {
		return nil, err
	}
	s.mgr, err = peers.NewManager(peers.Parameters{PoolValidationTimeout: pvt, PeerCooldown: cd, GcInterval: time.Millisecond, EnableBlackListing: bl},
		h, s.gater, "c17", peers.WithShrexSubPools(ps, s.sub))
	if err != nil {
		return nil, err
	}
	if err := s.mgr.Start(s.ctx); err != nil {
		return nil, err
	}
	nC := r.Range(3, 6)
	for i := 0; i < nC; i++ {
		s.confH = append(s.confH, c17Hash{fmt.Sprintf("H%d", i), r.Bytes(32), uint64(10 + i)})
	}
	for i, nb := 0, r.Range(2, 4); i < nb; i++ {
		s.bogusH = append(s.bogusH, c17Hash{fmt.Sprintf("B%d", i), r.Bytes(32), uint64(r.Range(8, 10+nC))})
	}
	return s, nil
}

func (s *c17MS) freshHash() c17Hash {
	s.mu.Lock()
	s.fresh++
	n := s.fresh
	s.mu.Unlock()
	b := make([]byte, 32)
	copy(b, fmt.Sprintf("c17-fresh-%d-%d", s.idx, n))
	return c17Hash{fmt.Sprintf("F%d", n), b, uint64(10 + n%8)}
}

// await: soft wait; on expiry the whole stream becomes a suspect (decided in the closed system).
func (s *c17MS) await(done <-chan struct{}, what, sigClass string) bool {
	if c17Await(done, c17SoftManager) {
		return true
	}
	s.suspected.Store(true)
	c := s.c
	c.suspect(&c17Suspect{what: "manager stream: " + what, done: done, onHang: func(dump string) {
		sig := "C17 manager hang: " + sigClass
		if c17IsABBA(dump) {
			sig = "C17 manager hang: ABBA deadlock between the pool lock and the cool-down queue lock"
		}
		s.violate(sig, map[string]any{"awaited": what, "peers_goroutines_in_stable_dump": c17PeersGoroutines(dump, 16),
			"lock_order_cycles_seen_in_manager_pools": c.mgrCycles.Load()})
	}})
	return false
}

func (s *c17MS) do(w int, op c17MOp) (ok bool) {
	if p, site := vkit.Recover(func() { ok = s.doOp(w, op) }); p != nil {
		s.violate("C17 manager operation panics @"+site, map[string]any{"panic": fmt.Sprint(p), "op": op.kind})
		return false
	}
	return ok
}

func (s *c17MS) doOp(w int, op c17MOp) bool {
	run := s.c.run
	run.Count("mgr/op/"+op.kind, 1)
	switch op.kind {
	case "sleep":
		s.tick("w%d sleep(%v)", w, op.d)
		time.Sleep(op.d)
	case "announce":
		sp := &c17Span{}
		s.mu.Lock()
		sp.call = s.tickLocked("w%d Validate(%s,%s h=%d) call", w, s.names[op.p], op.h.name, op.h.height)
		if s.ann[op.p] == nil {
			s.ann[op.p] = map[string][]*c17Span{}
		}
		s.ann[op.p][op.h.name] = append(s.ann[op.p][op.h.name], sp)
		s.mu.Unlock()
		res := s.mgr.Validate(s.ctx, s.ids[op.p], shrexsub.Notification{DataHash: op.h.bytes, Height: op.h.height})
		s.mu.Lock()
		sp.ret = s.tickLocked("w%d Validate(%s,%s) = %s", w, s.names[op.p], op.h.name, c17ValRes(res))
		s.mu.Unlock()
		run.Count("mgr/validate/"+c17ValRes(res), 1)
	case "header":
		s.mu.Lock()
		if s.nextHdr >= len(s.confH) {
			s.mu.Unlock()
			return true
		}
		h := s.confH[s.nextHdr]
		s.nextHdr++
		st := s.tickLocked("w%d header(%s h=%d) send", w, h.name, h.height)
		if old, ok := s.conf[h.name]; !ok || st < old {
			s.conf[h.name] = st
		}
		s.mu.Unlock()
		sent := make(chan struct{})
		before := s.sub.calls.Load()
		go func() {
			select {
			case s.sub.ch <- &header.ExtendedHeader{RawHeader: header.RawHeader{Height: int64(h.height), DataHash: []byte(h.bytes)}}:
			case <-s.ctx.Done():
			}
			close(sent)
		}()
		if !s.await(sent, "header subscription never asked for the next header", "header subscription loop stopped consuming") {
			return false
		}
		if op.sync {
			// processed once the loop is back in NextHeader
			for i := 0; i < 4000 && s.sub.calls.Load() <= before; i++ {
				time.Sleep(500 * time.Microsecond)
			}
			if s.sub.calls.Load() <= before {
				s.c.run.Count("mgr/header-sync-timeout", 1)
			}
		}
		s.tick("w%d header(%s) delivered", w, h.name)
	case "disc-add", "disc-rm":
		sp := &c17Span{}
		add := op.kind == "disc-add"
		s.mu.Lock()
		sp.call = s.tickLocked("w%d UpdateNodePool(%s,%v) call", w, s.names[op.p], add)
		if add {
			s.disc[op.p] = append(s.disc[op.p], sp)
		} else {
			s.discRm[op.p] = append(s.discRm[op.p], sp)
		}
		s.mu.Unlock()
		s.mgr.UpdateNodePool(s.ids[op.p], add)
		s.mu.Lock()
		sp.ret = s.tickLocked("w%d UpdateNodePool(%s,%v) ret", w, s.names[op.p], add)
		s.mu.Unlock()
	case "hammer-add":
		// repeated discovery reports of the same peer from two goroutines for a bounded number of calls
		for g := 0; g < 2; g++ {
			go func(g int) {
				end := time.Now().Add(op.d + 8*time.Millisecond)
				for i := 0; i < 3000 && time.Now().Before(end) && s.ctx.Err() == nil; i++ {
					sp := &c17Span{}
					// logged only while a blacklisting is in progress (the stamps are always taken)
					f1, f2 := "", ""
					if i == 0 || s.blActive.Load() > 0 {
						f1, f2 = "h%d UpdateNodePool(%s,true) call", "h%d UpdateNodePool(%s,true) ret"
					}
					s.mu.Lock()
					sp.call = s.tickLocked(f1, g, s.names[op.p])
					s.disc[op.p] = append(s.disc[op.p], sp)
					s.mu.Unlock()
					s.mgr.UpdateNodePool(s.ids[op.p], true)
					s.mu.Lock()
					sp.ret = s.tickLocked(f2, g, s.names[op.p])
					s.mu.Unlock()
				}
			}(g)
		}
	case "disconnect":
		if op.p < s.nConn {
			s.tick("w%d disconnect(%s)", w, s.names[op.p])
			_ = s.mn.DisconnectPeers(s.host.ID(), s.ids[op.p])
		}
	case "reconnect":
		if op.p < s.nConn {
			s.tick("w%d reconnect(%s)", w, s.names[op.p])
			_, _ = s.mn.ConnectPeers(s.host.ID(), s.ids[op.p])
		}
	case "peer":
		req := s.request(w, op)
		if op.sync {
			return s.await(req.done, "Peer("+op.h.name+") with an available or soon available peer", "Peer did not return")
		}
	case "cancel":
		s.mu.Lock()
		var cand []*c17Req
		for _, q := range s.reqs {
			select {
			case <-q.done:
			default:
				if !q.cancelled.Load() {
					cand = append(cand, q)
				}
			}
		}
		s.mu.Unlock()
		if len(cand) == 0 {
			return true
		}
		q := cand[s.r.Intn(len(cand))]
		s.tick("w%d cancel(%s)", w, q.name)
		q.cancelled.Store(true)
		q.cancel()
		return s.await(q.done, "Peer("+q.hash.name+") after its context was cancelled", "Peer did not return after cancellation")
	}
	return true
}

func c17ValRes(r pubsub.ValidationResult) string {
	switch r {
	case pubsub.ValidationAccept:
		return "accept"
	case pubsub.ValidationReject:
		return "reject"
	case pubsub.ValidationIgnore:
		return "ignore"
	}
	return fmt.Sprint(int(r))
}

// request issues Peer in its own goroutine, judges the answer and reports the result.
func (s *c17MS) request(w int, op c17MOp) *c17Req {
	run := s.c.run
	ctx, cancel := context.WithCancel(s.ctx)
	req := &c17Req{hash: op.h, cancel: cancel, done: make(chan struct{})}
	blocked := map[peer.ID]bool{}
	for _, id := range s.gater.ListBlockedPeers() {
		blocked[id] = true
	}
	s.mu.Lock()
	req.name = fmt.Sprintf("R%d", len(s.reqs))
	callStamp := s.tickLocked("w%d %s Peer(%s h=%d) call [blocked at start: %s]", w, req.name, op.h.name, op.h.height, s.blockedNames(blocked))
	if old, ok := s.conf[op.h.name]; !ok || callStamp < old {
		s.conf[op.h.name] = callStamp
	}
	s.reqs = append(s.reqs, req)
	s.mu.Unlock()
	if len(blocked) > 0 {
		run.Count("mgr/peer/called-with-blocked-peers", 1)
	}
	go func() {
		defer close(req.done)
		defer cancel()
		defer func() {
			if p := recover(); p != nil {
				s.violate("C17 manager Peer/DoneFunc panics", map[string]any{"panic": fmt.Sprint(p), "request": req.name})
			}
		}()
		id, done, err := s.mgr.Peer(ctx, op.h.bytes, op.h.height)
		t2 := time.Now()
		run.Eval(1)
		if err != nil {
			s.tick("%s Peer(%s) = error %v", req.name, op.h.name, err)
			if !req.cancelled.Load() && s.ctx.Err() == nil {
				s.violate("C17 manager Peer returned an error although its context was not cancelled", map[string]any{"error": err.Error(), "request": req.name})
			} else if !errors.Is(err, context.Canceled) {
				s.violate("C17 manager Peer returned an unexpected error after cancellation", map[string]any{"error": err.Error()})
			}
			run.Count("mgr/peer/cancelled", 1)
			return
		}
		p, known := s.byID[id]
		name := "unknown:" + id.String()
		if known {
			name = s.names[p]
		}
		retStamp := s.tick("%s Peer(%s) = %s", req.name, op.h.name, name)
		run.Count("mgr/peer/returned", 1)
		if id == s.wakeID && strings.HasPrefix(op.h.name, "H") {
			s.mu.Lock()
			n := 0
			for _, m := range s.ann {
				if len(m[op.h.name]) > 0 {
					n++
				}
			}
			s.mu.Unlock()
			if n > 0 && !s.bl {
				// not part of the statement (nothing wrong was handed out, the call returned): diagnostic
				run.Count("mgr/diag/request-served-only-by-the-wake-up-peer-although-its-hash-had-announcers", 1)
			}
		}
		if !known && id != s.wakeID {
			s.violate("C17 manager returned a peer that no source ever supplied", map[string]any{"request": req.name, "returned": id.String()})
			return
		}
		if known {
			s.judge(req, p, blocked, callStamp, retStamp, t2)
		}
		if op.hold > 0 {
			time.Sleep(op.hold)
		}
		result := op.result
		if s.finalizing.Load() {
			result = "noop"
		}
		switch result {
		case "cooldown":
			cr := &c17Cool{t0: time.Now()}
			s.mu.Lock()
			cr.call = s.tickLocked("%s done(cooldown %s) call", req.name, name)
			if known {
				s.cools[p] = append(s.cools[p], cr)
			}
			s.mu.Unlock()
			done(peers.ResultCooldownPeer)
			s.mu.Lock()
			cr.ret = s.tickLocked("%s done(cooldown %s) ret", req.name, name)
			s.mu.Unlock()
			run.Count("mgr/result/cooldown", 1)
		case "blacklist":
			sp := &c17Span{}
			s.mu.Lock()
			sp.call = s.tickLocked("%s done(blacklist %s) call", req.name, name)
			if known {
				s.blTrig[p] = append(s.blTrig[p], sp)
			}
			s.mu.Unlock()
			s.blActive.Add(1)
			done(peers.ResultBlacklistPeer)
			s.blActive.Add(-1)
			s.mu.Lock()
			sp.ret = s.tickLocked("%s done(blacklist %s) ret", req.name, name)
			s.mu.Unlock()
			run.Count("mgr/result/blacklist", 1)
			if s.bl {
				if s.gater.InterceptPeerDial(id) {
					s.violate("C17 manager blacklisting enabled but the peer is not blocked after ResultBlacklistPeer", map[string]any{"peer": name})
				}
			}
		default:
			s.tick("%s done(noop %s)", req.name, name)
			done(peers.ResultNoop)
			run.Count("mgr/result/noop", 1)
		}
	}()
	return req
}

func (s *c17MS) blockedNames(b map[peer.ID]bool) string {
	var out []string
	for i, id := range s.ids {
		if b[id] {
			out = append(out, s.names[i])
		}
	}
	return strings.Join(out, ",")
}

// judge applies the oracles to a returned peer. Stamps: only events whose call stamp precedes the
// return of Peer can have contributed to the answer.
func (s *c17MS) judge(req *c17Req, p int, blocked map[peer.ID]bool, callStamp, retStamp int64, t2 time.Time) {
	run := s.c.run
	name := s.names[p]
	s.mu.Lock()
	defer s.mu.Unlock()

	// 1. blacklisting
	if s.bl && len(blocked) > 0 {
		run.Count("mgr/judge/blacklist-checked", 1)
	}
	if s.bl && blocked[s.ids[p]] {
		class := "other"
		for hn, spans := range s.ann[p] {
			if _, ok := s.conf[hn]; ok && len(spans) > 0 {
				class = "re-promoted when a hash pool it had announced to was validated"
			}
		}
		if class == "other" {
			overl := func(a *c17Span, b *c17Span) bool {
				return (a.ret == 0 || a.ret > b.call) && (b.ret == 0 || b.ret > a.call)
			}
			for _, t := range s.blTrig[p] {
				for _, a := range s.disc[p] {
					if overl(a, t) {
						class = "added concurrently with the blacklisting"
					}
				}
				for _, spans := range s.ann[p] {
					for _, a := range spans {
						if overl(a, t) {
							class = "added concurrently with the blacklisting"
						}
					}
				}
			}
		}
		lg := append([]string(nil), s.log...)
		s.c.run.Violation("C17 manager returned a blacklisted peer ["+class+"]", map[string]any{"params": s.params(), "events": lg,
			"request": req.name, "returned": name, "requested_hash": req.hash.name})
		return
	}

	// 2. legitimate source
	legit := false
	for _, a := range s.disc[p] {
		if a.call < retStamp {
			legit = true
		}
	}
	announced := false
	for hn, spans := range s.ann[p] {
		for _, a := range spans {
			if a.call < retStamp {
				announced = true
				if cs, ok := s.conf[hn]; ok && cs < retStamp {
					legit = true
				}
			}
		}
	}
	run.Count("mgr/judge/source-checked", 1)
	if !legit {
		sig := "C17 manager returned a peer that no source ever supplied"
		if announced {
			sig = "C17 manager returned a peer whose only source is announcements of unconfirmed hashes"
		}
		lg := append([]string(nil), s.log...)
		s.c.run.Violation(sig, map[string]any{"params": s.params(), "events": lg, "request": req.name, "returned": name, "requested_hash": req.hash.name})
		return
	}

	// 3. cool-down lower bound: pure discovery peers that are not connected (no disconnect events)
	if !s.pure[p] || p < s.nConn || len(s.ann[p]) > 0 || len(s.cools[p]) == 0 {
		return
	}
	for _, a := range append(append([]*c17Span(nil), s.disc[p]...), s.discRm[p]...) {
		if a.ret == 0 {
			return // a discovery update is in flight: ambiguous
		}
	}
	var rstar *c17Span // latest remove that was followed by an add
	var afirst *c17Span
	for _, rm := range s.discRm[p] {
		var first *c17Span
		for _, a := range s.disc[p] {
			if a.call > rm.ret && (first == nil || a.ret < first.ret) {
				first = a
			}
		}
		if first == nil {
			return // removed and not re-added afterwards: nothing to bound (and it should not be returned)
		}
		if rstar == nil || rm.ret > rstar.ret {
			rstar, afirst = rm, first
		}
	}
	if rstar == nil {
		for _, a := range s.disc[p] {
			if afirst == nil || a.ret < afirst.ret {
				afirst = a
			}
		}
	}
	if afirst == nil {
		return
	}
	var bound time.Time
	witness := false
	var stale *c17Cool
	for _, cr := range s.cools[p] {
		if rstar != nil && cr.call <= rstar.ret {
			if !cr.t0.Add(s.cd).After(t2) {
				stale = cr
			}
			continue
		}
		if cr.call < retStamp && (bound.IsZero() || cr.t0.Before(bound)) {
			bound = cr.t0
		}
		if cr.ret != 0 && cr.ret < callStamp && cr.call > afirst.ret {
			witness = true
		}
	}
	if !witness || bound.IsZero() {
		return
	}
	run.Count("mgr/judge/cooldown-checked", 1)
	if t2.Before(bound.Add(s.cd)) {
		class := "other"
		if stale != nil {
			class = "after cool-down, remove, re-add, cool-down"
		}
		lg := append([]string(nil), s.log...)
		s.c.run.Violation("C17 manager returned a discovery peer before its cool-down elapsed ["+class+"]", map[string]any{
			"params": s.params(), "events": lg, "request": req.name, "returned": name,
			"returned_after_cooldown_request_started": t2.Sub(bound).String(), "cooldown": s.cd.String()})
		return
	}
	run.Count("mgr/judge/cooldown-respected", 1)
}

// finish: closed-system checks at the end of a stream, then tear down.
func (s *c17MS) finish(workersDone <-chan struct{}) {
	run := s.c.run
	defer func() {
		if !s.suspected.Load() {
			s.cancel()
			_ = s.mn.Close()
		}
	}()
	if !s.await(workersDone, "stream operations (Validate/UpdateNodePool/done/...)", "stream operations did not return") {
		return
	}
	s.finalizing.Store(true)
	s.mu.Lock()
	reqs := append([]*c17Req(nil), s.reqs...)
	s.mu.Unlock()
	var pending []*c17Req
	for _, q := range reqs {
		select {
		case <-q.done:
		default:
			if !q.cancelled.Load() {
				pending = append(pending, q)
			}
		}
	}
	// cancel a random half, wake the rest with a new discovery peer
	var wake []*c17Req
	for _, q := range pending {
		if s.r.Bool() {
			s.tick("end: cancel(%s)", q.name)
			q.cancelled.Store(true)
			q.cancel()
			if !s.await(q.done, "Peer("+q.hash.name+") after its context was cancelled", "Peer did not return after cancellation") {
				return
			}
			run.Count("mgr/peer/cancel-honoured", 1)
		} else {
			wake = append(wake, q)
		}
	}
	if len(wake) > 0 {
		s.tick("end: UpdateNodePool(WAKE,true)")
		added := make(chan struct{})
		go func() { s.mgr.UpdateNodePool(s.wakeID, true); close(added) }()
		if !s.await(added, "UpdateNodePool at the end of the stream", "stream operations did not return") {
			return
		}
		for _, q := range wake {
			if !s.await(q.done, "pending Peer("+q.hash.name+") after a new discovery peer was added", "pending Peer not woken by a new discovery peer") {
				return
			}
			run.Count("mgr/peer/woken-at-end", 1)
		}
	}
	stopped := make(chan struct{})
	go func() {
		_ = s.mgr.Stop(s.ctx)
		close(stopped)
	}()
	if !s.await(stopped, "Manager.Stop", "Stop did not return") {
		return
	}
	s.mu.Lock()
	var kinds []string
	for _, l := range s.log {
		if i := strings.Index(l, " "); i > 0 {
			kinds = append(kinds, l[i+1:])
		}
	}
	s.mu.Unlock()
	run.Distinct("mgr|" + strings.Join(kinds, ";"))
	run.Count("mgr/streams-completed", 1)
	if n := s.c.nsample.Add(1); n%53 == 1 {
		s.mu.Lock()
		lg := append([]string(nil), s.log...)
		s.mu.Unlock()
		if len(lg) > 60 {
			lg = lg[:60]
		}
		run.Sample(map[string]any{"phase": "manager", "params": s.params(), "first_events": lg})
	}
}

// ---------------------------------------------------------------------------------------------

func (c *c17) managerRandom(r *vkit.RNG, idx int) {
	run := c.run
	bl := r.Bool()
	pvt := time.Hour
	if r.Chance(1, 3) {
		pvt = time.Duration(r.Range(3, 25)) * time.Millisecond
	}
	cd := time.Duration(r.Range(15, 45)) * time.Millisecond
	s, err := c.newMS(r, idx, "random", bl, pvt, cd, r.Range(2, 4), r.Range(3, 5))
	if err != nil {
		run.Inconclusive("manager stream setup failed: " + err.Error())
		return
	}
	// two ghosts are pure discovery peers
	s.pure[s.nConn] = true
	s.pure[s.nConn+1] = true
	W := r.Range(2, 5)
	var wg sync.WaitGroup
	for w := 0; w < W; w++ {
		wg.Add(1)
		go func(w int) {
			defer wg.Done()
			wr := r.SplitN("worker", w)
			n := wr.Range(18, 40)
			for i := 0; i < n && !s.suspected.Load(); i++ {
				k := wr.Intn(100)
				p := wr.Intn(len(s.ids))
				var op c17MOp
				switch {
				case k < 20:
					if s.pure[p] {
						p = wr.Intn(s.nConn)
					}
					h := vkit.Pick(wr, s.confH)
					if wr.Chance(1, 3) {
						h = vkit.Pick(wr, s.bogusH)
					}
					op = c17MOp{kind: "announce", p: p, h: h}
				case k < 30:
					op = c17MOp{kind: "header", sync: wr.Bool()}
				case k < 44:
					op = c17MOp{kind: "disc-add", p: p}
				case k < 50:
					op = c17MOp{kind: "disc-rm", p: p}
				case k < 54:
					op = c17MOp{kind: "disconnect", p: wr.Intn(s.nConn)}
				case k < 58:
					op = c17MOp{kind: "reconnect", p: wr.Intn(s.nConn)}
				case k < 84:
					h := vkit.Pick(wr, s.confH)
					if wr.Chance(2, 5) {
						h = s.freshHash()
					}
					res := vkit.Pick(wr, []string{"noop", "noop", "cooldown", "cooldown", "blacklist"})
					op = c17MOp{kind: "peer", h: h, result: res, hold: time.Duration(wr.Intn(3)) * time.Millisecond, sync: false}
				case k < 90:
					op = c17MOp{kind: "cancel"}
				default:
					op = c17MOp{kind: "sleep", d: time.Duration(wr.Range(1, 12)) * time.Millisecond}
				}
				if !s.do(w, op) {
					return
				}
			}
		}(w)
	}
	done := make(chan struct{})
	go func() { wg.Wait(); close(done) }()
	s.finish(done)
}

// managerDirected runs the op sequences that reach the bookkeeping corners named in the DESIGN
// (each with random padding), through the same machinery and oracles as the random streams.
func (c *c17) managerDirected(r *vkit.RNG, idx int) {
	run := c.run
	shape := []string{"blacklist-then-validate", "blacklist-then-validate/announcer-only", "gc-blacklist-then-validate",
		"recool-after-readd", "unconfirmed-announcer", "cooldown-basic", "blacklist-vs-discovery-add", "concurrent-peer-same-hash"}[idx%8]
	bl := shape != "recool-after-readd" && shape != "cooldown-basic" && shape != "concurrent-peer-same-hash"
	if shape == "unconfirmed-announcer" {
		bl = r.Bool()
	}
	pvt := time.Hour
	if shape == "gc-blacklist-then-validate" {
		pvt = time.Duration(r.Range(2, 6)) * time.Millisecond
	}
	cd := time.Duration(r.Range(25, 50)) * time.Millisecond
	if shape == "recool-after-readd" {
		// long enough that the second cool-down starts before the first would have elapsed even on a loaded machine
		cd = time.Duration(r.Range(200, 300)) * time.Millisecond
	}
	s, err := c.newMS(r, idx, "directed/"+shape, bl, pvt, cd, 2, 3)
	if err != nil {
		run.Inconclusive("manager stream setup failed: " + err.Error())
		return
	}
	run.Count("mgr/directed/"+shape, 1)
	g0 := s.nConn // ghost peers
	s.pure[g0] = true
	x := s.nConn + 1 // the peer of interest for announcing shapes (a ghost that announces)
	if r.Bool() && shape != "recool-after-readd" && shape != "cooldown-basic" {
		x = 0 // a connected peer
	}
	ms := func(lo, hi int) time.Duration { return time.Duration(r.Range(lo, hi)) * time.Millisecond }
	var script []c17MOp
	switch shape {
	case "blacklist-then-validate":
		script = []c17MOp{
			{kind: "header", sync: true}, // H0: sets the initial height
			{kind: "disc-add", p: x},
			{kind: "announce", p: x, h: s.confH[1]}, // H1 still unconfirmed
			{kind: "peer", h: s.freshHash(), result: "blacklist", sync: true},
			{kind: "sleep", d: ms(0, 3)},
			{kind: "header", sync: true}, // H1 confirmed: its pool is validated
			{kind: "peer", h: s.freshHash(), result: "noop"},
			{kind: "sleep", d: ms(1, 4)},
		}
	case "blacklist-then-validate/announcer-only":
		script = []c17MOp{
			{kind: "header", sync: true},
			{kind: "announce", p: x, h: s.confH[0]}, // validated pool: promoted to the general pool
			{kind: "announce", p: x, h: s.confH[2]}, // unconfirmed
			{kind: "peer", h: s.confH[0], result: "blacklist", sync: true},
			{kind: "header", sync: true},
			{kind: "header", sync: true}, // H2 confirmed
			{kind: "peer", h: s.freshHash(), result: "noop"},
			{kind: "sleep", d: ms(1, 4)},
		}
	case "gc-blacklist-then-validate":
		script = []c17MOp{
			{kind: "header", sync: true},
			{kind: "disc-add", p: x},
			{kind: "announce", p: x, h: c17Hash{"B9", r.Bytes(32), 11}}, // never confirmed: GC blacklists its announcers
			{kind: "announce", p: x, h: s.confH[1]},
			{kind: "sleep", d: pvt + ms(8, 15)},
			{kind: "header", sync: true},
			{kind: "peer", h: s.freshHash(), result: "noop"},
			{kind: "sleep", d: ms(1, 4)},
		}
	case "recool-after-readd":
		script = []c17MOp{
			{kind: "disc-add", p: g0},
			{kind: "peer", h: s.freshHash(), result: "cooldown", sync: true},
			{kind: "sleep", d: ms(4, 12)},
			{kind: "disc-rm", p: g0},
			{kind: "disc-add", p: g0},
			{kind: "peer", h: s.freshHash(), result: "cooldown", sync: true},
			{kind: "peer", h: s.freshHash(), result: "noop", sync: true}, // must wait for the second cool-down
		}
	case "cooldown-basic":
		script = []c17MOp{
			{kind: "disc-add", p: g0},
			{kind: "peer", h: s.freshHash(), result: "cooldown", sync: true},
			{kind: "sleep", d: ms(0, 10)},
			{kind: "peer", h: s.freshHash(), result: "cooldown", sync: true},
			{kind: "peer", h: s.freshHash(), result: "noop", sync: true},
		}
	case "blacklist-vs-discovery-add":
		// discovery keeps reporting the peer while a request blacklists it
		script = []c17MOp{
			{kind: "disc-add", p: x},
			{kind: "hammer-add", p: x, d: ms(2, 6)},
			{kind: "peer", h: s.freshHash(), result: "blacklist", sync: true},
			{kind: "sleep", d: ms(6, 10)},
			{kind: "peer", h: s.freshHash(), result: "noop"},
			{kind: "sleep", d: ms(1, 4)},
		}
	case "concurrent-peer-same-hash":
		// several requests for a hash that only announcers (no discovery peer) can serve; diagnostic only
		script = []c17MOp{
			{kind: "announce", p: s.nConn + 1, h: s.confH[0]},
			{kind: "announce", p: s.nConn + 2, h: s.confH[0]},
			{kind: "announce", p: 0, h: s.confH[0]},
			{kind: "peer", h: s.confH[0], result: "noop"},
			{kind: "peer", h: s.confH[0], result: "noop"},
			{kind: "peer", h: s.confH[0], result: "noop"},
			{kind: "sleep", d: ms(3, 8)},
		}
	case "unconfirmed-announcer":
		script = []c17MOp{
			{kind: "header", sync: true},
			{kind: "announce", p: x, h: s.bogusH[0]},
			{kind: "announce", p: x, h: s.confH[2]},
			{kind: "disc-add", p: g0},
			{kind: "peer", h: s.freshHash(), result: "noop", sync: true},
			{kind: "peer", h: s.confH[1], result: "noop", sync: true},
			{kind: "peer", h: s.freshHash(), result: "noop", sync: true},
		}
	}
	done := make(chan struct{})
	go func() {
		defer close(done)
		for _, op := range script {
			if s.suspected.Load() || !s.do(0, op) {
				return
			}
		}
	}()
	s.finish(done)
}

var c17ManagerIgnore = []string{"peers.(*Manager).GC"}

func (c *c17) managerPhase(rng *vkit.RNG) {
	run := c.run
	t0 := time.Now()
	// directed first: their witnesses are the short ones
	rd := rng.Split("directed")
	c17Parallel(vkit.Scale(48, 480), 8, func(i int) { c.managerDirected(rd.SplitN("s", i), i) })
	run.Count("wall_ms/M-directed", int(time.Since(t0).Milliseconds()))
	t0 = time.Now()
	rr := rng.Split("random")
	c17Parallel(vkit.Scale(64, 1280), 12, func(i int) { c.managerRandom(rr.SplitN("s", i), i) })
	run.Count("wall_ms/M-random", int(time.Since(t0).Milliseconds()))
	t0 = time.Now()
	c.resolve("M", c17ManagerIgnore, 6)
	run.Count("wall_ms/M-resolve", int(time.Since(t0).Milliseconds()))
	if n := c.mgrCycles.Load(); n > 0 {
		run.Count("mgr/lock-order-cycles-in-manager-pools", int(n))
	}
	run.Require("mgr/peer/returned", 150)
	run.Require("mgr/judge/source-checked", 150)
	run.Require("mgr/judge/blacklist-checked", 10)
	run.Require("mgr/judge/cooldown-checked", 10)
	run.Require("mgr/peer/cancel-honoured", 5)
	run.Require("mgr/peer/woken-at-end", 5)
}
