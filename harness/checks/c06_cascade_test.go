package checks

import (
	"context"
	"errors"
	"fmt"
	"os"
	"sync"
	"sync/atomic"
	"time"

	libshare "github.com/celestiaorg/go-square/v4/share"
	"github.com/celestiaorg/rsmt2d"

	"github.com/celestiaorg/celestia-node/header"
	"github.com/celestiaorg/celestia-node/share/eds/byzantine"
	"github.com/celestiaorg/celestia-node/share/shwap"
	"github.com/celestiaorg/celestia-node/share/shwap/getters"
	"github.com/celestiaorg/celestia-node/store"
	"github.com/celestiaorg/celestia-node/zz_verif/vkit"
)

// cascade part of C06: getters.CascadeGetter composed the way nodebuilder/share composes it —
// bridge: [store.Getter, shrex, bitswap(bridge block store)], light: [shrex, bitswap(light block
// store)], and the variants with bitswap switched off — with the local store holding / missing the
// block, scripted shrex peers and hostile / honest bitswap servers.

type c06CascadeCase struct {
	idx      int
	wiring   string // "bridge" | "light"
	local    string // "holds" | "missing" (bridge only)
	shrex    string // "honest" | "notfound" | a bad behaviour name | "off"
	bs       string // "honest" | "bad" | "none" | "off"
	shrexCs  *c06ShrexCase
	bsCs     *c06BsCase
	req      *c06Req
	deadline time.Duration
}

func (cs *c06CascadeCase) desc() map[string]any {
	return map[string]any{"case": cs.idx, "cascade": cs.name(), "request": cs.req.String(), "square": cs.req.s.sq.Desc(), "deadline": cs.deadline.String()}
}

func (cs *c06CascadeCase) name() string {
	s := "["
	if cs.wiring == "bridge" {
		s += "store(" + cs.local + "),"
	}
	s += "shrex(" + cs.shrex + "),bitswap(" + cs.bs + ")]"
	return s
}

func (c *c06) cascadeCases() []*c06CascadeCase {
	var cases []*c06CascadeCase
	idx := 0
	shrexModes := []string{"honest", "notfound", "wrongpos", "twin", "garbled", "reset", "internal", "off"}
	if vkit.Thorough() {
		shrexModes = append(shrexModes, "truncated", "extended", "badstatus", "silent", "stallhalf")
	}
	reps := vkit.Scale(1, 3)
	for rep := 0; rep < reps; rep++ {
		for _, w := range []struct{ wiring, local string }{{"bridge", "missing"}, {"light", ""}, {"bridge", "holds"}} {
			for si, sm := range shrexModes {
				for bi, bm := range []string{"honest", "bad", "none", "off"} {
					if sm == "off" && bm == "off" && w.wiring == "light" {
						continue // no getter at all
					}
					if w.local == "holds" && (si+bi)%3 != 0 {
						continue // the store answers: the network side hardly matters, keep a few
					}
					cs := &c06CascadeCase{idx: idx, wiring: w.wiring, local: w.local, shrex: sm, bs: bm, deadline: 3 * time.Second}
					r := c.rng.SplitN("cascade-case", idx)
					kind := c06Kind((idx + si + rep) % int(c06Kinds))
					if w.wiring == "bridge" && w.local == "missing" && sm != "honest" && bm == "honest" && rep == 0 && si%2 == 1 {
						kind = c06Samples // reaches the bridge block store through the cascade
					}
					cs.req = c06GenReq(r.Split("req"), kind, vkit.Pick(r.Split("sq"), c.sqs), idx)
					height := uint64(800000 + idx)
					sc := &c06ShrexCase{idx: idx, height: height, req: cs.req, mode: "dl-short", deadline: cs.deadline,
						rng: r.Split("shrex"), done: make(chan struct{}), notify: make(chan struct{}, 1)}
					switch sm {
					case "honest":
						sc.honest = true
					case "off":
					default:
						for b := c06Beh(0); b < c06Behs; b++ {
							if c06BehNames[b] == sm {
								sc.script = []c06Beh{b}
							}
						}
						// a bad peer in front of an honest one in a third of the cases
						if sm != "notfound" && idx%3 == 0 {
							sc.honest = true
						}
					}
					sc.keys = c06Keys(cs.req, height)
					cs.shrexCs = sc
					bc := &c06BsCase{idx: idx, height: height, req: cs.req, wiring: w.wiring, rng: r.Split("bitswap")}
					switch bm {
					case "honest":
						bc.honest, bc.known = true, true
					case "bad":
						bc.known = idx%2 == 0
						bc.bad = []string{vkit.Pick(r, c06BsBads)}
						bc.honest = idx%2 == 0
					}
					cs.bsCs = bc
					cases = append(cases, cs)
					idx++
				}
			}
		}
	}
	return cases
}

func (c *c06) cascadePhase() {
	ctx, cancel := context.WithCancel(context.Background())
	defer cancel()
	net, cleanup, err := c.newNet(2)
	if err != nil {
		c.run.Inconclusive("cascade network setup failed: " + err.Error())
		return
	}
	defer cleanup()
	// local stores of the bridge nodes: one that holds every cascade case's block at the case
	// height, one that holds nothing
	holds, err := store.NewStore(store.DefaultParameters(), c.t.TempDir())
	if err != nil {
		c.run.Inconclusive("cascade store setup failed: " + err.Error())
		return
	}
	defer holds.Stop(context.Background()) //nolint:errcheck
	missing, err := store.NewStore(store.DefaultParameters(), c.t.TempDir())
	if err != nil {
		c.run.Inconclusive("cascade store setup failed: " + err.Error())
		return
	}
	defer missing.Stop(context.Background()) //nolint:errcheck

	cases := c.cascadeCases()
	<-c.bsWarm // see bitswapPhase
	if os.Getenv("VERIF_C06_BSCASES") != "" || os.Getenv("VERIF_C06_CASES") != "" {
		return
	}
	for _, cs := range cases {
		if cs.local == "holds" {
			if err := holds.PutODSQ4(ctx, cs.req.s.sq.Roots, cs.shrexCs.height, cs.req.s.sq.EDS); err != nil {
				c.run.Inconclusive("cascade store put failed: " + err.Error())
				return
			}
		}
	}
	sem := make(chan struct{}, vkit.Scale(48, 96))
	var wg sync.WaitGroup
	for _, cs := range cases {
		wg.Add(1)
		sem <- struct{}{}
		go func(cs *c06CascadeCase) {
			defer wg.Done()
			defer func() { <-sem }()
			local := missing
			if cs.local == "holds" {
				local = holds
			}
			c.runCascadeCase(ctx, net, local, cs)
		}(cs)
	}
	wg.Wait()
}

func (c *c06) runCascadeCase(ctx context.Context, net *c06Net, local *store.Store, cs *c06CascadeCase) {
	run := c.run
	q := cs.req
	ctx, cancelAll := context.WithCancel(ctx)
	defer cancelAll()
	var chain []shwap.Getter
	if cs.wiring == "bridge" {
		chain = append(chain, store.NewGetter(local))
	}
	sc := cs.shrexCs
	if cs.shrex != "off" {
		grp := net.groups[cs.idx%len(net.groups)]
		net.cases.Store(sc.height, sc)
		defer net.cases.Delete(sc.height)
		defer close(sc.done)
		g, stop, err := c.newShrexGetter(grp, sc, 300*time.Millisecond)
		if err != nil {
			run.Inconclusive("cascade shrex getter: " + err.Error())
			return
		}
		defer stop()
		chain = append(chain, g)
	}
	var env *c06BsEnv
	if cs.bs != "off" {
		var err error
		env, err = c.newBsEnv(ctx, net.store, local, cs.bsCs)
		defer env.close()
		if err != nil {
			run.Count("cascade/setup-failed(case skipped)", 1)
			run.Sample(map[string]any{"cascade_case_skipped": cs.desc(), "setup_error": err.Error()})
			return
		}
		chain = append(chain, env.node.getter)
	}
	getter := getters.NewCascadeGetter(chain)
	hdr := vkit.MinimalHeader(sc.height, q.s.sq.Roots, time.Now())
	// the local store answers at once; without a deadline that answer cannot be lost to a slow
	// machine (the cascade then grants every member a minute)
	callCtx, c2 := context.WithCancel(ctx)
	if cs.local != "holds" {
		callCtx, c2 = context.WithTimeout(ctx, cs.deadline)
	}
	defer c2()

	type outT struct {
		res      c06Result
		panicked bool
	}
	resCh := make(chan outT, 1)
	go func() {
		var o outT
		o.panicked = run.NoPanic(fmt.Sprintf("C06 cascade/%s %s:", cs.wiring, c06KindNames[q.kind]), cs.desc(), func() {
			o.res = c06Call(callCtx, getter, q, hdr)
		})
		resCh <- o
	}()
	var out outT
	select {
	case out = <-resCh:
	case <-time.After(c06Watchdog):
		c06DumpOnce("cascade watchdog")
		run.Inconclusive(fmt.Sprintf("cascade case %d still running at the watchdog: %s %s", cs.idx, cs.name(), q.String()))
		return
	}
	run.Eval(1)
	run.Count("cascade/cases", 1)
	run.Count("cascade/wiring/"+cs.wiring, 1)
	run.Distinct(fmt.Sprintf("cascade|%d|%s|%v|%v", q.kind, cs.name(), sc.honest, cs.bsCs.honest))
	if out.panicked {
		run.Count("cascade/panicked", 1)
		return
	}
	res := out.res
	detail := func() map[string]any {
		d := cs.desc()
		d["shrex_peers"] = sc.poolDesc()
		d["bitswap_servers"] = cs.bsCs.servers()
		return d
	}
	if n := c.n.Add(1); n%23 == 1 {
		s := detail()
		s["outcome_error"] = fmt.Sprint(res.err)
		run.Sample(s)
	}
	name := "cascade/" + cs.wiring
	c.judge(name, q, &res, detail)
	somebodyHonest := cs.local == "holds" || (cs.shrex != "off" && sc.honest) || (cs.bs != "off" && cs.bsCs.honest)
	switch {
	case res.err == nil && somebodyHonest:
		run.Count("cascade/success-with-a-correct-source", 1)
	case res.err == nil:
		run.Count("cascade/success-without-a-correct-source(benign-fault)", 1)
	case cs.local == "holds":
		// no network and no deadline involved: the node's own store holds the block
		d := detail()
		d["returned_error"] = res.err.Error()
		c.violation(name, q, "fails although the local store holds the block", d)
	case somebodyHonest:
		run.Count("cascade/deadline-ended-before-the-correct-source-was-reached", 1)
	}
	// "not found" must not become success or corruption. (What the cascade returns once its
	// context has ended is the context's error; the member getters' own mapping is judged on them.)
	if res.err != nil && !somebodyHonest {
		var be *byzantine.ErrByzantine
		if errors.As(res.err, &be) {
			d := detail()
			d["returned_error"] = res.err.Error()
			c.violation(name, q, "reports corruption (ErrByzantine) although no peer supplied a byzantine proof", d)
		}
		if errors.Is(res.err, shwap.ErrNotFound) {
			run.Count("cascade/error-is-ErrNotFound", 1)
		} else if errors.Is(res.err, context.DeadlineExceeded) {
			run.Count("cascade/error-is-deadline", 1)
		} else {
			run.Count("cascade/error-is-other", 1)
		}
	}
}

// ---------------------------------------------------------------------------------------------
// time-split family: a cascade member that keeps the request busy until its context ends must not
// be granted the caller's whole deadline while other members (possibly holding an honest copy)
// wait behind it. Decided on the deadlines the real cascade hands to scripted members — logical, no
// wall clock in the verdict: the probing members record ctx.Deadline() and fail at once.

type c06SplitMember struct {
	mu       sync.Mutex
	calls    int
	deadline time.Time
	hasDl    bool
	active   *atomic.Int32
	overlap  *atomic.Bool
	serve    shwap.Getter // nil: fails with ErrNotFound after recording
}

func (m *c06SplitMember) enter(ctx context.Context) func() {
	if m.active.Add(1) > 1 {
		m.overlap.Store(true)
	}
	m.mu.Lock()
	m.calls++
	m.deadline, m.hasDl = ctx.Deadline()
	m.mu.Unlock()
	return func() { m.active.Add(-1) }
}

func (m *c06SplitMember) GetSamples(ctx context.Context, h *header.ExtendedHeader, idx []shwap.SampleCoords) ([]shwap.Sample, error) {
	defer m.enter(ctx)()
	if m.serve != nil {
		return m.serve.GetSamples(ctx, h, idx)
	}
	return make([]shwap.Sample, len(idx)), shwap.ErrNotFound
}

func (m *c06SplitMember) GetEDS(ctx context.Context, h *header.ExtendedHeader) (*rsmt2d.ExtendedDataSquare, error) {
	defer m.enter(ctx)()
	if m.serve != nil {
		return m.serve.GetEDS(ctx, h)
	}
	return nil, shwap.ErrNotFound
}

func (m *c06SplitMember) GetRow(ctx context.Context, h *header.ExtendedHeader, i int) (shwap.Row, error) {
	defer m.enter(ctx)()
	if m.serve != nil {
		return m.serve.GetRow(ctx, h, i)
	}
	return shwap.Row{}, shwap.ErrNotFound
}

func (m *c06SplitMember) GetNamespaceData(ctx context.Context, h *header.ExtendedHeader, ns libshare.Namespace) (shwap.NamespaceData, error) {
	defer m.enter(ctx)()
	if m.serve != nil {
		return m.serve.GetNamespaceData(ctx, h, ns)
	}
	return nil, shwap.ErrNotFound
}

func (m *c06SplitMember) GetRangeNamespaceData(ctx context.Context, h *header.ExtendedHeader, from, to int) (shwap.RangeNamespaceData, error) {
	defer m.enter(ctx)()
	if m.serve != nil {
		return m.serve.GetRangeNamespaceData(ctx, h, from, to)
	}
	return shwap.RangeNamespaceData{}, shwap.ErrNotFound
}

func (c *c06) cascadeSplitPhase() {
	run := c.run
	ctx := context.Background()
	st, err := store.NewStore(store.DefaultParameters(), c.t.TempDir())
	if err != nil {
		run.Inconclusive("cascade split store setup failed: " + err.Error())
		return
	}
	defer st.Stop(ctx) //nolint:errcheck
	deadlines := []time.Duration{400 * time.Millisecond, 1500 * time.Millisecond, 3 * time.Second, 4900 * time.Millisecond, 8 * time.Second, 20 * time.Second, 90 * time.Second, 5 * time.Minute}
	idx := 0
	for rep := 0; rep < vkit.Scale(1, 4); rep++ {
		for _, k := range []int{2, 3, 4} {
			for _, dl := range deadlines {
				for kind := c06Kind(0); kind < c06Kinds; kind++ {
					idx++
					r := c.rng.SplitN("cascade-split", idx)
					q := c06GenReq(r.Split("req"), kind, vkit.Pick(r.Split("sq"), c.sqs), idx)
					height := uint64(900000 + idx)
					if err := st.PutODSQ4(ctx, q.s.sq.Roots, height, q.s.sq.EDS); err != nil {
						run.Inconclusive("cascade split store put failed: " + err.Error())
						return
					}
					active, overlap := &atomic.Int32{}, &atomic.Bool{}
					members := make([]*c06SplitMember, k)
					chain := make([]shwap.Getter, k)
					for i := range members {
						members[i] = &c06SplitMember{active: active, overlap: overlap}
						chain[i] = members[i]
					}
					members[k-1].serve = store.NewGetter(st) // the honest copy is behind k-1 members that fail
					hdr := vkit.MinimalHeader(height, q.s.sq.Roots, time.Now())
					callCtx, cancel := context.WithTimeout(ctx, dl)
					callDl, _ := callCtx.Deadline()
					var res c06Result
					desc := map[string]any{"members": k, "caller_deadline": dl.String(), "request": q.String(), "square": q.s.sq.Desc()}
					panicked := run.NoPanic("C06 cascade/split "+c06KindNames[kind]+":", desc, func() {
						res = c06Call(callCtx, getters.NewCascadeGetter(chain), q, hdr)
					})
					cancel()
					if panicked {
						continue
					}
					run.Eval(1)
					run.Count("cascade/split/cases", 1)
					run.Distinct(fmt.Sprintf("cascade-split|%d|%d|%s", k, kind, dl))
					if overlap.Load() {
						// members asked in parallel: time granted to one does not starve another
						run.Count("cascade/split/members-asked-concurrently(not judged)", 1)
						continue
					}
					var granted []string
					for i, m := range members {
						m.mu.Lock()
						calls, mdl, has := m.calls, m.deadline, m.hasDl
						m.mu.Unlock()
						if calls == 0 {
							granted = append(granted, "not asked")
							continue
						}
						if !has {
							granted = append(granted, "no deadline")
						} else {
							granted = append(granted, fmt.Sprintf("caller deadline %+v", mdl.Sub(callDl).Round(time.Millisecond)))
						}
						if i < k-1 && (!has || !mdl.Before(callDl)) {
							desc["granted"] = granted
							desc["member"] = i
							c.violation("cascade/split", q, "a member with other members behind it is granted the caller's whole remaining deadline (a silent peer there would starve the honest source)", desc)
						}
					}
					if res.err == nil {
						run.Count("cascade/split/served-by-the-last-member", 1)
					} else if members[k-1].calls == 0 {
						run.Count("cascade/split/last-member-never-asked", 1)
					}
					c.judge("cascade/split", q, &res, func() map[string]any { desc["granted"] = granted; return desc })
				}
			}
		}
	}
	run.Require("cascade/split/cases", 100)
	run.Require("cascade/split/served-by-the-last-member", 90)
}
