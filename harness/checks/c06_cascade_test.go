package checks

import (
	"context"
	"errors"
	"fmt"
	"os"
	"sync"
	"time"

	"github.com/celestiaorg/celestia-node/share/eds/byzantine"
	"github.com/celestiaorg/celestia-node/share/shwap"
	"github.com/celestiaorg/celestia-node/share/shwap/getters"
	"github.com/celestiaorg/celestia-node/store"
	"github.com/celestiaorg/celestia-node/zz_verif/vkit"
)

// cascade part of C06: getters.CascadeGetter composed the way nodebuilder/share composes it —
// bridge: [store.Getter, shrex, bitswap(bridge block store)], light: [shrex, bitswap(light block
// store)], and the variants with bitswap switched off — with the local store holding / missing the
// block, scripted shrex peers and hostile / honest bitswap servers.

type c06CascadeCase struct {
	idx      int
	wiring   string // "bridge" | "light"
	local    string // "holds" | "missing" (bridge only)
	shrex    string // "honest" | "notfound" | a bad behaviour name | "off"
	bs       string // "honest" | "bad" | "none" | "off"
	shrexCs  *c06ShrexCase
	bsCs     *c06BsCase
	req      *c06Req
	deadline time.Duration
}

func (cs *c06CascadeCase) desc() map[string]any {
	return map[string]any{"case": cs.idx, "cascade": cs.name(), "request": cs.req.String(), "square": cs.req.s.sq.Desc(), "deadline": cs.deadline.String()}
}

func (cs *c06CascadeCase) name() string {
	s := "["
	if cs.wiring == "bridge" {
		s += "store(" + cs.local + "),"
	}
	s += "shrex(" + cs.shrex + "),bitswap(" + cs.bs + ")]"
	return s
}

func (c *c06) cascadeCases() []*c06CascadeCase {
	var cases []*c06CascadeCase
	idx := 0
	shrexModes := []string{"honest", "notfound", "wrongpos", "twin", "garbled", "reset", "internal", "off"}
	if vkit.Thorough() {
		shrexModes = append(shrexModes, "truncated", "extended", "badstatus", "silent", "stallhalf")
	}
	reps := vkit.Scale(1, 3)
	for rep := 0; rep < reps; rep++ {
		for _, w := range []struct{ wiring, local string }{{"bridge", "missing"}, {"light", ""}, {"bridge", "holds"}} {
			for si, sm := range shrexModes {
				for bi, bm := range []string{"honest", "bad", "none", "off"} {
					if sm == "off" && bm == "off" && w.wiring == "light" {
						continue // no getter at all
					}
					if w.local == "holds" && (si+bi)%3 != 0 {
						continue // the store answers: the network side hardly matters, keep a few
					}
					cs := &c06CascadeCase{idx: idx, wiring: w.wiring, local: w.local, shrex: sm, bs: bm, deadline: 3 * time.Second}
					r := c.rng.SplitN("cascade-case", idx)
					kind := c06Kind((idx + si + rep) % int(c06Kinds))
					if w.wiring == "bridge" && w.local == "missing" && sm != "honest" && bm == "honest" && rep == 0 && si%2 == 1 {
						kind = c06Samples // reaches the bridge block store through the cascade
					}
					cs.req = c06GenReq(r.Split("req"), kind, vkit.Pick(r.Split("sq"), c.sqs), idx)
					height := uint64(800000 + idx)
					sc := &c06ShrexCase{idx: idx, height: height, req: cs.req, mode: "dl-short", deadline: cs.deadline,
						rng: r.Split("shrex"), done: make(chan struct{}), notify: make(chan struct{}, 1)}
					switch sm {
					case "honest":
						sc.honest = true
					case "off":
					default:
						for b := c06Beh(0); b < c06Behs; b++ {
							if c06BehNames[b] == sm {
								sc.script = []c06Beh{b}
							}
						}
						// a bad peer in front of an honest one in a third of the cases
						if sm != "notfound" && idx%3 == 0 {
							sc.honest = true
						}
					}
					sc.keys = c06Keys(cs.req, height)
					cs.shrexCs = sc
					bc := &c06BsCase{idx: idx, height: height, req: cs.req, wiring: w.wiring, rng: r.Split("bitswap")}
					switch bm {
					case "honest":
						bc.honest, bc.known = true, true
					case "bad":
						bc.known = idx%2 == 0
						bc.bad = []string{vkit.Pick(r, c06BsBads)}
						bc.honest = idx%2 == 0
					}
					cs.bsCs = bc
					cases = append(cases, cs)
					idx++
				}
			}
		}
	}
	return cases
}

func (c *c06) cascadePhase() {
	ctx, cancel := context.WithCancel(context.Background())
	defer cancel()
	net, cleanup, err := c.newNet(2)
	if err != nil {
		c.run.Inconclusive("cascade network setup failed: " + err.Error())
		return
	}
	defer cleanup()
	// local stores of the bridge nodes: one that holds every cascade case's block at the case
	// height, one that holds nothing
	holds, err := store.NewStore(store.DefaultParameters(), c.t.TempDir())
	if err != nil {
		c.run.Inconclusive("cascade store setup failed: " + err.Error())
		return
	}
	defer holds.Stop(context.Background()) //nolint:errcheck
	missing, err := store.NewStore(store.DefaultParameters(), c.t.TempDir())
	if err != nil {
		c.run.Inconclusive("cascade store setup failed: " + err.Error())
		return
	}
	defer missing.Stop(context.Background()) //nolint:errcheck

	cases := c.cascadeCases()
	<-c.bsWarm // see bitswapPhase
	if os.Getenv("VERIF_C06_BSCASES") != "" || os.Getenv("VERIF_C06_CASES") != "" {
		return
	}
	for _, cs := range cases {
		if cs.local == "holds" {
			if err := holds.PutODSQ4(ctx, cs.req.s.sq.Roots, cs.shrexCs.height, cs.req.s.sq.EDS); err != nil {
				c.run.Inconclusive("cascade store put failed: " + err.Error())
				return
			}
		}
	}
	sem := make(chan struct{}, vkit.Scale(48, 96))
	var wg sync.WaitGroup
	for _, cs := range cases {
		wg.Add(1)
		sem <- struct{}{}
		go func(cs *c06CascadeCase) {
			defer wg.Done()
			defer func() { <-sem }()
			local := missing
			if cs.local == "holds" {
				local = holds
			}
			c.runCascadeCase(ctx, net, local, cs)
		}(cs)
	}
	wg.Wait()
}

func (c *c06) runCascadeCase(ctx context.Context, net *c06Net, local *store.Store, cs *c06CascadeCase) {
	run := c.run
	q := cs.req
	ctx, cancelAll := context.WithCancel(ctx)
	defer cancelAll()
	var chain []shwap.Getter
	if cs.wiring == "bridge" {
		chain = append(chain, store.NewGetter(local))
	}
	sc := cs.shrexCs
	if cs.shrex != "off" {
		grp := net.groups[cs.idx%len(net.groups)]
		net.cases.Store(sc.height, sc)
		defer net.cases.Delete(sc.height)
		defer close(sc.done)
		g, stop, err := c.newShrexGetter(grp, sc, 300*time.Millisecond)
		if err != nil {
			run.Inconclusive("cascade shrex getter: " + err.Error())
			return
		}
		defer stop()
		chain = append(chain, g)
	}
	var env *c06BsEnv
	if cs.bs != "off" {
		var err error
		env, err = c.newBsEnv(ctx, net.store, local, cs.bsCs)
		defer env.close()
		if err != nil {
			run.Count("cascade/setup-failed(case skipped)", 1)
			run.Sample(map[string]any{"cascade_case_skipped": cs.desc(), "setup_error": err.Error()})
			return
		}
		chain = append(chain, env.node.getter)
	}
	getter := getters.NewCascadeGetter(chain)
	hdr := vkit.MinimalHeader(sc.height, q.s.sq.Roots, time.Now())
	// the local store answers at once; without a deadline that answer cannot be lost to a slow
	// machine (the cascade then grants every member a minute)
	callCtx, c2 := context.WithCancel(ctx)
	if cs.local != "holds" {
		callCtx, c2 = context.WithTimeout(ctx, cs.deadline)
	}
	defer c2()

	type outT struct {
		res      c06Result
		panicked bool
	}
	resCh := make(chan outT, 1)
	go func() {
		var o outT
		o.panicked = run.NoPanic(fmt.Sprintf("C06 cascade/%s %s:", cs.wiring, c06KindNames[q.kind]), cs.desc(), func() {
			o.res = c06Call(callCtx, getter, q, hdr)
		})
		resCh <- o
	}()
	var out outT
	select {
	case out = <-resCh:
	case <-time.After(c06Watchdog):
		c06DumpOnce("cascade watchdog")
		run.Inconclusive(fmt.Sprintf("cascade case %d still running at the watchdog: %s %s", cs.idx, cs.name(), q.String()))
		return
	}
	run.Eval(1)
	run.Count("cascade/cases", 1)
	run.Count("cascade/wiring/"+cs.wiring, 1)
	run.Distinct(fmt.Sprintf("cascade|%d|%s|%v|%v", q.kind, cs.name(), sc.honest, cs.bsCs.honest))
	if out.panicked {
		run.Count("cascade/panicked", 1)
		return
	}
	res := out.res
	detail := func() map[string]any {
		d := cs.desc()
		d["shrex_peers"] = sc.poolDesc()
		d["bitswap_servers"] = cs.bsCs.servers()
		return d
	}
	if n := c.n.Add(1); n%23 == 1 {
		s := detail()
		s["outcome_error"] = fmt.Sprint(res.err)
		run.Sample(s)
	}
	name := "cascade/" + cs.wiring
	c.judge(name, q, &res, detail)
	somebodyHonest := cs.local == "holds" || (cs.shrex != "off" && sc.honest) || (cs.bs != "off" && cs.bsCs.honest)
	switch {
	case res.err == nil && somebodyHonest:
		run.Count("cascade/success-with-a-correct-source", 1)
	case res.err == nil:
		run.Count("cascade/success-without-a-correct-source(benign-fault)", 1)
	case cs.local == "holds":
		// no network and no deadline involved: the node's own store holds the block
		d := detail()
		d["returned_error"] = res.err.Error()
		c.violation(name, q, "fails although the local store holds the block", d)
	case somebodyHonest:
		run.Count("cascade/deadline-ended-before-the-correct-source-was-reached", 1)
	}
	// "not found" must not become success or corruption. (What the cascade returns once its
	// context has ended is the context's error; the member getters' own mapping is judged on them.)
	if res.err != nil && !somebodyHonest {
		var be *byzantine.ErrByzantine
		if errors.As(res.err, &be) {
			d := detail()
			d["returned_error"] = res.err.Error()
			c.violation(name, q, "reports corruption (ErrByzantine) although no peer supplied a byzantine proof", d)
		}
		if errors.Is(res.err, shwap.ErrNotFound) {
			run.Count("cascade/error-is-ErrNotFound", 1)
		} else if errors.Is(res.err, context.DeadlineExceeded) {
			run.Count("cascade/error-is-deadline", 1)
		} else {
			run.Count("cascade/error-is-other", 1)
		}
	}
}
