package checks

import (
	"context"
	"errors"
	"fmt"
	"time"

	libshare "github.com/celestiaorg/go-square/v4/share"
	"github.com/celestiaorg/rsmt2d"

	"github.com/celestiaorg/celestia-node/core"
	"github.com/celestiaorg/celestia-node/header"
	"github.com/celestiaorg/celestia-node/share"
	"github.com/celestiaorg/celestia-node/share/availability"
	"github.com/celestiaorg/celestia-node/share/availability/full"
	"github.com/celestiaorg/celestia-node/share/eds/byzantine"
	"github.com/celestiaorg/celestia-node/share/shwap"
	"github.com/celestiaorg/celestia-node/zz_verif/vkit"
)

// The availability path: a bridge that only knows the header asks the network for the square
// through full.ShareAvailability and keeps it.

// c15avail drives the real full.ShareAvailability over a scripted getter on a history's store.
type c15avail struct {
	h       *c15hist
	c       *c15ctx
	fa      *full.ShareAvailability
	heights []int64
	calls   []int64 // heights in call order
	// getterPlan[h][k]: outcome of the k-th GetEDS for that height:
	// square | notfound | deadline | canceled | canceled-err | byzantine | byz+deadline | other | mismatch
	getterPlan map[int64][]string
	getterN    map[int64]int
	prestore   map[int64]bool // heights the node already holds when the history starts
	cancels    map[int64]context.CancelFunc
	okCalls    map[int64]int
}

var _ shwap.Getter = (*c15getter)(nil)

type c15getter struct{ a *c15avail }

var c15errGetter = errors.New("c15: getter failed for another reason")

func (g *c15getter) GetEDS(ctx context.Context, hdr *header.ExtendedHeader) (*rsmt2d.ExtendedDataSquare, error) {
	a, h := g.a, g.a.h
	ht := int64(hdr.Height())
	b := h.blocks[ht]
	if b == nil {
		return nil, shwap.ErrNotFound
	}
	h.mu.Lock()
	k := a.getterN[ht]
	a.getterN[ht]++
	out := "square"
	if pl := a.getterPlan[ht]; k < len(pl) {
		out = pl[k]
	}
	h.add("getter", "", ht, out)
	cancel := a.cancels[ht]
	h.mu.Unlock()
	switch out {
	case "square":
		return c15importEDS(b.pay), nil
	case "mismatch":
		// a square that is NOT the one the header commits to (contract violation of the getter)
		other := a.c.pool[1+(b.pay.id)%(len(a.c.pool)-1)]
		if other == b.pay {
			other = a.c.pool[1+(b.pay.id+1)%(len(a.c.pool)-1)]
		}
		return c15importEDS(other), nil
	case "notfound":
		return nil, fmt.Errorf("getter: %w", shwap.ErrNotFound)
	case "deadline":
		return nil, fmt.Errorf("getter: %w", context.DeadlineExceeded)
	case "canceled":
		if cancel != nil {
			cancel()
		}
		<-ctx.Done()
		return nil, ctx.Err()
	case "canceled-err":
		return nil, fmt.Errorf("getter: %w", context.Canceled)
	case "byzantine":
		return nil, &byzantine.ErrByzantine{Index: 1, Axis: rsmt2d.Row}
	case "byz+deadline":
		return nil, errors.Join(context.DeadlineExceeded, &byzantine.ErrByzantine{Index: 2, Axis: rsmt2d.Col})
	default:
		return nil, c15errGetter
	}
}

func (g *c15getter) GetSamples(context.Context, *header.ExtendedHeader, []shwap.SampleCoords) ([]shwap.Sample, error) {
	return nil, errors.New("c15getter: not used by the full availability check")
}

func (g *c15getter) GetRow(context.Context, *header.ExtendedHeader, int) (shwap.Row, error) {
	return shwap.Row{}, errors.New("c15getter: not used by the full availability check")
}

func (g *c15getter) GetNamespaceData(context.Context, *header.ExtendedHeader, libshare.Namespace) (shwap.NamespaceData, error) {
	return nil, errors.New("c15getter: not used by the full availability check")
}

func (g *c15getter) GetRangeNamespaceData(context.Context, *header.ExtendedHeader, int, int) (shwap.RangeNamespaceData, error) {
	return shwap.RangeNamespaceData{}, errors.New("c15getter: not used by the full availability check")
}

var c15getterOutcomes = []string{"square", "square", "square", "notfound", "deadline", "canceled", "canceled-err", "byzantine", "byz+deadline", "other", "mismatch"}

// newAvail adds n blocks above `from` to the history and scripts availability calls for them.
func (c *c15ctx) newAvail(h *c15hist, r *vkit.RNG, from int64, n int) *c15avail {
	a := &c15avail{h: h, c: c, getterPlan: map[int64][]string{}, getterN: map[int64]int{}, prestore: map[int64]bool{}, cancels: map[int64]context.CancelFunc{}, okCalls: map[int64]int{}}
	a.heights = c.genBlocks(h, r.Split("blocks"), from, n, availability.StorageWindow)
	kinds := []string{"fsq4", "fsods"}
	if h.cfg.Cache == 0 || c15hookWithCache {
		kinds = append(kinds, "hook")
	}
	for _, ht := range a.heights {
		if r.Chance(1, 8) {
			a.prestore[ht] = true
		}
		ncalls := r.Range(1, 3)
		for k := 0; k < ncalls; k++ {
			a.calls = append(a.calls, ht)
			a.getterPlan[ht] = append(a.getterPlan[ht], vkit.Pick(r, c15getterOutcomes))
		}
		if r.Chance(1, 2) { // a final call that can succeed
			a.calls = append(a.calls, ht)
			a.getterPlan[ht] = append(a.getterPlan[ht], "square")
		}
		if r.Chance(1, 5) {
			h.storePlan[ht] = []string{vkit.Pick(r, kinds)}
		}
	}
	r.Shuffle(len(a.calls), func(i, j int) { a.calls[i], a.calls[j] = a.calls[j], a.calls[i] })
	return a
}

func (a *c15avail) build() {
	var opts []full.Option
	if a.h.cfg.Archival {
		opts = append(opts, full.WithArchivalMode())
	}
	a.fa = full.NewShareAvailability(a.h.store, &c15getter{a}, opts...)
}

// run performs the scripted calls. It may run concurrently with a listener on other heights of the
// same store (mixed histories): it only ever looks at its own heights.
func (a *c15avail) run(ctx context.Context) {
	h := a.h
	a.build()
	for ht := range a.prestore {
		b := h.blocks[ht]
		if h.prunedHistoric(b) {
			delete(a.prestore, ht)
			continue
		}
		// the node already holds the block (e.g. its listener stored it): write it the way storeEDS does
		var err error
		if b.inWindow {
			err = h.store.PutODSQ4(ctx, b.pay.roots(), uint64(ht), c15importEDS(b.pay))
		} else {
			err = h.store.PutODS(ctx, b.pay.roots(), uint64(ht), c15importEDS(b.pay))
		}
		if err != nil { // the store-write script hit the pre-store: not pre-stored then
			delete(a.prestore, ht)
		}
	}
	for _, ht := range a.calls {
		a.call(ctx, ht)
	}
}

// call is one SharesAvailable call and its oracle.
func (a *c15avail) call(ctx context.Context, ht int64) {
	h := a.h
	b := h.blocks[ht]
	hdr := b.extended()
	before, _ := h.store.HasByHeight(ctx, uint64(ht))
	cctx, cancel := context.WithCancel(ctx)
	h.mu.Lock()
	a.cancels[ht] = cancel
	from := len(h.log)
	h.add("avail", "", ht, "call")
	h.mu.Unlock()
	var err error
	pnc, site := vkit.Recover(func() { err = a.fa.SharesAvailable(cctx, hdr) })
	cancel()
	h.run.Eval(1)
	h.note("avail-returned", "", ht, c15errString(err))
	seg := h.logFrom(from)
	var getter, put string
	for _, e := range seg {
		if e.h != ht {
			continue
		}
		switch e.kind {
		case "getter":
			getter = e.out
		case "put":
			put = e.out
		}
	}
	after, _ := h.store.HasByHeight(context.Background(), uint64(ht))
	w := func() map[string]any {
		return map[string]any{"height": ht, "getter": getter, "store_write": put, "returned": fmt.Sprint(err), "stored_before": before, "stored_after": after,
			"in_window": b.inWindow, "empty": b.pay.empty}
	}
	if pnc != nil {
		h.violation("C15 availability check panics @"+site, map[string]any{"panic": fmt.Sprint(pnc), "height": ht})
		return
	}
	if ctx.Err() != nil {
		return // the history itself is being torn down
	}
	h.run.Count("avail/calls", 1)
	mode := "pruned"
	if h.cfg.Archival {
		mode = "archival"
	}
	h.run.Distinct(fmt.Sprintf("avail|%s|in=%v|empty=%v|before=%v|getter=%s|put=%s", mode, b.inWindow, b.pay.empty, before, getter, put))
	if h.prunedHistoric(b) {
		if after {
			h.violation("C15 pruned node stored a block outside the availability window (availability path)", w())
		}
		if errors.Is(err, availability.ErrOutsideSamplingWindow) {
			h.run.Count("avail/pruned-historic-refused", 1)
		} else {
			h.run.Count("avail/pruned-historic-other-result", 1)
		}
		return
	}
	// generic: success ⇒ stored; failure ⇒ nothing new stored
	if err == nil && !after {
		h.violation("C15 availability check succeeded but the height is not stored", w())
		return
	}
	if err != nil && after && !before {
		if getter == "mismatch" {
			h.run.Count("avail/diagnostic/mismatching-square/error-but-stored", 1)
		} else {
			h.violation("C15 failed availability check leaves the height stored (getter outcome "+getter+", store write "+put+")", w())
		}
		return
	}
	switch {
	case before:
		if err != nil {
			h.violation("C15 availability check of an already stored height fails", w())
			return
		}
		h.run.Count("avail/already-stored", 1)
	case b.pay.empty:
		if err != nil {
			h.violation("C15 availability check of an empty block fails", w())
			return
		}
		h.run.Count("avail/empty-block", 1)
	case getter == "":
		if err == nil {
			h.violation("C15 availability check succeeded without obtaining the square", w())
		}
		return
	case getter == "mismatch":
		// outside the statement (the getter broke its contract); record what the node did
		switch {
		case err == nil:
			h.run.Count("avail/diagnostic/mismatching-square/accepted-and-stored-under-the-header", 1)
			if c15strictGetter {
				h.violation("C15 availability check stores a square that does not match the header it was given", w())
			}
			// do not leave a block in the store that later calls would be judged against
			_ = h.store.RemoveODSQ4(context.Background(), uint64(ht), b.pay.hash)
		default:
			h.run.Count("avail/diagnostic/mismatching-square/refused", 1)
		}
		return
	case getter == "square":
		if put != "" && put != "ok" {
			if err == nil {
				h.violation("C15 availability check hides a store-write failure", w())
			} else {
				h.run.Count("avail/error-nothing-stored", 1)
				h.run.Count("avail/store-failed", 1)
			}
			return
		}
		if err != nil {
			h.violation("C15 availability check fails although the square was obtained and written", w())
			return
		}
	default:
		if err == nil {
			h.violation("C15 availability check succeeded although the getter failed ("+getter+")", w())
			return
		}
		h.run.Count("avail/error-nothing-stored", 1)
		h.run.Count("avail/getter/"+getter, 1)
		var byz *byzantine.ErrByzantine
		switch getter {
		case "notfound", "deadline":
			if !errors.Is(err, share.ErrNotAvailable) {
				h.violation("C15 availability check does not report 'not available' for getter outcome "+getter, w())
			}
		case "canceled", "canceled-err":
			if !errors.Is(err, context.Canceled) {
				h.violation("C15 availability check does not report cancellation", w())
			}
		case "byzantine", "byz+deadline":
			if !errors.As(err, &byz) {
				h.violation("C15 availability check does not pass the byzantine error through ("+getter+")", w())
			}
		}
		return
	}
	// success: the square under that height is the one the given header commits to
	a.okCalls[ht]++
	h.run.Count("avail/ok-stored", 1)
	h.checkStored(context.Background(), "avail", b, hdr.DAH, vkit.NewRNG(uint64(ht), "avail-read"), a.okCalls[ht] == 1 && ht%5 == 0)
}

// final re-reads every height of the availability side.
func (a *c15avail) final(ctx context.Context, r *vkit.RNG) {
	h := a.h
	for _, ht := range a.heights {
		b := h.blocks[ht]
		h.clearFaults(b)
		stored, _ := h.store.HasByHeight(ctx, uint64(ht))
		want := a.okCalls[ht] > 0 || a.prestore[ht]
		w := map[string]any{"height": ht, "successful_calls": a.okCalls[ht], "pre_stored": a.prestore[ht], "stored": stored}
		switch {
		case h.prunedHistoric(b):
			if stored {
				h.violation("C15 pruned node stored a block outside the availability window (availability path)", w)
			}
		case want && !stored:
			h.violation("C15 block kept by a successful availability check is gone at the end of the history", w)
		case !want && stored:
			h.violation("C15 height stored although no availability check of it succeeded", w)
		case stored:
			h.checkStored(ctx, "avail", b, b.pay.blk.Sq.Roots, r.SplitN("read", int(ht%1000)), false)
		}
	}
}

func (c *c15ctx) availHistory(id int, r *vkit.RNG) {
	cfg := c15cfg{Family: "avail", Archival: r.Chance(2, 5), Window: availability.StorageWindow, Cache: vkit.Pick(r, []int{10, 10, 0, 2})}
	h := c.newHist(id, cfg, r)
	defer h.close()
	a := c.newAvail(h, r.Split("avail"), h.base, r.Range(4, 10))
	c15reg.register(h)
	if err := h.openStore(); err != nil {
		c.run.Inconclusive("C15: cannot open a store: " + err.Error())
		return
	}
	ctx, cancel := context.WithTimeout(context.Background(), 10*time.Minute)
	defer cancel()
	a.run(ctx)
	a.final(ctx, r.Split("final"))
	c.run.Count("histories/avail", 1)
	c.countCfg(cfg)
	if n := c.nth.Add(1); n%23 == 1 {
		c.run.Sample(map[string]any{"history": id, "config": cfg.String(), "log": c15logStrings(h.logFrom(0))})
	}
}

// crossCheck (mixed histories): after the listener is done, the availability check is asked for
// the listener's own heights — already stored ones must be confirmed without change, never-ingested
// ones are fetched from the network and kept, and a later announcement of those changes nothing.
func (c *c15ctx) crossCheck(ctx context.Context, h *c15hist, cl *core.Listener, r *vkit.RNG) {
	a := &c15avail{h: h, c: c, getterPlan: map[int64][]string{}, getterN: map[int64]int{}, prestore: map[int64]bool{}, cancels: map[int64]context.CancelFunc{}, okCalls: map[int64]int{}}
	a.heights = h.heights
	a.build()
	var live *c15src
	for _, s := range h.srcs {
		if !s.dead() {
			live = s
		}
	}
	for _, ht := range h.heights {
		b := h.blocks[ht]
		before, _ := h.store.HasByHeight(ctx, uint64(ht))
		pubsBefore := len(h.published[ht])
		a.call(ctx, ht)
		after, _ := h.store.HasByHeight(ctx, uint64(ht))
		if before {
			h.run.Count("mixed/availability-confirms-listener-block", 1)
		} else if after {
			h.run.Count("mixed/availability-fills-height-the-listener-never-ingested", 1)
		}
		if !after || live == nil {
			continue
		}
		// a late announcement of a height the node already holds
		var herr error
		pnc, site := vkit.Recover(func() { herr = cl.VerifHandleNewBlockEvent(ctx, core.VerifBlockEvent(ht, live.addr)) })
		h.run.Eval(1)
		if pnc != nil {
			h.violation("C15 listener handler panics @"+site, map[string]any{"panic": fmt.Sprint(pnc), "height": ht})
			continue
		}
		still, _ := h.store.HasByHeight(ctx, uint64(ht))
		if !still {
			h.violation("C15 late announcement of a stored height removed it from the store", map[string]any{"height": ht, "handler_error": fmt.Sprint(herr)})
			continue
		}
		h.mu.Lock()
		pubsAfter := len(h.published[ht])
		h.mu.Unlock()
		if b.inWindow && pubsBefore >= 1 && pubsAfter > pubsBefore {
			h.violation("C15 in-window block published more than once", map[string]any{"height": ht, "header_broadcasts": pubsAfter})
		}
		h.checkStored(ctx, "mixed", b, b.pay.blk.Sq.Roots, r.SplitN("read", int(ht%1000)), false)
	}
}
