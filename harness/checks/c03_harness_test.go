package checks

import (
	"context"
	"errors"
	"fmt"
	"runtime"
	"strings"
	"sync"
	"sync/atomic"
	"time"

	"github.com/ipfs/go-datastore"
	dssync "github.com/ipfs/go-datastore/sync"

	libshare "github.com/celestiaorg/go-square/v4/share"
	"github.com/celestiaorg/rsmt2d"

	"github.com/celestiaorg/celestia-node/header"
	"github.com/celestiaorg/celestia-node/share/availability"
	"github.com/celestiaorg/celestia-node/share/availability/light"
	"github.com/celestiaorg/celestia-node/share/eds"
	"github.com/celestiaorg/celestia-node/share/shwap"
	"github.com/celestiaorg/celestia-node/zz_verif/vkit"
)

// ---------------------------------------------------------------------------------------------
// virtual-deadline context: Deadline() is far in the future (no timer of the code under test can
// fire), expiry/cancellation is an explicit event triggered by the scripted getter.

type c03Ctx struct {
	parent      context.Context
	mu          sync.Mutex
	done        chan struct{}
	err         error
	hasDeadline bool
	deadline    time.Time
}

func c03NewCtx(call *c03Call, withDeadline bool) *c03Ctx {
	c := &c03Ctx{parent: context.WithValue(context.Background(), c03CallKey{}, call), done: make(chan struct{}), hasDeadline: withDeadline}
	if withDeadline {
		c.deadline = time.Now().Add(time.Hour)
	}
	return c
}

func (c *c03Ctx) Deadline() (time.Time, bool) { return c.deadline, c.hasDeadline }
func (c *c03Ctx) Done() <-chan struct{}       { return c.done }
func (c *c03Ctx) Value(k any) any             { return c.parent.Value(k) }
func (c *c03Ctx) Err() error {
	c.mu.Lock()
	defer c.mu.Unlock()
	return c.err
}

func (c *c03Ctx) finish(err error) {
	c.mu.Lock()
	defer c.mu.Unlock()
	if c.err == nil {
		c.err = err
		close(c.done)
	}
}

// ---------------------------------------------------------------------------------------------
// squares

type c03Sq struct {
	sq, tw *vkit.Square
	mu     sync.Mutex
}

func (s *c03Sq) sample(from *vkit.Square, c c03Coord, axis rsmt2d.Axis) shwap.Sample {
	s.mu.Lock()
	defer s.mu.Unlock()
	smpl, err := (&eds.Rsmt2D{ExtendedDataSquare: from.EDS}).SampleForProofAxis(c, axis)
	if err != nil {
		panic(fmt.Sprintf("c03: reference sample %v: %v", c, err))
	}
	return smpl
}

type c03Pool struct {
	byW   map[int][]*c03Sq
	empty *c03Sq
}

var c03Widths = []int{1, 2, 4, 8, 16}

func c03NewPool(r *vkit.RNG) *c03Pool {
	p := &c03Pool{byW: map[int][]*c03Sq{}, empty: &c03Sq{sq: vkit.EmptySquare()}}
	var mu sync.Mutex
	var wg sync.WaitGroup
	for _, w := range c03Widths {
		for i := 0; i < 4; i++ {
			wg.Add(1)
			go func(w, i int) {
				defer wg.Done()
				rr := r.SplitN(fmt.Sprintf("w%d", w), i)
				sq := vkit.GenSquare(rr, w, vkit.Pick(rr, vkit.Layouts), rr.Intn(w*w))
				s := &c03Sq{sq: sq, tw: sq.Twin(rr.Split("twin"))}
				mu.Lock()
				p.byW[w] = append(p.byW[w], s)
				mu.Unlock()
			}(w, i)
		}
	}
	wg.Wait()
	for _, w := range c03Widths { // deterministic order regardless of goroutine completion order
		l := p.byW[w]
		for i := range l {
			for j := i + 1; j < len(l); j++ {
				if string(l[j].sq.Roots.Hash()) < string(l[i].sq.Roots.Hash()) {
					l[i], l[j] = l[j], l[i]
				}
			}
		}
	}
	return p
}

// ---------------------------------------------------------------------------------------------
// scripted getter

type c03Op struct {
	Kind  string `json:"kind"`            // serve | nilerr | deadline | cancel | bad
	Shape string `json:"shape,omitempty"` // none | one | allbutone | all | random
	Err   string `json:"err,omitempty"`   // "" | notfound | generic
	Ret   string `json:"ret,omitempty"`   // deadline/cancel: nil | partial
	Bad   string `json:"bad,omitempty"`   // othercoord | twin | garbled
	Seed  uint64 `json:"-"`
}

func (o c03Op) String() string {
	s := o.Kind
	for _, x := range []string{o.Shape, o.Err, o.Ret, o.Bad} {
		if x != "" {
			s += "/" + x
		}
	}
	return s
}

var c03ErrGeneric = errors.New("c03: scripted getter failure")

func c03OpErr(s string) error {
	switch s {
	case "notfound":
		return shwap.ErrNotFound
	case "generic":
		return c03ErrGeneric
	}
	return nil
}

type c03Height struct {
	s    *c03Sq
	ops  []c03Op
	next int
	// hold / entered (directed scenarios): an op of kind "hold" signals entered and waits for hold
	// (or its context) before it serves according to its shape
	hold    chan struct{}
	entered chan struct{}
}

type c03Scripted struct {
	c  *c03
	mu sync.Mutex
	hs map[uint64]*c03Height
}

func (g *c03Scripted) GetSamples(ctx context.Context, hdr *header.ExtendedHeader, idxs []shwap.SampleCoords) ([]shwap.Sample, error) {
	g.mu.Lock()
	h := g.hs[hdr.Height()]
	op := c03Op{Kind: "serve", Shape: "all"}
	exhausted := true
	if h.next < len(h.ops) {
		op, exhausted = h.ops[h.next], false
	}
	h.next++
	seq := h.next
	g.mu.Unlock()
	if exhausted {
		g.c.run.Count("op/default:serve/all", 1)
	} else {
		g.c.run.Count("op/"+op.String(), 1)
	}
	r := vkit.NewRNG(op.Seed, fmt.Sprintf("op%d", seq))
	call, _ := ctx.Value(c03CallKey{}).(*c03Call)

	served := make([]bool, len(idxs))
	L := len(idxs)
	switch op.Shape {
	case "one":
		if L > 0 {
			served[r.Intn(L)] = true
		}
	case "allbutone":
		for i := range served {
			served[i] = true
		}
		if L > 0 {
			served[r.Intn(L)] = false
		}
	case "all":
		for i := range served {
			served[i] = true
		}
	case "random":
		for i := range served {
			served[i] = r.Bool()
		}
	}
	build := func() []shwap.Sample {
		out := make([]shwap.Sample, L) // positional; not retrieved = empty Sample
		for i, c := range idxs {
			if !served[i] {
				continue
			}
			axis := rsmt2d.Row
			if r.Bool() {
				axis = rsmt2d.Col
			}
			if op.Kind != "bad" {
				out[i] = h.s.sample(h.s.sq, c, axis)
				continue
			}
			n := 2 * h.s.sq.W
			switch op.Bad {
			case "othercoord":
				out[i] = h.s.sample(h.s.sq, c03Coord{Row: c.Row, Col: (c.Col + 1) % n}, axis)
			case "twin":
				out[i] = h.s.sample(h.s.tw, c, axis)
			default: // garbled share under the honest proof
				s := h.s.sample(h.s.sq, c, axis)
				b := append([]byte(nil), s.ToBytes()...)
				b[libshare.NamespaceSize+r.Intn(len(b)-libshare.NamespaceSize)] ^= 0x10
				sh, err := libshare.NewShare(b)
				if err == nil {
					s.Share = sh
				}
				out[i] = s
			}
		}
		return out
	}

	if op.Kind == "hold" {
		if h.entered != nil {
			select {
			case h.entered <- struct{}{}:
			default:
			}
		}
		select {
		case <-h.hold:
		case <-ctx.Done():
		}
		op.Kind = "serve"
	}
	switch op.Kind {
	case "nilerr":
		err := c03OpErr(op.Err)
		if err == nil {
			err = c03ErrGeneric
		}
		return nil, err
	case "deadline", "cancel":
		if call == nil || call.ctl == nil {
			return nil, c03ErrGeneric
		}
		if op.Kind == "deadline" && call.ctl.hasDeadline {
			call.ctl.finish(context.DeadlineExceeded)
		} else {
			call.ctl.finish(context.Canceled)
		}
		select {
		case <-ctx.Done():
		case <-time.After(60 * time.Second):
			g.c.run.Inconclusive("context handed to the getter did not end after its parent ended (watchdog)")
			return nil, c03ErrGeneric
		}
		if op.Ret == "nil" {
			return nil, ctx.Err()
		}
		return build(), ctx.Err()
	default: // serve, bad
		res := build()
		err := c03OpErr(op.Err)
		if err == nil && ctx.Err() != nil {
			err = ctx.Err() // a getter handed a finished context reports it
		}
		return res, err
	}
}

func (g *c03Scripted) GetEDS(context.Context, *header.ExtendedHeader) (*rsmt2d.ExtendedDataSquare, error) {
	return nil, shwap.ErrOperationNotSupported
}

func (g *c03Scripted) GetRow(context.Context, *header.ExtendedHeader, int) (shwap.Row, error) {
	return shwap.Row{}, shwap.ErrOperationNotSupported
}

func (g *c03Scripted) GetNamespaceData(context.Context, *header.ExtendedHeader, libshare.Namespace) (shwap.NamespaceData, error) {
	return nil, shwap.ErrOperationNotSupported
}

func (g *c03Scripted) GetRangeNamespaceData(context.Context, *header.ExtendedHeader, int, int) (shwap.RangeNamespaceData, error) {
	return shwap.RangeNamespaceData{}, shwap.ErrOperationNotSupported
}

// ---------------------------------------------------------------------------------------------
// histories

type c03HSpec struct {
	W       int     `json:"w"`
	Kind    string  `json:"kind"` // in | in-edge | future | out | out-edge | empty
	Pool    int     `json:"-"`
	Script  []c03Op `json:"-"`
	ScriptS string  `json:"script"`
}

type c03CallSpec struct {
	H        int    `json:"h"`
	Deadline bool   `json:"deadline,omitempty"`
	Pre      string `json:"pre,omitempty"` // "" | cancelled | expired
}

type c03Step struct {
	Kind  string        `json:"kind"` // call | burst | restart | crash
	Calls []c03CallSpec `json:"calls,omitempty"`
	// ReadFault (restart only): the first read of a stored sampling result by the new instance fails
	// once with an I/O error (a transient datastore fault)
	ReadFault bool `json:"read_fault,omitempty"`
	// NewN (restart / crash): the new instance is configured with this sample count (0 = unchanged)
	NewN int `json:"new_sample_count,omitempty"`
}

type c03Hist struct {
	ID      int        `json:"id"`
	N       int        `json:"n"`
	Probe   bool       `json:"probe,omitempty"`
	Heights []c03HSpec `json:"blocks"`
	Steps   []c03Step  `json:"steps"`
}

func (h *c03Hist) shape() string {
	var b strings.Builder
	fmt.Fprintf(&b, "n=%d", h.N)
	for _, hs := range h.Heights {
		fmt.Fprintf(&b, "|w%d,%s,%s", hs.W, hs.Kind, hs.ScriptS)
	}
	for _, s := range h.Steps {
		fmt.Fprintf(&b, ";%s", s.Kind)
		for _, c := range s.Calls {
			fmt.Fprintf(&b, ",%d%v%s", c.H, c.Deadline, c.Pre)
		}
	}
	return b.String()
}

func c03GenOp(r *vkit.RNG, probe bool) c03Op {
	shapes := []string{"none", "one", "allbutone", "all", "random"}
	op := c03Op{Seed: r.Uint64()}
	x := r.Intn(100)
	switch {
	case probe && x < 40:
		op.Kind, op.Bad = "bad", vkit.Pick(r, []string{"othercoord", "twin", "garbled"})
		op.Shape = vkit.Pick(r, []string{"one", "allbutone", "all", "random"})
		if r.Chance(1, 4) {
			op.Err = "generic"
		}
	case x < 50:
		op.Kind, op.Shape = "serve", vkit.Pick(r, shapes)
		op.Err = vkit.Pick(r, []string{"", "", "notfound", "generic"})
	case x < 64:
		op.Kind, op.Err = "nilerr", vkit.Pick(r, []string{"notfound", "generic"})
	case x < 82:
		op.Kind, op.Ret, op.Shape = "deadline", vkit.Pick(r, []string{"nil", "partial"}), vkit.Pick(r, shapes)
	default:
		op.Kind, op.Ret, op.Shape = "cancel", vkit.Pick(r, []string{"nil", "partial"}), vkit.Pick(r, shapes)
	}
	if op.Ret == "nil" {
		op.Shape = ""
	}
	return op
}

func c03GenHist(r *vkit.RNG, id int, probe bool) *c03Hist {
	h := &c03Hist{ID: id, N: vkit.Pick(r, []int{1, 4, 16, 64}), Probe: probe}
	nH := 1
	switch x := r.Intn(100); {
	case x >= 85:
		nH = 3
	case x >= 60:
		nH = 2
	}
	used := map[[2]int]bool{}
	for i := 0; i < nH; i++ {
		hs := c03HSpec{W: vkit.Pick(r, []int{1, 1, 2, 2, 2, 4, 4, 8, 16}), Kind: "in"}
		if !probe {
			switch x := r.Intn(100); {
			case x < 5:
				hs.Kind = "empty"
			case x < 9:
				hs.Kind = "out"
			case x < 13:
				hs.Kind = "out-edge"
			case x < 19:
				hs.Kind = "in-edge"
			case x < 23:
				hs.Kind = "future"
			}
		}
		for { // distinct roots inside one history
			hs.Pool = r.Intn(4)
			if !used[[2]int{hs.W, hs.Pool}] {
				used[[2]int{hs.W, hs.Pool}] = true
				break
			}
		}
		var ss []string
		for k, n := 0, r.Range(1, 6); k < n; k++ {
			op := c03GenOp(r, probe)
			hs.Script = append(hs.Script, op)
			ss = append(ss, op.String())
		}
		hs.ScriptS = strings.Join(ss, " ")
		h.Heights = append(h.Heights, hs)
	}
	spec := func(hi int) c03CallSpec {
		cs := c03CallSpec{H: hi, Deadline: r.Bool()}
		if r.Chance(1, 12) {
			cs.Pre = "cancelled"
			if cs.Deadline && r.Bool() {
				cs.Pre = "expired"
			}
		}
		return cs
	}
	for k, n := 0, r.Range(2, 9); k < n; k++ {
		switch x := r.Intn(100); {
		case x < 50 || k == 0:
			h.Steps = append(h.Steps, c03Step{Kind: "call", Calls: []c03CallSpec{spec(r.Intn(nH))}})
		case x < 72:
			st := c03Step{Kind: "burst"}
			same := r.Intn(nH)
			mixed := nH > 1 && r.Bool()
			for j, m := 0, r.Range(2, 8); j < m; j++ {
				hi := same
				if mixed {
					hi = r.Intn(nH)
				}
				st.Calls = append(st.Calls, spec(hi))
			}
			h.Steps = append(h.Steps, st)
		case x < 90:
			h.Steps = append(h.Steps, c03Step{Kind: "restart"})
		default:
			h.Steps = append(h.Steps, c03Step{Kind: "crash"})
		}
	}
	rf := r.Split("dsfault")
	for i := range h.Steps {
		if h.Steps[i].Kind == "restart" && rf.Chance(1, 3) {
			h.Steps[i].ReadFault = true
		}
	}
	rn := r.Split("sample-count")
	for i := range h.Steps {
		if k := h.Steps[i].Kind; (k == "restart" || k == "crash") && rn.Chance(1, 4) {
			h.Steps[i].NewN = vkit.Pick(rn, []int{1, 4, 16, 32, 64})
		}
	}
	// after a restart there is always another call, so that the restart is observable
	if k := h.Steps[len(h.Steps)-1].Kind; k == "restart" || k == "crash" {
		h.Steps = append(h.Steps, c03Step{Kind: "call", Calls: []c03CallSpec{{H: r.Intn(nH)}}})
	}
	// drain: most histories end with plain retries (the script is usually exhausted by then and the
	// getter serves everything), so that completion is observed too
	if r.Chance(3, 4) {
		for i := 0; i < nH; i++ {
			for k := 0; k < 2; k++ {
				h.Steps = append(h.Steps, c03Step{Kind: "call", Calls: []c03CallSpec{{H: i}}})
			}
		}
	}
	return h
}

func (c *c03) histories(rng *vkit.RNG, pool *c03Pool) {
	n := vkit.Scale(600, 10000)
	nProbe := vkit.Scale(40, 400)
	var wg sync.WaitGroup
	sem := make(chan struct{}, 16)
	for i := 0; i < n+nProbe; i++ {
		wg.Add(1)
		sem <- struct{}{}
		go func(i int) {
			defer wg.Done()
			defer func() { <-sem }()
			r := rng.SplitN("h", i)
			h := c03GenHist(r, i, i >= n)
			c.runHistory(h, pool)
		}(i)
	}
	wg.Wait()
}

type c03Exec struct {
	c     *c03
	h     *c03Hist
	mon   *c03Mon
	base  *c03FaultDS
	rec   *c03RecGetter
	inst  *light.ShareAvailability
	roots []*c03Root
	dead  bool
	curN  int
}

// c03FaultDS fails the next `armed` reads of stored sampling results with an I/O error.
type c03FaultDS struct {
	datastore.Batching
	armed atomic.Int32
	run   *vkit.Run
	mode  string
}

var errC03DS = errors.New("c03: injected datastore read error (input/output error)")

func (d *c03FaultDS) Get(ctx context.Context, key datastore.Key) ([]byte, error) {
	if strings.Contains(key.String(), "sampling_result") {
		for {
			n := d.armed.Load()
			if n <= 0 {
				break
			}
			if d.armed.CompareAndSwap(n, n-1) {
				d.run.Count(d.mode+"/dsfault/reads_failed", 1)
				return nil, errC03DS
			}
		}
	}
	return d.Batching.Get(ctx, key)
}

func (e *c03Exec) newInst() {
	if e.curN == 0 {
		e.curN = e.h.N
	}
	e.inst = light.NewShareAvailability(e.rec, e.base, nil, light.WithSampleAmount(uint(e.curN)))
}

func c03HeaderTime(kind string, now time.Time) time.Time {
	w := availability.SamplingWindow
	switch kind {
	case "in-edge":
		return now.Add(-w + time.Hour)
	case "future":
		return now.Add(time.Hour)
	case "out":
		return now.Add(-w - 24*time.Hour)
	case "out-edge":
		return now.Add(-w - time.Hour)
	default:
		return now.Add(-time.Hour)
	}
}

func (c *c03) runHistory(h *c03Hist, pool *c03Pool) {
	mode := "scripted"
	if h.Probe {
		mode = "probe"
	}
	run := c.run
	mon := c.newMon(mode, "scripted", h)
	sg := &c03Scripted{c: c, hs: map[uint64]*c03Height{}}
	e := &c03Exec{c: c, h: h, mon: mon, base: &c03FaultDS{Batching: dssync.MutexWrap(datastore.NewMapDatastore()), run: c.run, mode: mode}, rec: &c03RecGetter{Getter: sg, mon: mon}}
	now := time.Now()
	for i, hs := range h.Heights {
		s := pool.byW[hs.W][hs.Pool]
		if hs.Kind == "empty" {
			s = pool.empty
		}
		height := uint64(10 + i)
		hdr := vkit.MinimalHeader(height, s.sq.Roots, c03HeaderTime(hs.Kind, now))
		sg.hs[height] = &c03Height{s: s, ops: hs.Script}
		e.roots = append(e.roots, mon.addRoot(fmt.Sprintf("b%d", i), s.sq, hdr, h.N, hs.Kind))
	}
	e.newInst()
	run.Distinct(mode + "|" + h.shape())
	run.Count(mode+"/histories", 1)
	for _, st := range h.Steps {
		if e.dead {
			break
		}
		run.Count(mode+"/step/"+st.Kind, 1)
		switch st.Kind {
		case "call":
			e.calls(st.Calls, false)
		case "burst":
			before := make([]int, len(e.roots))
			for i, rt := range e.roots {
				before[i] = rt.getterCalls
			}
			e.calls(st.Calls, true)
			run.Max(mode+"/burst/max_callers", len(st.Calls))
			mon.mu.Lock()
			for i, rt := range e.roots {
				if rt.getterCalls-before[i] >= 2 {
					run.Count(mode+"/burst/same_block_getter_calls>=2", 1)
				}
			}
			mon.mu.Unlock()
		case "restart":
			if err := e.inst.Close(context.Background()); err != nil {
				run.Inconclusive("Close failed: " + err.Error())
				e.dead = true
				break
			}
			if st.NewN == e.curN {
				st.NewN = 0
			}
			mon.restart("graceful-restart", st.NewN)
			mon.checkPersisted(e.base.Batching)
			if st.NewN > 0 {
				e.curN = st.NewN
			}
			e.newInst()
			if st.ReadFault {
				e.base.armed.Store(1)
				mon.note("-- next read of a stored sampling result fails once (injected datastore fault) --")
			}
		case "crash":
			if st.NewN == e.curN {
				st.NewN = 0
			}
			mon.restart("crash-restart", st.NewN)
			if st.NewN > 0 {
				e.curN = st.NewN
			}
			e.newInst()
		}
	}
	mon.mu.Lock()
	ev := append([]string(nil), mon.log...)
	mon.mu.Unlock()
	if len(ev) > 60 {
		ev = append(ev[:60], "…")
	}
	run.Sample(map[string]any{"history": h, "observed": ev})
}

// calls runs one call or a burst of concurrent calls and waits for all of them (watchdog ⇒ inconclusive).
func (e *c03Exec) calls(specs []c03CallSpec, burst bool) {
	start := make(chan struct{})
	var wg sync.WaitGroup
	inst := e.inst
	for _, cs := range specs {
		wg.Add(1)
		go func(cs c03CallSpec) {
			defer wg.Done()
			rt := e.roots[cs.H]
			call := &c03Call{rt: rt, burst: burst, pre: cs.Pre}
			call.ctl = c03NewCtx(call, cs.Deadline)
			switch cs.Pre {
			case "cancelled":
				call.ctl.finish(context.Canceled)
			case "expired":
				call.ctl.finish(context.DeadlineExceeded)
			}
			<-start
			e.mon.saCall(call)
			var err error
			if e.c.run.NoPanic("C03 SharesAvailable", map[string]any{"history": e.h}, func() { err = inst.SharesAvailable(call.ctl, rt.hdr) }) {
				return
			}
			e.mon.saReturn(call, err)
			call.ctl.finish(context.Canceled) // release the propagation goroutines of derived contexts
		}(cs)
	}
	close(start)
	done := make(chan struct{})
	go func() { wg.Wait(); close(done) }()
	select {
	case <-done:
	case <-time.After(120 * time.Second):
		e.c.run.Inconclusive(fmt.Sprintf("history %d: calls did not return within the watchdog", e.h.ID))
		e.dead = true
	}
}

// c03waiterGivesUp: one check of a block hangs in the network (call L inside the getter), a second
// caller for the same block gives up while it waits its turn (call W, cancelled), a third one arrives
// before L has finished (call T). T belongs behind L: whatever it requests must be the coordinates drawn
// for the block (the pending ones), not a set of its own — judged by the chain oracle of getterCall.
// The pauses only let W and T reach the place where they wait; no verdict depends on them.
func (c *c03) waiterGivesUp(rng *vkit.RNG, pool *c03Pool) {
	run := c.run
	n := vkit.Scale(40, 400)
	for i := 0; i < n; i++ {
		r := rng.SplitN("wgu", i)
		w := vkit.Pick(r, []int{2, 4, 8})
		s := pool.byW[w][r.Intn(len(pool.byW[w]))]
		N := vkit.Pick(r, []int{4, 16})
		first := c03Op{Kind: "hold", Shape: vkit.Pick(r, []string{"none", "one", "random", "all"}), Seed: r.Uint64()}
		h := &c03Hist{ID: 900000 + i, N: N, Heights: []c03HSpec{{W: w, Kind: "in", ScriptS: "hold/" + first.Shape}},
			Steps: []c03Step{{Kind: "directed: L holds in the getter, W gives up while waiting, T arrives, L is released"}}}
		mon := c.newMon("directed", "scripted", h)
		sg := &c03Scripted{c: c, hs: map[uint64]*c03Height{}}
		height := uint64(10)
		hh := &c03Height{s: s, ops: []c03Op{first}, hold: make(chan struct{}), entered: make(chan struct{}, 1)}
		sg.hs[height] = hh
		hdr := vkit.MinimalHeader(height, s.sq.Roots, time.Now().Add(-time.Hour))
		rt := mon.addRoot("b0", s.sq, hdr, N, "in")
		rec := &c03RecGetter{Getter: sg, mon: mon}
		inst := light.NewShareAvailability(rec, dssync.MutexWrap(datastore.NewMapDatastore()), nil, light.WithSampleAmount(uint(N)))
		start := func(name string) (*c03Call, chan struct{}) {
			call := &c03Call{rt: rt}
			call.ctl = c03NewCtx(call, false)
			done := make(chan struct{})
			go func() {
				defer close(done)
				mon.saCall(call)
				var err error
				if run.NoPanic("C03 SharesAvailable", map[string]any{"history": h}, func() { err = inst.SharesAvailable(call.ctl, hdr) }) {
					return
				}
				mon.saReturn(call, err)
			}()
			return call, done
		}
		pause := func() {
			for k := 0; k < 50; k++ {
				runtime.Gosched()
			}
			time.Sleep(3 * time.Millisecond)
		}
		_, doneL := start("L")
		select {
		case <-hh.entered:
		case <-time.After(30 * time.Second):
			run.Inconclusive("directed waiter scenario: the first call never reached the getter")
			close(hh.hold)
			continue
		}
		callW, doneW := start("W")
		pause()
		callW.ctl.finish(context.Canceled)
		select {
		case <-doneW:
		case <-time.After(30 * time.Second):
			run.Inconclusive("directed waiter scenario: the cancelled waiter did not return")
		}
		mon.note("-- the waiting caller W was cancelled and returned; T arrives while L is still in the getter --")
		callT, doneT := start("T")
		pause()
		close(hh.hold)
		for _, d := range []chan struct{}{doneL, doneT} {
			select {
			case <-d:
			case <-time.After(60 * time.Second):
				run.Inconclusive("directed waiter scenario: a call did not return after the release")
			}
		}
		callT.ctl.finish(context.Canceled)
		run.Eval(1)
		run.Count("directed/waiter-gives-up/scenarios", 1)
		run.Distinct(fmt.Sprintf("directed|wgu|%d|%d|%s", w, N, first.Shape))
		_ = inst.Close(context.Background())
	}
	run.Require("directed/waiter-gives-up/scenarios", n*9/10)
}
