package checks

import (
	"bytes"
	"context"
	"crypto/sha256"
	"encoding/binary"
	"fmt"
	"path/filepath"
	"sync"
	"sync/atomic"
	"testing"
	"time"

	libshare "github.com/celestiaorg/go-square/v4/share"
	"github.com/celestiaorg/nmt"

	"github.com/celestiaorg/celestia-node/share/eds"
	"github.com/celestiaorg/celestia-node/share/shwap"
	"github.com/celestiaorg/celestia-node/store/file"
	"github.com/celestiaorg/celestia-node/zz_verif/vkit"
)

// C02 — verified namespace data is complete.
//
// Oracle (exactly the statement), evaluated on every candidate response for (square, namespace):
//
//	NamespaceData.Verify(roots, ns) == nil  ⇒  Flatten() == sharesOf(ns)            (content, count, order)
//	                                          ∧ len(nd) == |rows whose [min,max] covers ns|
//	                                          ∧ (sharesOf(ns) = ∅ ⇒ every entry is a proof of absence)
//
// plus completeness of the honest side: every producer (direct NMT build over Rsmt2D / ODS file /
// ODS+Q4 file, cached-tree walk behind eds.WithProofsCache, the shrex response stream of
// NamespaceDataID.ResponseReader) yields data that is accepted, equals the reference, and all
// producers expose identical shares. NamespaceDataID refuses parity / tail-padding namespaces.
// The reference (vkit.Square) answers by linear scan over the ODS.

type c02 struct {
	run *vkit.Run
	n   atomic.Int64
	dir string
}

type c02ns struct {
	ns      libshare.Namespace
	classes []string
}

func c02CloneShares(s []libshare.Share) []libshare.Share {
	out := make([]libshare.Share, len(s))
	copy(out, s)
	return out
}

func c02CloneND(nd shwap.NamespaceData) shwap.NamespaceData {
	out := make(shwap.NamespaceData, len(nd))
	for i, r := range nd {
		out[i] = shwap.RowNamespaceData{Shares: c02CloneShares(r.Shares), Proof: r.Proof}
	}
	return out
}

func c02NsHex(ns libshare.Namespace) string {
	b := ns.Bytes()
	return fmt.Sprintf("v%d/%x", b[0], b[len(b)-8:])
}

func c02Shape(nd shwap.NamespaceData) []string {
	out := make([]string, len(nd))
	for i, r := range nd {
		switch {
		case r.Proof == nil:
			out[i] = fmt.Sprintf("%d shares, nil proof", len(r.Shares))
		case r.Proof.IsOfAbsence():
			out[i] = fmt.Sprintf("%d shares, absence [%d,%d)", len(r.Shares), r.Proof.Start(), r.Proof.End())
		default:
			out[i] = fmt.Sprintf("%d shares, inclusion [%d,%d)", len(r.Shares), r.Proof.Start(), r.Proof.End())
		}
	}
	return out
}

// c02LeafHash is the NMT leaf hash of an ODS share (leaf = namespace || share).
func c02LeafHash(sh libshare.Share) []byte {
	h := nmt.NewNmtHasher(sha256.New(), libshare.NamespaceSize, true)
	leaf := append(append([]byte(nil), sh.Namespace().Bytes()...), sh.ToBytes()...)
	out, err := h.HashLeaf(leaf)
	if err != nil {
		panic(err)
	}
	return out
}

// judge runs the real verifier on a candidate and applies the oracle. It returns whether the
// candidate was accepted.
func (c *c02) judge(sq *vkit.Square, sqKey string, tns c02ns, op string, nd shwap.NamespaceData) bool {
	ns := tns.ns
	c.run.Eval(1)
	c.run.Count("verify/"+op+"/tried", 1)
	c.run.Distinct(sqKey + "|" + string(ns.Bytes()) + "|" + op)
	if n := c.n.Add(1); n%4999 == 1 {
		c.run.Sample(map[string]any{"n": n, "square": sq.Desc(), "namespace": c02NsHex(ns), "classes": tns.classes,
			"candidate": op, "candidate_rows": c02Shape(nd)})
	}
	var err error
	if p, site := vkit.Recover(func() { err = nd.Verify(sq.Roots, ns) }); p != nil {
		c.run.Violation("C02 nd Verify panics @"+site, map[string]any{"panic": fmt.Sprint(p), "op": op, "square": sq.Desc(),
			"ns": c02NsHex(ns), "rows": c02Shape(nd)})
		return false
	}
	if err != nil {
		return false
	}
	c.run.Count("verify/"+op+"/accepted", 1)
	want := sq.SharesOf(ns)
	rows := sq.RowsCovering(ns)
	bad := ""
	switch {
	case !vkit.EqualShares(nd.Flatten(), want):
		bad = fmt.Sprintf("Flatten() has %d shares, the block has %d of the namespace (or content/order differs)", len(nd.Flatten()), len(want))
	case len(nd) != len(rows):
		bad = fmt.Sprintf("%d row entries, %d rows cover the namespace", len(nd), len(rows))
	case len(want) == 0:
		for i, r := range nd {
			if len(r.Shares) != 0 || r.Proof == nil || !r.Proof.IsOfAbsence() {
				bad = fmt.Sprintf("namespace has no shares but entry %d is not a proof of absence", i)
			}
		}
	}
	if bad == "" {
		c.run.Count("verify/"+op+"/accepted_equal", 1)
		return true
	}
	c.run.Violation("C02 nd accepted-but-incomplete op="+op, map[string]any{
		"square": sq.Desc(), "ns": c02NsHex(ns), "classes": tns.classes, "why": bad,
		"rows_covering": rows, "candidate_rows": c02Shape(nd),
	})
	return true
}

func TestC02(t *testing.T) {
	run := vkit.NewRun(t, "C02", "exploration",
		"cases = (generated square: width × layout × tail padding) × (namespace: present single-row / multi-row / row-filling / "+
			"first / last / reserved, absent inside a row range, absent below / above every row) × (honest producer | withholding / "+
			"forgery operator built from valid proof material | wire mutation of the length-delimited stream); distinct = distinct "+
			"(square, namespace, operator) on which the real NamespaceData.Verify ran; non-trivial = candidate derived from honest rows/proofs")
	defer run.Finish()
	c := &c02{run: run, dir: t.TempDir()}
	rng := vkit.NewRNG(vkit.Seed(), "C02")

	type sqcase struct {
		w      int
		layout string
		tail   int
		full   bool
	}
	var cases []sqcase
	for _, w := range []int{1, 2, 4} {
		for _, l := range vkit.Layouts {
			tails := []int{0, 1, w, w + 1, w*w - 1}
			if w <= 2 {
				tails = nil
				for p := 0; p < w*w; p++ {
					tails = append(tails, p)
				}
			}
			seen := map[int]bool{}
			for _, p := range tails {
				if p < 0 || p >= w*w || seen[p] {
					continue
				}
				seen[p] = true
				cases = append(cases, sqcase{w, l, p, true})
			}
		}
	}
	for _, l := range vkit.Layouts {
		for k := 0; k < vkit.Scale(4, 24); k++ {
			cases = append(cases, sqcase{8, l, []int{0, 1, 7, 8}[k%4] + 8*rng.Intn(5), false})
		}
		for k := 0; k < vkit.Scale(2, 12); k++ {
			cases = append(cases, sqcase{16, l, rng.Intn(128), false})
		}
	}
	big := []int{32, 32, 32, 64}
	if vkit.Thorough() {
		big = []int{32, 32, 32, 32, 32, 32, 32, 32, 64, 64, 64, 64, 128, 128}
		for _, l := range vkit.Layouts {
			for p := 0; p < 16; p++ {
				cases = append(cases, sqcase{4, l, p, true})
			}
		}
	}
	for _, w := range big {
		cases = append(cases, sqcase{w, vkit.Pick(rng, vkit.Layouts), rng.Intn(w * w / 2), false})
	}
	// one namespace over many rows (27 and 19 of 32): row counts that are neither small nor a multiple of
	// a worker-pool size, with every row attacked in turn (per-row operators below)
	cases = append(cases, sqcase{32, "single", 32*5 + 3, false}, sqcase{32, "single", 32 * 13, false})

	var wg sync.WaitGroup
	sem := make(chan struct{}, 16)
	for i, cs := range cases {
		wg.Add(1)
		sem <- struct{}{}
		go func(i int, cs sqcase) {
			defer wg.Done()
			defer func() { <-sem }()
			r := rng.SplitN("square", i)
			sq := vkit.GenSquare(r, cs.w, cs.layout, cs.tail)
			tw := sq.Twin(r.Split("twin"))
			run.Count("squares", 1)
			c.square(r, i, sq, tw, cs.full)
		}(i, cs)
	}
	wg.Wait()
	c.ids(rng.Split("ids"))

	for _, cl := range []string{"present-single-row", "present-multi-row", "present-fills-rows", "first-namespace", "last-namespace",
		"reserved", "absent-inside-row-range", "absent-below-all-rows", "absent-above-all-rows", "absent-between-rows"} {
		run.Require("honest/"+cl+"/accepted", 5)
	}
	run.Require("producers/agree", 100)
	run.Require("verify/wire/roundtrip/accepted", 100)
	run.Require("verify/row/drop-last+valid-subproof/tried", 20)
	run.Require("verify/list/drop-last-row/tried", 20)
	run.Require("verify/row/absence-at-leaf/tried", 50)
	run.Require("id/refused", 4)
	run.Assume("rsmt2d/nmt/sha256 define what a header commits to; hash collisions out of scope")
	run.Assume("the reference answers sharesOf(ns) and rowsCovering(ns) by linear scan over the generated ODS")
}

// namespaces picks the namespaces to examine for a square and labels them with their classes.
func (c *c02) namespaces(r *vkit.RNG, sq *vkit.Square, full bool) []c02ns {
	w := sq.W
	var out []c02ns
	var present []vkit.NsRun
	for _, run := range sq.Runs {
		if run.NS.ValidateForData() == nil {
			present = append(present, run)
		}
	}
	// a namespace may in principle appear in several runs only if the square were unsorted; it is not.
	for i, run := range present {
		var cl []string
		firstRow, lastRow := run.Start/w, (run.Start+run.Count-1)/w
		if firstRow == lastRow {
			cl = append(cl, "present-single-row")
		} else {
			cl = append(cl, "present-multi-row")
		}
		if run.Start%w == 0 && (run.Start+run.Count)%w == 0 {
			cl = append(cl, "present-fills-rows")
		}
		if i == 0 {
			cl = append(cl, "first-namespace")
		}
		if i == len(present)-1 {
			cl = append(cl, "last-namespace")
		}
		if run.NS.IsReserved() {
			cl = append(cl, "reserved")
		}
		out = append(out, c02ns{run.NS, cl})
	}
	if !full && len(out) > 10 {
		// keep first, last, every class at least once, and random others
		keep := []c02ns{out[0], out[len(out)-1]}
		seen := map[string]bool{}
		for _, x := range out[1 : len(out)-1] {
			novel := false
			for _, cl := range x.classes {
				if !seen[cl] {
					seen[cl] = true
					novel = true
				}
			}
			if novel || x.ns.IsReserved() {
				keep = append(keep, x)
			}
		}
		for len(keep) < 10 {
			keep = append(keep, out[1+r.Intn(len(out)-2)])
		}
		out = keep
	}
	// absent namespaces, classified by what the statement distinguishes: covered by some row's
	// [min,max] range (⇒ exactly one absence proof) or outside every row's range (⇒ empty response)
	classify := func(ns libshare.Namespace) string {
		switch {
		case len(sq.RowsCovering(ns)) > 0:
			return "absent-inside-row-range"
		case ns.IsLessThan(sq.ODS[0].Namespace()):
			return "absent-below-all-rows"
		case sq.ODS[len(sq.ODS)-1].Namespace().IsLessThan(ns):
			return "absent-above-all-rows"
		default:
			return "absent-between-rows"
		}
	}
	abs := sq.AbsentNamespaces()
	for _, kind := range []string{"inside", "below", "above"} {
		l := abs[kind]
		if !full && len(l) > 4 {
			r.Shuffle(len(l), func(i, j int) { l[i], l[j] = l[j], l[i] })
			l = l[:4]
		}
		for _, ns := range l {
			out = append(out, c02ns{ns, []string{classify(ns)}})
		}
	}
	// reserved namespaces that ValidateForData admits but the square does not contain
	for _, ns := range []libshare.Namespace{libshare.TxNamespace, libshare.IntermediateStateRootsNamespace, libshare.PayForBlobNamespace,
		libshare.PrimaryReservedPaddingNamespace, libshare.MinSecondaryReservedNamespace} {
		if len(sq.SharesOf(ns)) > 0 {
			continue
		}
		out = append(out, c02ns{ns, []string{classify(ns), "reserved"}})
	}
	return out
}

type c02producer struct {
	name string
	acc  eds.Accessor
}

func (c *c02) square(r *vkit.RNG, idx int, sq, tw *vkit.Square, full bool) {
	ctx := context.Background()
	sqKey := fmt.Sprintf("%d|%s", idx, sq.Desc())
	direct := &eds.Rsmt2D{ExtendedDataSquare: sq.EDS}
	prods := []c02producer{
		{"rsmt2d", direct},
		{"rsmt2d+proofscache", eds.WithProofsCache(&eds.Rsmt2D{ExtendedDataSquare: sq.EDS})},
	}
	// the store's file formats (direct NMT build from file reads) and the cache on top of them
	if sq.W <= 16 {
		pODS := filepath.Join(c.dir, fmt.Sprintf("%d.ods", idx))
		pQ4 := filepath.Join(c.dir, fmt.Sprintf("%d.q4", idx))
		if err := file.CreateODSQ4(pODS, pQ4, sq.Roots, sq.EDS); err != nil {
			c.run.Inconclusive("cannot create ODS/Q4 files: " + err.Error())
		} else {
			if f, err := file.OpenODS(pODS); err == nil {
				defer f.Close()
				prods = append(prods, c02producer{"ods-file", f}, c02producer{"ods-file+proofscache", eds.WithProofsCache(f)})
			} else {
				c.run.Inconclusive("cannot open ODS file: " + err.Error())
			}
			if f, err := file.OpenODS(pODS); err == nil {
				q := file.ODSWithQ4(f, pQ4)
				defer q.Close()
				prods = append(prods, c02producer{"odsq4-file", q})
			}
		}
	}
	tacc := &eds.Rsmt2D{ExtendedDataSquare: tw.EDS}

	nss := c.namespaces(r, sq, full)
	for _, tns := range nss {
		ns := tns.ns
		want := sq.SharesOf(ns)
		rows := sq.RowsCovering(ns)

		// ---- honest producers: accepted, equal, in agreement
		var honest shwap.NamespaceData
		ok := true
		for pi, p := range prods {
			var nd shwap.NamespaceData
			var err error
			if pn, site := vkit.Recover(func() { nd, err = eds.NamespaceData(ctx, p.acc, ns) }); pn != nil {
				c.run.Violation("C02 producer panics @"+site, map[string]any{"producer": p.name, "panic": fmt.Sprint(pn), "square": sq.Desc(), "ns": c02NsHex(ns)})
				ok = false
				continue
			}
			c.run.Count("producer/"+p.name+"/calls", 1)
			if err != nil {
				c.run.Violation("C02 honest producer fails producer="+p.name, map[string]any{"err": err.Error(), "square": sq.Desc(), "ns": c02NsHex(ns), "classes": tns.classes})
				ok = false
				continue
			}
			if !c.judge(sq, sqKey, tns, "honest/"+p.name, nd) {
				c.run.Violation("C02 honest-rejected producer="+p.name, map[string]any{"square": sq.Desc(), "ns": c02NsHex(ns), "classes": tns.classes,
					"rows": c02Shape(nd), "err": fmt.Sprint(nd.Verify(sq.Roots, ns))})
				ok = false
				continue
			}
			// the same producer under a request context that has already ended: it may refuse, but a
			// result returned as a success is still the whole namespace
			for _, ck := range []string{"cancelled", "expired"} {
				ectx, ecancel := context.WithCancel(ctx)
				if ck == "expired" {
					ecancel()
					ectx, ecancel = context.WithDeadline(ctx, time.Unix(1, 0))
				}
				ecancel()
				var end shwap.NamespaceData
				var eerr error
				if pn, site := vkit.Recover(func() { end, eerr = eds.NamespaceData(ectx, p.acc, ns) }); pn != nil {
					c.run.Violation("C02 producer panics @"+site, map[string]any{"producer": p.name, "ctx": ck, "panic": fmt.Sprint(pn), "square": sq.Desc(), "ns": c02NsHex(ns)})
					continue
				}
				c.run.Eval(1)
				if eerr != nil {
					c.run.Count("producer/ended-ctx/"+ck+"/refused", 1)
					continue
				}
				c.run.Count("producer/ended-ctx/"+ck+"/answered", 1)
				if len(rows) > 8 {
					c.run.Count("producer/ended-ctx/answered-namespace-spanning>8-rows", 1)
				}
				if !c.judge(sq, sqKey, tns, "honest/"+p.name+"/ended-ctx", end) {
					c.run.Violation("C02 producer returns incomplete namespace data as a success when the request context has ended producer="+p.name,
						map[string]any{"ctx": ck, "square": sq.Desc(), "ns": c02NsHex(ns), "classes": tns.classes, "rows_expected": len(rows), "rows": c02Shape(end)})
				}
			}
			if pi == 0 {
				honest = nd
				continue
			}
			// agreement with the direct producer, row by row
			agree := len(nd) == len(honest)
			for k := 0; agree && k < len(nd); k++ {
				agree = vkit.EqualShares(nd[k].Shares, honest[k].Shares) &&
					(nd[k].Proof != nil) == (honest[k].Proof != nil) &&
					(nd[k].Proof == nil || nd[k].Proof.IsOfAbsence() == honest[k].Proof.IsOfAbsence())
			}
			if !agree {
				c.run.Violation("C02 producers disagree "+p.name+" vs rsmt2d", map[string]any{"square": sq.Desc(), "ns": c02NsHex(ns),
					"rsmt2d": c02Shape(honest), p.name: c02Shape(nd)})
				ok = false
				continue
			}
			c.run.Count("producers/agree", 1)
			if k := len(nd); k > 0 && nd[0].Proof != nil && honest[0].Proof != nil {
				a, b := vkit.OpenProof(nd[0].Proof), vkit.OpenProof(honest[0].Proof)
				if a.Start == b.Start && a.End == b.End && vkit.EqualBytes2(a.Nodes, b.Nodes) && bytes.Equal(a.LeafHash, b.LeafHash) {
					c.run.Count("producers/identical-proofs", 1)
				}
			}
		}
		if !ok || (honest == nil && len(rows) > 0) {
			continue
		}
		for _, cl := range tns.classes {
			c.run.Count("honest/"+cl+"/accepted", 1)
		}
		// the shrex server's response stream for this namespace
		if id, err := shwap.NewNamespaceDataID(7, ns); err != nil {
			c.run.Violation("C02 NamespaceDataID refuses a data namespace", map[string]any{"ns": c02NsHex(ns), "err": err.Error()})
		} else if rd, err := id.ResponseReader(ctx, direct); err != nil {
			c.run.Violation("C02 honest producer fails producer=ResponseReader", map[string]any{"err": err.Error(), "square": sq.Desc(), "ns": c02NsHex(ns)})
		} else {
			var nd shwap.NamespaceData
			if _, err := nd.ReadFrom(rd); err != nil {
				c.run.Violation("C02 honest response stream does not decode", map[string]any{"err": err.Error(), "square": sq.Desc(), "ns": c02NsHex(ns)})
			} else if !c.judge(sq, sqKey, tns, "honest/response-stream", nd) {
				c.run.Violation("C02 honest-rejected producer=ResponseReader", map[string]any{"square": sq.Desc(), "ns": c02NsHex(ns), "rows": c02Shape(nd)})
			}
		}

		c.forge(r, sq, tw, tacc, sqKey, tns, honest, want, rows, full)
		c.wire(r, sq, sqKey, tns, honest)
	}
}

// forge derives withholding / forgery candidates from the honest response.
func (c *c02) forge(r *vkit.RNG, sq, tw *vkit.Square, tacc *eds.Rsmt2D, sqKey string, tns c02ns,
	honest shwap.NamespaceData, want []libshare.Share, rows []int, full bool) {
	ctx := context.Background()
	w := sq.W
	ns := tns.ns
	acc := &eds.Rsmt2D{ExtendedDataSquare: sq.EDS}
	try := func(op string, nd shwap.NamespaceData) { c.judge(sq, sqKey, tns, op, nd) }
	withRow := func(k int, e shwap.RowNamespaceData) shwap.NamespaceData {
		nd := c02CloneND(honest)
		nd[k] = e
		return nd
	}
	absent := sq.AbsentNamespaces()
	// absence proof, honestly generated, of some *other* absent namespace covered by row ri
	otherAbsence := func(ri int) (shwap.RowNamespaceData, bool) {
		ext := sq.ExtRowShares(ri)
		for _, kind := range []string{"inside", "below", "above"} {
			for _, ans := range absent[kind] {
				if ans.Equals(ns) {
					continue
				}
				if e, err := shwap.RowNamespaceDataFromShares(ext, ans, ri); err == nil && len(e.Shares) == 0 {
					return e, true
				}
			}
		}
		return shwap.RowNamespaceData{}, false
	}
	// absence "proof" assembled from valid material: a genuine inclusion path to leaf j + its leaf hash
	absenceAt := func(ri, j int) shwap.RowNamespaceData {
		ext := sq.ExtRowShares(ri)
		incl := vkit.RangeProof(ext, w, ri, j, j+1)
		p := nmt.NewAbsenceProof(j, j+1, incl.Nodes(), c02LeafHash(ext[j]), true)
		return shwap.RowNamespaceData{Proof: &p}
	}

	// ---- per-entry operators
	var ks []int
	if full || len(honest) <= 3 {
		for k := range honest {
			ks = append(ks, k)
		}
	} else {
		ks = []int{0, len(honest) / 2, len(honest) - 1}
	}
	// every row of a many-row namespace loses its last share in turn (valid proof for what is left)
	if len(honest) > 3 {
		for k := range honest {
			ri := rows[k]
			if rs, from := sq.RowSharesOf(ns, ri); len(rs) > 1 {
				try("row/every-row/drop-last+valid-subproof", withRow(k, shwap.RowNamespaceData{Shares: c02CloneShares(rs[:len(rs)-1]),
					Proof: vkit.RangeProof(sq.ExtRowShares(ri), w, ri, from, from+len(rs)-1)}))
			}
		}
	}
	for _, k := range ks {
		ri := rows[k]
		ext := sq.ExtRowShares(ri)
		h := honest[k]
		rowShares, from := sq.RowSharesOf(ns, ri)
		n := len(rowShares)
		if n > 0 {
			if n > 1 {
				try("row/drop-first+valid-subproof", withRow(k, shwap.RowNamespaceData{Shares: c02CloneShares(rowShares[1:]), Proof: vkit.RangeProof(ext, w, ri, from+1, from+n)}))
				try("row/drop-last+valid-subproof", withRow(k, shwap.RowNamespaceData{Shares: c02CloneShares(rowShares[:n-1]), Proof: vkit.RangeProof(ext, w, ri, from, from+n-1)}))
				try("row/drop-last+honest-proof", withRow(k, shwap.RowNamespaceData{Shares: c02CloneShares(rowShares[:n-1]), Proof: h.Proof}))
				try("row/drop-first+honest-proof", withRow(k, shwap.RowNamespaceData{Shares: c02CloneShares(rowShares[1:]), Proof: h.Proof}))
				sw := c02CloneShares(rowShares)
				sw[0], sw[n-1] = sw[n-1], sw[0]
				try("row/reorder-shares", withRow(k, shwap.RowNamespaceData{Shares: sw, Proof: h.Proof}))
				try("row/keep-one+valid-subproof", withRow(k, shwap.RowNamespaceData{Shares: c02CloneShares(rowShares[:1]), Proof: vkit.RangeProof(ext, w, ri, from, from+1)}))
			}
			if n > 2 {
				mid := append(c02CloneShares(rowShares[:1]), rowShares[2:]...)
				try("row/drop-middle+honest-proof", withRow(k, shwap.RowNamespaceData{Shares: mid, Proof: h.Proof}))
				dupMid := c02CloneShares(rowShares)
				dupMid[1] = dupMid[0]
				try("row/dup-first-over-second", withRow(k, shwap.RowNamespaceData{Shares: dupMid, Proof: h.Proof}))
			}
			try("row/dup-last+honest-proof", withRow(k, shwap.RowNamespaceData{Shares: append(c02CloneShares(rowShares), rowShares[n-1]), Proof: h.Proof}))
			if from > 0 {
				try("row/pad-left+valid-wider-proof", withRow(k, shwap.RowNamespaceData{Shares: c02CloneShares(ext[from-1 : from+n]), Proof: vkit.RangeProof(ext, w, ri, from-1, from+n)}))
			}
			if from+n < w {
				try("row/pad-right+valid-wider-proof", withRow(k, shwap.RowNamespaceData{Shares: c02CloneShares(ext[from : from+n+1]), Proof: vkit.RangeProof(ext, w, ri, from, from+n+1)}))
			}
			try("row/zero-shares+inclusion-proof", withRow(k, shwap.RowNamespaceData{Proof: h.Proof}))
			{
				e := nmt.NewEmptyRangeProof(true)
				try("row/zero-shares+empty-range-proof", withRow(k, shwap.RowNamespaceData{Proof: &e}))
				try("row/honest-shares+empty-range-proof", withRow(k, shwap.RowNamespaceData{Shares: c02CloneShares(rowShares), Proof: &e}))
			}
			try("row/proof-nil", withRow(k, shwap.RowNamespaceData{Shares: c02CloneShares(rowShares)}))
			if e, ok := otherAbsence(ri); ok {
				try("row/claim-absence-with-neighbour-absence-proof", withRow(k, e))
				try("row/honest-shares+neighbour-absence-proof", withRow(k, shwap.RowNamespaceData{Shares: c02CloneShares(rowShares), Proof: e.Proof}))
			}
			{
				fl := c02CloneShares(rowShares)
				j := r.Intn(n)
				b := append([]byte(nil), fl[j].ToBytes()...)
				b[libshare.NamespaceSize+r.Intn(len(b)-libshare.NamespaceSize)] ^= 1 << uint(r.Intn(8))
				fl[j], _ = libshare.NewShare(b)
				try("row/share-bitflip", withRow(k, shwap.RowNamespaceData{Shares: fl, Proof: h.Proof}))
			}
		} else {
			// absence entry: swap in inclusion material of the neighbours
			j := h.Proof.Start()
			if j >= 0 && j < w {
				nb := ext[j].Namespace()
				if e, err := shwap.RowNamespaceDataFromShares(ext, nb, ri); err == nil {
					try("row/inclusion-of-neighbour-ns", withRow(k, e))
					try("row/absence-proof+neighbour-shares", withRow(k, shwap.RowNamespaceData{Shares: e.Shares, Proof: h.Proof}))
				}
			}
			if e, ok := otherAbsence(ri); ok {
				try("row/absence-proof-of-other-absent-ns", withRow(k, e))
			}
			try("row/proof-nil", withRow(k, shwap.RowNamespaceData{}))
			{
				e := nmt.NewEmptyRangeProof(true)
				try("row/zero-shares+empty-range-proof", withRow(k, shwap.RowNamespaceData{Proof: &e}))
			}
			// leaf-hash substitution with the honest nodes
			pp := vkit.OpenProof(h.Proof)
			for _, d := range []int{-1, 1} {
				if jj := j + d; jj >= 0 && jj < w {
					q := pp
					q.LeafHash = c02LeafHash(ext[jj])
					try("row/leafhash-of-adjacent-leaf", withRow(k, shwap.RowNamespaceData{Proof: q.Build()}))
				}
			}
		}
		// absence "proofs" that point at a genuine leaf with a genuine path (any leaf but the right one)
		var js []int
		if w <= 8 {
			for j := 0; j < w; j++ {
				js = append(js, j)
			}
		} else {
			js = []int{0, w - 1, r.Intn(w), from - 1, from, from + n - 1, from + n, h.Proof.Start() - 1, h.Proof.Start() + 1}
		}
		for _, j := range js {
			if j < 0 || j >= w {
				continue
			}
			if n == 0 && j == h.Proof.Start() {
				continue // that is the honest one
			}
			try("row/absence-at-leaf", withRow(k, absenceAt(ri, j)))
		}
		// structural proof forgeries
		for _, pf := range vkit.ProofForgeries(r, h.Proof) {
			try("row/proof/"+pf.Op, withRow(k, shwap.RowNamespaceData{Shares: c02CloneShares(h.Shares), Proof: pf.Proof}))
		}
		// another row's honest entry in this position; the twin square's entry
		for _, d := range []int{-1, 1} {
			if kk := k + d; kk >= 0 && kk < len(honest) {
				try("row/entry-of-other-row", withRow(k, honest[kk]))
			}
			if rr := ri + d; rr >= 0 && rr < w {
				if e, err := shwap.RowNamespaceDataFromShares(sq.ExtRowShares(rr), ns, rr); err == nil {
					try("row/entry-of-adjacent-square-row", withRow(k, e))
				}
			}
		}
		if e, err := shwap.RowNamespaceDataFromShares(tw.ExtRowShares(ri), ns, ri); err == nil {
			try("row/twin-entry", withRow(k, e))
			if n > 0 {
				try("row/twin-shares+honest-proof", withRow(k, shwap.RowNamespaceData{Shares: e.Shares, Proof: h.Proof}))
			}
		}
	}

	// ---- row-list operators
	L := len(honest)
	if L > 0 {
		try("list/drop-first-row", c02CloneND(honest[1:]))
		try("list/drop-last-row", c02CloneND(honest[:L-1]))
		try("list/empty", nil)
		try("list/append-copy-of-last", append(c02CloneND(honest), honest[L-1]))
		try("list/prepend-copy-of-first", append(shwap.NamespaceData{honest[0]}, c02CloneND(honest)...))
		if e, ok := otherAbsence(rows[L-1]); ok {
			try("list/append-absence-entry", append(c02CloneND(honest), e))
		}
	}
	if L > 1 {
		try("list/keep-first-only", c02CloneND(honest[:1]))
		sw := c02CloneND(honest)
		sw[0], sw[L-1] = sw[L-1], sw[0]
		try("list/swap-rows", sw)
		d := c02CloneND(honest)
		d[1] = d[0]
		try("list/dup-first-over-second", d)
		// withhold a whole row but keep the count by splitting another row's entry is impossible
		// without a second proof for the same row; duplicate instead.
		ins := append(c02CloneND(honest[:1]), honest...)
		try("list/dup-first-inserted-drop-last", ins[:L])
	}
	if L > 2 {
		m := append(c02CloneND(honest[:1]), honest[2:]...)
		try("list/drop-middle-row", m)
	}
	if len(want) > 0 {
		// claim absence for a present namespace: every entry replaced by whatever absence material exists
		cl := c02CloneND(honest)
		for k := range cl {
			if e, ok := otherAbsence(rows[k]); ok {
				cl[k] = e
			} else {
				_, from := sq.RowSharesOf(ns, rows[k])
				j := from - 1
				if j < 0 {
					j = from + len(honest[k].Shares)
				}
				if j >= w {
					j = w - 1
				}
				cl[k] = absenceAt(rows[k], j)
			}
		}
		try("list/claim-absence-everywhere", cl)
	}
	// whole responses for other namespaces / the twin square presented for ns
	present := sq.DistinctNamespaces()
	for i, p := range present {
		if !p.Equals(ns) || len(want) == 0 {
			continue
		}
		for _, d := range []int{-1, 1} {
			if ii := i + d; ii >= 0 && ii < len(present) && present[ii].ValidateForData() == nil {
				if o, err := eds.NamespaceData(ctx, acc, present[ii]); err == nil {
					try("list/response-of-adjacent-namespace", o)
				}
			}
		}
	}
	if len(want) == 0 {
		// nearest present namespaces around an absent one
		var lo, hi *libshare.Namespace
		for i := range present {
			if present[i].ValidateForData() != nil {
				continue
			}
			if present[i].IsLessThan(ns) {
				lo = &present[i]
			} else if hi == nil {
				hi = &present[i]
			}
		}
		for _, p := range []*libshare.Namespace{lo, hi} {
			if p != nil {
				if o, err := eds.NamespaceData(ctx, acc, *p); err == nil {
					try("list/response-of-adjacent-namespace", o)
				}
			}
		}
		if L == 0 {
			// no row covers ns: any non-empty response must be refused
			for _, ri := range []int{0, w - 1} {
				try("list/absence-entry-for-uncovered-namespace", shwap.NamespaceData{absenceAt(ri, 0)})
				try("list/absence-entry-for-uncovered-namespace", shwap.NamespaceData{absenceAt(ri, w-1)})
			}
		}
	}
	if o, err := eds.NamespaceData(ctx, tacc, ns); err == nil {
		try("list/twin-response", o)
		if L > 1 && len(o) == L {
			m := c02CloneND(honest)
			m[L-1] = o[L-1]
			try("list/last-row-from-twin", m)
		}
	}
}

// wire exercises the length-delimited stream: round trip, frame-aware truncations, byte mutations.
func (c *c02) wire(r *vkit.RNG, sq *vkit.Square, sqKey string, tns c02ns, honest shwap.NamespaceData) {
	var buf bytes.Buffer
	if _, err := honest.WriteTo(&buf); err != nil {
		c.run.Violation("C02 honest response does not encode", map[string]any{"err": err.Error(), "square": sq.Desc(), "ns": c02NsHex(tns.ns)})
		return
	}
	b := buf.Bytes()
	decode := func(op string, data []byte) {
		var nd shwap.NamespaceData
		var err error
		if p, site := vkit.Recover(func() { _, err = nd.ReadFrom(bytes.NewReader(data)) }); p != nil {
			c.run.Violation("C02 nd stream decode panics @"+site, map[string]any{"panic": fmt.Sprint(p), "op": op, "bytes_len": len(data)})
			return
		}
		c.run.Count("wire/"+op+"/fed", 1)
		if err != nil {
			c.run.Eval(1)
			return
		}
		c.run.Count("wire/"+op+"/decoded", 1)
		c.judge(sq, sqKey, tns, "wire/"+op, nd)
	}
	{
		var nd shwap.NamespaceData
		if _, err := nd.ReadFrom(bytes.NewReader(b)); err != nil {
			c.run.Violation("C02 honest stream round trip fails", map[string]any{"err": err.Error(), "square": sq.Desc(), "ns": c02NsHex(tns.ns)})
			return
		}
		if !c.judge(sq, sqKey, tns, "wire/roundtrip", nd) {
			c.run.Violation("C02 honest-rejected after stream round trip", map[string]any{"square": sq.Desc(), "ns": c02NsHex(tns.ns), "rows": c02Shape(nd)})
		}
	}
	// frame offsets
	type frame struct{ off, hdr, size int }
	var frames []frame
	for off := 0; off < len(b); {
		sz, n := binary.Uvarint(b[off:])
		if n <= 0 {
			break
		}
		frames = append(frames, frame{off, n, int(sz)})
		off += n + int(sz)
	}
	for i, f := range frames {
		if i > 0 {
			decode("truncate-at-frame-boundary", b[:f.off])
		}
		decode("truncate-dangling-length-prefix", b[:f.off+f.hdr])
		if f.hdr > 1 {
			decode("truncate-inside-length-prefix", b[:f.off+1])
		}
		if f.size > 1 {
			decode("truncate-mid-frame", b[:f.off+f.hdr+1+r.Intn(f.size-1)])
			decode("truncate-last-byte-of-frame", b[:f.off+f.hdr+f.size-1])
		}
		if i > 3 {
			break
		}
	}
	if len(frames) > 1 {
		last := frames[len(frames)-1]
		decode("truncate-final-frame", b[:last.off+last.hdr+last.size/2])
		// frames re-ordered / dropped / repeated on the wire
		f0, f1 := frames[0], frames[1]
		var sw []byte
		sw = append(sw, b[f1.off:f1.off+f1.hdr+f1.size]...)
		sw = append(sw, b[f0.off:f0.off+f0.hdr+f0.size]...)
		sw = append(sw, b[f1.off+f1.hdr+f1.size:]...)
		decode("frames-swapped", sw)
		decode("first-frame-dropped", b[f1.off:])
		decode("first-frame-repeated", append(append([]byte(nil), b[:f1.off]...), b...))
	}
	if len(b) > 0 {
		decode("stream-twice", append(append([]byte(nil), b...), b...))
		decode("empty-frame-appended", append(append([]byte(nil), b...), 0))
	}
	nm := vkit.Scale(12, 48)
	for k := 0; k < nm; k++ {
		mb, mop := vkit.MutateBytes(r, b)
		decode("mutate/"+mop, mb)
	}
}

// ids: NamespaceDataID must refuse the namespaces that are not data (parity, tail padding) at
// every entrance: constructor, binary decoder, stream reader — and admit the others.
func (c *c02) ids(r *vkit.RNG) {
	heights := []uint64{1, 2, 1<<32 - 1, 1 << 32, 1<<64 - 1}
	type nscase struct {
		name   string
		ns     libshare.Namespace
		refuse bool
	}
	cases := []nscase{
		{"parity", libshare.ParitySharesNamespace, true},
		{"tail-padding", libshare.TailPaddingNamespace, true},
		{"tx", libshare.TxNamespace, false},
		{"pfb", libshare.PayForBlobNamespace, false},
		{"primary-reserved-padding", libshare.PrimaryReservedPaddingNamespace, false},
		{"min-secondary-reserved", libshare.MinSecondaryReservedNamespace, false},
		{"user", vkit.MkNamespace(uint64(r.Range(1000, 1<<40))), false},
		{"user", vkit.MkNamespace(uint64(r.Range(1000, 1<<40))), false},
	}
	for _, cs := range cases {
		for _, h := range heights {
			raw := binary.BigEndian.AppendUint64(nil, h)
			raw = append(raw, cs.ns.Bytes()...)
			results := map[string]error{}
			c.run.NoPanic("C02 NamespaceDataID entrance", cs.name, func() {
				_, results["constructor"] = shwap.NewNamespaceDataID(h, cs.ns)
				_, results["from-binary"] = shwap.NamespaceDataIDFromBinary(raw)
				var id shwap.NamespaceDataID
				_, results["read-from"] = id.ReadFrom(bytes.NewReader(raw))
			})
			for entrance, err := range results {
				c.run.Eval(1)
				switch {
				case cs.refuse && err == nil:
					c.run.Violation("C02 NamespaceDataID admits a non-data namespace at "+entrance+" ns="+cs.name, map[string]any{"height": h, "ns": cs.ns.String()})
				case cs.refuse:
					c.run.Count("id/refused", 1)
				case err != nil:
					c.run.Violation("C02 NamespaceDataID refuses a data namespace at "+entrance+" ns="+cs.name, map[string]any{"height": h, "ns": cs.ns.String(), "err": err.Error()})
				default:
					c.run.Count("id/admitted", 1)
				}
			}
		}
	}
}
