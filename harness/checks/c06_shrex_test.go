package checks

import (
	"bytes"
	"context"
	"crypto/rand"
	"encoding/binary"
	"errors"
	"fmt"
	"math"
	"os"
	"path/filepath"
	"runtime"
	"strings"
	"sync"
	"time"

	"github.com/ipfs/go-datastore"
	dssync "github.com/ipfs/go-datastore/sync"
	ic "github.com/libp2p/go-libp2p/core/crypto"
	"github.com/libp2p/go-libp2p/core/host"
	"github.com/libp2p/go-libp2p/core/peer"
	"github.com/libp2p/go-libp2p/core/protocol"
	"github.com/libp2p/go-libp2p/p2p/net/conngater"
	mocknet "github.com/libp2p/go-libp2p/p2p/net/mock"
	ma "github.com/multiformats/go-multiaddr"

	libshare "github.com/celestiaorg/go-square/v4/share"

	"github.com/celestiaorg/celestia-node/share/availability"
	"github.com/celestiaorg/celestia-node/share/eds"
	"github.com/celestiaorg/celestia-node/share/shwap"
	"github.com/celestiaorg/celestia-node/share/shwap/p2p/shrex"
	shrexpb "github.com/celestiaorg/celestia-node/share/shwap/p2p/shrex/pb"
	"github.com/celestiaorg/celestia-node/share/shwap/p2p/shrex/peers"
	"github.com/celestiaorg/celestia-node/share/shwap/p2p/shrex/shrex_getter"
	"github.com/celestiaorg/celestia-node/share/shwap/p2p/shrex/shrexsub"
	"github.com/celestiaorg/celestia-node/share/shwap/pb"
	"github.com/celestiaorg/celestia-node/store"
	"github.com/celestiaorg/celestia-node/zz_verif/vkit"
)

const (
	c06NetID = "c06"
	// c06FastRejects: so many consumed-and-rejected complete honest replies for one request decide
	// that the call cannot succeed.
	c06FastRejects = 3
	// c06Fast is the lower-bound check: a new request for the same key this soon after the honest
	// handler *started* cannot be the consequence of a request timeout (every judged mode gives a
	// request at least 5s), only of a rejection.
	c06Fast = 750 * time.Millisecond
	// c06Hammer: so many requests for one key to one scripted peer mean the honest peer is not
	// handed out any more
	c06Hammer = 10
	// c06StallTimeout is what a stalled / silent peer costs a call without deadline
	c06StallTimeout = 8 * time.Second
	// c06Cooldown is longer than any case: no cool-down expires while a call is in flight; a cooled
	// peer is handed out once more through the node pool and then stays away. (Whenever a cool-down
	// expires while another peer is being cooled, the pool and its cool-down queue can lock each
	// other for good - a peer-selection defect, property C17 - and the getter call then never
	// returns, whatever its context does: seen about once in 1500 calls with a 20ms cool-down and
	// still with 5s on a loaded machine.) The request timeouts below are generous so that an honest
	// peer is not cooled for being slow.
	c06Cooldown = time.Hour
	// c06Quiet: without an honest peer and without a deadline the harness ends the context when all
	// request loops went through all peers once, or when no request has arrived for this long (all
	// loops wait for a peer). When the context ends is never part of a verdict.
	c06Quiet      = 600 * time.Millisecond
	c06Watchdog   = 90 * time.Second
	c06MaxScripts = 3 // scripted (bad) peers per group
)

// ---------------------------------------------------------------------------------------------
// behaviours

type c06Beh int

const (
	c06WrongPos c06Beh = iota
	c06Twin
	c06Truncated
	c06Extended
	c06Garbled
	c06NotFound
	c06Internal
	c06BadStatus
	c06Reset
	c06StallHalf
	c06Silent
	c06OddProof
	c06Behs
)

var c06BehNames = [...]string{"wrongpos", "twin", "truncated", "extended", "garbled", "notfound", "internal", "badstatus", "reset", "stallhalf", "silent", "oddproof"}

func c06ScriptName(s []c06Beh) string {
	out := make([]string, len(s))
	for i, b := range s {
		out[i] = c06BehNames[b]
	}
	return strings.Join(out, ">")
}

func c06HasStall(s []c06Beh) bool {
	for _, b := range s {
		if b == c06StallHalf || b == c06Silent {
			return true
		}
	}
	return false
}

// ---------------------------------------------------------------------------------------------
// network

type c06Group struct {
	client  host.Host
	shrex   *shrex.Client
	bad     []host.Host
	honest  host.Host
	server  *shrex.Server
	badIdx  map[peer.ID]int
	baseCtx context.Context
}

type c06Net struct {
	c      *c06
	mn     mocknet.Mocknet
	groups []*c06Group
	cases  sync.Map // height -> *c06ShrexCase
	store  *store.Store
	protos map[protocol.ID]string
}

func c06AddHost(mn mocknet.Mocknet, port int) (host.Host, error) {
	sk, _, err := ic.GenerateECDSAKeyPair(rand.Reader)
	if err != nil {
		return nil, err
	}
	// loopback addresses: the real shrex server exempts them from its per-IP rate limit
	a, err := ma.NewMultiaddr(fmt.Sprintf("/ip4/127.0.0.1/tcp/%d", port))
	if err != nil {
		return nil, err
	}
	return mn.AddPeer(sk, a)
}

// c06HonestStore maps case heights onto the heights at which the real store holds the squares.
type c06HonestStore struct {
	net *c06Net
}

func (h *c06HonestStore) lookup(height uint64) (uint64, bool) {
	v, ok := h.net.cases.Load(height)
	if !ok {
		return 0, false
	}
	cs := v.(*c06ShrexCase)
	if !cs.honest {
		return 0, false
	}
	return cs.req.s.storeHeight, true
}

func (h *c06HonestStore) GetByHeight(ctx context.Context, height uint64) (eds.AccessorStreamer, error) {
	sh, ok := h.lookup(height)
	if !ok {
		return nil, store.ErrNotFound
	}
	return h.net.store.GetByHeight(ctx, sh)
}

func (h *c06HonestStore) HasByHeight(ctx context.Context, height uint64) (bool, error) {
	sh, ok := h.lookup(height)
	if !ok {
		return false, nil
	}
	return h.net.store.HasByHeight(ctx, sh)
}

func (c *c06) newNet(ngroups int) (*c06Net, func(), error) {
	net := &c06Net{c: c, mn: mocknet.New(), protos: map[protocol.ID]string{}}
	for _, name := range vkit.ShrexNames {
		net.protos[shrex.ProtocolID(c06NetID, name)] = name
	}
	ctx, cancel := context.WithCancel(context.Background())
	st, err := store.NewStore(store.DefaultParameters(), c.t.TempDir())
	if err != nil {
		cancel()
		return nil, nil, err
	}
	net.store = st
	for _, s := range c.sqs {
		if err := st.PutODSQ4(ctx, s.sq.Roots, s.storeHeight, s.sq.EDS); err != nil {
			cancel()
			return nil, nil, fmt.Errorf("put reference square: %w", err)
		}
	}
	port := 20000
	var servers []*shrex.Server
	for g := 0; g < ngroups; g++ {
		grp := &c06Group{badIdx: map[peer.ID]int{}, baseCtx: ctx}
		next := func() (host.Host, error) { port++; return c06AddHost(net.mn, port) }
		if grp.client, err = next(); err != nil {
			cancel()
			return nil, nil, err
		}
		cp := shrex.DefaultClientParameters()
		cp.WithNetworkID(c06NetID)
		if grp.shrex, err = shrex.NewClient(cp, grp.client); err != nil {
			cancel()
			return nil, nil, err
		}
		for j := 0; j < c06MaxScripts; j++ {
			h, err := next()
			if err != nil {
				cancel()
				return nil, nil, err
			}
			grp.bad = append(grp.bad, h)
			grp.badIdx[h.ID()] = j
			vkit.ServeScriptedShrex(h, c06NetID, &c06Scripted{net: net, j: j})
		}
		if grp.honest, err = next(); err != nil {
			cancel()
			return nil, nil, err
		}
		sp := shrex.DefaultServerParameters()
		sp.WithNetworkID(c06NetID)
		tap := &vkit.TapHost{Host: grp.honest, OnDone: net.honestDone}
		if grp.server, err = shrex.NewServer(sp, tap, &c06HonestStore{net: net}); err != nil {
			cancel()
			return nil, nil, err
		}
		if err = grp.server.Start(ctx); err != nil {
			cancel()
			return nil, nil, err
		}
		servers = append(servers, grp.server)
		for _, h := range append(append([]host.Host{}, grp.bad...), grp.honest) {
			if _, err := net.mn.LinkPeers(grp.client.ID(), h.ID()); err != nil {
				cancel()
				return nil, nil, err
			}
			if _, err := net.mn.ConnectPeers(grp.client.ID(), h.ID()); err != nil {
				cancel()
				return nil, nil, err
			}
		}
		net.groups = append(net.groups, grp)
	}
	cleanup := func() {
		for _, s := range servers {
			_ = s.Stop(ctx)
		}
		cancel()
		_ = net.mn.Close()
		_ = st.Stop(context.Background())
	}
	return net, cleanup, nil
}

// honestDone receives the report of every stream the real server handled.
func (n *c06Net) honestDone(rep vkit.TapReport) {
	name, ok := n.protos[rep.Protocol]
	if !ok {
		return
	}
	id := vkit.NewShrexID(name)
	if _, err := id.ReadFrom(bytes.NewReader(rep.Read)); err != nil {
		return
	}
	v, ok := n.cases.Load(id.Height())
	if !ok {
		return
	}
	cs := v.(*c06ShrexCase)
	st, sok := rep.Status()
	ev := c06Event{peer: -1, beh: "honest", key: name + "|" + string(vkit.ShrexIDBytes(id)), start: rep.Start, end: rep.End,
		complete: rep.Complete() && sok && st == shrexpb.Status_OK, written: rep.Written}
	if ev.complete {
		n.c.run.Count("shrex/honest-server/complete-replies", 1)
	} else {
		n.c.run.Count("shrex/honest-server/incomplete-replies", 1)
	}
	cs.record(ev)
}

// ---------------------------------------------------------------------------------------------
// cases

type c06Event struct {
	peer     int // index of the scripted peer, -1 = honest server
	beh      string
	key      string
	start    time.Time
	end      time.Time
	complete bool
	written  int
}

type c06ShrexCase struct {
	idx      int
	height   uint64
	req      *c06Req
	script   []c06Beh
	honest   bool
	mode     string // "nodl" | "dl-short" | "dl-long"
	deadline time.Duration
	rng      *vkit.RNG
	keys     []string
	// reqTimeout is the per-peer request timeout given to the getter
	reqTimeout time.Duration

	done   chan struct{}
	notify chan struct{}

	mu      sync.Mutex
	events  []c06Event
	counts  map[string]int
	suspect map[string]any
}

func (cs *c06ShrexCase) desc() map[string]any {
	return map[string]any{
		"case": cs.idx, "request": cs.req.String(), "square": cs.req.s.sq.Desc(), "peers_in_pool_order": cs.poolDesc(),
		"context": cs.mode, "deadline": cs.deadline.String(),
	}
}

func (cs *c06ShrexCase) poolDesc() string {
	s := c06ScriptName(cs.script)
	if cs.honest {
		s += ">HONEST"
	}
	return s
}

func (cs *c06ShrexCase) record(ev c06Event) {
	cs.mu.Lock()
	cs.events = append(cs.events, ev)
	if cs.counts == nil {
		cs.counts = map[string]int{}
	}
	cs.counts[ev.key]++
	cs.mu.Unlock()
	select {
	case cs.notify <- struct{}{}:
	default:
	}
}

// history renders the event log (relative milliseconds) for witnesses.
func (cs *c06ShrexCase) history(t0 time.Time) []string {
	cs.mu.Lock()
	defer cs.mu.Unlock()
	var out []string
	for _, e := range cs.events {
		who := "honest"
		if e.peer >= 0 {
			who = fmt.Sprintf("peer%d", e.peer)
		}
		s := fmt.Sprintf("+%dms %s %s key#%d", e.start.Sub(t0).Milliseconds(), who, e.beh, cs.keyIndex(e.key))
		if e.peer < 0 {
			s += fmt.Sprintf(" complete=%v written=%dB served_in=%dms", e.complete, e.written, e.end.Sub(e.start).Milliseconds())
		}
		out = append(out, s)
		if len(out) >= 40 {
			out = append(out, "…")
			break
		}
	}
	return out
}

func (cs *c06ShrexCase) keyIndex(k string) int {
	for i, x := range cs.keys {
		if x == k {
			return i
		}
	}
	return -1
}

// evaluate looks at the event log and says whether the harness should end the caller's context:
// "exhausted" (no honest peer, every request loop went through all scripted peers once) or
// "rejected" (honest replies consumed and rejected c06FastRejects times).
func (cs *c06ShrexCase) evaluate() string {
	cs.mu.Lock()
	defer cs.mu.Unlock()
	if !cs.honest {
		if cs.mode != "nodl" || len(cs.keys) == 0 || len(cs.events) == 0 {
			return ""
		}
		// every request loop went through all scripted peers once (it has started attempt
		// len(script)+1) ...
		all := true
		for _, k := range cs.keys {
			all = all && cs.counts[k] >= len(cs.script)+1
		}
		if all {
			return "exhausted"
		}
		allNF := true
		for _, b := range cs.script {
			allNF = allNF && b == c06NotFound
		}
		if allNF {
			return "" // one loop, the count above is always reached: oracle 3 needs it
		}
		// ... or nothing moves any more: no arrival for c06Quiet, and no stalled request that the
		// getter has yet to time out
		now := time.Now()
		for _, e := range cs.events {
			hold := c06Quiet
			if e.beh == c06BehNames[c06StallHalf] || e.beh == c06BehNames[c06Silent] {
				hold += cs.reqTimeout
			}
			if now.Sub(e.start) < hold {
				return ""
			}
		}
		return "quiet"
	}
	if cs.mode == "dl-short" {
		return ""
	}
	for _, k := range cs.keys {
		n := 0
		var first *c06Event
		for i := range cs.events {
			e := &cs.events[i]
			if e.peer >= 0 || !e.complete || e.key != k {
				continue
			}
			for j := range cs.events {
				f := &cs.events[j]
				if f.key == k && f.start.After(e.end) && f.start.Sub(e.start) < c06Fast {
					n++
					if first == nil {
						first = e
					}
					break
				}
			}
		}
		if n >= c06FastRejects {
			cs.suspect = map[string]any{"request_key_index": cs.keyIndex(k), "honest_replies_rejected": n}
			return "rejected"
		}
		// One scripted peer asked over and over for this key while no complete honest reply was
		// rejected: the honest peer is out of the rotation. With the long cool-down that is what
		// remains after a request to it timed out (it never happens on an idle machine; an
		// overloaded one takes longer than the request timeout to open a stream): nothing can be
		// learnt from waiting for the watchdog.
		if n == 0 {
			per := map[int]int{}
			for i := range cs.events {
				if e := &cs.events[i]; e.key == k && e.peer >= 0 {
					per[e.peer]++
					if per[e.peer] >= c06Hammer {
						return "honest-out-of-rotation"
					}
				}
			}
		}
	}
	return ""
}

// rejectedHonestReplies counts complete honest replies that were followed by a new request for the same
// key within c06Fast of the honest handler's start (= consumed and rejected), for the worst key.
func (cs *c06ShrexCase) rejectedHonestReplies() (int, int) {
	cs.mu.Lock()
	defer cs.mu.Unlock()
	best, bestKey := 0, -1
	for _, k := range cs.keys {
		n := 0
		for i := range cs.events {
			e := &cs.events[i]
			if e.peer >= 0 || !e.complete || e.key != k {
				continue
			}
			for j := range cs.events {
				f := &cs.events[j]
				if f.key == k && f.start.After(e.end) && f.start.Sub(e.start) < c06Fast {
					n++
					break
				}
			}
		}
		if n > best {
			best, bestKey = n, cs.keyIndex(k)
		}
	}
	return best, bestKey
}

// c06Keys computes the request keys the getter will put on the wire for a request.
func c06Keys(q *c06Req, height uint64) []string {
	n := 2 * q.s.sq.W
	key := func(id vkit.ShrexID) string { return id.Name() + "|" + string(vkit.ShrexIDBytes(id)) }
	switch q.kind {
	case c06Samples:
		var out []string
		for _, c := range q.coords {
			id, err := shwap.NewSampleID(height, c, n)
			if err != nil {
				panic(err)
			}
			out = append(out, key(&id))
		}
		return out
	case c06Row:
		id, err := shwap.NewRowID(height, q.row, n)
		if err != nil {
			panic(err)
		}
		return []string{key(&id)}
	case c06EDS:
		id, err := shwap.NewEdsID(height)
		if err != nil {
			panic(err)
		}
		return []string{key(&id)}
	case c06ND:
		if len(q.s.sq.RowsCovering(q.ns)) == 0 {
			return nil // answered from the roots alone
		}
		id, err := shwap.NewNamespaceDataID(height, q.ns)
		if err != nil {
			panic(err)
		}
		return []string{key(&id)}
	default:
		eid, err := shwap.NewEdsID(height)
		if err != nil {
			panic(err)
		}
		id, err := shwap.NewRangeNamespaceDataID(eid, q.from, q.to, q.s.sq.W)
		if err != nil {
			panic(err)
		}
		return []string{key(&id)}
	}
}

// ---------------------------------------------------------------------------------------------
// scripted peers

type c06Scripted struct {
	net *c06Net
	j   int
}

func (s *c06Scripted) Plan(req vkit.ShrexReq) vkit.ShrexAction {
	v, ok := s.net.cases.Load(req.ID.Height())
	if !ok {
		return vkit.ShrexAction{Kind: vkit.ShrexStatusOnly, Status: shrexpb.Status_NOT_FOUND, Label: "unscripted"}
	}
	cs := v.(*c06ShrexCase)
	if s.j >= len(cs.script) {
		return vkit.ShrexAction{Kind: vkit.ShrexStatusOnly, Status: shrexpb.Status_NOT_FOUND, Label: "unscripted"}
	}
	beh := cs.script[s.j]
	cs.mu.Lock()
	nth := cs.counts[req.Key]
	cs.mu.Unlock()
	act := c06Action(cs, beh, req, cs.rng.SplitN(fmt.Sprintf("peer%d/%s", s.j, c06BehNames[beh]), nth))
	s.net.c.run.Count("shrex/peer-behaviour/"+c06BehNames[beh]+"/"+c06KindNames[cs.req.kind], 1)
	cs.record(c06Event{peer: s.j, beh: act.Label, key: req.Key, start: req.Start, end: req.Start})
	return act
}

func (s *c06Scripted) Done(vkit.ShrexReq, vkit.ShrexAction, vkit.ShrexOutcome) {}

// c06Frames splits a stream of varint-delimited frames; ok=false if it is not one.
func c06Frames(b []byte) (frames [][]byte, ok bool) {
	for len(b) > 0 {
		l, n := binary.Uvarint(b)
		if n <= 0 || uint64(len(b)-n) < l {
			return nil, false
		}
		frames = append(frames, b[:n+int(l)])
		b = b[n+int(l):]
	}
	return frames, true
}

// c06WrongID returns an identifier (and the square to serve it from) whose honest answer is valid
// data for a position other than the requested one.
func c06WrongID(r *vkit.RNG, cs *c06ShrexCase, id vkit.ShrexID) (vkit.ShrexID, string, string) {
	sq := cs.req.s.sq
	n := 2 * sq.W
	h := id.Height()
	switch x := id.(type) {
	case *shwap.SampleID:
		c := shwap.SampleCoords{Row: x.RowIndex, Col: x.ShareIndex}
		var o shwap.SampleCoords
		var how string
		switch r.Intn(4) {
		case 0:
			o, how = shwap.SampleCoords{Row: c.Row, Col: (c.Col + 1) % n}, "col+1"
		case 1:
			o, how = shwap.SampleCoords{Row: (c.Row + 1) % n, Col: c.Col}, "row+1"
		case 2:
			o, how = shwap.SampleCoords{Row: c.Col, Col: c.Row}, "transposed"
			if o == c {
				o = shwap.SampleCoords{Row: c.Row, Col: (c.Col + sq.W) % n}
			}
		default:
			o, how = shwap.SampleCoords{Row: (c.Row + sq.W) % n, Col: (c.Col + sq.W) % n}, "mirrored"
		}
		nid, err := shwap.NewSampleID(h, o, n)
		if err != nil {
			panic(err)
		}
		return &nid, "", "sample-" + how
	case *shwap.RowID:
		nid, err := shwap.NewRowID(h, (x.RowIndex+1+r.Intn(n-1))%n, n)
		if err != nil {
			panic(err)
		}
		return &nid, "", "other-row"
	case *shwap.EdsID:
		return x, "other", "other-block"
	case *shwap.NamespaceDataID:
		var cand []libshare.Namespace
		for _, ns := range c06DataNamespaces(sq) {
			if !ns.Equals(x.DataNamespace) {
				cand = append(cand, ns)
			}
		}
		nid, err := shwap.NewNamespaceDataID(h, vkit.Pick(r, cand))
		if err != nil {
			panic(err)
		}
		return &nid, "", "other-namespace"
	case *shwap.RangeNamespaceDataID:
		eid, _ := shwap.NewEdsID(h)
		from, to := x.From, x.To
		how := ""
		if (from / sq.W) == ((to - 1) / sq.W) {
			// single-row request: answer with a multi-row range ending inside the next row
			// (carries a last-row proof) when the namespace continues there, else a shifted window
			b := (from/sq.W + 1) * sq.W
			if b < sq.W*sq.W && sq.ODS[b].Namespace().Equals(sq.ODS[from].Namespace()) {
				to, how = b+1, "multi-row-superset"
			} else if from > 0 && sq.ODS[from-1].Namespace().Equals(sq.ODS[from].Namespace()) {
				from, to, how = from-1, to-1, "window-1"
			} else {
				to, how = to-1, "shorter"
			}
		} else {
			// multi-row request: answer with its first row only, or the window moved by one
			switch r.Intn(2) {
			case 0:
				to, how = (from/sq.W+1)*sq.W, "first-row-only"
			default:
				to, how = to-1, "window-short"
			}
		}
		if to <= from {
			to = from + 1
		}
		nid, err := shwap.NewRangeNamespaceDataID(eid, from, to, sq.W)
		if err != nil {
			panic(err)
		}
		return &nid, "", "range-" + how
	}
	panic("c06: unknown id type")
}

func c06Action(cs *c06ShrexCase, beh c06Beh, req vkit.ShrexReq, r *vkit.RNG) vkit.ShrexAction {
	s := cs.req.s
	payload := func(id vkit.ShrexID, which string) []byte {
		s.mu.Lock()
		defer s.mu.Unlock()
		b, err := vkit.ShrexPayload(context.Background(), id, s.acc(which))
		if err != nil {
			// the identifier cannot be served from this square (e.g. a range crossing namespaces):
			// fall back to the bytes of the honest answer of the twin
			b, err = vkit.ShrexPayload(context.Background(), req.ID, s.acc("twin"))
			if err != nil {
				return nil
			}
		}
		return b
	}
	name := c06BehNames[beh]
	switch beh {
	case c06WrongPos:
		id, which, how := c06WrongID(r, cs, req.ID)
		return vkit.ShrexAction{Kind: vkit.ShrexPayloadClose, Payload: payload(id, which), Label: name + "/" + how}
	case c06Twin:
		return vkit.ShrexAction{Kind: vkit.ShrexPayloadClose, Payload: payload(req.ID, "twin"), Label: name}
	case c06Truncated:
		p := payload(req.ID, "")
		frames, ok := c06Frames(p)
		switch v := r.Intn(3); {
		case v == 0 && ok && len(frames) >= 2:
			return vkit.ShrexAction{Kind: vkit.ShrexPayloadClose, Payload: p[:len(p)-len(frames[len(frames)-1])], Label: name + "/drop-last-frame"}
		case v == 1:
			return vkit.ShrexAction{Kind: vkit.ShrexPayloadClose, Payload: nil, Label: name + "/empty-payload"}
		default:
			return vkit.ShrexAction{Kind: vkit.ShrexPayloadClose, Payload: p[:r.Intn(max(len(p), 1))], Label: name + "/cut"}
		}
	case c06Extended:
		p := payload(req.ID, "")
		frames, ok := c06Frames(p)
		switch v := r.Intn(3); {
		case v == 0 && ok && len(frames) >= 1:
			return vkit.ShrexAction{Kind: vkit.ShrexPayloadClose, Payload: append(append([]byte{}, p...), frames[len(frames)-1]...), Label: name + "/dup-last-frame"}
		case v == 1:
			return vkit.ShrexAction{Kind: vkit.ShrexPayloadClose, Payload: append(append([]byte{}, p...), p...), Label: name + "/twice"}
		default:
			return vkit.ShrexAction{Kind: vkit.ShrexPayloadClose, Payload: append(append([]byte{}, p...), r.Bytes(r.Range(1, 600))...), Label: name + "/random-tail"}
		}
	case c06Garbled:
		p := payload(req.ID, "")
		out, op := p, "none"
		for i := 0; i < 8; i++ {
			out, op = vkit.MutateBytes(r, p)
			if !bytes.Equal(out, p) {
				break
			}
		}
		return vkit.ShrexAction{Kind: vkit.ShrexPayloadClose, Payload: out, Label: name + "/" + op}
	case c06NotFound:
		return vkit.ShrexAction{Kind: vkit.ShrexStatusOnly, Status: shrexpb.Status_NOT_FOUND, Label: name}
	case c06Internal:
		return vkit.ShrexAction{Kind: vkit.ShrexStatusOnly, Status: shrexpb.Status_INTERNAL, Label: name}
	case c06BadStatus:
		st := vkit.Pick(r, []shrexpb.Status{shrexpb.Status_INVALID, 4, 17, -1, 1 << 20})
		return vkit.ShrexAction{Kind: vkit.ShrexStatusOnly, Status: st, Label: fmt.Sprintf("%s/%d", name, int32(st))}
	case c06Reset:
		stage := r.Intn(vkit.ShrexResetStages)
		return vkit.ShrexAction{Kind: vkit.ShrexResetAt, ResetStage: stage, Payload: payload(req.ID, ""), Label: fmt.Sprintf("%s/stage%d", name, stage)}
	case c06StallHalf:
		p := payload(req.ID, "")
		return vkit.ShrexAction{Kind: vkit.ShrexStall, Payload: p[:len(p)/2], Release: cs.done, Label: name}
	case c06OddProof:
		p, how := c06OddProofPayload(r, cs.req.kind, payload(req.ID, "twin"))
		return vkit.ShrexAction{Kind: vkit.ShrexPayloadClose, Payload: p, Label: name + "/" + how}
	default:
		return vkit.ShrexAction{Kind: vkit.ShrexSilent, Release: cs.done, Label: name}
	}
}

// c06OddProofPayload rewrites the twin square's reply (well-formed containers with shares that are
// NOT the committed ones) so that its proofs are structurally odd rather than merely wrong: an empty
// proof range, no proof nodes, a proof axis outside {row, column} — negative included, the enum is a
// signed varint on the wire. Verification has separate rejection paths for these.
func c06OddProofPayload(r *vkit.RNG, kind c06Kind, twin []byte) ([]byte, string) {
	frames, ok := c06Frames(twin)
	if !ok || len(frames) == 0 {
		return twin, "as-twin"
	}
	variant := r.Intn(5)
	how := []string{"empty-range-no-nodes", "empty-range", "axis-negative", "axis-2", "axis-min-int32"}[variant]
	var out []byte
	reframe := func(b []byte) {
		out = binary.AppendUvarint(out, uint64(len(b)))
		out = append(out, b...)
	}
	for _, f := range frames {
		_, n := binary.Uvarint(f)
		body := f[n:]
		switch kind {
		case c06Samples:
			var m pb.Sample
			if m.Unmarshal(body) != nil || m.Proof == nil {
				return twin, "as-twin"
			}
			switch variant {
			case 0:
				m.Proof.End, m.Proof.Nodes = m.Proof.Start, nil
			case 1:
				m.Proof.End = m.Proof.Start
			case 2:
				m.ProofType = -1
			case 3:
				m.ProofType = 2
			default:
				m.ProofType = math.MinInt32
			}
			reframe(marshalPB(&m))
		case c06ND:
			var m pb.RowNamespaceData
			if m.Unmarshal(body) != nil || m.Proof == nil {
				return twin, "as-twin"
			}
			if variant%2 == 0 {
				m.Proof.End, m.Proof.Nodes = m.Proof.Start, nil
			} else {
				m.Proof.End = m.Proof.Start
			}
			how = []string{"empty-range-no-nodes", "empty-range"}[variant%2]
			reframe(marshalPB(&m))
		default:
			return twin, "as-twin"
		}
	}
	return out, how
}

// ---------------------------------------------------------------------------------------------
// the phase

func (c *c06) shrexCases() []*c06ShrexCase {
	maxLen := vkit.Scale(2, 3)
	var scripts [][]c06Beh
	var gen func(prefix []c06Beh)
	gen = func(prefix []c06Beh) {
		if len(prefix) > 0 {
			scripts = append(scripts, append([]c06Beh{}, prefix...))
		}
		if len(prefix) == maxLen {
			return
		}
		for b := c06Beh(0); b < c06Behs; b++ {
			gen(append(prefix, b))
		}
	}
	gen(nil)
	var cases []*c06ShrexCase
	idx := 0
	reps := vkit.Scale(1, 2) // thorough: two different requests per (sequence, honest?, context)
	for rep := 0; rep < reps; rep++ {
		for si, script := range scripts {
			for _, honest := range []bool{true, false} {
				for mi, mode := range []string{"nodl", "dl"} {
					cs := &c06ShrexCase{idx: idx, height: uint64(1000 + idx), script: script, honest: honest,
						done: make(chan struct{}), notify: make(chan struct{}, 1)}
					cs.rng = c.rng.SplitN("shrex-case", idx)
					// request type: rotate so that every (first behaviour, request type) and every
					// (request type, honest?, context mode) combination occurs
					kind := c06Kind((si + int(script[0]) + 2*mi + idx/4) % int(c06Kinds))
					if vkit.Thorough() {
						kind = c06Kind((si + idx/4 + 2*rep) % int(c06Kinds))
					}
					cs.req = c06GenReq(cs.rng.Split("req"), kind, vkit.Pick(cs.rng.Split("sq"), c.sqs), si+idx/4)
					cs.mode = mode
					if mode == "dl" {
						// honest present: alternate a long deadline (liveness judged) with a short one that
						// usually fires in the middle of the sequence; no honest peer: short only
						if honest && si%2 == 0 {
							cs.mode, cs.deadline = "dl-long", 20*time.Second
						} else {
							cs.mode, cs.deadline = "dl-short", time.Duration(cs.rng.Range(3, 250))*time.Millisecond
						}
					}
					allNF := true
					for _, b := range script {
						allNF = allNF && b == c06NotFound
					}
					if allNF && len(cs.req.coords) > 1 {
						// one request loop, so that it provably consumes every NOT_FOUND (a cooled peer is
						// handed out twice at most, and the loops of several coordinates share the peers)
						cs.req.coords = cs.req.coords[:1]
					}
					cs.keys = c06Keys(cs.req, cs.height)
					cases = append(cases, cs)
					idx++
				}
			}
		}
	}
	// full cross of (single bad behaviour, request type) followed by the honest peer, without deadline:
	// the rotation above covers every (first behaviour, request type) pair only across honest/non-honest and
	// context modes, and "one bad reply must not make the honest reply fail" is per request type (each has
	// its own response buffer handling)
	for b := c06Beh(0); b < c06Behs; b++ {
		for k := c06Kind(0); k < c06Kinds; k++ {
			cs := &c06ShrexCase{idx: idx, height: uint64(1000 + idx), script: []c06Beh{b}, honest: true, mode: "nodl",
				done: make(chan struct{}), notify: make(chan struct{}, 1)}
			cs.rng = c.rng.SplitN("shrex-case", idx)
			cs.req = c06GenReq(cs.rng.Split("req"), k, vkit.Pick(cs.rng.Split("sq"), c.sqs), idx)
			if b == c06NotFound && len(cs.req.coords) > 1 {
				cs.req.coords = cs.req.coords[:1]
			}
			cs.keys = c06Keys(cs.req, cs.height)
			cases = append(cases, cs)
			idx++
		}
	}
	return cases
}

func (c *c06) shrexPhase() {
	cases := c.shrexCases()
	if os.Getenv("VERIF_C06_BSCASES") != "" {
		return
	}
	net, cleanup, err := c.newNet(vkit.Scale(4, 8))
	if err != nil {
		c.run.Inconclusive("shrex network setup failed: " + err.Error())
		return
	}
	defer cleanup()
	if only := os.Getenv("VERIF_C06_CASES"); only != "" { // debugging aid: run selected shrex cases only
		keep := map[string]bool{}
		for _, x := range strings.Split(only, ",") {
			keep[x] = true
		}
		var sel []*c06ShrexCase
		for _, cs := range cases {
			if keep[fmt.Sprint(cs.idx)] {
				sel = append(sel, cs)
			}
		}
		cases = sel
	}
	// stalled cases sleep; run them wide
	sem := make(chan struct{}, vkit.Scale(64, 96))
	var wg sync.WaitGroup
	for _, cs := range cases {
		wg.Add(1)
		sem <- struct{}{}
		go func(cs *c06ShrexCase) {
			defer wg.Done()
			defer func() { <-sem }()
			c.runShrexCase(net, cs)
		}(cs)
	}
	wg.Wait()
	// the skips above are tolerated as long as they are exceptional
	if sk, ok := c.run.Get("shrex/liveness/skipped(honest peer cooled after a timed-out request)"), c.run.Get("shrex/liveness/honest-last-success"); sk*25 > ok {
		c.run.Inconclusive(fmt.Sprintf("too many liveness cases skipped because the honest peer's request timed out (%d vs %d successes): machine too loaded for the request timeouts", sk, ok))
	}
}

func (c *c06) newManager(ctx context.Context, h host.Host) (*peers.Manager, error) {
	gater, err := conngater.NewBasicConnectionGater(dssync.MutexWrap(datastore.NewMapDatastore()))
	if err != nil {
		return nil, err
	}
	// the node's defaults (blacklisting off); for the cool-down see c06Cooldown
	return peers.NewManager(peers.Parameters{
		PoolValidationTimeout: time.Hour, PeerCooldown: c06Cooldown, GcInterval: time.Hour, EnableBlackListing: false,
	}, h, gater, "c06")
}

// newShrexGetter builds a real shrex getter on the group's client host whose peer manager holds
// the case's peers in pool (= first round) order: the scripted ones, then the honest server.
func (c *c06) newShrexGetter(grp *c06Group, cs *c06ShrexCase, reqTimeout time.Duration) (*shrex_getter.Getter, func(), error) {
	full, err := c.newManager(grp.baseCtx, grp.client)
	if err != nil {
		return nil, nil, err
	}
	arch, err := c.newManager(grp.baseCtx, grp.client)
	if err != nil {
		return nil, nil, err
	}
	getter := shrex_getter.NewGetter(grp.shrex, full, arch, availability.RequestWindow)
	if err := getter.Start(grp.baseCtx); err != nil {
		return nil, nil, err
	}
	getter.VerifSetRequestTiming(reqTimeout, 3)
	// Each peer is made known both as a discovered node and as a shrexsub sender for the hash.
	// (Only Validate()d, a peer can be dropped for good by a race between concurrent first Peer()
	// calls for a hash - validatedPool publishes "validated" before it copies the peers into the node
	// pool - which belongs to the peer-selection property C17, reported there.)
	hash := cs.req.s.sq.Roots.Hash()
	pool := make([]peer.ID, 0, len(cs.script)+1)
	for j := range cs.script {
		pool = append(pool, grp.bad[j].ID())
	}
	if cs.honest {
		pool = append(pool, grp.honest.ID())
	}
	for _, id := range pool {
		full.UpdateNodePool(id, true)
	}
	for _, id := range pool {
		full.Validate(grp.baseCtx, id, shrexsub.Notification{DataHash: hash, Height: cs.height})
	}
	return getter, func() { _ = getter.Stop(context.Background()) }, nil
}

func (c *c06) runShrexCase(net *c06Net, cs *c06ShrexCase) {
	run := c.run
	q := cs.req
	grp := net.groups[cs.idx%len(net.groups)]
	net.cases.Store(cs.height, cs)
	defer net.cases.Delete(cs.height)
	defer close(cs.done)

	// per-peer request timeout: every mode in which liveness is judged gives a request >= 5s
	reqTimeout := max(cs.deadline/4, time.Millisecond)
	switch cs.mode {
	case "nodl":
		reqTimeout = 30 * time.Second
		if c06HasStall(cs.script) {
			reqTimeout = c06StallTimeout
		}
	case "dl-long":
		reqTimeout = 5 * time.Second
	}
	cs.reqTimeout = reqTimeout
	getter, stop, err := c.newShrexGetter(grp, cs, reqTimeout)
	if err != nil {
		run.Inconclusive("shrex getter: " + err.Error())
		return
	}
	defer stop()

	hdr := vkit.MinimalHeader(cs.height, q.s.sq.Roots, time.Now())
	base, cancel := context.WithCancel(context.Background())
	defer cancel()
	ctx := base
	if cs.deadline > 0 {
		var c2 context.CancelFunc
		ctx, c2 = context.WithTimeout(base, cs.deadline)
		defer c2()
	}
	t0 := time.Now()
	type outT struct {
		res      c06Result
		panicked bool
	}
	resCh := make(chan outT, 1)
	go func() {
		var o outT
		o.panicked = run.NoPanic(fmt.Sprintf("%s shrex %s:", c.propID(), c06KindNames[q.kind]), cs.desc(), func() {
			o.res = c06Call(ctx, getter, q, hdr)
		})
		resCh <- o
	}()
	wd := time.NewTimer(c06Watchdog)
	defer wd.Stop()
	tick := time.NewTicker(100 * time.Millisecond)
	defer tick.Stop()
	var out outT
	ended := "" // why the harness ended the context, if it did
	look := func() {
		if ended == "" {
			if why := cs.evaluate(); why != "" {
				ended = why
				cancel()
			}
		}
	}
	for got := false; !got; {
		select {
		case out = <-resCh:
			got = true
		case <-cs.notify:
			look()
		case <-tick.C:
			look()
		case <-wd.C:
			ended = "watchdog"
			c06DumpOnce("shrex watchdog")
			cancel()
			select {
			case out = <-resCh:
			case <-time.After(60 * time.Second):
				run.Inconclusive("shrex call did not return 60s after its context was cancelled: " + cs.poolDesc() + " " + q.String())
				return
			}
			got = true
		}
	}
	if out.panicked {
		return
	}
	res := out.res
	detail := func() map[string]any {
		d := cs.desc()
		d["history"] = cs.history(t0)
		d["harness_ended_context"] = ended
		return d
	}

	run.Eval(1)
	run.Count("shrex/cases", 1)
	run.Count("shrex/mode/"+cs.mode, 1)
	run.Distinct(fmt.Sprintf("shrex|%d|%s|%v|%s", q.kind, c06ScriptName(cs.script), cs.honest, cs.mode))
	if n := c.n.Add(1); n%97 == 1 {
		s := detail()
		s["outcome_error"] = fmt.Sprint(res.err)
		run.Sample(s)
	}

	// oracle 1
	c.judge("shrex", q, &res, detail)

	// oracle 3: nothing but NOT_FOUND
	allNF := !cs.honest && len(cs.keys) > 0
	for _, b := range cs.script {
		allNF = allNF && b == c06NotFound
	}
	if allNF {
		switch {
		case res.err == nil:
			c.violation("shrex", q, "every peer answers NOT_FOUND but the call succeeds", detail())
		case cs.mode == "nodl" && ended == "exhausted":
			// every loop has started an attempt after its NOT_FOUND answers: they were consumed
			run.Count("shrex/notfound-only/checked", 1)
			if !errors.Is(res.err, shwap.ErrNotFound) {
				d := detail()
				d["returned_error"] = res.err.Error()
				c.violation("shrex", q, "every peer answers NOT_FOUND but the error is not shwap.ErrNotFound", d)
			}
		}
	}

	// oracle 2
	if cs.honest {
		judged := cs.mode != "dl-short"
		switch {
		case res.err == nil && judged:
			run.Count("shrex/liveness/honest-last-success", 1)
			// the call recovered, but was a complete correct reply of the honest peer thrown away on the way?
			// (a new request for the same key right after a complete honest reply can only follow a rejection:
			// every judged mode gives a request at least 5s)
			if n, key := cs.rejectedHonestReplies(); n > 0 {
				d := detail()
				d["honest_replies_rejected"] = n
				d["request_key_index"] = key
				c.violation("shrex", q, "a correct reply of the honest peer is rejected after a bad reply of another peer (the call only succeeds on a later attempt)", d)
			}
		case res.err == nil:
			run.Count("shrex/liveness/short-deadline-success", 1)
		case ended == "rejected":
			d := detail()
			d["returned_error"] = res.err.Error()
			cs.mu.Lock()
			d["decided_by"] = cs.suspect
			cs.mu.Unlock()
			c.violation("shrex", q, "correct replies of the honest peer are rejected after bad replies of other peers; the call cannot succeed", d)
		case ended == "honest-out-of-rotation":
			run.Count("shrex/liveness/skipped(honest peer cooled after a timed-out request)", 1)
			s := detail()
			s["returned_error"] = res.err.Error()
			run.Sample(s)
		case ended == "watchdog":
			run.Inconclusive(fmt.Sprintf("shrex case %d: call with an honest peer still running at the watchdog: %s %s history=%v", cs.idx, cs.poolDesc(), q.String(), cs.history(t0)))
		case ctx.Err() != nil && cs.mode != "nodl":
			run.Count("shrex/liveness/deadline-ended-first/"+cs.mode, 1)
		default:
			run.Inconclusive(fmt.Sprintf("shrex call with an honest peer failed without the context having ended: %s %s: %v", cs.poolDesc(), q.String(), res.err))
		}
	} else {
		if res.err == nil {
			run.Count("shrex/success-without-honest-peer(benign-fault)", 1)
		}
		if ended == "watchdog" {
			run.Inconclusive(fmt.Sprintf("shrex case %d: call still running at the watchdog: %s %s history=%v", cs.idx, cs.poolDesc(), q.String(), cs.history(t0)))
		}
	}
}

var c06DumpedOnce sync.Once

// c06DumpOnce writes one goroutine dump to the run directory when a watchdog fires (diagnostics
// for inconclusive runs).
func c06DumpOnce(why string) {
	c06DumpedOnce.Do(func() {
		buf := make([]byte, 64<<20)
		buf = buf[:runtime.Stack(buf, true)]
		dir := os.Getenv("VERIF_RUN_DIR")
		if dir == "" {
			dir = os.TempDir()
		}
		_ = os.WriteFile(filepath.Join(dir, "c06-goroutines.txt"), append([]byte(why+"\n"), buf...), 0o644)
	})
}
