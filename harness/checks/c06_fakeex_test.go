package checks

import (
	"bytes"
	"context"
	"fmt"
	"sync"
	"sync/atomic"
	"time"

	"github.com/ipfs/boxo/blockstore"
	"github.com/ipfs/boxo/exchange"
	blocks "github.com/ipfs/go-block-format"
	"github.com/ipfs/go-cid"
	"github.com/ipfs/go-datastore"
	dssync "github.com/ipfs/go-datastore/sync"

	"github.com/celestiaorg/celestia-node/share"
	"github.com/celestiaorg/celestia-node/share/availability"
	"github.com/celestiaorg/celestia-node/share/shwap/p2p/bitswap"
	"github.com/celestiaorg/celestia-node/store"
	"github.com/celestiaorg/celestia-node/zz_verif/vkit"
)

// Deterministic bitswap part of C06 (DESIGN §3.3): the real bitswap getter over a fake
// exchange.SessionExchange that feeds it, per wanted CID, a scripted sequence of blocks "from
// different peers" — hostile ones first, the honest one last or never — after running each through
// exactly the check boxo applies to an incoming block (`cid.Prefix().Sum(data)` must reproduce
// the CID; that is where the package's verifying hasher runs). With real boxo sessions the order
// "hostile block first, honest block later" for one CID is rare and cannot be forced; here it is the
// script, so the liveness clause is decided without any clock: hostile blocks then the honest
// block for every wanted CID ⇒ the call succeeds with the committed data.

type c06FakeEx struct {
	// feed returns the blocks arriving for a CID, in order
	feed func(ctx context.Context, c cid.Cid) [][]byte
	// exhausted is closed when every CID's feed has been played (and not every want was satisfied)
	exhausted     chan struct{}
	exhaustedOnce sync.Once
	accepted      atomic.Int64
	rejected      atomic.Int64
}

var _ exchange.SessionExchange = (*c06FakeEx)(nil)

func (f *c06FakeEx) NewSession(context.Context) exchange.Fetcher { return f }
func (f *c06FakeEx) Close() error                                { return nil }
func (f *c06FakeEx) NotifyNewBlocks(context.Context, ...blocks.Block) error {
	return nil
}

func (f *c06FakeEx) GetBlock(ctx context.Context, c cid.Cid) (blocks.Block, error) {
	ch, err := f.GetBlocks(ctx, []cid.Cid{c})
	if err != nil {
		return nil, err
	}
	b, ok := <-ch
	if !ok {
		return nil, ctx.Err()
	}
	return b, nil
}

// GetBlocks behaves like a bitswap session: blocks that pass the CID check are delivered, others
// are dropped silently; the channel is closed when every want was satisfied or the context ended.
func (f *c06FakeEx) GetBlocks(ctx context.Context, cids []cid.Cid) (<-chan blocks.Block, error) {
	out := make(chan blocks.Block)
	go func() {
		defer close(out)
		var wg sync.WaitGroup
		var satisfied atomic.Int64
		for _, c := range cids {
			wg.Add(1)
			go func(c cid.Cid) { // boxo verifies incoming messages concurrently
				defer wg.Done()
				for _, blob := range f.feed(ctx, c) {
					got, err := c.Prefix().Sum(blob)
					if err != nil || !got.Equals(c) {
						f.rejected.Add(1)
						continue
					}
					f.accepted.Add(1)
					blk, err := blocks.NewBlockWithCid(blob, c)
					if err != nil {
						continue
					}
					select {
					case out <- blk:
						satisfied.Add(1)
					case <-ctx.Done():
					}
					return
				}
			}(c)
		}
		wg.Wait()
		if int(satisfied.Load()) < len(cids) {
			f.exhaustedOnce.Do(func() { close(f.exhausted) })
			<-ctx.Done()
		}
	}()
	return out, nil
}

func (c *c06) fakeExchangePhase() {
	ctx, cancel := context.WithCancel(context.Background())
	defer cancel()
	st, err := store.NewStore(store.DefaultParameters(), c.t.TempDir())
	if err != nil {
		c.run.Inconclusive("fake-exchange store setup failed: " + err.Error())
		return
	}
	defer st.Stop(context.Background()) //nolint:errcheck
	for _, s := range c.sqs {
		if err := st.PutODSQ4(ctx, s.sq.Roots, s.storeHeight, s.sq.EDS); err != nil {
			c.run.Inconclusive("fake-exchange store setup failed: " + err.Error())
			return
		}
	}
	maxLen := vkit.Scale(2, 3)
	var seqs [][]string
	var gen func(prefix []string)
	gen = func(prefix []string) {
		if len(prefix) > 0 {
			seqs = append(seqs, append([]string{}, prefix...))
		}
		if len(prefix) == maxLen {
			return
		}
		for _, b := range c06BsBads {
			gen(append(prefix, b))
		}
	}
	gen(nil)
	var cases []*c06BsCase
	idx := 0
	for rep := 0; rep < vkit.Scale(1, 3); rep++ {
		for _, seq := range seqs {
			for _, honest := range []bool{true, false} {
				for kind := c06Kind(0); kind < c06Kinds; kind++ {
					cs := &c06BsCase{idx: idx, height: uint64(1500000 + idx), bad: seq, honest: honest, wiring: "light"}
					cs.rng = c.rng.SplitN("fakeex-case", idx)
					cs.req = c06GenReq(cs.rng.Split("req"), kind, vkit.Pick(cs.rng.Split("sq"), c.sqs), idx+rep)
					cases = append(cases, cs)
					idx++
				}
			}
		}
	}
	// headers that do not commit to one square (an incorrectly encoded block): only honest servers, every
	// request type; a whole square handed back for such a header is unverified data
	for rep := 0; rep < vkit.Scale(2, 8); rep++ {
		for _, tamper := range []string{"col-swap", "low-row", "col-one"} {
			for kind := c06Kind(0); kind < c06Kinds; kind++ {
				cs := &c06BsCase{idx: idx, height: uint64(1500000 + idx), honest: true, wiring: "light", hdrTamper: tamper}
				cs.rng = c.rng.SplitN("fakeex-case", idx)
				cs.req = c06GenReq(cs.rng.Split("req"), kind, vkit.Pick(cs.rng.Split("sq"), c.sqs), idx+rep)
				cases = append(cases, cs)
				idx++
			}
		}
	}
	sem := make(chan struct{}, 16)
	var wg sync.WaitGroup
	for _, cs := range cases {
		wg.Add(1)
		sem <- struct{}{}
		go func(cs *c06BsCase) {
			defer wg.Done()
			defer func() { <-sem }()
			c.runFakeExchangeCase(ctx, st, cs)
		}(cs)
	}
	wg.Wait()
}

func (c *c06) runFakeExchangeCase(ctx context.Context, st *store.Store, cs *c06BsCase) {
	run := c.run
	q := cs.req
	const name = "bitswap(scripted exchange)"
	honest := &bitswap.Blockstore{Getter: c06FixedGetter{st: st, height: q.s.storeHeight}}
	var bads []*vkit.ByzBlockstore
	served := new(atomic.Int64)
	for j, beh := range cs.bad {
		bads = append(bads, c06BadStore(cs, j, beh, honest, served))
	}
	ex := &c06FakeEx{exhausted: make(chan struct{})}
	ex.feed = func(ctx context.Context, cd cid.Cid) (out [][]byte) {
		for _, b := range bads {
			if blob, err := b.Serve(ctx, cd); err == nil && blob != nil {
				out = append(out, blob)
			}
		}
		if cs.honest {
			if b, err := honest.Get(ctx, cd); err == nil {
				out = append(out, b.RawData())
			}
		}
		return out
	}
	bsm, err := bitswap.NewBlockstoreWithMetrics(blockstore.NewBlockstore(dssync.MutexWrap(datastore.NewMapDatastore())))
	if err != nil {
		run.Inconclusive("fake-exchange blockstore: " + err.Error())
		return
	}
	g := bitswap.NewGetter(ex, bsm, availability.RequestWindow)
	g.Start()
	defer g.Stop()

	callCtx, cancel := context.WithCancel(ctx)
	defer cancel()
	go func() { // end the caller's context once everything scripted has arrived and wants remain
		select {
		case <-ex.exhausted:
			cancel()
		case <-callCtx.Done():
		}
	}()
	roots := q.s.sq.Roots
	if cs.hdrTamper != "" {
		cp := share.AxisRoots{RowRoots: append([][]byte(nil), roots.RowRoots...), ColumnRoots: append([][]byte(nil), roots.ColumnRoots...)}
		n := len(cp.RowRoots)
		i, j := cs.rng.Intn(n), cs.rng.Intn(n)
		if i == j {
			j = (i + 1) % n
		}
		switch cs.hdrTamper {
		case "col-swap":
			if bytes.Equal(cp.ColumnRoots[i], cp.ColumnRoots[j]) {
				return
			}
			cp.ColumnRoots[i], cp.ColumnRoots[j] = cp.ColumnRoots[j], cp.ColumnRoots[i]
		case "low-row":
			lo := n/2 + i%(n/2)
			cp.RowRoots[lo] = append([]byte(nil), roots.ColumnRoots[(lo+1)%n]...)
		default:
			cp.ColumnRoots[i] = append([]byte(nil), roots.RowRoots[j]...)
		}
		roots = &cp
	}
	hdr := vkit.MinimalHeader(cs.height, roots, time.Now())
	var res c06Result
	if run.NoPanic(fmt.Sprintf("C06 %s %s:", name, c06KindNames[q.kind]), cs.desc(), func() {
		res = c06Call(callCtx, g, q, hdr)
	}) {
		return
	}
	if cs.hdrTamper != "" {
		run.Eval(1)
		run.Count("fakeex/inconsistent-header/"+c06KindNames[q.kind], 1)
		run.Distinct(fmt.Sprintf("fakeex|tamper|%d|%s", q.kind, cs.hdrTamper))
		if q.kind == c06EDS {
			if res.err == nil {
				d := cs.desc()
				d["header"] = "inconsistent data availability header: " + cs.hdrTamper
				c.violation(name, q, "returns a whole square as a success for a header that does not commit to it (inconsistent data availability header)", d)
			} else {
				run.Count("fakeex/inconsistent-header/square-refused", 1)
			}
		}
		return
	}
	run.Eval(1)
	run.Count("fakeex/cases", 1)
	run.Count("fakeex/blocks-rejected-by-cid-check", int(ex.rejected.Load()))
	run.Count("fakeex/blocks-accepted-by-cid-check", int(ex.accepted.Load()))
	run.Distinct(fmt.Sprintf("fakeex|%d|%s", q.kind, cs.servers()))
	detail := func() map[string]any {
		d := cs.desc()
		d["arrival_order_per_cid"] = cs.servers()
		d["blocks_rejected_by_cid_check"] = ex.rejected.Load()
		d["blocks_accepted_by_cid_check"] = ex.accepted.Load()
		return d
	}
	c.judge(name, q, &res, detail)
	wants := len(c06WantedCIDs(q, cs.height))
	switch {
	case cs.honest && res.err == nil:
		run.Count("fakeex/honest-last-success", 1)
		if len(cs.bad) > 0 && ex.rejected.Load() > 0 {
			run.Count("fakeex/success-after-rejected-hostile-blocks", 1)
		}
	case cs.honest:
		// no clock involved: the honest block of every wanted CID did arrive
		d := detail()
		d["returned_error"] = res.err.Error()
		c.violation(name, q, "fails although the honest block arrived for every wanted CID after the hostile ones", d)
	case res.err == nil && wants > 0:
		run.Count("fakeex/success-without-honest-block(benign-fault)", 1)
	}
}
