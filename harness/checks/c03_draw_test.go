package checks

import (
	"context"
	"encoding/json"
	"fmt"
	"os"
	"os/exec"
	"sort"
	"strings"
	"sync"
	"testing"
	"time"

	"github.com/ipfs/go-datastore"
	dssync "github.com/ipfs/go-datastore/sync"

	libshare "github.com/celestiaorg/go-square/v4/share"
	"github.com/celestiaorg/rsmt2d"

	"github.com/celestiaorg/celestia-node/header"
	"github.com/celestiaorg/celestia-node/share"
	"github.com/celestiaorg/celestia-node/share/availability/light"
	"github.com/celestiaorg/celestia-node/share/shwap"
	"github.com/celestiaorg/celestia-node/zz_verif/vkit"
)

// c03DrawGetter serves nothing (positional all-empty result) and records what was requested.
type c03DrawGetter struct {
	mu   sync.Mutex
	reqs map[uint64][][]c03Coord
}

func (g *c03DrawGetter) GetSamples(_ context.Context, hdr *header.ExtendedHeader, idxs []shwap.SampleCoords) ([]shwap.Sample, error) {
	g.mu.Lock()
	g.reqs[hdr.Height()] = append(g.reqs[hdr.Height()], append([]c03Coord(nil), idxs...))
	g.mu.Unlock()
	return make([]shwap.Sample, len(idxs)), nil
}

func (g *c03DrawGetter) GetEDS(context.Context, *header.ExtendedHeader) (*rsmt2d.ExtendedDataSquare, error) {
	return nil, shwap.ErrOperationNotSupported
}

func (g *c03DrawGetter) GetRow(context.Context, *header.ExtendedHeader, int) (shwap.Row, error) {
	return shwap.Row{}, shwap.ErrOperationNotSupported
}

func (g *c03DrawGetter) GetNamespaceData(context.Context, *header.ExtendedHeader, libshare.Namespace) (shwap.NamespaceData, error) {
	return nil, shwap.ErrOperationNotSupported
}

func (g *c03DrawGetter) GetRangeNamespaceData(context.Context, *header.ExtendedHeader, int, int) (shwap.RangeNamespaceData, error) {
	return shwap.RangeNamespaceData{}, shwap.ErrOperationNotSupported
}

// drawStats: over N fresh roots on a 4×4 EDS with n=4: every cell is drawn at least once, every
// quadrant holds 15–35 % of the draws, no repetition inside a draw; first draws of two processes differ.
func (c *c03) drawStats(rng *vkit.RNG) {
	run := c.run
	const N = 4000
	const edsW = 4
	// two child processes (started first, they run beside everything else) + this process: first
	// draws over the same 32×32 EDS with n=16
	childDraws := make([]string, 2)
	var cwg sync.WaitGroup
	for i := range childDraws {
		cwg.Add(1)
		go func(i int) {
			defer cwg.Done()
			cmd := exec.Command(os.Args[0], "-test.run", "^TestC03$", "-test.timeout", "0")
			cmd.Env = append(os.Environ(), "C03_CHILD=draw", "VERIF_STATUS_FILE=")
			out, err := cmd.CombinedOutput()
			for _, l := range strings.Split(string(out), "\n") {
				if strings.HasPrefix(l, "C03DRAW ") {
					childDraws[i] = strings.TrimPrefix(l, "C03DRAW ")
				}
			}
			if childDraws[i] == "" {
				run.Inconclusive(fmt.Sprintf("draw child process gave no draw: %v %s", err, c03Tail(string(out), 300)))
			}
		}(i)
	}
	g := &c03DrawGetter{reqs: map[uint64][][]c03Coord{}}
	sa := light.NewShareAvailability(g, dssync.MutexWrap(datastore.NewMapDatastore()), nil, light.WithSampleAmount(4))
	now := time.Now()
	hdrs := make([]*header.ExtendedHeader, N)
	var wg sync.WaitGroup
	sem := make(chan struct{}, 16)
	for i := 0; i < N; i++ {
		wg.Add(1)
		sem <- struct{}{}
		go func(i int) {
			defer wg.Done()
			defer func() { <-sem }()
			// the getter serves nothing, so the roots need not commit to a real square: 4+4 distinct
			// pseudo-random axis roots give a fresh data root (and storage key) per header
			rr := rng.SplitN("roots", i)
			roots := &share.AxisRoots{}
			for k := 0; k < edsW; k++ {
				roots.RowRoots = append(roots.RowRoots, rr.Bytes(90))
				roots.ColumnRoots = append(roots.ColumnRoots, rr.Bytes(90))
			}
			hdrs[i] = vkit.MinimalHeader(uint64(1000+i), roots, now.Add(-time.Hour))
			_ = sa.SharesAvailable(context.Background(), hdrs[i])
		}(i)
	}
	wg.Wait()
	if os.Getenv("C03_DEBUG") != "" {
		fmt.Printf("draw: %d roots sampled after %v\n", N, time.Since(now))
	}
	cells := map[c03Coord]int{}
	quad := [4]int{}
	total, roots := 0, map[string]bool{}
	for i := 0; i < N; i++ {
		roots[string(hdrs[i].DAH.Hash())] = true
		reqs := g.reqs[uint64(1000+i)]
		if len(reqs) != 1 {
			run.Inconclusive(fmt.Sprintf("draw statistics: %d getter calls for a fresh root (expected 1)", len(reqs)))
			continue
		}
		run.Count("draw/roots", 1)
		run.Eval(1)
		d := reqs[0]
		set := c03SetOf(d)
		bad := len(set) != len(d) || len(d) != 4
		for _, x := range d {
			if x.Row < 0 || x.Col < 0 || x.Row >= edsW || x.Col >= edsW {
				bad = true
				continue
			}
			cells[x]++
			q := 0
			if x.Row >= edsW/2 {
				q += 2
			}
			if x.Col >= edsW/2 {
				q++
			}
			quad[q]++
			total++
		}
		if bad {
			run.Violation("C03 draw is not min(n, area) distinct in-range coordinates", map[string]any{"draw": fmt.Sprint(d), "eds_width": edsW, "n": 4})
		}
	}
	run.Count("draw/distinct_roots", len(roots))
	run.Count("draw/cells_seen", len(cells))
	if total == 0 {
		return
	}
	minCell, maxCell := total, 0
	for r := 0; r < edsW; r++ {
		for cc := 0; cc < edsW; cc++ {
			n := cells[c03Coord{Row: r, Col: cc}]
			minCell, maxCell = min(minCell, n), max(maxCell, n)
			if n == 0 && len(roots) >= N*9/10 {
				run.Violation("C03 draw statistics: a cell of the extended square is never drawn", map[string]any{"cell": fmt.Sprintf("%d:%d", r, cc), "draws": total, "roots": len(roots)})
			}
		}
	}
	pct := [4]float64{}
	for q := range quad {
		pct[q] = 100 * float64(quad[q]) / float64(total)
		if (pct[q] < 15 || pct[q] > 35) && len(roots) >= N*9/10 {
			run.Violation("C03 draw statistics: a quadrant holds less than 15% or more than 35% of the draws",
				map[string]any{"quadrant": q, "percent": pct[q], "quadrant_counts": quad, "draws": total})
		}
	}
	run.Extra("draw_statistics", map[string]any{"roots": len(roots), "coordinates_drawn": total, "quadrant_percent": pct, "min_per_cell": minCell, "max_per_cell": maxCell})

	draws := []string{c03BigDraw()}
	cwg.Wait()
	for _, d := range childDraws {
		if d != "" {
			run.Count("draw/child_processes", 1)
			draws = append(draws, d)
		}
	}
	run.Eval(1)
	for i := range draws {
		for j := i + 1; j < len(draws); j++ {
			if draws[i] == draws[j] {
				run.Violation("C03 first draws of two processes over the same block are identical", map[string]any{"draw": draws[i], "processes": []int{i, j}})
			}
		}
	}
	run.Extra("cross_process_first_draws", draws)
	run.Require("draw/child_processes", 2)
}

// drawWide: the draw over every valid extended-square width up to the protocol maximum (ODS 512 →
// EDS 1024). The getter serves nothing, so the roots need not commit to a real square and wide
// "blocks" are cheap. Per width: every draw is min(n, area) distinct in-range coordinates, and over
// all draws each of 8 row bands and each of 8 column bands holds 6–20 % (expected 12.5 %; the bound is
// > 10 standard deviations away with ≥ 4000 coordinates), so a draw confined to a corner, band or
// prefix of a wide square is seen.
func (c *c03) drawWide(rng *vkit.RNG) {
	run := c.run
	now := time.Now()
	for wi, edsW := range []int{64, 128, 256, 512, 1024} {
		const n = 16
		N := 320
		g := &c03DrawGetter{reqs: map[uint64][][]c03Coord{}}
		sa := light.NewShareAvailability(g, dssync.MutexWrap(datastore.NewMapDatastore()), nil, light.WithSampleAmount(n))
		base := uint64(100000 * (wi + 1))
		var wg sync.WaitGroup
		sem := make(chan struct{}, 16)
		for i := 0; i < N; i++ {
			wg.Add(1)
			sem <- struct{}{}
			go func(i int) {
				defer wg.Done()
				defer func() { <-sem }()
				rr := rng.SplitN(fmt.Sprintf("wide%d", edsW), i)
				roots := &share.AxisRoots{}
				for k := 0; k < edsW; k++ {
					roots.RowRoots = append(roots.RowRoots, rr.Bytes(90))
					roots.ColumnRoots = append(roots.ColumnRoots, rr.Bytes(90))
				}
				_ = sa.SharesAvailable(context.Background(), vkit.MinimalHeader(base+uint64(i), roots, now.Add(-time.Hour)))
			}(i)
		}
		wg.Wait()
		rowBand, colBand := [8]int{}, [8]int{}
		total := 0
		for i := 0; i < N; i++ {
			reqs := g.reqs[base+uint64(i)]
			if len(reqs) != 1 {
				run.Inconclusive(fmt.Sprintf("wide draw: %d getter calls for a fresh root (expected 1)", len(reqs)))
				continue
			}
			run.Eval(1)
			d := reqs[0]
			bad := len(c03SetOf(d)) != len(d) || len(d) != n
			for _, x := range d {
				if x.Row < 0 || x.Col < 0 || x.Row >= edsW || x.Col >= edsW {
					bad = true
					continue
				}
				rowBand[x.Row*8/edsW]++
				colBand[x.Col*8/edsW]++
				total++
			}
			if bad {
				run.Violation("C03 draw is not min(n, area) distinct in-range coordinates", map[string]any{"draw": fmt.Sprint(d), "eds_width": edsW, "n": n})
			}
		}
		run.Count(fmt.Sprintf("draw/wide/eds%d_coordinates", edsW), total)
		if total < N*n*9/10 {
			continue
		}
		for b := 0; b < 8; b++ {
			for axis, cnt := range map[string]int{"row": rowBand[b], "col": colBand[b]} {
				pct := 100 * float64(cnt) / float64(total)
				if pct < 6 || pct > 20 {
					run.Violation("C03 draw statistics: a band of a wide extended square holds less than 6% or more than 20% of the draws",
						map[string]any{"eds_width": edsW, "axis": axis, "band": b, "percent": pct, "row_bands": rowBand, "col_bands": colBand, "draws": total})
				}
			}
		}
		run.Require(fmt.Sprintf("draw/wide/eds%d_coordinates", edsW), N*n*9/10)
	}
}

// c03BigDraw: first draw of a fresh instance over a fixed (seed-determined) 32×32 EDS, n = 16.
func c03BigDraw() string {
	sq := vkit.GenSquare(vkit.NewRNG(vkit.Seed(), "C03child"), 16, "runs", 0)
	g := &c03DrawGetter{reqs: map[uint64][][]c03Coord{}}
	sa := light.NewShareAvailability(g, dssync.MutexWrap(datastore.NewMapDatastore()), nil, light.WithSampleAmount(16))
	hdr := vkit.MinimalHeader(7, sq.Roots, time.Now().Add(-time.Hour))
	_ = sa.SharesAvailable(context.Background(), hdr)
	var d []c03Coord
	if len(g.reqs[7]) > 0 {
		d = g.reqs[7][0]
	}
	sort.Slice(d, func(i, j int) bool {
		if d[i].Row != d[j].Row {
			return d[i].Row < d[j].Row
		}
		return d[i].Col < d[j].Col
	})
	b, _ := json.Marshal(d)
	return string(b)
}

func c03child(t *testing.T) {
	fmt.Printf("\nC03DRAW %s\n", c03BigDraw())
}

func c03Tail(s string, n int) string {
	if len(s) > n {
		return s[len(s)-n:]
	}
	return s
}
