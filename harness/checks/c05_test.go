package checks

import (
	"bytes"
	"context"
	"fmt"
	"os"
	"path/filepath"
	"sync"
	"testing"
	"time"

	libshare "github.com/celestiaorg/go-square/v4/share"

	"github.com/celestiaorg/celestia-node/share/eds"
	"github.com/celestiaorg/celestia-node/share/shwap"
	"github.com/celestiaorg/celestia-node/store"
	"github.com/celestiaorg/celestia-node/store/file"
	"github.com/celestiaorg/celestia-node/zz_verif/vkit"
)

// C05 — every way of reading a stored block returns exactly the block that was stored.
//
// Oracle: differential — every accessor method of every representation is compared byte for byte
// with the reference square and verified against its roots (vkit.Battery); out-of-bounds arguments
// on what the store hands out must be refused.

type c05rep struct {
	name string
	// open returns an accessor for the square; bounds says whether this representation promises
	// argument validation (the store's composition does, bare accessors do not).
	open   func(dir string, sq *vkit.Square, height uint64) (eds.Accessor, func(), error)
	bounds bool
	// skipEmpty: representation not applicable to the empty block
	skipEmpty bool
}

func c05files(dir string, sq *vkit.Square, withQ4 bool) (string, string, error) {
	pODS := filepath.Join(dir, "x.ods")
	pQ4 := filepath.Join(dir, "x.q4")
	_ = os.Remove(pODS)
	_ = os.Remove(pQ4)
	if withQ4 {
		return pODS, pQ4, file.CreateODSQ4(pODS, pQ4, sq.Roots, sq.EDS)
	}
	return pODS, pQ4, file.CreateODS(pODS, sq.Roots, sq.EDS)
}

func c05reps() []c05rep {
	closer := func(c interface{ Close() error }) func() { return func() { _ = c.Close() } }
	odsq4 := func(dir string, sq *vkit.Square, withQ4, dropQ4 bool) (*file.ODSQ4, error) {
		pODS, pQ4, err := c05files(dir, sq, withQ4)
		if err != nil {
			return nil, err
		}
		if dropQ4 {
			if err := os.Remove(pQ4); err != nil {
				return nil, err
			}
		}
		ods, err := file.OpenODS(pODS)
		if err != nil {
			return nil, err
		}
		return file.ODSWithQ4(ods, pQ4), nil
	}
	storeRep := func(name string, recent int, putQ4 bool, after func(ctx context.Context, s *store.Store, sq *vkit.Square, h uint64, dir string) (*store.Store, error), cached bool, second bool) c05rep {
		return c05rep{name: name, bounds: true, open: func(dir string, sq *vkit.Square, h uint64) (eds.Accessor, func(), error) {
			ctx := context.Background()
			sdir := filepath.Join(dir, "store")
			_ = os.RemoveAll(sdir)
			if err := os.MkdirAll(sdir, 0o755); err != nil {
				return nil, nil, err
			}
			s, err := store.NewStore(&store.Parameters{RecentBlocksCacheSize: recent}, sdir)
			if err != nil {
				return nil, nil, err
			}
			if putQ4 {
				err = s.PutODSQ4(ctx, sq.Roots, h, sq.EDS)
			} else {
				err = s.PutODS(ctx, sq.Roots, h, sq.EDS)
			}
			if err != nil {
				return nil, nil, fmt.Errorf("put: %w", err)
			}
			if after != nil {
				if s, err = after(ctx, s, sq, h, sdir); err != nil {
					return nil, nil, err
				}
			}
			var acc eds.AccessorStreamer
			if cached {
				cs, err := s.WithCache("serving", 4)
				if err != nil {
					return nil, nil, err
				}
				acc, err = cs.GetByHeight(ctx, h)
				if err != nil {
					return nil, nil, fmt.Errorf("cached get: %w", err)
				}
				if second {
					_ = acc.Close()
					acc, err = cs.GetByHeight(ctx, h)
					if err != nil {
						return nil, nil, fmt.Errorf("cached get 2: %w", err)
					}
				}
			} else {
				acc, err = s.GetByHeight(ctx, h)
				if err != nil {
					return nil, nil, fmt.Errorf("get: %w", err)
				}
			}
			return acc, func() { _ = acc.Close(); _ = s.Stop(ctx) }, nil
		}}
	}
	reopen := func(ctx context.Context, s *store.Store, sq *vkit.Square, h uint64, dir string) (*store.Store, error) {
		_ = s.Stop(ctx)
		return store.NewStore(&store.Parameters{RecentBlocksCacheSize: 2}, dir)
	}
	removeQ4 := func(ctx context.Context, s *store.Store, sq *vkit.Square, h uint64, dir string) (*store.Store, error) {
		return s, s.RemoveQ4(ctx, h, sq.Roots.Hash())
	}
	removeQ4Reopen := func(ctx context.Context, s *store.Store, sq *vkit.Square, h uint64, dir string) (*store.Store, error) {
		if err := s.RemoveQ4(ctx, h, sq.Roots.Hash()); err != nil {
			return nil, err
		}
		return reopen(ctx, s, sq, h, dir)
	}
	return []c05rep{
		{name: "rsmt2d", open: func(_ string, sq *vkit.Square, _ uint64) (eds.Accessor, func(), error) {
			return &eds.Rsmt2D{ExtendedDataSquare: sq.EDS}, func() {}, nil
		}},
		{name: "rsmt2d+proofscache", open: func(_ string, sq *vkit.Square, _ uint64) (eds.Accessor, func(), error) {
			return eds.WithProofsCache(&eds.Rsmt2D{ExtendedDataSquare: sq.EDS}), func() {}, nil
		}},
		{name: "rsmt2d+validation", bounds: true, open: func(_ string, sq *vkit.Square, _ uint64) (eds.Accessor, func(), error) {
			return eds.WithValidation(&eds.Rsmt2D{ExtendedDataSquare: sq.EDS}), func() {}, nil
		}},
		{name: "ods-file", open: func(dir string, sq *vkit.Square, _ uint64) (eds.Accessor, func(), error) {
			p, _, err := c05files(dir, sq, false)
			if err != nil {
				return nil, nil, err
			}
			o, err := file.OpenODS(p)
			if err != nil {
				return nil, nil, err
			}
			return o, closer(o), nil
		}},
		{name: "odsq4-file", open: func(dir string, sq *vkit.Square, _ uint64) (eds.Accessor, func(), error) {
			o, err := odsq4(dir, sq, true, false)
			if err != nil {
				return nil, nil, err
			}
			return o, closer(o), nil
		}},
		{name: "odsq4-file-q4-deleted", open: func(dir string, sq *vkit.Square, _ uint64) (eds.Accessor, func(), error) {
			o, err := odsq4(dir, sq, true, true)
			if err != nil {
				return nil, nil, err
			}
			return o, closer(o), nil
		}},
		{name: "odsq4-file+proofscache", open: func(dir string, sq *vkit.Square, _ uint64) (eds.Accessor, func(), error) {
			o, err := odsq4(dir, sq, true, false)
			if err != nil {
				return nil, nil, err
			}
			a := eds.WithProofsCache(o)
			return a, closer(a), nil
		}},
		{name: "ods-only-file+proofscache+closedonce+validation", bounds: true, open: func(dir string, sq *vkit.Square, _ uint64) (eds.Accessor, func(), error) {
			o, err := odsq4(dir, sq, false, false)
			if err != nil {
				return nil, nil, err
			}
			co := eds.WithClosedOnce(eds.WithProofsCache(o))
			return eds.AccessorAndStreamer(eds.WithValidation(co), co), closer(co), nil
		}},
		storeRep("store/recent-cache", 4, true, nil, false, false),
		storeRep("store/no-cache", 0, true, nil, false, false),
		storeRep("store/ods-only", 0, false, nil, false, false),
		storeRep("store/reopened", 4, true, reopen, false, false),
		storeRep("store/q4-removed", 0, true, removeQ4, false, false),
		storeRep("store/q4-removed-reopened", 0, true, removeQ4Reopen, false, false),
		storeRep("cachedstore/first", 0, true, nil, true, false),
		storeRep("cachedstore/second", 0, true, nil, true, true),
		storeRep("cachedstore/recent-hit", 4, true, nil, true, false),
	}
}

var c05bigReps = map[string]bool{"ods-file": true, "odsq4-file": true, "odsq4-file-q4-deleted": true, "store/reopened": true, "cachedstore/first": true}

func TestC05(t *testing.T) {
	run := vkit.NewRun(t, "C05", "exploration",
		"cases = generated square (width × layout × every tail-padding amount for small widths, + empty block) × representation "+
			"(in-memory, ODS file, ODS+Q4, Q4 deleted, wrappers, store recent cache / reopened / Q4 removed / serving cache, store.Getter) × "+
			"every accessor method with arguments exhaustive for ODS width ≤ 4 (sampled above) incl. out-of-bounds; distinct = (square, representation); "+
			"each case = one full read-equality battery against the reference square; + concurrent part: rounds of 6 readers with pinned first operations "+
			"over freshly opened file-backed representations (results compared with the reference; a round that never ends is decided by the stable-state oracle)")
	defer run.Finish()
	seed := vkit.Seed()
	rng := vkit.NewRNG(seed, "C05")
	base := t.TempDir()

	type sqcase struct {
		w      int
		layout string
		tail   int
		ex     bool
	}
	var cases []sqcase
	for _, w := range []int{1, 2, 4} {
		for _, l := range []string{"runs", "rowfill", "padded", "reserved"} {
			for p := 0; p < w*w; p++ {
				if w == 4 && l != "runs" && !vkit.Thorough() && p%3 != 0 && p != w*w-1 {
					continue
				}
				cases = append(cases, sqcase{w, l, p, true})
			}
		}
	}
	big := []int{8, 16}
	// the protocol maximum (ODS width 128) is where 16-bit size arithmetic in the file format would
	// overflow: one such square (and one of width 64) is always included, read through the file-backed
	// representations only to bound the cost
	cases = append(cases, sqcase{64, "runs", 64 + 3, false}, sqcase{128, "padded", 128*3 + 1, false})
	if vkit.Thorough() {
		big = []int{8, 16, 32, 64, 128}
		for p := 0; p < 64; p++ { // every tail padding for width 8
			cases = append(cases, sqcase{8, vkit.Pick(rng, vkit.Layouts), p, false})
		}
	}
	for _, w := range big {
		n := 3
		if w >= 64 {
			n = 1
		}
		for i := 0; i < n; i++ {
			// tail paddings around row boundaries are the interesting ones for the file format
			tails := []int{0, 1, w - 1, w, w + 1, w*w - 1, w*w - w, rng.Intn(w * w)}
			cases = append(cases, sqcase{w, vkit.Pick(rng, vkit.Layouts), vkit.Pick(rng, tails), false})
		}
	}
	reps := c05reps()
	readSizes := []int{1, 511, 512, 513, 64 << 10}

	var wg sync.WaitGroup
	sem := make(chan struct{}, 16)
	doSquare := func(i int, sq *vkit.Square, ex bool, r *vkit.RNG) {
		defer wg.Done()
		defer func() { <-sem }()
		dir := filepath.Join(base, fmt.Sprintf("sq%d", i))
		_ = os.MkdirAll(dir, 0o755)
		defer os.RemoveAll(dir)
		ctx, cancel := context.WithTimeout(context.Background(), 10*time.Minute)
		defer cancel()
		height := uint64(10 + i)
		isEmpty := sq.Layout == "empty"
		for _, rep := range reps {
			if isEmpty && rep.skipEmpty {
				continue
			}
			if sq.W >= 64 && !vkit.Thorough() && !c05bigReps[rep.name] {
				continue
			}
			acc, cleanup, err := rep.open(dir, sq, height)
			run.Eval(1)
			if err != nil {
				run.Violation("C05 cannot open representation "+rep.name, map[string]any{"square": sq.Desc(), "err": err.Error()})
				continue
			}
			rs := readSizes
			if sq.W > 16 {
				rs = []int{513, 64 << 10}
			}
			calls, probs := vkit.Battery(ctx, r.Split(rep.name), acc, sq, vkit.BatteryOpts{Exhaustive: ex, Samples: 24, Bounds: rep.bounds, ReadSizes: rs})
			cleanup()
			run.Count("accessor_calls", calls)
			run.Count("rep/"+rep.name, 1)
			run.Distinct(sq.Desc() + "|" + rep.name)
			if i%17 == 0 && rep.name == "store/reopened" {
				run.Sample(map[string]any{"square": sq.Desc(), "representation": rep.name, "accessor_calls": calls, "problems": len(probs)})
			}
			for _, p := range probs {
				run.Violation(fmt.Sprintf("C05 %s: %s disagrees with the stored square", rep.name, p.Call), map[string]any{"square": sq.Desc(), "what": p.What})
			}
		}
		// store.Getter methods
		c05getter(ctx, run, r.Split("getter"), dir, sq, height, ex)
	}
	for i, cs := range cases {
		wg.Add(1)
		sem <- struct{}{}
		r := rng.SplitN("sq", i)
		sq := vkit.GenSquare(r, cs.w, cs.layout, cs.tail)
		go doSquare(i, sq, cs.ex, r)
	}
	wg.Add(1)
	sem <- struct{}{}
	go doSquare(len(cases), vkit.EmptySquare(), true, rng.Split("empty"))
	wg.Wait()
	c05interrupted(run, rng.Split("interrupted"), base)
	c05concurrent(run, rng.Split("concurrent"), base)
	run.Require("accessor_calls", 5000)
	run.Require("getter_calls", 100)
	run.Assume("reference = rsmt2d extension of the generated ODS; verification = shwap verifiers (their soundness is C01/C02)")
}

// c05getter drives store.Getter (what a node's own reads go through) against the reference.
func c05getter(ctx context.Context, run *vkit.Run, r *vkit.RNG, dir string, sq *vkit.Square, height uint64, ex bool) {
	sdir := filepath.Join(dir, "gstore")
	_ = os.MkdirAll(sdir, 0o755)
	s, err := store.NewStore(&store.Parameters{RecentBlocksCacheSize: 0}, sdir)
	if err != nil {
		run.Violation("C05 getter: cannot create store", err.Error())
		return
	}
	defer s.Stop(ctx) //nolint:errcheck
	if err := s.PutODSQ4(ctx, sq.Roots, height, sq.EDS); err != nil {
		run.Violation("C05 getter: put fails", map[string]any{"square": sq.Desc(), "err": err.Error()})
		return
	}
	g := store.NewGetter(s)
	hdr := vkit.MinimalHeader(height, sq.Roots, time.Now())
	n := 2 * sq.W
	bad := func(call, what string) {
		run.Violation("C05 store.Getter."+call+" disagrees with the stored square", map[string]any{"square": sq.Desc(), "what": what})
	}
	var coords []shwap.SampleCoords
	for k := 0; k < 12; k++ {
		coords = append(coords, shwap.SampleCoords{Row: r.Intn(n), Col: r.Intn(n)})
	}
	run.Count("getter_calls", 1)
	smp, err := g.GetSamples(ctx, hdr, coords)
	if err != nil || len(smp) != len(coords) {
		bad("GetSamples", fmt.Sprint(err))
	} else {
		for k, c := range coords {
			if !bytes.Equal(smp[k].ToBytes(), sq.Cell(c.Row, c.Col)) || smp[k].Verify(sq.Roots, c.Row, c.Col) != nil {
				bad("GetSamples", fmt.Sprintf("coord %v", c))
			}
		}
	}
	rows := []int{0, n - 1, r.Intn(n)}
	if ex {
		rows = nil
		for i := 0; i < n; i++ {
			rows = append(rows, i)
		}
	}
	for _, i := range rows {
		run.Count("getter_calls", 1)
		row, err := g.GetRow(ctx, hdr, i)
		if err != nil {
			bad("GetRow", err.Error())
			continue
		}
		if err := row.Verify(sq.Roots, i); err != nil {
			bad("GetRow", fmt.Sprintf("row %d: %v", i, err))
			continue
		}
		sh, _ := row.Shares()
		if !vkit.EqualShares(sh, sq.ExtRowShares(i)) {
			bad("GetRow", fmt.Sprintf("row %d differs", i))
		}
	}
	run.Count("getter_calls", 1)
	e, err := g.GetEDS(ctx, hdr)
	if err != nil || !e.Equals(sq.EDS) {
		bad("GetEDS", fmt.Sprint(err))
	}
	nss := sq.DistinctNamespaces()
	for _, l := range sq.AbsentNamespaces() {
		nss = append(nss, l...)
	}
	for _, ns := range nss {
		if ns.ValidateForData() != nil {
			continue
		}
		run.Count("getter_calls", 1)
		nd, err := g.GetNamespaceData(ctx, hdr, ns)
		if err != nil {
			bad("GetNamespaceData", err.Error())
			continue
		}
		if !vkit.EqualShares(nd.Flatten(), sq.SharesOf(ns)) || nd.Verify(sq.Roots, ns) != nil {
			bad("GetNamespaceData", "ns "+ns.String())
		}
	}
	for _, rn := range sq.Runs {
		run.Count("getter_calls", 1)
		a, b := rn.Start, rn.Start+rn.Count
		rd, err := g.GetRangeNamespaceData(ctx, hdr, a, b)
		if err != nil {
			bad("GetRangeNamespaceData", fmt.Sprintf("[%d,%d): %v", a, b, err))
			continue
		}
		if !vkit.EqualShares(rd.Flatten(), sq.ODS[a:b]) {
			bad("GetRangeNamespaceData", fmt.Sprintf("[%d,%d) differs", a, b))
		}
	}
	// unknown height is "not found", never data
	run.Count("getter_calls", 1)
	if _, err := g.GetEDS(ctx, vkit.MinimalHeader(height+100000, sq.Roots, time.Now())); err == nil {
		bad("GetEDS", "unknown height served")
	}
	_ = libshare.ShareSize
}
