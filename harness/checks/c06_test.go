package checks

import (
	"bytes"
	"context"
	"fmt"
	"strings"
	"sync"
	"sync/atomic"
	"testing"
	"time"

	libshare "github.com/celestiaorg/go-square/v4/share"
	"github.com/celestiaorg/rsmt2d"

	"github.com/celestiaorg/celestia-node/header"
	"github.com/celestiaorg/celestia-node/share/eds"
	"github.com/celestiaorg/celestia-node/share/shwap"
	"github.com/celestiaorg/celestia-node/zz_verif/vkit"
)

// C06 — getters hand back only verified data, even when peers misbehave.
//
// Real shrex getter (real client, real peer manager) against scripted byzantine peers on a libp2p
// mocknet, real bitswap getter against boxo servers over hostile blockstores, with both block
// stores a node wires the getter to, and cascades over them. Oracles (exactly the statement):
//
//  1. every non-empty element of a returned value — alone or together with an error — is
//     byte-equal to the reference square at the requested position (and a success is complete);
//  2. correct replies of an honest peer after bad replies must let the call succeed: a call that is
//     still failing after the honest peer's complete correct reply was consumed and rejected
//     c06FastRejects times (each rejection decided by a lower-bound timing check that load can
//     only push towards "not decided") is a violation;
//  3. every peer answers NOT_FOUND ⇒ the error is shwap.ErrNotFound (errors.Is);
//  4. never a panic.

// ---------------------------------------------------------------------------------------------
// reference material

type c06Square struct {
	name  string
	sq    *vkit.Square
	twin  *vkit.Square
	other *vkit.Square // another block of the same width ("data for another block")
	// storeHeight is where the honest servers' real store holds sq.
	storeHeight uint64

	mu sync.Mutex // serialises payload generation over the shared in-memory squares
}

func (s *c06Square) acc(which string) *eds.Rsmt2D {
	switch which {
	case "twin":
		return &eds.Rsmt2D{ExtendedDataSquare: s.twin.EDS}
	case "other":
		return &eds.Rsmt2D{ExtendedDataSquare: s.other.EDS}
	}
	return &eds.Rsmt2D{ExtendedDataSquare: s.sq.EDS}
}

// c06GenSquare draws squares until one offers everything the request generator needs: a namespace
// run spanning at least two rows with room for single-row sub-ranges, and an absent namespace
// covered by some row.
func c06GenSquare(r *vkit.RNG, name string, w int) *c06Square {
	for i := 0; i < 200; i++ {
		rr := r.SplitN(name, i)
		layout := vkit.Pick(rr, []string{"runs", "padded", "runs", "reserved"})
		sq := vkit.GenSquare(rr, w, layout, rr.Intn(w))
		if len(c06MultiRowRuns(sq)) == 0 || len(sq.AbsentNamespaces()["inside"]) == 0 || len(c06DataNamespaces(sq)) < 2 {
			continue
		}
		return &c06Square{
			name: name, sq: sq, twin: sq.Twin(rr.Split("twin")),
			other: vkit.GenSquare(rr.Split("other"), w, "runs", rr.Intn(w)),
		}
	}
	panic("c06: no suitable square generated")
}

// c06MultiRowRuns returns the runs (not tail padding) that span at least two rows and have at
// least 3 shares.
func c06MultiRowRuns(sq *vkit.Square) []vkit.NsRun {
	var out []vkit.NsRun
	for _, run := range sq.Runs {
		if run.NS.Equals(libshare.TailPaddingNamespace) || run.Count < 3 {
			continue
		}
		if run.Start/sq.W != (run.Start+run.Count-1)/sq.W {
			out = append(out, run)
		}
	}
	return out
}

func c06DataNamespaces(sq *vkit.Square) []libshare.Namespace {
	var out []libshare.Namespace
	for _, ns := range sq.DistinctNamespaces() {
		if ns.ValidateForData() == nil && !ns.Equals(libshare.TailPaddingNamespace) {
			out = append(out, ns)
		}
	}
	return out
}

// ---------------------------------------------------------------------------------------------
// requests and the data-equality oracle

type c06Kind int

const (
	c06Samples c06Kind = iota
	c06Row
	c06EDS
	c06ND
	c06Range
	c06Kinds
)

var c06KindNames = [...]string{"GetSamples", "GetRow", "GetEDS", "GetNamespaceData", "GetRangeNamespaceData"}

type c06Req struct {
	kind   c06Kind
	s      *c06Square
	coords []shwap.SampleCoords
	row    int
	ns     libshare.Namespace
	nsKind string // "present" | "absent-inside" | "absent-outside"
	from   int
	to     int
}

func (q *c06Req) String() string {
	switch q.kind {
	case c06Samples:
		return fmt.Sprintf("GetSamples%v", q.coords)
	case c06Row:
		return fmt.Sprintf("GetRow(%d)", q.row)
	case c06EDS:
		return "GetEDS"
	case c06ND:
		return fmt.Sprintf("GetNamespaceData(%x %s)", q.ns.ID()[18:], q.nsKind)
	default:
		return fmt.Sprintf("GetRangeNamespaceData[%d,%d)", q.from, q.to)
	}
}

// c06GenReq draws a request of the given kind; variant steers sub-shapes (single-row / multi-row
// range, present / absent namespace) so that the enumeration covers them evenly.
func c06GenReq(r *vkit.RNG, kind c06Kind, s *c06Square, variant int) *c06Req {
	sq := s.sq
	n := 2 * sq.W
	q := &c06Req{kind: kind, s: s}
	switch kind {
	case c06Samples:
		// an original-quadrant cell, a parity cell and a random one; distinct
		seen := map[shwap.SampleCoords]bool{}
		add := func(c shwap.SampleCoords) {
			if !seen[c] {
				seen[c] = true
				q.coords = append(q.coords, c)
			}
		}
		add(shwap.SampleCoords{Row: r.Intn(sq.W), Col: r.Intn(sq.W)})
		add(shwap.SampleCoords{Row: sq.W + r.Intn(sq.W), Col: r.Intn(n)})
		add(shwap.SampleCoords{Row: r.Intn(n), Col: r.Intn(n)})
	case c06Row:
		q.row = r.Intn(n)
	case c06EDS:
	case c06ND:
		switch variant % 4 {
		case 0, 1:
			// prefer a namespace spanning several rows
			runs := c06MultiRowRuns(sq)
			var cand []libshare.Namespace
			for _, run := range runs {
				if run.NS.ValidateForData() == nil {
					cand = append(cand, run.NS)
				}
			}
			if len(cand) == 0 || variant%4 == 1 {
				cand = c06DataNamespaces(sq)
			}
			q.ns, q.nsKind = vkit.Pick(r, cand), "present"
		case 2:
			q.ns, q.nsKind = vkit.Pick(r, sq.AbsentNamespaces()["inside"]), "absent-inside"
		default:
			abs := sq.AbsentNamespaces()
			out := append(append([]libshare.Namespace{}, abs["below"]...), abs["above"]...)
			if len(out) == 0 {
				q.ns, q.nsKind = vkit.Pick(r, abs["inside"]), "absent-inside"
			} else {
				q.ns, q.nsKind = vkit.Pick(r, out), "absent-outside"
			}
		}
	case c06Range:
		run := vkit.Pick(r, c06MultiRowRuns(sq))
		end := run.Start + run.Count
		if variant%2 == 0 {
			// single row, strictly inside the run's first row part
			row := run.Start / sq.W
			rowEnd := min((row+1)*sq.W, end)
			q.from = r.Range(run.Start, rowEnd-1)
			q.to = r.Range(q.from+1, rowEnd)
		} else {
			// multi-row: crosses the first row boundary inside the run
			b := (run.Start/sq.W + 1) * sq.W
			q.from = r.Range(run.Start, b-1)
			q.to = r.Range(b+1, end)
		}
	}
	return q
}

// c06Result is what a getter call handed back.
type c06Result struct {
	samples []shwap.Sample
	row     shwap.Row
	eds     *rsmt2d.ExtendedDataSquare
	nd      shwap.NamespaceData
	rng     shwap.RangeNamespaceData
	err     error
}

// c06Call invokes the request on a getter.
func c06Call(ctx context.Context, g shwap.Getter, q *c06Req, hdr *header.ExtendedHeader) (res c06Result) {
	switch q.kind {
	case c06Samples:
		res.samples, res.err = g.GetSamples(ctx, hdr, q.coords)
	case c06Row:
		res.row, res.err = g.GetRow(ctx, hdr, q.row)
	case c06EDS:
		res.eds, res.err = g.GetEDS(ctx, hdr)
	case c06ND:
		res.nd, res.err = g.GetNamespaceData(ctx, hdr, q.ns)
	default:
		res.rng, res.err = g.GetRangeNamespaceData(ctx, hdr, q.from, q.to)
	}
	return res
}

type c06Problem struct {
	what   string // stable scenario class
	detail any
}

// c06Judge applies oracle 1: every non-empty element of the returned value equals the reference;
// a success is complete. It returns the number of non-empty elements inspected.
func c06Judge(q *c06Req, res *c06Result) (nonEmpty int, probs []c06Problem) {
	sq := q.s.sq
	path := "on success"
	if res.err != nil {
		path = "together with an error"
	}
	bad := func(what string, detail any) {
		probs = append(probs, c06Problem{what: what + " " + path, detail: detail})
	}
	switch q.kind {
	case c06Samples:
		if res.err == nil && len(res.samples) != len(q.coords) {
			bad("wrong number of samples", map[string]any{"got": len(res.samples), "want": len(q.coords)})
		}
		for i, s := range res.samples {
			if s.IsEmpty() { // a non-empty Sample is one with a proof
				if res.err == nil {
					bad("empty sample", map[string]any{"index": i})
				}
				continue
			}
			nonEmpty++
			if i >= len(q.coords) {
				bad("sample beyond the requested coordinates", map[string]any{"index": i})
				continue
			}
			c := q.coords[i]
			want := sq.Cell(c.Row, c.Col)
			var verr error
			if p, site := vkit.Recover(func() { verr = s.Verify(sq.Roots, c.Row, c.Col) }); p != nil {
				verr = fmt.Errorf("Verify panics at %s: %v", site, p)
			}
			if !bytes.Equal(s.ToBytes(), want) || verr != nil {
				bad("sample that is not the committed share at its coordinates", map[string]any{
					"index": i, "coords": fmt.Sprint(c), "got_share": c06Hex(s.ToBytes()), "want_share": c06Hex(want),
					"verify": fmt.Sprint(verr), "is": c06WhereIs(q.s, s.ToBytes()),
				})
			}
		}
	case c06Row:
		if res.row.IsEmpty() {
			if res.err == nil {
				bad("empty row", nil)
			}
			break
		}
		nonEmpty++
		row := res.row
		var got []libshare.Share
		var serr error
		if p, _ := vkit.Recover(func() { got, serr = row.Shares() }); p != nil {
			serr = fmt.Errorf("Shares panics: %v", p)
		}
		if serr != nil || !vkit.EqualShares(got, sq.ExtRowShares(q.row)) {
			bad("row that is not the committed row", map[string]any{"row": q.row, "shares_err": fmt.Sprint(serr), "got_len": len(got)})
		}
	case c06EDS:
		if res.eds == nil {
			if res.err == nil {
				bad("nil square", nil)
			}
			break
		}
		nonEmpty++
		if !res.eds.Equals(sq.EDS) {
			bad("square that is not the committed square", map[string]any{"width": res.eds.Width()})
		}
	case c06ND:
		if len(res.nd) == 0 {
			// an empty result is the correct success only when no row can hold the namespace
			if res.err == nil && len(sq.RowsCovering(q.ns)) != 0 {
				bad("empty namespace data although rows cover the namespace", map[string]any{"ns": q.ns.String()})
			}
			break
		}
		nonEmpty++
		verr := res.nd.Verify(sq.Roots, q.ns)
		if !vkit.EqualShares(res.nd.Flatten(), sq.SharesOf(q.ns)) || len(res.nd) != len(sq.RowsCovering(q.ns)) || verr != nil {
			bad("namespace data that is not the committed data of the namespace", map[string]any{
				"ns": q.ns.String(), "rows_got": len(res.nd), "rows_want": len(sq.RowsCovering(q.ns)),
				"shares_got": len(res.nd.Flatten()), "shares_want": len(sq.SharesOf(q.ns)), "verify": fmt.Sprint(verr),
			})
		}
	case c06Range:
		rd := res.rng
		if rd.IsEmpty() {
			if res.err == nil {
				bad("empty range data", nil)
			}
			break
		}
		nonEmpty++
		want := c06RefRows(sq, q.from, q.to)
		same := len(want) == len(rd.Shares)
		for i := 0; same && i < len(want); i++ {
			same = vkit.EqualShares(rd.Shares[i], want[i])
		}
		if !same || !vkit.EqualShares(rd.Flatten(), sq.ODS[q.from:q.to]) {
			bad("range data that is not the committed range", map[string]any{
				"from": q.from, "to": q.to, "rows_got": c06RowLens(rd.Shares), "rows_want": c06RowLens(want),
			})
		}
	}
	return nonEmpty, probs
}

func c06RefRows(sq *vkit.Square, from, to int) [][]libshare.Share {
	var out [][]libshare.Share
	for i := from; i < to; {
		end := min((i/sq.W+1)*sq.W, to)
		out = append(out, sq.ODS[i:end])
		i = end
	}
	return out
}

func c06RowLens(rows [][]libshare.Share) []int {
	out := make([]int, len(rows))
	for i, r := range rows {
		out[i] = len(r)
	}
	return out
}

func c06Hex(b []byte) string {
	if len(b) < 40 {
		return fmt.Sprintf("%x", b)
	}
	return fmt.Sprintf("%x…%x", b[:34], b[len(b)-4:])
}

// c06WhereIs locates a share's bytes in the reference / twin squares (for witnesses).
func c06WhereIs(s *c06Square, b []byte) string {
	for _, x := range []struct {
		name string
		sq   *vkit.Square
	}{{"reference", s.sq}, {"twin", s.twin}} {
		n := 2 * x.sq.W
		for r := 0; r < n; r++ {
			for c := 0; c < n; c++ {
				if bytes.Equal(x.sq.Cell(r, c), b) {
					return fmt.Sprintf("%s square cell (%d,%d)", x.name, r, c)
				}
			}
		}
	}
	return "in neither square"
}

// ---------------------------------------------------------------------------------------------

type c06 struct {
	run  *vkit.Run
	t    *testing.T
	seed uint64
	rng  *vkit.RNG
	sqs  []*c06Square
	n    atomic.Int64
	// bsWarm is closed once the first bitswap client of the process has been set up alone
	bsWarm     chan struct{}
	bsWarmOnce sync.Once
	// prop is the property the violations are reported for ("" = C06): C01 reuses the shrex part for
	// its getter-level clause
	prop string
}

func (c *c06) propID() string {
	if c.prop != "" {
		return c.prop
	}
	return "C06"
}

func (c *c06) violation(getter string, q *c06Req, what string, detail map[string]any) {
	sig := fmt.Sprintf("%s %s %s: %s", c.propID(), getter, c06KindNames[q.kind], what)
	if detail == nil {
		detail = map[string]any{}
	}
	detail["request"] = q.String()
	detail["square"] = q.s.sq.Desc()
	detail["seed"] = c.seed
	c.run.Violation(sig, detail)
}

// judge applies oracle 1 to a result and records what was looked at.
func (c *c06) judge(getter string, q *c06Req, res *c06Result, detail func() map[string]any) {
	nonEmpty, probs := c06Judge(q, res)
	outcome := "success"
	if res.err != nil {
		outcome = "error"
	}
	c.run.Count(fmt.Sprintf("%s/%s/%s", getter, c06KindNames[q.kind], outcome), 1)
	c.run.Count(fmt.Sprintf("oracle1/nonempty-elements-compared/%s", outcome), nonEmpty)
	for _, p := range probs {
		d := detail()
		d["witness"] = p.detail
		d["returned_error"] = fmt.Sprint(res.err)
		c.violation(getter, q, "returns "+p.what, d)
	}
}

func TestC06(t *testing.T) {
	run := vkit.NewRun(t, "C06", "fault_enumeration",
		"cases = (request type: samples/row/square/namespace data present+absent/share range single+multi row) × "+
			"(shrex: every sequence of length 1–2 (thorough 1–3) over 11 bad peer behaviours, followed or not by an honest peer running the real server, "+
			"context without deadline / short deadline / long deadline; bitswap: hostile-blockstore behaviours × honest present or not × "+
			"arrival order × light and bridge block-store wiring, and over a scripted exchange feeding hostile blocks then the honest block per CID; cascades [store,shrex,bitswap] and [shrex,bitswap] × local store holds/misses × peer faults); "+
			"distinct = (getter, request type, behaviour sequence, honest?, context mode, wiring); each case = one real getter call judged against the reference square")
	defer run.Finish()
	defer run.WatchDeadlock("C06 a getter call never returns (stable state: blocked on a lock of the retrieval path): ", func(f string) bool {
		return strings.Contains(f, "shwap/getters.") || strings.Contains(f, "shrex_getter.") || strings.Contains(f, "shwap/p2p/bitswap.") || strings.Contains(f, "shrex/peers.") || strings.Contains(f, "shwap/p2p/shrex.")
	})()
	seed := vkit.Seed()
	c := &c06{run: run, t: t, seed: seed, rng: vkit.NewRNG(seed, "C06"), bsWarm: make(chan struct{})}
	c.sqs = []*c06Square{
		c06GenSquare(c.rng, "sq4", 4),
		c06GenSquare(c.rng, "sq8", 8),
	}
	for i, s := range c.sqs {
		s.storeHeight = uint64(i + 1)
	}

	// the three parts are independent (own networks, own stores) and largely wait: run them together
	var wg sync.WaitGroup
	for name, f := range map[string]func(){"shrex": c.shrexPhase, "bitswap": c.bitswapPhase, "cascade": c.cascadePhase, "cascade_split": c.cascadeSplitPhase, "bitswap_scripted_exchange": c.fakeExchangePhase} {
		wg.Add(1)
		go func() {
			defer wg.Done()
			t0 := time.Now()
			f()
			run.Extra("phase_"+name+"_s", time.Since(t0).Seconds())
		}()
	}
	wg.Wait()

	run.Require("shrex/cases", vkit.Scale(500, 11000))
	run.Require("shrex/liveness/honest-last-success", vkit.Scale(100, 2500))
	run.Require("shrex/notfound-only/checked", 2)
	run.Require("oracle1/nonempty-elements-compared/success", vkit.Scale(150, 3000))
	run.Require("bitswap/cases", vkit.Scale(40, 400))
	run.Require("bitswap/honest-success", vkit.Scale(10, 80))
	run.Require("cascade/cases", vkit.Scale(20, 200))
	run.Require("fakeex/cases", vkit.Scale(100, 1000))
	run.Require("fakeex/success-after-rejected-hostile-blocks", vkit.Scale(40, 400))
	run.Require("fakeex/blocks-rejected-by-cid-check", vkit.Scale(100, 1000))
	run.Assume("reference = rsmt2d extension of the generated ODS (vkit.Square); hash collisions out of scope")
	run.Assume("mocknet streams: reset error codes are not transmitted (mocknet ignores them), deadlines are enforced by the client's context watcher only")
	run.Assume("wall clock is used only to bound waits (watchdog ⇒ inconclusive) and as a lower-bound check that an honest reply was rejected without a timeout")
}
