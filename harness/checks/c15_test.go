package checks

import (
	"bytes"
	"context"
	"fmt"
	"os"
	"path/filepath"
	"sort"
	"strings"
	"sync"
	"sync/atomic"
	"testing"
	"time"

	"github.com/celestiaorg/celestia-node/core"
	"github.com/celestiaorg/celestia-node/header"
	"github.com/celestiaorg/celestia-node/nodebuilder/p2p"
	"github.com/celestiaorg/celestia-node/share/availability"
	"github.com/celestiaorg/celestia-node/share/shwap/p2p/shrex/shrexsub"
	"github.com/celestiaorg/celestia-node/zz_verif/vkit"
)

// C15 — a bridge node stores exactly the block it announces or was asked to keep.
//
// Real core.Listener (header.MakeExtendedHeader, real store, recording broadcasters) over (a) a
// scripted core.Fetcher, (b) the real MultiSource over scripted endpoints, (c) the real MultiSource
// over real BlockFetchers on an in-process fake of the consensus gRPC BlockAPI; real
// full.ShareAvailability over a scripted getter; real core.Exchange over the gRPC fake. Histories
// of announcements (duplicates, gaps, reordering, lagging replays) with fetch / sync-status /
// store-write failures per source and attempt. The oracle is the statement, read off the log of
// boundary events and the store afterwards; the reference for "the block" is the square the real
// builder makes of the block's transactions.

type c15ctx struct {
	run  *vkit.Run
	pool []*c15payload
	base string
	now  time.Time
	nth  atomic.Int64
}

// c15ann is one announcement: source index announces height.
type c15ann struct {
	src int
	h   int64
}

const c15watchdog = 90 * time.Second

// Diagnostic switches (never set by the driver):
// VERIF_C15_HOOK_WITH_CACHE=1 also injects verifhook.Fault("store.put") on stores with the recent-blocks cache;
// VERIF_C15_STRICT_GETTER=1 judges a getter that returns a square not matching the header.
var (
	c15hookWithCache = os.Getenv("VERIF_C15_HOOK_WITH_CACHE") == "1"
	c15strictGetter  = os.Getenv("VERIF_C15_STRICT_GETTER") == "1"
)

func TestC15(t *testing.T) {
	run := vkit.NewRun(t, "C15", "fault_enumeration",
		"cases = histories: (pruned | archival) × availability window × store cache × ingest path (listener over a scripted fetcher | real MultiSource "+
			"over 1–3 scripted endpoints | real MultiSource over real BlockFetchers on a fake gRPC BlockAPI; handler called per event | Listener.Start loop; "+
			"full availability over a scripted getter; listener and availability concurrently on one store; core.Exchange over the fake gRPC) × generated blocks "+
			"(real square builder, in / out of the window, consistent / inconsistent data hash, empty) × announcement sequence (duplicates, gaps, reordering, "+
			"lagging replay) × fault script (fetch / sync-status / store-write failure per source and attempt; getter outcome per call); evaluations = "+
			"announcements handled + availability / exchange calls; distinct = distinct (configuration, per-height outcome sequence); non-trivial = the "+
			"height's history contains a failure, a duplicate or an out-of-window decision")
	defer run.Finish()
	defer run.WatchDeadlock("C15 block ingestion never returns (stable state: blocked on a lock): ", func(f string) bool {
		return strings.Contains(f, "celestia-node/core.") || strings.Contains(f, "availability/full.") || strings.Contains(f, "celestia-node/store")
	})()
	seed := vkit.Seed()
	rng := vkit.NewRNG(seed, "C15")
	restore := c15reg.install()
	defer restore()

	c := &c15ctx{run: run, base: t.TempDir(), now: time.Now()}
	c.pool = c15pool(rng.Split("pool"), vkit.Scale(48, 160))
	run.Count("payloads", len(c.pool))
	// fixture self-check (generator bugs must not look like findings)
	{
		v := c15newVals(3)
		for i, p := range c.pool {
			if i%6 != 0 {
				continue
			}
			b := c15sign(rng.SplitN("selfcheck", i), v, int64(10+i), c.now.Add(-time.Hour), true, p, true)
			if err := c15selfCheck(b); err != nil {
				t.Fatalf("C15 fixture self-check failed for %s: %v", p.desc(), err)
			}
		}
	}

	type job func()
	var jobs []job
	nL := vkit.Scale(170, 3400)
	nA := vkit.Scale(50, 1000)
	nM := vkit.Scale(16, 320)
	nX := vkit.Scale(24, 480)
	id := 0
	for i := 0; i < nL; i++ {
		id++
		hid, r := id, rng.SplitN("listener", i)
		jobs = append(jobs, func() { c.listenerHistory(hid, r, false) })
	}
	for i := 0; i < nM; i++ {
		id++
		hid, r := id, rng.SplitN("mixed", i)
		jobs = append(jobs, func() { c.listenerHistory(hid, r, true) })
	}
	for i := 0; i < nA; i++ {
		id++
		hid, r := id, rng.SplitN("avail", i)
		jobs = append(jobs, func() { c.availHistory(hid, r) })
	}
	for i := 0; i < nX; i++ {
		id++
		hid, r := id, rng.SplitN("exchange", i)
		jobs = append(jobs, func() { c.exchangeHistory(hid, r) })
	}
	// spread the families over the workers
	rng.Split("order").Shuffle(len(jobs), func(i, j int) { jobs[i], jobs[j] = jobs[j], jobs[i] })
	var wg sync.WaitGroup
	sem := make(chan struct{}, 16)
	for _, j := range jobs {
		wg.Add(1)
		sem <- struct{}{}
		go func(j job) {
			defer wg.Done()
			defer func() { <-sem }()
			j()
		}(j)
	}
	wg.Wait()

	run.Require("histories/listener", nL/2)
	run.Require("histories/avail", nA/2)
	run.Require("histories/exchange", nX/2)
	run.Require("listener/attempt/obtained", 100)
	run.Require("listener/attempt/fetch-failed", 20)
	run.Require("listener/attempt/sync-failed", 10)
	run.Require("listener/attempt/store-failed", 10)
	run.Require("listener/retry-after-failure-stored", 10)
	run.Require("listener/duplicate-announcement-of-stored-height", 20)
	run.Require("listener/pruned-historic-dropped", 10)
	run.Require("listener/stored_ods_only", 5)
	run.Require("listener/stored_with_q4", 50)
	run.Require("avail/ok-stored", 20)
	run.Require("avail/error-nothing-stored", 20)
	run.Require("exchange/ok-stored", 10)
	run.Assume("reference for 'the block' = square.Builder / da.ConstructEDS of the block's txs (go-square, celestia-app, rsmt2d are the trusted base)")
	run.Assume("window membership is chosen by the harness ≥ 30 min (usually days) away from the boundary; time.Since inside IsWithinWindow is not explored near it")
	run.Assume("store-write failures are injected as a real filesystem obstacle (a directory where the ODS / Q4 file must be created), which drives the store's " +
		"own clean-up path, and with verifhook.Fault(\"store.put\") only on stores without the recent-blocks cache: that marker sits after the pre-lock cache " +
		"insertion and before any code that can fail, so with the cache on it would leave a cache entry no real failure leaves")
	run.Assume("a getter obeys the shwap.Getter contract (C06): the square it returns verifies against the header; a square that does not is counted under " +
		"avail/diagnostic/* and not judged")
	run.Assume("core.Exchange: GetByHeight / Head / Get(hash) over the fake gRPC BlockAPI are covered; GetRangeByHeight (adjacent-header verification) and the p2p fallback are not")
}

// ---------------------------------------------------------------------------------------------
// generation

func (c *c15ctx) pickCfg(r *vkit.RNG, family string) c15cfg {
	cfg := c15cfg{Family: family}
	cfg.Archival = r.Chance(2, 5)
	cfg.Window = vkit.Pick(r, []time.Duration{availability.StorageWindow, availability.StorageWindow, availability.StorageWindow, 48 * time.Hour, time.Hour, 0})
	cfg.Cache = vkit.Pick(r, []int{10, 10, 0, 2})
	cfg.Fetcher = vkit.Pick(r, []string{"scripted", "multi", "multi", "multi-grpc"})
	cfg.Drive = vkit.Pick(r, []string{"direct", "direct", "loop"})
	cfg.NSrc = r.Range(1, 3)
	return cfg
}

func (c *c15ctx) countCfg(cfg c15cfg) {
	if cfg.Archival {
		c.run.Count("cfg/archival", 1)
	} else {
		c.run.Count("cfg/pruned", 1)
	}
	c.run.Count(fmt.Sprintf("cfg/window=%s", cfg.Window), 1)
	c.run.Count(fmt.Sprintf("cfg/store-cache=%d", cfg.Cache), 1)
}

// blockTime picks a timestamp on the requested side of the window, far from the boundary.
//
// Ages are relative to the moment the history is generated (a history lasts seconds, the margin to
// the boundary is ≥ 30 minutes), not to the start of the run: a long thorough run must not let an
// "inside" block drift over the boundary of a one-hour window.
func (c *c15ctx) blockTime(r *vkit.RNG, window time.Duration, in bool) time.Time {
	now := time.Now()
	if window == 0 { // window disabled: everything is inside
		return now.Add(-time.Duration(r.Range(0, 60*24)) * time.Hour)
	}
	if in {
		if r.Chance(1, 12) {
			return now.Add(10 * time.Minute) // clock skew: a block from the near future
		}
		if r.Chance(1, 6) && window > time.Hour {
			// close to the boundary, still inside by 30–55 minutes (for the default window this is older
			// than the light nodes' sampling window, which is one hour shorter than the storage window)
			return now.Add(-window + 30*time.Minute + time.Duration(r.Range(0, 25))*time.Minute)
		}
		half := int(window / 2 / time.Minute)
		return now.Add(-time.Duration(r.Range(0, half)) * time.Minute)
	}
	if r.Chance(1, 6) {
		return now.Add(-window - 30*time.Minute - time.Duration(r.Range(0, 25))*time.Minute) // just outside
	}
	return now.Add(-window - 24*time.Hour - time.Duration(r.Range(0, 30*24))*time.Hour)
}

func (c *c15ctx) newHist(id int, cfg c15cfg, r *vkit.RNG) *c15hist {
	h := &c15hist{
		born: time.Now(),
		id:   id, cfg: cfg, run: c.run, dir: filepath.Join(c.base, fmt.Sprintf("h%d", id)), base: 1_000_000 + int64(id)*1000,
		blocks: map[int64]*c15block{}, byAddr: map[string]*c15src{}, storePlan: map[int64][]string{}, hashErrAt: map[int]bool{},
		putN: map[int64]int{}, published: map[int64][]c15pub{}, hashes: map[int64][]shrexsub.Notification{},
	}
	return h
}

// genBlocks adds n blocks at heights from+1.. with distinct payloads (the empty block may repeat)
// to the history and returns their heights.
func (c *c15ctx) genBlocks(h *c15hist, r *vkit.RNG, from int64, n int, window time.Duration) []int64 {
	v := c15newVals(r.Range(1, 4))
	if h.usedPay == nil {
		h.usedPay = map[int]bool{}
	}
	used := h.usedPay
	var heights []int64
	pattern := r.Intn(4) // 0 all inside, 1 old prefix, 2 random, 3 mostly outside
	cut := r.Range(1, max(1, n-1))
	for i := 0; i < n; i++ {
		ht := from + int64(i) + 1
		pay := c.pool[0]
		if !r.Chance(1, 6) {
			for {
				pay = c.pool[1+r.Intn(len(c.pool)-1)]
				if !used[pay.id] {
					used[pay.id] = true
					break
				}
			}
		}
		in := true
		switch pattern {
		case 1:
			in = i >= cut
		case 2:
			in = r.Bool()
		case 3:
			in = r.Chance(1, 4)
		}
		if window == 0 {
			in = true
		}
		b := c15sign(r.SplitN("block", i), v, ht, c.blockTime(r, window, in), in, pay, !r.Chance(1, 10))
		h.blocks[ht] = b
		heights = append(heights, ht)
	}
	return heights
}

var c15failKinds = []string{"err", "err", "deadline", "canceled", "badapp"}

// genSources makes the scripted endpoints and the global announcement order.
func (c *c15ctx) genSources(h *c15hist, r *vkit.RNG) []c15ann {
	n := len(h.heights)
	var perSrc [][]int64
	for i := 0; i < h.cfg.NSrc; i++ {
		s := &c15src{h: h, idx: i, addr: fmt.Sprintf("core-%d.c15:9090", i), fetchPlan: map[int64][]string{}, fetchN: map[int64]int{}, syncErrAt: map[int]bool{}}
		s.style = vkit.Pick(r, []string{"follower", "follower", "lagging", "flaky", "duplicator"})
		if h.cfg.NSrc > 1 && i > 0 && r.Chance(1, 12) && h.cfg.Fetcher != "scripted" {
			if r.Bool() {
				s.chainErr = true
			} else if h.cfg.Fetcher == "multi" {
				s.subErr = true
			}
		}
		var seq []int64
		for k, ht := range h.heights {
			switch s.style {
			case "lagging":
				seq = append(seq, ht)
			case "duplicator":
				for d := r.Range(1, 3); d > 0; d-- {
					seq = append(seq, ht)
				}
			default:
				if r.Chance(17, 20) || (i == 0 && k == n-1) {
					seq = append(seq, ht)
					if r.Chance(3, 20) {
						seq = append(seq, ht)
					}
				}
			}
		}
		for k := 0; k+1 < len(seq); k++ { // local reordering
			if r.Chance(3, 20) {
				seq[k], seq[k+1] = seq[k+1], seq[k]
			}
		}
		if s.style == "lagging" {
			s.syncingUntil = r.Range(1, len(seq))
		} else if r.Chance(1, 8) {
			s.syncingUntil = r.Range(1, 3)
		}
		if r.Chance(1, 3) { // a late replay of old heights
			for _, ht := range h.heights[:r.Range(1, n)] {
				if r.Chance(2, 3) {
					seq = append(seq, ht)
				}
			}
		}
		// fault script of this endpoint
		pf := vkit.Pick(r, []int{0, 3, 3, 8})
		if s.style == "flaky" {
			pf = 9
		}
		for _, ht := range seq {
			if r.Chance(pf, 20) {
				k := vkit.Pick(r, c15failKinds)
				if k == "badapp" && h.cfg.Fetcher == "multi-grpc" {
					k = "streamerr"
				}
				s.fetchPlan[ht] = append(s.fetchPlan[ht], k)
			} else {
				s.fetchPlan[ht] = append(s.fetchPlan[ht], "ok")
			}
		}
		for k := 0; k < len(seq); k++ {
			if r.Chance(2, 20) {
				s.syncErrAt[k] = true
			}
		}
		s.ch = make(chan core.BlockEvent)
		s.heights = make(chan int64)
		h.srcs = append(h.srcs, s)
		h.byAddr[s.addr] = s
		perSrc = append(perSrc, seq)
	}
	// store-write script
	kinds := []string{"fsq4", "fsods", "ioods"} // ("q4.create" runs on a goroutine of its own: not routable by goroutine id)
	if h.cfg.Cache == 0 || c15hookWithCache {
		kinds = append(kinds, "hook", "hook")
	}
	for _, ht := range h.heights {
		var pl []string
		if r.Chance(4, 20) {
			pl = append(pl, vkit.Pick(r, kinds))
			if r.Chance(1, 4) {
				pl = append(pl, vkit.Pick(r, kinds))
			}
		}
		h.storePlan[ht] = pl
	}
	if r.Chance(1, 6) {
		for k := 0; k < 40; k++ {
			if r.Chance(1, 3) {
				h.hashErrAt[k] = true
			}
		}
	}
	// global order: random interleaving that keeps every endpoint's own order; ≤ 40 announcements
	var order []c15ann
	idx := make([]int, len(perSrc))
	for len(order) < 40 {
		var live []int
		for i := range perSrc {
			if idx[i] < len(perSrc[i]) {
				live = append(live, i)
			}
		}
		if len(live) == 0 {
			break
		}
		i := vkit.Pick(r, live)
		order = append(order, c15ann{src: i, h: perSrc[i][idx[i]]})
		idx[i]++
	}
	return order
}

// ---------------------------------------------------------------------------------------------
// listener histories

func (c *c15ctx) listenerHistory(id int, r *vkit.RNG, mixed bool) {
	family := "listener"
	if mixed {
		family = "mixed"
	}
	cfg := c.pickCfg(r.Split("cfg"), family)
	if mixed {
		cfg.Window = availability.StorageWindow // the availability path has the window built in
		cfg.Drive = "direct"
	}
	h := c.newHist(id, cfg, r)
	defer h.close()
	h.heights = c.genBlocks(h, r.Split("blocks"), h.base, r.Range(3, 9), cfg.Window)
	order := c.genSources(h, r.Split("sources"))
	allDead := true
	for _, s := range h.srcs {
		if !s.dead() {
			allDead = false
		}
	}
	if allDead {
		h.srcs[0].chainErr, h.srcs[0].subErr = false, false
	}
	var side *c15avail
	if mixed {
		side = c.newAvail(h, r.Split("side"), h.base+500, r.Range(3, 6))
	}
	c15reg.register(h)
	if err := h.openStore(); err != nil {
		c.run.Inconclusive("C15: cannot open a store: " + err.Error())
		return
	}
	ctx, cancel := context.WithCancel(context.Background())
	defer cancel()

	// the code under test
	var fetcher core.Fetcher
	var scripted *c15fetcher
	var ms *core.MultiSource
	switch cfg.Fetcher {
	case "scripted":
		scripted = &c15fetcher{h: h, feed: make(chan core.BlockEvent)}
		fetcher = scripted
	default:
		var addrs []string
		var leaves []core.VerifBlockSource
		for _, s := range h.srcs {
			addrs = append(addrs, s.addr)
			if cfg.Fetcher == "multi-grpc" {
				g := &c15grpc{s: s}
				if r.Chance(1, 3) {
					g.breakAfter = r.Range(1, 4)
				}
				leaves = append(leaves, core.VerifNewBlockFetcher(g, s.addr))
			} else {
				leaves = append(leaves, &c15leaf{s})
			}
		}
		ms = core.VerifNewMultiSource(addrs, leaves)
		fetcher = ms
	}
	opts := []core.Option{core.WithChainID(p2p.Network(c15chain)), core.WithAvailabilityWindow(cfg.Window)}
	if cfg.Archival {
		opts = append(opts, core.WithArchivalMode())
	}
	cl, err := core.NewListener(&c15bcast{h}, fetcher, h.hashBroadcast, header.MakeExtendedHeader, h.store, time.Hour, opts...)
	if err != nil {
		c.run.Inconclusive("C15: NewListener: " + err.Error())
		return
	}

	// deliver hands one announcement to the endpoint's subscription
	deliver := func(a c15ann) bool {
		s := h.srcs[a.src]
		t := time.NewTimer(c15watchdog)
		defer t.Stop()
		switch cfg.Fetcher {
		case "scripted":
			if cfg.Drive == "direct" {
				return true
			}
			select {
			case scripted.feed <- core.VerifBlockEvent(a.h, s.addr):
				return true
			case <-t.C:
			}
		case "multi":
			select {
			case s.ch <- core.BlockEvent{Height: a.h}:
				return true
			case <-t.C:
			}
		default:
			select {
			case s.heights <- a.h:
				return true
			case <-t.C:
			}
		}
		return false
	}

	var sideDone chan struct{}
	if side != nil {
		sideDone = make(chan struct{})
		go func() {
			defer close(sideDone)
			side.run(ctx)
		}()
	}

	delivered := map[int64]int{} // announcements of live endpoints per height
	ok := true
	switch cfg.Drive {
	case "direct":
		var out chan core.BlockEvent
		if ms != nil {
			if err := ms.Verify(ctx, c15chain); err != nil {
				h.violation("C15 fan-in refuses to start although an endpoint is healthy", map[string]any{"err": err.Error()})
				return
			}
			out, _ = ms.SubscribeNewBlockEvent(ctx)
		}
		h.mu.Lock()
		h.started = true
		h.mu.Unlock()
		for _, a := range order {
			s := h.srcs[a.src]
			if s.dead() {
				c.run.Count("listener/announcement-of-pruned-endpoint", 1)
				continue
			}
			before, _ := h.store.HasByHeight(ctx, uint64(a.h))
			from := h.logLen()
			h.note("announce", s.addr, a.h, "")
			delivered[a.h]++
			var ev core.BlockEvent
			if ms == nil {
				ev = core.VerifBlockEvent(a.h, s.addr)
			} else {
				if !deliver(a) {
					ok = false
					break
				}
				select {
				case ev = <-out:
				case <-time.After(c15watchdog):
					ok = false
				}
				if !ok {
					break
				}
				if ev.Height != a.h || ev.VerifAddr() != s.addr {
					h.violation("C15 fan-in delivered an event that was not announced", map[string]any{"got": fmt.Sprintf("%d from %q", ev.Height, ev.VerifAddr()), "announced": fmt.Sprintf("%d from %q", a.h, s.addr)})
					return
				}
			}
			var herr error
			pnc, site := vkit.Recover(func() { herr = cl.VerifHandleNewBlockEvent(ctx, ev) })
			c.run.Eval(1)
			if pnc != nil {
				h.violation("C15 listener handler panics @"+site, map[string]any{"panic": fmt.Sprint(pnc), "event": fmt.Sprintf("h=%d from %s", a.h, s.addr)})
				return
			}
			h.note("returned", s.addr, a.h, c15errString(herr))
			h.checkEvent(ctx, a, before, herr, h.logFrom(from))
		}
	default: // loop
		if err := cl.Start(ctx); err != nil {
			h.violation("C15 listener refuses to start although an endpoint is healthy", map[string]any{"err": err.Error()})
			return
		}
		h.mu.Lock()
		h.started = true
		h.sentinels = map[int64]bool{}
		var sent []c15ann
		for i, s := range h.srcs {
			if !s.dead() {
				sh := h.base + 900 + int64(i)
				h.sentinels[sh] = false
				sent = append(sent, c15ann{src: i, h: sh})
			}
		}
		h.sentinelC = make(chan struct{}, len(sent))
		h.mu.Unlock()
		for _, a := range order {
			s := h.srcs[a.src]
			if s.dead() {
				c.run.Count("listener/announcement-of-pruned-endpoint", 1)
				continue
			}
			h.note("announce", s.addr, a.h, "")
			delivered[a.h]++
			c.run.Eval(1)
			if !deliver(a) {
				ok = false
				break
			}
		}
		// every endpoint's stream is FIFO and the listener handles one event at a time: once the
		// sentinel of every endpoint has been fetched, everything announced before it is handled
		for _, a := range sent {
			if ok && !deliver(a) {
				ok = false
			}
		}
		for range sent {
			if !ok {
				break
			}
			select {
			case <-h.sentinelC:
			case <-time.After(c15watchdog):
				ok = false
			}
		}
		sctx, scancel := context.WithTimeout(context.Background(), c15watchdog)
		if err := cl.Stop(sctx); err != nil {
			ok = false
		}
		scancel()
	}
	if sideDone != nil {
		select {
		case <-sideDone:
		case <-time.After(c15watchdog):
			ok = false
		}
	}
	cancel()
	if !ok {
		c.run.Inconclusive(fmt.Sprintf("C15 history %d (%s): watchdog expired while delivering announcements", id, cfg))
		return
	}
	c.run.Count("histories/"+family, 1)
	c.run.Count("histories/fetcher/"+cfg.Fetcher+"/"+cfg.Drive, 1)
	c.countCfg(cfg)
	fctx := context.Background()
	h.finalCheck(fctx, r.Split("final"), delivered)
	if side != nil {
		side.final(fctx, r.Split("side-final"))
		c.crossCheck(fctx, h, cl, r.Split("cross"))
	}
	if n := c.nth.Add(1); n%23 == 1 {
		c.run.Sample(map[string]any{"history": id, "config": cfg.String(), "log": c15logStrings(h.logFrom(0))})
	}
}

func c15errString(err error) string {
	if err == nil {
		return "nil"
	}
	s := err.Error()
	if len(s) > 90 {
		s = s[:90] + "…"
	}
	return "error: " + s
}

// c15attempt is one ingest attempt read off the log: everything between a fetch and the next one.
type c15attempt struct {
	t       int
	src     string
	h       int64
	fetch   string
	sync    string // "" (not queried) | "err" | "syncing=true" | "syncing=false"
	syncSrc string
	put     string // "" (no store write reached) | ok | hook | fsq4 | fsods
	hashes  int
	headers int
	foreign []c15entry // broadcasts for another height inside this attempt
}

// kind classifies the attempt for a block b.
func (h *c15hist) kind(a *c15attempt, b *c15block) string {
	switch a.fetch {
	case "ok", "badapp":
	default:
		return "fetch-failed"
	}
	if h.prunedHistoric(b) {
		return "historic"
	}
	if a.sync == "err" {
		return "sync-failed"
	}
	if a.fetch == "badapp" {
		return "extend-failed"
	}
	if a.put != "" && a.put != "ok" {
		return "store-failed"
	}
	return "obtained"
}

func (h *c15hist) attempts(log []c15entry, only map[int64]bool) []*c15attempt {
	var out []*c15attempt
	var cur *c15attempt
	for _, e := range log {
		switch e.kind {
		case "fetch":
			cur = nil
			if h.blocks[e.h] != nil && (only == nil || only[e.h]) && e.out != "unknown-height" && e.out != "sentinel" {
				cur = &c15attempt{t: e.t, src: e.src, h: e.h, fetch: e.out}
				out = append(out, cur)
			}
		case "sync":
			if cur != nil {
				cur.sync, cur.syncSrc = e.out, e.src
			}
		case "put", "hash", "header":
			if only != nil && !only[e.h] {
				continue // the availability side of a mixed history
			}
			if cur == nil || cur.h != e.h {
				if e.kind != "put" && cur != nil {
					cur.foreign = append(cur.foreign, e)
				}
				continue
			}
			switch e.kind {
			case "put":
				cur.put = e.out
			case "hash":
				cur.hashes++
			default:
				cur.headers++
			}
		}
	}
	return out
}

func (h *c15hist) listenerHeights() map[int64]bool {
	m := map[int64]bool{}
	for _, ht := range h.heights {
		m[ht] = true
	}
	return m
}

// checkAttempt judges what one ingest attempt announced to the network.
func (h *c15hist) checkAttempt(a *c15attempt) string {
	b := h.blocks[a.h]
	k := h.kind(a, b)
	h.run.Count("listener/attempt/"+k, 1)
	if a.syncSrc != "" && a.syncSrc != a.src {
		h.violation("C15 sync state taken from an endpoint other than the one that announced and served the block", map[string]any{"height": a.h, "served_by": a.src, "asked": a.syncSrc})
	}
	if len(a.foreign) > 0 {
		h.violation("C15 ingest of one height announces another height", map[string]any{"ingesting": a.h, "announced": c15logStrings(a.foreign)})
	}
	switch k {
	case "obtained":
		if b.inWindow && a.headers != 1 {
			h.violation("C15 in-window block not published exactly once by the ingest that stored it", map[string]any{"height": a.h, "header_broadcasts": a.headers})
		}
		wantHash := 1
		if a.sync == "syncing=true" {
			wantHash = 0
		}
		if a.hashes != wantHash {
			h.violation("C15 shrexsub notification does not follow the announcing endpoint's sync state", map[string]any{"height": a.h, "sync": a.sync, "hash_broadcasts": a.hashes})
		}
		h.run.Count(fmt.Sprintf("listener/hash-broadcast/%s/%d", a.sync, a.hashes), 1)
	case "historic":
		h.run.Count("listener/pruned-historic-dropped", 1)
	default:
		if a.headers+a.hashes > 0 {
			h.violation("C15 block announced to the network by an ingest that failed ("+k+")", map[string]any{"height": a.h, "header_broadcasts": a.headers, "hash_broadcasts": a.hashes})
		}
	}
	return k
}

// checkEvent is the per-announcement oracle of the direct drive: the handler's return value and
// the store right after it, against what the endpoints and the store-write script did.
func (h *c15hist) checkEvent(ctx context.Context, a c15ann, storedBefore bool, herr error, seg []c15entry) {
	b := h.blocks[a.h]
	as := h.attempts(seg, h.listenerHeights())
	after, _ := h.store.HasByHeight(ctx, uint64(a.h))
	w := func() map[string]any {
		return map[string]any{"event": fmt.Sprintf("h=%d from %s", a.h, h.srcs[a.src].addr), "handler_error": fmt.Sprint(herr), "stored_before": storedBefore, "stored_after": after, "segment": c15logStrings(seg)}
	}
	if len(as) == 0 {
		if !storedBefore {
			h.violation("C15 announcement of a height that is not stored was ignored", w())
		} else {
			h.run.Count("listener/duplicate-announcement-of-stored-height", 1)
		}
		return
	}
	if len(as) > 1 {
		h.violation("C15 one announcement caused several fetches", w())
		return
	}
	k := h.kind(as[0], b)
	switch k {
	case "obtained":
		if herr != nil {
			h.violation("C15 ingest of a successfully obtained block reported an error", w())
		}
		if !after {
			h.violation("C15 successfully obtained block is not stored", w())
		}
		if storedBefore {
			h.run.Count("listener/refetch-of-stored-height", 1)
		}
	case "historic":
		if after {
			h.violation("C15 pruned node stored a block outside the availability window", w())
		}
	default:
		if herr == nil {
			h.violation("C15 failed ingest not reported ("+k+")", w())
		} else {
			h.run.Count("listener/failure-reported/"+k, 1)
		}
		if after && !storedBefore {
			h.violation("C15 failed ingest leaves the height stored ("+k+")", w())
		}
	}
}

// finalCheck is the end-of-history oracle (both drives).
func (h *c15hist) finalCheck(ctx context.Context, r *vkit.RNG, delivered map[int64]int) {
	for _, b := range h.blocks {
		h.clearFaults(b)
	}
	log := h.logFrom(0)
	as := h.attempts(log, h.listenerHeights())
	per := map[int64][]string{}
	obtained := map[int64]bool{}
	fails := map[int64]map[string]bool{}
	for _, a := range as {
		k := h.checkAttempt(a)
		if k == "obtained" {
			if len(per[a.h]) > 0 && !obtained[a.h] {
				h.run.Count("listener/retry-after-failure-stored", 1)
			}
			obtained[a.h] = true
			if a.sync == "syncing=true" {
				k += "+syncing"
			}
		} else if k != "historic" {
			if fails[a.h] == nil {
				fails[a.h] = map[string]bool{}
			}
			fails[a.h][k] = true
		}
		if a.put != "" && a.put != "ok" {
			k += ":" + a.put
		} else if k == "fetch-failed" {
			k += ":" + a.fetch
		}
		per[a.h] = append(per[a.h], k)
	}
	mode := "pruned"
	if h.cfg.Archival {
		mode = "archival"
	}
	for _, ht := range h.heights {
		b := h.blocks[ht]
		stored, err := h.store.HasByHeight(ctx, uint64(ht))
		if err != nil {
			h.violation("C15 store cannot answer HasByHeight", map[string]any{"height": ht, "err": err.Error()})
			continue
		}
		dups := delivered[ht] - len(per[ht])
		shape := fmt.Sprintf("%s/%s/in=%v/empty=%v|%s|dup=%d", mode, h.cfg.Fetcher, b.inWindow, b.pay.empty, c15seq(per[ht]), min(dups, 3))
		if len(per[ht]) > 1 || dups > 0 || len(fails[ht]) > 0 || !b.inWindow {
			h.run.Distinct(shape)
		}
		h.run.SetAdd("height_history_shapes", shape)
		w := map[string]any{"height": ht, "attempts": per[ht], "announcements_delivered": delivered[ht], "stored": stored}
		pubs := h.published[ht]
		var fk []string
		for k := range fails[ht] {
			fk = append(fk, k)
		}
		sort.Strings(fk)
		switch {
		case h.prunedHistoric(b):
			if stored {
				h.violation("C15 pruned node stored a block outside the availability window", w)
			} else {
				h.run.Count("listener/pruned-historic-not-stored", 1)
			}
			continue
		case obtained[ht] && !stored:
			h.violation("C15 successfully obtained block is not stored", w)
		case !obtained[ht] && stored:
			h.violation("C15 height is stored although every ingest of it failed ("+strings.Join(fk, "+")+")", w)
		case !obtained[ht] && !stored && delivered[ht] > 0:
			// every delivered announcement of a height that never got stored must have been tried
			if len(per[ht]) != delivered[ht] {
				h.violation("C15 announcement of a height that is not stored was ignored", w)
			} else {
				h.run.Count("listener/never-obtained-every-announcement-tried", 1)
			}
		}
		// "published once" — for blocks inside the window
		want := 0
		if obtained[ht] {
			want = 1
		}
		if b.inWindow && len(pubs) != want {
			w["header_broadcasts"] = len(pubs)
			if len(pubs) > want && want == 1 {
				h.violation("C15 in-window block published more than once", w)
			} else if want == 1 {
				h.violation("C15 in-window block stored but never published", w)
			} else {
				h.violation("C15 header published for a height whose ingest never succeeded", w)
			}
		}
		if len(pubs) > 0 && !stored {
			h.violation("C15 header published for a height that is not stored", w)
		}
		h.run.Count(fmt.Sprintf("listener/published/%s/in=%v/%d", mode, b.inWindow, min(len(pubs), 2)), 1)
		for _, p := range pubs {
			eh := p.eh
			if !bytes.Equal(eh.RawHeader.Hash(), b.hdr.Hash()) {
				h.violation("C15 published extended header is not the header of the block at that height", w)
			}
			if !eh.DAH.Equals(b.pay.blk.Sq.Roots) {
				h.violation("C15 published header's DAH is not the DAH of the block's transactions", w)
			}
			if b.consistent && !bytes.Equal(eh.DAH.Hash(), b.hdr.DataHash) {
				h.violation("C15 consistent block: published DAH does not hash to the block's data hash", w)
			}
			if p.storedNow {
				h.run.Count("listener/header-broadcast-with-square-already-stored", 1)
			} else {
				h.run.Count("listener/header-broadcast-before-square-stored", 1)
			}
		}
		for _, n := range h.hashes[ht] {
			if !bytes.Equal(n.DataHash, b.hdr.DataHash) {
				h.violation("C15 shrexsub notification carries a data hash that is not the block's", w)
			}
		}
		if stored {
			var d = b.pay.blk.Sq.Roots
			if len(pubs) > 0 {
				d = pubs[0].eh.DAH
			}
			h.checkStored(ctx, "listener", b, d, r.SplitN("read", int(ht-h.base)), r.Chance(1, 6))
		}
	}
}
