package checks

import (
	"bytes"
	stded "crypto/ed25519"
	"crypto/sha256"
	"fmt"
	"math/big"
	"reflect"
	"strings"
	"time"

	cmted "github.com/cometbft/cometbft/crypto/ed25519"
	core "github.com/cometbft/cometbft/types"

	"github.com/celestiaorg/celestia-app/v9/pkg/da"

	"github.com/celestiaorg/celestia-node/header"
	"github.com/celestiaorg/celestia-node/zz_verif/vkit"
)

// Reference model of C16 (what "consistent and properly signed" means), written from the wire
// formats and not from the code under test: RFC-6962 merkle tree over hand-encoded protobuf leaves
// for the raw header hash, the validator set hash and the data root; stdlib ed25519 for signatures.
// Only Commit.VoteSignBytes (canonical vote encoding) is taken from cometbft, as the statement allows.

type c16hdr = header.ExtendedHeader

func c16uvarint(b []byte, v uint64) []byte {
	for v >= 0x80 {
		b = append(b, byte(v)|0x80)
		v >>= 7
	}
	return append(b, byte(v))
}

func c16pbVarint(b []byte, field int, v uint64) []byte {
	if v == 0 {
		return b
	}
	b = append(b, byte(field<<3))
	return c16uvarint(b, v)
}

func c16pbBytes(b []byte, field int, v []byte, always bool) []byte {
	if len(v) == 0 && !always {
		return b
	}
	b = append(b, byte(field<<3|2))
	b = c16uvarint(b, uint64(len(v)))
	return append(b, v...)
}

func c16merkle(items [][]byte) []byte {
	switch len(items) {
	case 0:
		h := sha256.Sum256(nil)
		return h[:]
	case 1:
		h := sha256.New()
		h.Write([]byte{0})
		h.Write(items[0])
		return h.Sum(nil)
	default:
		k := 1
		for k*2 < len(items) {
			k *= 2
		}
		l, r := c16merkle(items[:k]), c16merkle(items[k:])
		h := sha256.New()
		h.Write([]byte{1})
		h.Write(l)
		h.Write(r)
		return h.Sum(nil)
	}
}

func c16blockIDpb(id core.BlockID) []byte {
	var psh []byte
	psh = c16pbVarint(psh, 1, uint64(id.PartSetHeader.Total))
	psh = c16pbBytes(psh, 2, id.PartSetHeader.Hash, false)
	var b []byte
	b = c16pbBytes(b, 1, id.Hash, false)
	b = c16pbBytes(b, 2, psh, true)
	return b
}

func c16wrap(v []byte) []byte { return c16pbBytes(nil, 1, v, false) }

// c16headerHash is the model's hash of the signed block header (14 leaves, in struct order).
func c16headerHash(h *core.Header) []byte {
	var ver []byte
	ver = c16pbVarint(ver, 1, h.Version.Block)
	ver = c16pbVarint(ver, 2, h.Version.App)
	var tm []byte
	tm = c16pbVarint(tm, 1, uint64(h.Time.Unix()))
	tm = c16pbVarint(tm, 2, uint64(int64(h.Time.Nanosecond())))
	return c16merkle([][]byte{
		ver,
		c16wrap([]byte(h.ChainID)),
		c16pbVarint(nil, 1, uint64(h.Height)),
		tm,
		c16blockIDpb(h.LastBlockID),
		c16wrap(h.LastCommitHash),
		c16wrap(h.DataHash),
		c16wrap(h.ValidatorsHash),
		c16wrap(h.NextValidatorsHash),
		c16wrap(h.ConsensusHash),
		c16wrap(h.AppHash),
		c16wrap(h.LastResultsHash),
		c16wrap(h.EvidenceHash),
		c16wrap(h.ProposerAddress),
	})
}

// c16modelLeafCount is the number of RawHeader leaves the model hash covers; the reflection walk
// must find exactly the same fields, otherwise the model is stale (inconclusive, never a verdict).
var c16modelLeaves = []string{
	"Version.Block", "Version.App", "ChainID", "Height", "Time",
	"LastBlockID.Hash", "LastBlockID.PartSetHeader.Total", "LastBlockID.PartSetHeader.Hash",
	"LastCommitHash", "DataHash", "ValidatorsHash", "NextValidatorsHash", "ConsensusHash", "AppHash",
	"LastResultsHash", "EvidenceHash", "ProposerAddress",
}

func c16edKey(v *core.Validator) (cmted.PubKey, bool) {
	if v == nil || v.PubKey == nil {
		return nil, false
	}
	pk, ok := v.PubKey.(cmted.PubKey)
	if !ok || len(pk) != stded.PublicKeySize {
		return nil, false
	}
	return pk, true
}

// c16valsetHash: merkle root over SimpleValidator{pub_key, voting_power} in set order.
func c16valsetHash(vs *core.ValidatorSet) ([]byte, bool) {
	leaves := make([][]byte, 0, len(vs.Validators))
	for _, v := range vs.Validators {
		pk, ok := c16edKey(v)
		if !ok {
			return nil, false
		}
		pkmsg := c16pbBytes(nil, 1, pk, true)
		var sv []byte
		sv = c16pbBytes(sv, 1, pkmsg, true)
		sv = c16pbVarint(sv, 2, uint64(v.VotingPower))
		leaves = append(leaves, sv)
	}
	return c16merkle(leaves), true
}

// c16dahHash: merkle root over all row roots followed by all column roots.
func c16dahHash(rows, cols [][]byte) []byte {
	all := make([][]byte, 0, len(rows)+len(cols))
	all = append(all, rows...)
	all = append(all, cols...)
	return c16merkle(all)
}

func c16addr(pk []byte) string {
	h := sha256.Sum256(pk)
	return string(h[:20])
}

// c16facts are the four independently recomputed facts of the statement.
type c16facts struct {
	Known     bool // model applicable (ed25519 keys, parts present where needed)
	DAH       bool // hash(DAH) == DataHash
	Vals      bool // hash(ValidatorSet) == ValidatorsHash
	CommitFor bool // Commit.BlockID.Hash == hash(RawHeader) and heights agree
	Power     bool // valid signatures for this block id carry > 2/3 of the set's power
	Tally     string
	Total     string
}

func (f c16facts) all() bool { return f.DAH && f.Vals && f.CommitFor && f.Power }

func (f c16facts) failed() string {
	var s []string
	if !f.DAH {
		s = append(s, "dah-hash")
	}
	if !f.Vals {
		s = append(s, "valset-hash")
	}
	if !f.CommitFor {
		s = append(s, "commit-for-header")
	}
	if !f.Power {
		s = append(s, "2/3-power")
	}
	return strings.Join(s, ",")
}

func c16Facts(h *c16hdr) c16facts {
	f := c16facts{Known: true}
	if h.DAH != nil {
		f.DAH = bytes.Equal(c16dahHash(h.DAH.RowRoots, h.DAH.ColumnRoots), h.DataHash) && len(h.DataHash) == sha256.Size
	}
	if h.ValidatorSet != nil {
		vh, ok := c16valsetHash(h.ValidatorSet)
		if !ok {
			// nil members / non-ed25519 keys: model not applicable to the signature tally
			allNilOrEd := true
			for _, v := range h.ValidatorSet.Validators {
				if v != nil && v.PubKey != nil {
					if _, ok := c16edKey(v); !ok {
						allNilOrEd = false
					}
				}
			}
			if !allNilOrEd {
				f.Known = false
			}
		} else {
			f.Vals = bytes.Equal(vh, h.ValidatorsHash)
		}
	}
	if h.Commit != nil {
		f.CommitFor = bytes.Equal(h.Commit.BlockID.Hash, c16headerHash(&h.RawHeader)) && h.Commit.Height == h.RawHeader.Height
	}
	if h.Commit != nil && h.ValidatorSet != nil {
		total, tally := new(big.Int), new(big.Int)
		neg := false
		for _, v := range h.ValidatorSet.Validators {
			if v == nil {
				continue
			}
			if v.VotingPower < 0 {
				neg = true
			}
			total.Add(total, big.NewInt(v.VotingPower))
		}
		for idx, s := range h.Commit.Signatures {
			if s.BlockIDFlag != core.BlockIDFlagCommit || idx >= len(h.ValidatorSet.Validators) {
				continue
			}
			v := h.ValidatorSet.Validators[idx]
			pk, ok := c16edKey(v)
			if !ok {
				continue
			}
			var sb []byte
			if p, _ := vkit.Recover(func() { sb = h.Commit.VoteSignBytes(h.RawHeader.ChainID, int32(idx)) }); p != nil {
				continue
			}
			if stded.Verify(stded.PublicKey(pk), sb, s.Signature) {
				tally.Add(tally, big.NewInt(v.VotingPower))
			}
		}
		f.Tally, f.Total = tally.String(), total.String()
		l := new(big.Int).Mul(tally, big.NewInt(3))
		r := new(big.Int).Mul(total, big.NewInt(2))
		f.Power = !neg && l.Cmp(r) > 0
	}
	return f
}

// c16trustTally: voting power (in the trusted set) of distinct trusted validators whose signature
// on the untrusted commit verifies, and the trusted total.
func c16trustTally(t, u *c16hdr) (tally, total *big.Int, known bool) {
	tally, total = new(big.Int), new(big.Int)
	if t.ValidatorSet == nil || u.Commit == nil {
		return tally, total, true
	}
	byAddr := map[string]int{}
	for i, v := range t.ValidatorSet.Validators {
		pk, ok := c16edKey(v)
		if !ok {
			return tally, total, false
		}
		total.Add(total, big.NewInt(v.VotingPower))
		if _, dup := byAddr[c16addr(pk)]; !dup {
			byAddr[c16addr(pk)] = i
		}
	}
	seen := map[int]bool{}
	for idx, s := range u.Commit.Signatures {
		if s.BlockIDFlag != core.BlockIDFlagCommit {
			continue
		}
		vi, ok := byAddr[string(s.ValidatorAddress)]
		if !ok || seen[vi] {
			continue
		}
		v := t.ValidatorSet.Validators[vi]
		pk, _ := c16edKey(v)
		var sb []byte
		if p, _ := vkit.Recover(func() { sb = u.Commit.VoteSignBytes(t.RawHeader.ChainID, int32(idx)) }); p != nil {
			continue
		}
		if stded.Verify(stded.PublicKey(pk), sb, s.Signature) {
			seen[vi] = true
			tally.Add(tally, big.NewInt(v.VotingPower))
		}
	}
	return tally, total, true
}

// ---------------------------------------------------------------------------------------------
// reflection over RawHeader

type c16leaf struct {
	name  string
	index []int
	typ   reflect.Type
}

var c16timeType = reflect.TypeOf(time.Time{})

func c16leavesOf(t reflect.Type, prefix string, idx []int, out *[]c16leaf, unexported *[]string) {
	for i := 0; i < t.NumField(); i++ {
		f := t.Field(i)
		path := append(append([]int{}, idx...), i)
		if f.PkgPath != "" {
			*unexported = append(*unexported, prefix+f.Name)
			continue
		}
		if f.Type.Kind() == reflect.Struct && f.Type != c16timeType {
			c16leavesOf(f.Type, prefix+f.Name+".", path, out, unexported)
			continue
		}
		*out = append(*out, c16leaf{name: prefix + f.Name, index: path, typ: f.Type})
	}
}

func c16rawLeaves() (leaves []c16leaf, unexported []string) {
	c16leavesOf(reflect.TypeOf(core.Header{}), "", nil, &leaves, &unexported)
	return
}

func c16isBytes(t reflect.Type) bool {
	return t.Kind() == reflect.Slice && t.Elem().Kind() == reflect.Uint8
}

// c16leafEqual compares two leaf values by their committed meaning (nil == empty bytes, instants).
func c16leafEqual(a, b reflect.Value) bool {
	switch {
	case a.Type() == c16timeType:
		return a.Interface().(time.Time).Equal(b.Interface().(time.Time))
	case c16isBytes(a.Type()):
		return bytes.Equal(a.Bytes(), b.Bytes())
	default:
		return reflect.DeepEqual(a.Interface(), b.Interface())
	}
}

func c16deepCopy(dst, src reflect.Value) {
	switch {
	case src.Type() == c16timeType:
		dst.Set(src)
	case src.Kind() == reflect.Struct:
		for i := 0; i < src.NumField(); i++ {
			if src.Type().Field(i).PkgPath != "" {
				continue
			}
			c16deepCopy(dst.Field(i), src.Field(i))
		}
	case c16isBytes(src.Type()):
		if src.IsNil() {
			dst.Set(reflect.Zero(src.Type()))
		} else {
			nb := reflect.MakeSlice(src.Type(), src.Len(), src.Len())
			reflect.Copy(nb, src)
			dst.Set(nb)
		}
	default:
		dst.Set(src)
	}
}

// ---------------------------------------------------------------------------------------------
// fresh deep copies (no memoised hashes / cached totals: exactly what a decoder would produce)

func c16cpb(b []byte) []byte {
	if b == nil {
		return nil
	}
	return append([]byte{}, b...)
}

func c16cpbs(in [][]byte) [][]byte {
	if in == nil {
		return nil
	}
	out := make([][]byte, len(in))
	for i := range in {
		out[i] = c16cpb(in[i])
	}
	return out
}

func c16cloneBlockID(id core.BlockID) core.BlockID {
	return core.BlockID{Hash: c16cpb(id.Hash), PartSetHeader: core.PartSetHeader{Total: id.PartSetHeader.Total, Hash: c16cpb(id.PartSetHeader.Hash)}}
}

func c16cloneCommit(c *core.Commit) *core.Commit {
	if c == nil {
		return nil
	}
	out := &core.Commit{Height: c.Height, Round: c.Round, BlockID: c16cloneBlockID(c.BlockID)}
	if c.Signatures != nil {
		out.Signatures = make([]core.CommitSig, len(c.Signatures))
		for i, s := range c.Signatures {
			out.Signatures[i] = core.CommitSig{BlockIDFlag: s.BlockIDFlag, ValidatorAddress: c16cpb(s.ValidatorAddress), Timestamp: s.Timestamp, Signature: c16cpb(s.Signature)}
		}
	}
	return out
}

func c16cloneVal(v *core.Validator) *core.Validator {
	if v == nil {
		return nil
	}
	out := &core.Validator{Address: c16cpb(v.Address), PubKey: v.PubKey, VotingPower: v.VotingPower, ProposerPriority: v.ProposerPriority}
	if pk, ok := v.PubKey.(cmted.PubKey); ok {
		out.PubKey = cmted.PubKey(c16cpb(pk))
	}
	return out
}

func c16cloneVals(vs *core.ValidatorSet) *core.ValidatorSet {
	if vs == nil {
		return nil
	}
	out := &core.ValidatorSet{Proposer: c16cloneVal(vs.Proposer)}
	if vs.Validators != nil {
		out.Validators = make([]*core.Validator, len(vs.Validators))
		for i, v := range vs.Validators {
			out.Validators[i] = c16cloneVal(v)
		}
	}
	return out
}

func c16cloneDAH(d *da.DataAvailabilityHeader) *da.DataAvailabilityHeader {
	if d == nil {
		return nil
	}
	return &da.DataAvailabilityHeader{RowRoots: c16cpbs(d.RowRoots), ColumnRoots: c16cpbs(d.ColumnRoots)}
}

func c16clone(h *c16hdr) *c16hdr {
	out := &c16hdr{Commit: c16cloneCommit(h.Commit), ValidatorSet: c16cloneVals(h.ValidatorSet), DAH: c16cloneDAH(h.DAH)}
	c16deepCopy(reflect.ValueOf(&out.RawHeader).Elem(), reflect.ValueOf(&h.RawHeader).Elem())
	return out
}

func c16blockIDEqual(a, b core.BlockID) bool {
	return bytes.Equal(a.Hash, b.Hash) && a.PartSetHeader.Total == b.PartSetHeader.Total && bytes.Equal(a.PartSetHeader.Hash, b.PartSetHeader.Hash)
}

func c16commitEqual(a, b *core.Commit) bool {
	if a == nil || b == nil {
		return false
	}
	if a.Height != b.Height || a.Round != b.Round || !c16blockIDEqual(a.BlockID, b.BlockID) || len(a.Signatures) != len(b.Signatures) {
		return false
	}
	for i := range a.Signatures {
		x, y := a.Signatures[i], b.Signatures[i]
		if x.BlockIDFlag != y.BlockIDFlag || !bytes.Equal(x.ValidatorAddress, y.ValidatorAddress) || !x.Timestamp.Equal(y.Timestamp) || !bytes.Equal(x.Signature, y.Signature) {
			return false
		}
	}
	return true
}

func c16rootsEqual(a, b [][]byte) bool {
	if len(a) != len(b) {
		return false
	}
	for i := range a {
		if !bytes.Equal(a[i], b[i]) {
			return false
		}
	}
	return true
}

// c16committedChanged lists the committed parts in which m differs from orig: raw header leaves
// (by reflection), the DAH root lists, the validator set's (key, power) list.
func c16committedChanged(leaves []c16leaf, orig, m *c16hdr) []string {
	var out []string
	ov, mv := reflect.ValueOf(&orig.RawHeader).Elem(), reflect.ValueOf(&m.RawHeader).Elem()
	for _, l := range leaves {
		if !c16leafEqual(ov.FieldByIndex(l.index), mv.FieldByIndex(l.index)) {
			out = append(out, "raw."+l.name)
		}
	}
	switch {
	case (orig.DAH == nil) != (m.DAH == nil):
		out = append(out, "dah")
	case orig.DAH != nil:
		if !c16rootsEqual(orig.DAH.RowRoots, m.DAH.RowRoots) || !c16rootsEqual(orig.DAH.ColumnRoots, m.DAH.ColumnRoots) {
			out = append(out, "dah")
		}
	}
	switch {
	case (orig.ValidatorSet == nil) != (m.ValidatorSet == nil):
		out = append(out, "valset")
	case orig.ValidatorSet != nil:
		a, b := orig.ValidatorSet.Validators, m.ValidatorSet.Validators
		diff := len(a) != len(b)
		for i := 0; !diff && i < len(a); i++ {
			if (a[i] == nil) != (b[i] == nil) {
				diff = true
			} else if a[i] != nil {
				var ab, bb []byte
				if a[i].PubKey != nil {
					ab = a[i].PubKey.Bytes()
				}
				if b[i].PubKey != nil {
					bb = b[i].PubKey.Bytes()
				}
				diff = !bytes.Equal(ab, bb) || a[i].VotingPower != b[i].VotingPower
			}
		}
		if diff {
			out = append(out, "valset")
		}
	}
	return out
}

func c16blockKey(id core.BlockID) string {
	return fmt.Sprintf("%x|%d|%x", []byte(id.Hash), id.PartSetHeader.Total, []byte(id.PartSetHeader.Hash))
}

// c16subsets picks index subsets of the weights w: `below` has the largest sum s with
// s*den <= total*num, `above` the smallest sum with s*den > total*num (nil when impossible).
// Exhaustive for up to 12 weights, greedy beyond.
func c16subsets(w []int64, total, num, den int64) (below, above []int, belowSum, aboveSum int64) {
	le := func(s int64) bool {
		return new(big.Int).Mul(big.NewInt(s), big.NewInt(den)).Cmp(new(big.Int).Mul(big.NewInt(total), big.NewInt(num))) <= 0
	}
	n := len(w)
	if n <= 12 {
		bestB, bestA := -1, -1
		belowSum, aboveSum = -1, -1
		for mask := 0; mask < 1<<n; mask++ {
			var s int64
			for i := 0; i < n; i++ {
				if mask&(1<<i) != 0 {
					s += w[i]
				}
			}
			if le(s) {
				if s > belowSum {
					belowSum, bestB = s, mask
				}
			} else if aboveSum < 0 || s < aboveSum {
				aboveSum, bestA = s, mask
			}
		}
		toIdx := func(mask int) []int {
			var o []int
			for i := 0; i < n; i++ {
				if mask&(1<<i) != 0 {
					o = append(o, i)
				}
			}
			return o
		}
		if bestB >= 0 {
			below = toIdx(bestB)
			if below == nil {
				below = []int{}
			}
		}
		if bestA >= 0 {
			above = toIdx(bestA)
		}
		return
	}
	// greedy: take in order while staying at or below; the first that crosses closes `above`
	below = []int{}
	for i := 0; i < n; i++ {
		if le(belowSum + w[i]) {
			below = append(below, i)
			belowSum += w[i]
		} else if above == nil {
			above = append(append([]int{}, below...), i)
			aboveSum = belowSum + w[i]
		}
	}
	return
}
