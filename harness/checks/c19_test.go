package checks

import (
	"bytes"
	"context"
	"crypto/hmac"
	"crypto/sha256"
	"encoding/base64"
	"encoding/json"
	"fmt"
	"net/http"
	"os"
	"path/filepath"
	"reflect"
	"regexp"
	"sort"
	"strconv"
	"strings"
	"sync"
	"testing"
	"time"

	"github.com/cristalhq/jwt/v5"
	"github.com/filecoin-project/go-jsonrpc"
	"github.com/filecoin-project/go-jsonrpc/auth"
	logging "github.com/ipfs/go-log/v2"
	p2pcrypto "github.com/libp2p/go-libp2p/core/crypto"
	"github.com/libp2p/go-libp2p/core/peer"
	"github.com/multiformats/go-multiaddr"

	"github.com/celestiaorg/celestia-node/api/docgen"
	"github.com/celestiaorg/celestia-node/api/rpc"
	"github.com/celestiaorg/celestia-node/api/rpc/client"
	"github.com/celestiaorg/celestia-node/api/rpc/perms"
	"github.com/celestiaorg/celestia-node/libs/authtoken"
	nbrpc "github.com/celestiaorg/celestia-node/nodebuilder/rpc"
	"github.com/celestiaorg/celestia-node/zz_verif/vkit"
)

// C19 — RPC methods are reachable only with the permission they require.
//
// Harness: the node's own server constructor (nodebuilder/rpc.server) and the node's own
// registerEndpoints are called (export hook nodebuilder/rpc/verif_export.go) with REFLECTIVE STUBS:
// one API struct value per module of client.Client whose `Internal` function fields are filled by
// reflect.MakeFunc with recorders. So every method that exists at check time is covered. Calls go
// through the real typed client (client.NewClient; a hand-assembled client.Client over
// jsonrpc.NewClient only for credentials NewClient cannot express: raw Authorization headers) with
// well-typed arguments (api/docgen example values, checked to JSON round-trip), over http:// and ws://.
//
// Oracle (auth enabled), per (method, credential):
//   valid token   : stub reached ⇔ `perm` tag of the method ∈ permissions the token lists
//   no token      : stub reached ⇔ tag == "public"
//   bad credential: stub reached ⇒ tag == "public"   (expired / wrong key / wrong alg / tampered / garbage / empty)
// auth disabled   : callers without a token or with a valid token reach every method.
// Sensitivity floor (policy/rpc_floor.json, derived from the statement's categories): tag ≥ min.
//
// The expected grants are literals of this file, not perms.* (which is code under test).

const c19Sentinel = "c19-stub-reached:"

var c19Rank = map[string]int{"public": 0, "read": 1, "write": 2, "admin": 3}

type c19Rec struct {
	mu    sync.Mutex
	hits  map[string]int
	total int
}

func (r *c19Rec) hit(k string) {
	r.mu.Lock()
	r.hits[k]++
	r.total++
	r.mu.Unlock()
}

func (r *c19Rec) snap(k string) (int, int) {
	r.mu.Lock()
	defer r.mu.Unlock()
	return r.hits[k], r.total
}

type c19Module struct {
	NS          string
	ClientField string
	APIType     reflect.Type
	Internal    reflect.Type
}

type c19Method struct {
	Mod    *c19Module
	Name   string
	Key    string
	Perm   string
	Type   reflect.Type
	Chan   bool
	Args   []reflect.Value
	ArgSrc []string
	ArgErr string
}

type c19Cred struct {
	Name     string
	Kind     string   // none | valid | bad
	Grants   []string // permissions the oracle expects the credential to grant
	Token    string   // handed to client.NewClient as bearer token
	RawAuth  *string  // raw Authorization header value
	Query    bool     // token passed as ?token=
	Complete bool     // granted ⇒ reached is part of the verdict
	What     string
}

type c19Mode struct {
	Name                    string
	SkipAuth, CORS, Metrics bool
}

type c19Finding struct {
	sig       string
	witnesses []any
	n         int
}

type c19 struct {
	run      *vkit.Run
	mu       sync.Mutex
	findings map[string]*c19Finding
	order    []string
	summary  map[string]map[string]map[string]int // mode → cred → outcome → n
	sampled  int
}

func (c *c19) finding(sig string, witness any) {
	c.mu.Lock()
	defer c.mu.Unlock()
	f := c.findings[sig]
	if f == nil {
		f = &c19Finding{sig: sig}
		c.findings[sig] = f
		c.order = append(c.order, sig)
	}
	f.n++
	if len(f.witnesses) < 120 {
		f.witnesses = append(f.witnesses, witness)
	}
}

func (c *c19) tally(mode, cred, outcome string) {
	c.mu.Lock()
	defer c.mu.Unlock()
	if c.summary[mode] == nil {
		c.summary[mode] = map[string]map[string]int{}
	}
	if c.summary[mode][cred] == nil {
		c.summary[mode][cred] = map[string]int{}
	}
	c.summary[mode][cred][outcome]++
}

// ---------------------------------------------------------------------------------------------
// discovery: modules and methods from client.Client / client.Modules by reflection

var c19CtxType = reflect.TypeOf((*context.Context)(nil)).Elem()
var c19ErrType = reflect.TypeOf((*error)(nil)).Elem()

func c19Discover(run *vkit.Run) ([]*c19Module, []*c19Method) {
	nsByInternal := map[reflect.Type]string{}
	for ns, p := range client.Modules {
		nsByInternal[reflect.TypeOf(p)] = ns
	}
	used := map[string]bool{}
	var mods []*c19Module
	ct := reflect.TypeOf(client.Client{})
	for i := 0; i < ct.NumField(); i++ {
		f := ct.Field(i)
		if !f.IsExported() || f.Type.Kind() != reflect.Struct {
			continue
		}
		in, ok := f.Type.FieldByName("Internal")
		if !ok || in.Type.Kind() != reflect.Struct {
			continue
		}
		ns, ok := nsByInternal[reflect.PointerTo(in.Type)]
		if !ok {
			run.Inconclusive("client.Client field " + f.Name + " has no namespace in client.Modules")
			continue
		}
		used[ns] = true
		mods = append(mods, &c19Module{NS: ns, ClientField: f.Name, APIType: f.Type, Internal: in.Type})
	}
	for ns := range client.Modules {
		if !used[ns] {
			run.Inconclusive("client.Modules namespace " + ns + " has no API field in client.Client")
		}
	}
	sort.Slice(mods, func(i, j int) bool { return mods[i].NS < mods[j].NS })

	var methods []*c19Method
	for _, m := range mods {
		fields := map[string]bool{}
		for j := 0; j < m.Internal.NumField(); j++ {
			f := m.Internal.Field(j)
			fields[f.Name] = true
			key := m.NS + "." + f.Name
			if f.Type.Kind() != reflect.Func || f.Type.NumIn() < 1 || f.Type.In(0) != c19CtxType {
				run.Inconclusive("Internal field " + key + " is not func(context.Context, ...)")
				continue
			}
			me := &c19Method{Mod: m, Name: f.Name, Key: key, Perm: f.Tag.Get("perm"), Type: f.Type}
			for o := 0; o < f.Type.NumOut(); o++ {
				if f.Type.Out(o).Kind() == reflect.Chan {
					me.Chan = true
				}
			}
			methods = append(methods, me)
		}
		// every method of *API is registered by go-jsonrpc; one without an Internal field would
		// bypass the permission proxy and is not covered by the matrix
		pt := reflect.PointerTo(m.APIType)
		for k := 0; k < pt.NumMethod(); k++ {
			if !fields[pt.Method(k).Name] {
				run.Inconclusive("method " + m.NS + "." + pt.Method(k).Name + " of the API type has no Internal field (not behind the permission proxy, not covered)")
			}
		}
	}
	return mods, methods
}

// ---------------------------------------------------------------------------------------------
// arguments

func c19RoundTrips(t reflect.Type, v reflect.Value) (ok bool, why string) {
	p, site := vkit.Recover(func() {
		b, err := json.Marshal(v.Interface())
		if err != nil {
			why = "marshal: " + err.Error()
			return
		}
		rp := reflect.New(t)
		if err := json.NewDecoder(bytes.NewReader(b)).Decode(rp.Interface()); err != nil {
			why = "unmarshal: " + err.Error()
			return
		}
		ok = true
	})
	if p != nil {
		return false, fmt.Sprintf("panic %v @%s", p, site)
	}
	return ok, why
}

func c19BuildArg(t reflect.Type, fallback map[reflect.Type]any) (reflect.Value, string, string) {
	type cand struct {
		src string
		get func() any
	}
	cands := []cand{
		{"docgen", func() any {
			var v any
			vkit.Recover(func() {
				x, err := docgen.VerifExampleValue(t)
				if err == nil {
					v = x
				}
			})
			return v
		}},
		{"fallback", func() any { return fallback[t] }},
		{"zero", func() any { return reflect.Zero(t).Interface() }},
	}
	var whys []string
	for _, cd := range cands {
		x := cd.get()
		nv := reflect.New(t).Elem()
		if x == nil {
			if cd.src != "zero" {
				continue
			}
		} else {
			rv := reflect.ValueOf(x)
			if !rv.Type().AssignableTo(t) {
				whys = append(whys, cd.src+": type "+rv.Type().String()+" not assignable")
				continue
			}
			nv.Set(rv)
		}
		ok, why := c19RoundTrips(t, nv)
		if ok {
			return nv, cd.src, ""
		}
		whys = append(whys, cd.src+": "+why)
	}
	return reflect.Value{}, "", strings.Join(whys, "; ")
}

func c19Fallbacks(r *vkit.RNG) map[reflect.Type]any {
	fb := map[reflect.Type]any{}
	_, pub, err := p2pcrypto.GenerateEd25519Key(bytes.NewReader(r.Bytes(64)))
	if err == nil {
		if id, err := peer.IDFromPublicKey(pub); err == nil {
			fb[reflect.TypeOf(id)] = id
			ma, _ := multiaddr.NewMultiaddr("/ip4/127.0.0.1/tcp/" + strconv.Itoa(2000+r.Intn(30000)))
			fb[reflect.TypeOf(peer.AddrInfo{})] = peer.AddrInfo{ID: id, Addrs: []multiaddr.Multiaddr{ma}}
		}
	}
	return fb
}

// ---------------------------------------------------------------------------------------------
// credentials

func c19B64(b []byte) string { return base64.RawURLEncoding.EncodeToString(b) }

func c19HandToken(alg string, key []byte, payload any) string {
	hdr := c19B64([]byte(`{"alg":"` + alg + `","typ":"JWT"}`))
	pb, _ := json.Marshal(payload)
	in := hdr + "." + c19B64(pb)
	if alg == "none" {
		return in + "."
	}
	m := hmac.New(sha256.New, key)
	m.Write([]byte(in))
	return in + "." + c19B64(m.Sum(nil))
}

func c19Creds(run *vkit.Run, r *vkit.RNG, key []byte, signer jwt.Signer) []*c19Cred {
	var out []*c19Cred
	mint := func(what string, p []auth.Permission, ttl time.Duration) string {
		tok, err := authtoken.NewSignedJWT(signer, p, ttl)
		if err != nil {
			run.Inconclusive("cannot mint token " + what + ": " + err.Error())
		}
		return tok
	}
	payload := func(allow []auth.Permission, exp time.Time) perms.JWTPayload {
		return perms.JWTPayload{Allow: allow, Nonce: r.Bytes(32), ExpiresAt: exp}
	}
	P := func(s ...string) []auth.Permission {
		o := make([]auth.Permission, 0, len(s))
		for _, x := range s {
			o = append(o, auth.Permission(x))
		}
		return o
	}
	add := func(c *c19Cred) { out = append(out, c) }

	add(&c19Cred{Name: "none", Kind: "none", Complete: true, What: "no Authorization header"})
	// permission levels as the node / CLI mint them (authtoken.NewSignedJWT over perms.*Perms);
	// expected grants are literals
	add(&c19Cred{Name: "level-public", Kind: "valid", Grants: []string{"public"}, Complete: true,
		Token: mint("public", perms.DefaultPerms, 0), What: "`auth public`: NewSignedJWT(perms.DefaultPerms)"})
	add(&c19Cred{Name: "level-read", Kind: "valid", Grants: []string{"public", "read"}, Complete: true,
		Token: mint("read", perms.ReadPerms, 0), What: "`auth read`: NewSignedJWT(perms.ReadPerms)"})
	add(&c19Cred{Name: "level-write", Kind: "valid", Grants: []string{"public", "read", "write"}, Complete: true,
		Token: mint("write", perms.ReadWritePerms, 0), What: "`auth write`: NewSignedJWT(perms.ReadWritePerms)"})
	add(&c19Cred{Name: "level-admin", Kind: "valid", Grants: []string{"public", "read", "write", "admin"}, Complete: true,
		Token: mint("admin", perms.AllPerms, 0), What: "`auth admin`: NewSignedJWT(perms.AllPerms)"})
	if tk, err := perms.NewTokenWithTTL(signer, perms.ReadWritePerms, 24*time.Hour); err == nil {
		add(&c19Cred{Name: "level-write-ttl24h", Kind: "valid", Grants: []string{"public", "read", "write"}, Complete: true,
			Token: string(tk), What: "perms.NewTokenWithTTL(ReadWritePerms, 24h): unexpired"})
	} else {
		run.Inconclusive("NewTokenWithTTL: " + err.Error())
	}
	add(&c19Cred{Name: "admin-exp-2100", Kind: "valid", Grants: []string{"public", "read", "write", "admin"}, Complete: true,
		Token: c19HandToken("HS256", key, payload(P("public", "read", "write", "admin"), time.Date(2100, 1, 1, 0, 0, 0, 0, time.UTC))),
		What:  "hand-signed (right key), ExpiresAt=2100-01-01"})
	// custom permission lists (node.AuthNew accepts any list): grants are exactly what is listed
	add(&c19Cred{Name: "custom-admin-only", Kind: "valid", Grants: []string{"admin"}, Complete: true,
		Token: mint("admin-only", P("admin"), 0), What: "Allow=[admin]"})
	add(&c19Cred{Name: "custom-write-only", Kind: "valid", Grants: []string{"write"}, Complete: true,
		Token: mint("write-only", P("write"), 0), What: "Allow=[write]"})
	add(&c19Cred{Name: "custom-read-only", Kind: "valid", Grants: []string{"read"}, Complete: true,
		Token: mint("read-only", P("read"), 0), What: "Allow=[read]"})
	add(&c19Cred{Name: "custom-empty-allow", Kind: "valid", Grants: nil, Complete: true,
		Token: mint("empty", P(), 0), What: "Allow=[]"})
	add(&c19Cred{Name: "custom-unknown-perms", Kind: "valid", Grants: []string{"root", "Admin", "ADMIN", " admin", "admin ", "*"}, Complete: true,
		Token: mint("unknown", P("root", "Admin", "ADMIN", " admin", "admin ", "*"), 0), What: "Allow lists only strings that are not permissions"})
	// bad credentials: grant nothing
	if tk, err := perms.NewTokenWithTTL(signer, perms.AllPerms, -time.Hour); err == nil {
		add(&c19Cred{Name: "expired-ttl", Kind: "bad", Token: string(tk), What: "perms.NewTokenWithTTL(AllPerms, -1h): expired an hour ago"})
	}
	add(&c19Cred{Name: "expired-2000", Kind: "bad",
		Token: c19HandToken("HS256", key, payload(P("public", "read", "write", "admin"), time.Date(2000, 1, 1, 0, 0, 0, 0, time.UTC))),
		What:  "right key, ExpiresAt=2000-01-01"})
	other := r.Bytes(32)
	add(&c19Cred{Name: "other-key", Kind: "bad",
		Token: c19HandToken("HS256", other, payload(P("public", "read", "write", "admin"), time.Time{})), What: "admin token signed with another HS256 key"})
	if s512, err := jwt.NewSignerHS(jwt.HS512, key); err == nil {
		if tk, err := authtoken.NewSignedJWT(s512, perms.AllPerms, 0); err == nil {
			add(&c19Cred{Name: "other-alg-hs512", Kind: "bad", Token: tk, What: "admin token signed HS512 with the server's key bytes"})
		}
	}
	add(&c19Cred{Name: "alg-none", Kind: "bad",
		Token: c19HandToken("none", nil, payload(P("public", "read", "write", "admin"), time.Time{})), What: "alg=none, empty signature"})
	{
		rd := strings.Split(mint("read-for-tamper", perms.ReadPerms, 0), ".")
		ad := strings.Split(mint("admin-for-tamper", perms.AllPerms, 0), ".")
		if len(rd) == 3 && len(ad) == 3 {
			add(&c19Cred{Name: "tampered-payload", Kind: "bad", Token: rd[0] + "." + ad[1] + "." + rd[2],
				What: "read token whose payload was replaced by an admin payload (signature of the read token)"})
			add(&c19Cred{Name: "truncated-signature", Kind: "bad", Token: ad[0] + "." + ad[1] + "." + ad[2][:len(ad[2])-2],
				What: "admin token with the last two signature characters removed"})
			add(&c19Cred{Name: "no-signature", Kind: "bad", Token: ad[0] + "." + ad[1] + ".", What: "admin token with the signature removed"})
		}
	}
	add(&c19Cred{Name: "garbage", Kind: "bad", Token: "garbage-" + c19B64(r.Bytes(12)), What: "not a JWT"})
	add(&c19Cred{Name: "garbage-3-parts", Kind: "bad", Token: c19B64(r.Bytes(20)) + "." + c19B64(r.Bytes(40)) + "." + c19B64(r.Bytes(32)), What: "three random base64url segments"})
	eb, eb2 := "Bearer ", "Bearer"
	add(&c19Cred{Name: "empty-bearer", Kind: "bad", RawAuth: &eb, What: `Authorization: "Bearer " (empty token)`})
	add(&c19Cred{Name: "bearer-word-only", Kind: "bad", RawAuth: &eb2, What: `Authorization: "Bearer"`})
	// token in the ?token= query parameter (go-jsonrpc's auth handler accepts it): soundness only
	add(&c19Cred{Name: "query-level-read", Kind: "valid", Grants: []string{"public", "read"}, Query: true,
		Token: mint("read-q", perms.ReadPerms, 0), What: "?token=<read token>; completeness not demanded"})
	add(&c19Cred{Name: "query-expired", Kind: "bad", Query: true,
		Token: c19HandToken("HS256", key, payload(P("public", "read", "write", "admin"), time.Date(2000, 1, 1, 0, 0, 0, 0, time.UTC))), What: "?token=<expired admin token>"})
	add(&c19Cred{Name: "query-other-key", Kind: "bad", Query: true,
		Token: c19HandToken("HS256", other, payload(P("public", "read", "write", "admin"), time.Time{})), What: "?token=<admin token, other key>"})
	return out
}

// ---------------------------------------------------------------------------------------------
// server with reflective stubs

type c19Server struct {
	mode c19Mode
	srv  *rpc.Server
	addr string
	rec  *c19Rec
}

func c19Stub(rec *c19Rec, m *c19Module) reflect.Value {
	api := reflect.New(m.APIType)
	in := api.Elem().FieldByName("Internal")
	for j := 0; j < m.Internal.NumField(); j++ {
		f := m.Internal.Field(j)
		if f.Type.Kind() != reflect.Func {
			continue
		}
		key := m.NS + "." + f.Name
		ft := f.Type
		in.Field(j).Set(reflect.MakeFunc(ft, func([]reflect.Value) []reflect.Value {
			rec.hit(key)
			outs := make([]reflect.Value, ft.NumOut())
			for o := range outs {
				outs[o] = reflect.Zero(ft.Out(o))
				if ft.Out(o) == c19ErrType {
					err := fmt.Errorf("%s%s", c19Sentinel, key)
					outs[o] = reflect.ValueOf(&err).Elem()
				}
			}
			return outs
		}))
	}
	return api
}

func c19StartServer(ctx context.Context, run *vkit.Run, mode c19Mode, mods []*c19Module, signer jwt.Signer, verifier jwt.Verifier) *c19Server {
	s := &c19Server{mode: mode, rec: &c19Rec{hits: map[string]int{}}}
	cfg := nbrpc.DefaultConfig()
	cfg.Address, cfg.Port, cfg.SkipAuth = "127.0.0.1", "0", mode.SkipAuth
	cfg.CORS.Enabled = mode.CORS
	if err := cfg.Validate(); err != nil {
		run.Inconclusive("rpc config invalid: " + err.Error())
		return nil
	}
	var fail string
	p, site := vkit.Recover(func() {
		s.srv = nbrpc.VerifServer(&cfg, signer, verifier)
		if mode.Metrics {
			if err := nbrpc.WithMetrics(s.srv); err != nil {
				fail = "WithMetrics: " + err.Error()
				return
			}
		}
		fn := reflect.ValueOf(nbrpc.VerifRegisterEndpoints)
		ft := fn.Type()
		usedMod := map[string]bool{}
		args := make([]reflect.Value, ft.NumIn())
		for i := 0; i < ft.NumIn(); i++ {
			pt := ft.In(i)
			if pt == reflect.TypeOf(s.srv) {
				args[i] = reflect.ValueOf(s.srv)
				continue
			}
			if pt.Kind() != reflect.Interface {
				fail = "registerEndpoints parameter " + pt.String() + " is neither a module interface nor *rpc.Server"
				return
			}
			var match []*c19Module
			for _, m := range mods {
				if reflect.PointerTo(m.APIType).Implements(pt) {
					match = append(match, m)
				}
			}
			if len(match) != 1 {
				fail = fmt.Sprintf("registerEndpoints parameter %s is implemented by %d API types of client.Client (module lists of nodebuilder/rpc and api/rpc/client differ)", pt, len(match))
				return
			}
			if usedMod[match[0].NS] {
				fail = "module " + match[0].NS + " consumed twice by registerEndpoints"
				return
			}
			usedMod[match[0].NS] = true
			args[i] = c19Stub(s.rec, match[0])
		}
		for _, m := range mods {
			if !usedMod[m.NS] {
				fail = "client module " + m.NS + " is not a parameter of nodebuilder/rpc.registerEndpoints"
				return
			}
		}
		fn.Call(args)
	})
	if p != nil {
		run.Inconclusive(fmt.Sprintf("mode %s: server construction / registerEndpoints panicked: %v @%s", mode.Name, p, site))
		return nil
	}
	if fail != "" {
		run.Inconclusive("mode " + mode.Name + ": " + fail)
		return nil
	}
	if err := s.srv.Start(ctx); err != nil {
		run.Inconclusive("mode " + mode.Name + ": server start: " + err.Error())
		return nil
	}
	s.addr = s.srv.ListenAddr()
	return s
}

// ---------------------------------------------------------------------------------------------
// clients

func c19Connect(ctx context.Context, mods []*c19Module, transport, addr string, cr *c19Cred) (*client.Client, func(), string, error) {
	url := transport + "://" + addr
	if cr.RawAuth == nil {
		tok := cr.Token
		if cr.Query {
			url += "/?token=" + tok
			tok = ""
		}
		cl, err := client.NewClient(ctx, url, tok)
		return cl, func() {
			if cl != nil {
				cl.Close()
			}
		}, "client.NewClient", err
	}
	cl := new(client.Client)
	hdr := http.Header{perms.AuthKey: []string{*cr.RawAuth}}
	var closers []jsonrpc.ClientCloser
	closeAll := func() {
		for _, c := range closers {
			c()
		}
	}
	for _, m := range mods {
		ptr := reflect.ValueOf(cl).Elem().FieldByName(m.ClientField).FieldByName("Internal").Addr().Interface()
		closer, err := jsonrpc.NewClient(ctx, url, m.NS, ptr, hdr)
		if err != nil {
			closeAll()
			return nil, func() {}, "jsonrpc.NewClient", err
		}
		closers = append(closers, closer)
	}
	return cl, closeAll, "jsonrpc.NewClient", nil
}

// c19Probe returns the HTTP status the server answers to a plain request carrying the credential
// (used to tell why a websocket handshake was refused).
func c19Probe(addr string, cr *c19Cred) int {
	url := "http://" + addr + "/"
	if cr.Query {
		url += "?token=" + cr.Token
	}
	req, err := http.NewRequest(http.MethodGet, url, nil)
	if err != nil {
		return -1
	}
	if cr.RawAuth != nil {
		req.Header.Set(perms.AuthKey, *cr.RawAuth)
	} else if !cr.Query && cr.Token != "" {
		req.Header.Set(perms.AuthKey, "Bearer "+cr.Token)
	}
	hc := &http.Client{Timeout: 20 * time.Second}
	resp, err := hc.Do(req)
	if err != nil {
		return -1
	}
	resp.Body.Close()
	return resp.StatusCode
}

var c19StatusRe = regexp.MustCompile(`http status (\d{3})`)

// c19Classify maps a client-side error to an outcome class.
func c19Classify(err error) string {
	if err == nil {
		return "ok"
	}
	s := err.Error()
	switch {
	case strings.Contains(s, c19Sentinel):
		return "stub"
	case strings.Contains(s, "missing permission to invoke"):
		return "denied-proxy"
	case c19StatusRe.MatchString(s):
		code, _ := strconv.Atoi(c19StatusRe.FindStringSubmatch(s)[1])
		if code >= 400 && code < 500 {
			return "refused-http-" + strconv.Itoa(code)
		}
		return "http-" + strconv.Itoa(code)
	case strings.Contains(s, "method '") && strings.Contains(s, "not found"):
		return "method-not-found"
	case strings.Contains(s, "unmarshaling param"), strings.Contains(s, "decoding params"), strings.Contains(s, "wrong param count"):
		return "param-error"
	case strings.Contains(s, "context deadline exceeded"), strings.Contains(s, "context canceled"):
		return "timeout"
	}
	return "other"
}

func c19Refusal(outcome string) bool {
	return outcome == "denied-proxy" || strings.HasPrefix(outcome, "refused-http-") || strings.HasPrefix(outcome, "refused-at-connect-")
}

// ---------------------------------------------------------------------------------------------
// oracle

func c19Has(list []string, p string) bool {
	for _, x := range list {
		if x == p {
			return true
		}
	}
	return false
}

func (c *c19) judge(mode c19Mode, transport string, cr *c19Cred, m *c19Method, reached bool, outcome, errText string) {
	run := c.run
	run.Eval(1)
	run.Distinct(mode.Name + "|" + transport + "|" + cr.Name + "|" + m.Key)
	res := outcome
	if reached {
		res = "reached"
	}
	run.Count(mode.Name+"/"+cr.Name+"/"+res, 1)
	c.tally(mode.Name, cr.Name, res)
	if reached {
		run.Count(mode.Name+"/reached", 1)
	} else if c19Refusal(outcome) {
		run.Count(mode.Name+"/denied", 1)
	}
	c.mu.Lock()
	c.sampled++
	n := c.sampled
	c.mu.Unlock()
	if n%1777 == 5 {
		run.Sample(map[string]any{"n": n, "mode": mode.Name, "transport": transport, "credential": cr.Name, "method": m.Key,
			"perm": m.Perm, "reached_stub": reached, "client_outcome": outcome})
	}
	w := map[string]any{"method": m.Key, "perm": m.Perm, "transport": transport, "client_outcome": outcome, "error": errText,
		"credential": cr.What, "grants_expected": cr.Grants}
	undecided := func() {
		run.Inconclusive(fmt.Sprintf("%s/%s/%s %s: not reached, but no permission refusal either (%s: %s)", mode.Name, transport, cr.Name, m.Key, outcome, errText))
	}
	if mode.SkipAuth {
		if cr.Kind == "bad" || (cr.Kind == "valid" && !cr.Complete) {
			return // the statement says nothing about bad tokens when authentication is off
		}
		if !reached {
			if c19Refusal(outcome) {
				c.finding(fmt.Sprintf("C19 auth disabled but call refused: cred=%s mode=%s", cr.Name, mode.Name), w)
			} else {
				undecided()
			}
		}
		return
	}
	switch cr.Kind {
	case "none":
		want := m.Perm == "public"
		if reached && !want {
			c.finding(fmt.Sprintf("C19 reached without token: need=%s mode=%s", m.Perm, mode.Name), w)
		}
		if !reached && want {
			if c19Refusal(outcome) {
				c.finding(fmt.Sprintf("C19 public method refused without token: mode=%s", mode.Name), w)
			} else {
				undecided()
			}
		}
	case "valid":
		granted := c19Has(cr.Grants, m.Perm)
		if reached && !granted {
			c.finding(fmt.Sprintf("C19 reached without permission: cred=%s need=%s mode=%s", cr.Name, m.Perm, mode.Name), w)
		}
		if !reached && granted && cr.Complete {
			if c19Refusal(outcome) {
				c.finding(fmt.Sprintf("C19 refused despite permission: cred=%s need=%s mode=%s", cr.Name, m.Perm, mode.Name), w)
			} else {
				undecided()
			}
		}
	case "bad":
		if reached && m.Perm != "public" {
			c.finding(fmt.Sprintf("C19 bad credential reached method: cred=%s mode=%s", cr.Name, mode.Name), w)
		}
	}
}

// ---------------------------------------------------------------------------------------------
// matrix for one server

func (c *c19) matrix(ctx context.Context, s *c19Server, mods []*c19Module, methods []*c19Method, creds []*c19Cred, r *vkit.RNG) {
	run := c.run
	for _, transport := range []string{"http", "ws"} {
		cs := append([]*c19Cred(nil), creds...)
		r.Shuffle(len(cs), func(i, j int) { cs[i], cs[j] = cs[j], cs[i] })
		for _, cr := range cs {
			ms := append([]*c19Method(nil), methods...)
			r.Shuffle(len(ms), func(i, j int) { ms[i], ms[j] = ms[j], ms[i] })
			_, t0 := s.rec.snap("")
			cl, closeFn, how, err := c19Connect(ctx, mods, transport, s.addr, cr)
			if err != nil {
				status := c19Probe(s.addr, cr)
				_, t1 := s.rec.snap("")
				outcome := "connect-failed"
				if status >= 400 && status < 500 {
					outcome = "refused-at-connect-" + strconv.Itoa(status)
				}
				run.Count(s.mode.Name+"/"+transport+"/connect-refused", 1)
				if t1 != t0 {
					run.Inconclusive(fmt.Sprintf("%s/%s/%s: stubs reached during a refused connection attempt", s.mode.Name, transport, cr.Name))
				}
				for _, m := range ms {
					if m.Args == nil {
						continue
					}
					c.judge(s.mode, transport, cr, m, false, outcome, how+": "+err.Error()+fmt.Sprintf(" (probe status %d)", status))
				}
				continue
			}
			run.Count(s.mode.Name+"/"+transport+"/connected", 1)
			for _, m := range ms {
				if m.Args == nil {
					continue
				}
				if m.Chan && transport == "http" {
					run.Count("skipped/channel-method-over-http", 1)
					continue
				}
				fn := reflect.ValueOf(cl).Elem().FieldByName(m.Mod.ClientField).FieldByName("Internal").FieldByName(m.Name)
				h0, t0 := s.rec.snap(m.Key)
				cctx, cancel := context.WithTimeout(ctx, 30*time.Second)
				var callErr error
				p, site := vkit.Recover(func() {
					outs := fn.Call(append([]reflect.Value{reflect.ValueOf(cctx)}, m.Args...))
					for _, o := range outs {
						if o.Type() == c19ErrType && !o.IsNil() {
							callErr = o.Interface().(error)
						}
					}
				})
				cancel()
				h1, t1 := s.rec.snap(m.Key)
				if p != nil {
					run.Inconclusive(fmt.Sprintf("%s/%s/%s %s: client call panicked: %v @%s", s.mode.Name, transport, cr.Name, m.Key, p, site))
					continue
				}
				reached := h1-h0 == 1
				outcome := c19Classify(callErr)
				errText := ""
				if callErr != nil {
					errText = callErr.Error()
				}
				if h1-h0 > 1 || (t1-t0)-(h1-h0) != 0 {
					run.Inconclusive(fmt.Sprintf("%s/%s/%s %s: recorder saw %d hits of the method and %d of other methods for one call", s.mode.Name, transport, cr.Name, m.Key, h1-h0, (t1-t0)-(h1-h0)))
					continue
				}
				if reached != (outcome == "stub") && !(reached && outcome == "ok") {
					run.Inconclusive(fmt.Sprintf("%s/%s/%s %s: recorder (reached=%v) and client outcome (%s: %s) disagree", s.mode.Name, transport, cr.Name, m.Key, reached, outcome, errText))
					continue
				}
				c.judge(s.mode, transport, cr, m, reached, outcome, errText)
			}
			closeFn()
		}
	}
}

// expiryAfterUse: a token with a short TTL is used while valid and again after it expired; the second
// use must grant nothing (a server that remembers verified tokens must not forget their expiry).
// Added after seeded change C19-a was missed. The only wall-clock element is waiting past the expiry:
// more load only makes the token more expired; if the first use already comes too late the case is
// counted as undecided.
func (c *c19) expiryAfterUse(ctx context.Context, s *c19Server, mods []*c19Module, methods []*c19Method, signer jwt.Signer) {
	run := c.run
	const ttl = 2500 * time.Millisecond
	minted := time.Now()
	tk, err := perms.NewTokenWithTTL(signer, perms.AllPerms, ttl)
	if err != nil {
		run.Inconclusive("expiry-after-use: " + err.Error())
		return
	}
	cr := &c19Cred{Name: "ttl-used-then-expired", Kind: "valid", Grants: []string{"public", "read", "write", "admin"}, Complete: true,
		Token: string(tk), What: "perms.NewTokenWithTTL(AllPerms, 2.5s) used before and after its expiry"}
	var pick []*c19Method
	seen := map[string]bool{}
	for _, m := range methods {
		if m.Args == nil || m.Chan || seen[m.Perm] || m.Perm == "public" {
			continue
		}
		seen[m.Perm] = true
		pick = append(pick, m)
	}
	cl, closeFn, how, err := c19Connect(ctx, mods, "http", s.addr, cr)
	if err != nil {
		run.Inconclusive("expiry-after-use: cannot connect with a fresh token: " + how + ": " + err.Error())
		return
	}
	defer closeFn()
	call := func(m *c19Method) bool {
		fn := reflect.ValueOf(cl).Elem().FieldByName(m.Mod.ClientField).FieldByName("Internal").FieldByName(m.Name)
		h0, _ := s.rec.snap(m.Key)
		cctx, cancel := context.WithTimeout(ctx, 30*time.Second)
		defer cancel()
		_, _ = vkit.Recover(func() { fn.Call(append([]reflect.Value{reflect.ValueOf(cctx)}, m.Args...)) })
		h1, _ := s.rec.snap(m.Key)
		return h1 > h0
	}
	usedWhileValid := 0
	for _, m := range pick {
		if call(m) && time.Since(minted) < ttl-200*time.Millisecond {
			usedWhileValid++
		}
	}
	if usedWhileValid != len(pick) {
		run.Count("expiry-after-use/undecided(first use too late or refused)", 1)
		return
	}
	time.Sleep(time.Until(minted.Add(ttl + 1200*time.Millisecond))) // token expiry has one-second granularity
	for _, m := range pick {
		run.Eval(1)
		run.Distinct(s.mode.Name + "|expiry-after-use|" + m.Key)
		run.Count("expiry-after-use/checked", 1)
		if call(m) {
			c.finding("C19 expired token still reaches a method after it was used while valid: need="+m.Perm+" mode="+s.mode.Name,
				map[string]any{"method": m.Key, "perm": m.Perm, "token": cr.What, "mode": s.mode.Name})
		}
	}
}

// ---------------------------------------------------------------------------------------------
// sensitivity floor

type c19FloorEntry struct {
	Min      string `json:"min"`
	Category string `json:"category"`
	Why      string `json:"why"`
}

type c19FloorFile struct {
	Order   []string                 `json:"order"`
	Methods map[string]c19FloorEntry `json:"methods"`
	Rules   []struct {
		Module     string `json:"module"`
		ResultType string `json:"result_type"`
		Min        string `json:"min"`
		Category   string `json:"category"`
	} `json:"rules"`
	Considered map[string]string `json:"considered_unclassified"`
}

func (c *c19) floor(methods []*c19Method) {
	run := c.run
	dir := os.Getenv("VERIF_DIR")
	if dir == "" {
		dir = "/verif"
	}
	path := filepath.Join(dir, "policy", "rpc_floor.json")
	b, err := os.ReadFile(path)
	if err != nil {
		run.Inconclusive("sensitivity floor not readable: " + err.Error())
		return
	}
	var ff c19FloorFile
	if err := json.Unmarshal(b, &ff); err != nil {
		run.Inconclusive("sensitivity floor not parsable: " + err.Error())
		return
	}
	if strings.Join(ff.Order, "<") != "public<read<write<admin" {
		run.Inconclusive("sensitivity floor: unexpected permission order " + strings.Join(ff.Order, "<"))
		return
	}
	exists := map[string]bool{}
	var unclassified, byRule []string
	table := map[string]any{}
	for _, m := range methods {
		exists[m.Key] = true
		e, ok := ff.Methods[m.Key]
		src := "listed"
		if !ok {
			for _, rl := range ff.Rules {
				if rl.Module != m.Mod.NS {
					continue
				}
				for o := 0; o < m.Type.NumOut(); o++ {
					if m.Type.Out(o).String() == rl.ResultType {
						e, ok, src = c19FloorEntry{Min: rl.Min, Category: rl.Category, Why: "rule: " + rl.Module + ".* returning " + rl.ResultType}, true, "rule"
					}
				}
			}
			if ok {
				byRule = append(byRule, m.Key)
			}
		}
		if !ok {
			unclassified = append(unclassified, m.Key+"("+m.Perm+")")
			continue
		}
		rp, okp := c19Rank[m.Perm]
		rm, okm := c19Rank[e.Min]
		if !okp || !okm {
			run.Inconclusive(fmt.Sprintf("sensitivity floor: cannot rank tag %q / min %q of %s", m.Perm, e.Min, m.Key))
			continue
		}
		run.Count("floor/checked", 1)
		run.Count("floor/category/"+e.Category, 1)
		table[m.Key] = map[string]string{"tag": m.Perm, "min": e.Min, "category": e.Category, "source": src}
		if rp < rm {
			c.finding(fmt.Sprintf("C19 floor: %s tagged '%s' below '%s' (%s)", m.Key, m.Perm, e.Min, e.Category),
				map[string]any{"method": m.Key, "tag": m.Perm, "required_min": e.Min, "category": e.Category, "why": e.Why, "policy": path})
		}
	}
	for k := range ff.Methods {
		if !exists[k] {
			run.Inconclusive("sensitivity floor lists " + k + " which is not a method of any registered module (stale policy)")
		}
	}
	sort.Strings(unclassified)
	run.Extra("floor_table", table)
	run.Extra("floor_by_rule", byRule)
	run.Extra("floor_unclassified", unclassified)
	run.Extra("floor_considered_notes", ff.Considered)
	run.Count("floor/unclassified", len(unclassified))
}

// ---------------------------------------------------------------------------------------------

func TestC19(t *testing.T) {
	run := vkit.NewRun(t, "C19", "exploration",
		"cases = (server configuration: auth | auth+cors | auth+metrics | auth disabled) × (http | ws) × credential class × every method "+
			"of every module of client.Client; one case = one real RPC call (or refused connection) through the typed client against the node's "+
			"server constructor + registerEndpoints with reflective stubs; distinct = distinct (configuration, transport, credential, method) tuples; "+
			"non-trivial = arguments well-typed (JSON round-trip checked) so that the request passes param decoding and the permission proxy decides; "+
			"the matrix is finite and enumerated completely (seed only changes key, nonces, order)")
	defer run.Finish()
	run.Exhaustive(true)
	_ = logging.SetLogLevelRegex("^(auth|rpc)$", "fatal")

	c := &c19{run: run, findings: map[string]*c19Finding{}, summary: map[string]map[string]map[string]int{}}
	rng := vkit.NewRNG(vkit.Seed(), "C19")
	ctx, cancelAll := context.WithCancel(context.Background())
	defer cancelAll()

	mods, methods := c19Discover(run)
	fb := c19Fallbacks(rng.Split("fallback"))
	permTable := map[string]string{}
	built := 0
	for _, m := range methods {
		permTable[m.Key] = m.Perm
		run.Count("methods/perm="+m.Perm, 1)
		args := make([]reflect.Value, 0, m.Type.NumIn()-1)
		good := true
		for i := 1; i < m.Type.NumIn(); i++ {
			v, src, why := c19BuildArg(m.Type.In(i), fb)
			if !v.IsValid() {
				good = false
				m.ArgErr = fmt.Sprintf("param %d (%s): %s", i, m.Type.In(i), why)
				break
			}
			run.Count("args/"+src, 1)
			m.ArgSrc = append(m.ArgSrc, src)
			args = append(args, v)
		}
		if !good {
			run.Inconclusive("no well-typed argument for " + m.Key + ": " + m.ArgErr)
			continue
		}
		m.Args = args
		built++
	}
	argSrc := map[string]string{}
	npublic := 0
	for _, m := range methods {
		if m.Args != nil {
			argSrc[m.Key] = strings.Join(m.ArgSrc, ",")
		}
		if m.Perm == "public" {
			npublic++
		}
	}
	run.Extra("argument_sources", argSrc)
	if npublic == 0 {
		run.Assume("no method is tagged `public` in this tree: 'a caller without a token reaches only public methods' is observed as 'reaches nothing'; the reach direction for public methods is vacuous")
	}
	run.Count("methods/total", len(methods))
	run.Count("methods/with_arguments", built)
	run.Count("modules", len(mods))
	run.Sample(map[string]any{"method_perm_table": permTable})
	run.Extra("method_perm_table", permTable)
	if len(methods) == 0 {
		run.Inconclusive("no methods discovered")
		return
	}

	key := rng.Split("key").Bytes(32)
	signer, err1 := jwt.NewSignerHS(jwt.HS256, key)
	verifier, err2 := jwt.NewVerifierHS(jwt.HS256, key)
	if err1 != nil || err2 != nil {
		run.Inconclusive(fmt.Sprintf("jwt signer/verifier: %v %v", err1, err2))
		return
	}
	creds := c19Creds(run, rng.Split("creds"), key, signer)
	var classes []map[string]any
	for _, cr := range creds {
		classes = append(classes, map[string]any{"name": cr.Name, "kind": cr.Kind, "expected_grants": cr.Grants, "what": cr.What, "completeness_checked": cr.Complete})
	}
	run.Extra("credential_classes", classes)

	modes := []c19Mode{
		{Name: "auth"},
		{Name: "auth+cors", CORS: true},
		{Name: "auth+metrics", Metrics: true},
		{Name: "noauth", SkipAuth: true},
	}
	var wg sync.WaitGroup
	for i, mode := range modes {
		s := c19StartServer(ctx, run, mode, mods, signer, verifier)
		if s == nil {
			continue
		}
		wg.Add(1)
		go func(i int, s *c19Server) {
			defer wg.Done()
			c.matrix(ctx, s, mods, methods, creds, rng.SplitN("order", i))
			if !s.mode.SkipAuth {
				c.expiryAfterUse(ctx, s, mods, methods, signer)
			}
			sctx, cancel := context.WithTimeout(context.Background(), 5*time.Second)
			_ = s.srv.Stop(sctx)
			cancel()
		}(i, s)
	}
	wg.Wait()

	c.floor(methods)

	for _, sig := range c.order {
		f := c.findings[sig]
		detail := map[string]any{"observations": f.n, "witnesses": f.witnesses}
		for k := 0; k < f.n; k++ {
			run.Violation(sig, detail)
		}
	}
	run.Extra("per_credential", c.summary)
	nchan := 0
	for _, m := range methods {
		if m.Chan {
			nchan++
		}
	}
	for _, mode := range modes {
		run.Require(mode.Name+"/reached", len(methods))
		if !mode.SkipAuth {
			run.Require(mode.Name+"/denied", len(methods))
			run.Require(mode.Name+"/level-admin/reached", 2*len(methods)-nchan)
		}
	}
	run.Require("methods/with_arguments", len(methods))
	run.Require("floor/checked", 10)
	run.Assume("HS256 and the JWT library are sound; the check is about which credentials the server accepts and what they unlock")
	run.Assume("stubs stand in for the module implementations: the check observes whether a call passes the server's authentication and the permission proxy, not what the module does")
}
