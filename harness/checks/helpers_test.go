package checks

import (
	"github.com/celestiaorg/celestia-node/share/shwap"
	"github.com/celestiaorg/celestia-node/share/shwap/pb"
)

type pbMarshaler interface{ Marshal() ([]byte, error) }

// marshalPB returns the plain protobuf encoding (the payload of bitswap blocks; shrex frames are
// the same bytes behind a varint length).
func marshalPB(m pbMarshaler) []byte {
	b, err := m.Marshal()
	if err != nil {
		panic(err)
	}
	return b
}

func sampleFromWire(b []byte) (shwap.Sample, error) {
	var p pb.Sample
	if err := p.Unmarshal(b); err != nil {
		return shwap.Sample{}, err
	}
	return shwap.SampleFromProto(&p)
}

func rowFromWire(b []byte) (shwap.Row, error) {
	var p pb.Row
	if err := p.Unmarshal(b); err != nil {
		return shwap.Row{}, err
	}
	return shwap.RowFromProto(&p)
}

func rndFromWire(b []byte) (shwap.RowNamespaceData, error) {
	var p pb.RowNamespaceData
	if err := p.Unmarshal(b); err != nil {
		return shwap.RowNamespaceData{}, err
	}
	return shwap.RowNamespaceDataFromProto(&p)
}

func tailStr(s string, n int) string {
	if len(s) > n {
		return s[len(s)-n:]
	}
	return s
}
