package checks

import (
	"context"
	"encoding/json"
	"errors"
	"fmt"
	"sort"
	"sync"
	"testing"
	"time"

	"github.com/ipfs/boxo/blockstore"
	blocks "github.com/ipfs/go-block-format"
	"github.com/ipfs/go-datastore"
	"github.com/ipfs/go-datastore/query"
	dssync "github.com/ipfs/go-datastore/sync"
	"go.uber.org/fx"

	"github.com/celestiaorg/celestia-node/header"
	nodepruner "github.com/celestiaorg/celestia-node/nodebuilder/pruner"
	"github.com/celestiaorg/celestia-node/share"
	"github.com/celestiaorg/celestia-node/share/availability/full"
	"github.com/celestiaorg/celestia-node/share/availability/light"
	"github.com/celestiaorg/celestia-node/share/eds"
	"github.com/celestiaorg/celestia-node/share/shwap"
	"github.com/celestiaorg/celestia-node/share/shwap/p2p/bitswap"
	"github.com/celestiaorg/celestia-node/store"
	"github.com/celestiaorg/celestia-node/zz_verif/vkit"
)

// C14 oracle (5): the real full-node Pruner over the real EDS store, driven by the real pruner
// Service; and the light-node Pruner over a real datastore + blockstore.

type c14lc struct{ hooks []fx.Hook }

func (l *c14lc) Append(h fx.Hook) { l.hooks = append(l.hooks, h) }

type c14block struct {
	sq    *vkit.Square // reference model of the block (EmptySquare for empty blocks)
	empty bool
	q4    bool // stored with its Q4 file
}

type c14storeLife struct {
	s      *c14scn
	st     *store.Store
	blocks []c14block // index 1..n
	mode   string
}

func (c *c14) storeGroup(ctx context.Context, t *testing.T, r *vkit.RNG) {
	n := vkit.Scale(6, 36)
	var wg sync.WaitGroup
	sem := make(chan struct{}, 6)
	for i := 0; i < n; i++ {
		wg.Add(1)
		sem <- struct{}{}
		go func(i int) {
			defer wg.Done()
			defer func() { <-sem }()
			mode := []string{"archival", "pruned", "convert"}[i%3]
			c.storeLife(ctx, t, r.SplitN("life", i), 800000+i, mode)
		}(i)
	}
	nl := vkit.Scale(4, 24)
	for i := 0; i < nl; i++ {
		wg.Add(1)
		sem <- struct{}{}
		go func(i int) {
			defer wg.Done()
			defer func() { <-sem }()
			c.lightLife(ctx, r.SplitN("light", i), i)
		}(i)
	}
	wg.Wait()
}

func (c *c14) storeLife(ctx context.Context, t *testing.T, r *vkit.RNG, idx int, mode string) {
	n := r.Range(9, 16)
	bt := 12 * time.Second
	st, err := store.NewStore(store.DefaultParameters(), t.TempDir())
	if err != nil {
		c.run.Inconclusive("C14 store: NewStore: " + err.Error())
		return
	}
	defer st.Stop(ctx) //nolint:errcheck
	ch := c14GenChain(r.Split("chain"), n, bt, vkit.Pick(r, []string{"equal", "jitter", "shorter", "longer"}),
		time.Date(2023, 3, 1, 0, 0, 0, 0, time.UTC), share.EmptyEDSRoots())
	life := &c14storeLife{st: st, blocks: make([]c14block, n+1), mode: mode}
	empty := vkit.EmptySquare()
	for h := 1; h <= n; h++ {
		b := c14block{q4: true}
		if r.Chance(1, 4) {
			b.sq, b.empty = empty, true
		} else {
			w := vkit.Pick(r, []int{2, 2, 4, 4})
			if h == n/2 {
				w = 8
			}
			b.sq = vkit.GenSquare(r.SplitN("sq", h), w, vkit.Pick(r, vkit.Layouts), r.Intn(w*w))
		}
		// an archival node keeps blocks it synced from outside the window without Q4
		if mode != "pruned" && h <= n/3 && r.Chance(1, 3) {
			b.q4 = false
		}
		hdr := *ch.hdrs[h]
		hdr.DAH = b.sq.Roots
		ch.hdrs[h] = &hdr
		if b.q4 {
			err = st.PutODSQ4(ctx, b.sq.Roots, uint64(h), b.sq.EDS)
		} else {
			err = st.PutODS(ctx, b.sq.Roots, uint64(h), b.sq.EDS)
		}
		if err != nil {
			c.run.Inconclusive("C14 store: put: " + err.Error())
			return
		}
		life.blocks[h] = b
	}
	q := uint64(r.Range(n/3, n-2))
	window := ch.time(uint64(n)).Sub(ch.time(q)) + time.Duration(r.Int64N(int64(bt)))
	script := c14script{Kind: "none"}
	switch r.Intn(3) {
	case 1:
		script = c14script{Kind: "firstj", J: 1}
	case 2:
		script = c14script{Kind: "everyk", K: r.Range(2, 4), Until: r.Range(1, 2)}
	}
	head0 := uint64(r.Range(n/2, n))
	s := &c14scn{
		c: c, r: r, ch: ch, window: window, bt: bt, batch: 512, script: script,
		succ: map[uint64]int{}, att: map[uint64]int{}, attCycle: map[uint64]int{}, becameTail: map[uint64]int{}, dropped: map[uint64]bool{}, lcnt: map[string]int{}, phase: "idle",
		p: c14params{Idx: idx, Mode: "store/" + mode, N: n, Profile: ch.profile, BlockTime: bt.String(), Window: window.String(), WindowCls: "fraction",
			Batch: 512, Head0: head0, Tail0: 1, Base: "past", Script: script.desc(), ScriptRaw: script},
	}
	s.hs = &c14hstore{ch: ch, head: head0, tail: 1, onHead: s.onHead}
	s.ds = c14NewDS(s.onCheckpoint)
	life.s = s
	c.run.Count("scenarios/store/"+mode, 1)

	cfg := &nodepruner.Config{EnableService: mode == "pruned"}
	archival := mode != "pruned"
	opts := []full.Option{}
	if archival {
		opts = append(opts, full.WithArchivalMode())
	}
	s.inner = full.NewShareAvailability(st, nil, opts...)

	// startNode does what the node does on start: service + the conversion start hook
	startNode := func(expectReset bool) bool {
		if !s.newService(ctx) {
			return false
		}
		lc := &c14lc{}
		if err := nodepruner.VerifConvertToPruned(lc, cfg, s.ds, s.svc); err != nil || len(lc.hooks) != 1 {
			c.run.Inconclusive(fmt.Sprintf("C14 store: convertToPruned wiring: err=%v hooks=%d", err, len(lc.hooks)))
			return false
		}
		s.mu.Lock()
		s.allowReset = expectReset
		s.mu.Unlock()
		err := lc.hooks[0].OnStart(ctx)
		s.mu.Lock()
		s.allowReset = false
		s.mu.Unlock()
		if err != nil {
			c.run.Violation("C14 conversion start hook fails on a legal mode sequence", s.witness(map[string]any{"err": err.Error(), "mode": mode}))
			return false
		}
		return true
	}
	run := func() {
		s.cycle(ctx)
		s.hs.advance(uint64(r.Range(int(head0), n)))
		s.cycle(ctx)
		if r.Bool() {
			s.restart(ctx, r.Chance(2, 3))
			if s.aborted {
				return
			}
			// a restarted node runs the start hook again; it must not reset anything
			lc := &c14lc{}
			if err := nodepruner.VerifConvertToPruned(lc, cfg, s.ds, s.svc); err == nil && len(lc.hooks) == 1 {
				if err := lc.hooks[0].OnStart(ctx); err != nil {
					c.run.Violation("C14 conversion start hook fails on a legal mode sequence", s.witness(map[string]any{"err": err.Error(), "mode": mode}))
				}
			}
			s.report(ctx, "start hook after restart", s.reported)
		}
		s.hs.advance(uint64(n))
		s.cycle(ctx)
	}

	if !startNode(false) {
		return
	}
	s.start, _, _ = s.svc.VerifCheckpoint()
	s.report(ctx, "start", 0)
	run()
	if s.aborted {
		return
	}
	s.settle(ctx) // liveness + regular Stop
	life.check(ctx, r.Split("check1"), archival, s.succ)

	if mode != "convert" || s.aborted {
		return
	}
	// ---- the node is restarted with pruning enabled: one-way conversion
	archSucc := s.succ
	s.mu.Lock()
	s.succ, s.att, s.attCycle = map[uint64]int{}, map[uint64]int{}, map[uint64]int{}
	s.script = c14script{Kind: "none"}
	s.mu.Unlock()
	cfg.EnableService = true
	s.inner = full.NewShareAvailability(st, nil)
	s.note("restart with pruning enabled (archival -> pruned)")
	before := s.reported
	if !startNode(true) {
		return
	}
	_, tail := s.hs.bounds()
	lp, err := s.svc.LastPruned(ctx)
	c.run.Eval(1)
	c.run.Count("store/conversions", 1)
	if err != nil || lp != tail {
		c.run.Violation("C14 archival->pruned conversion does not reset the checkpoint to the tail", s.witness(map[string]any{
			"last_pruned_before": before, "last_pruned_after_start_hook": lp, "tail": tail, "err": fmt.Sprint(err)}))
	}
	s.reported, s.start = lp, lp
	s.cycle(ctx)
	s.cycle(ctx)
	afterFirst := s.reported
	// second start in pruned mode: no second reset
	s.restart(ctx, true)
	if s.aborted {
		return
	}
	lc := &c14lc{}
	if err := nodepruner.VerifConvertToPruned(lc, cfg, s.ds, s.svc); err == nil && len(lc.hooks) == 1 {
		if err := lc.hooks[0].OnStart(ctx); err != nil {
			c.run.Violation("C14 conversion start hook fails on a legal mode sequence", s.witness(map[string]any{"err": err.Error(), "mode": "pruned after conversion"}))
		}
	}
	s.report(ctx, "second start after conversion (reset must happen once)", afterFirst)
	c.run.Count("store/second_start_after_conversion", 1)
	s.settle(ctx)
	life.check(ctx, r.Split("check2"), false, s.succ)
	// everything the archival life trimmed is out of the window, so the pruned life must have removed it
	for h, n := range archSucc {
		if n > 0 && h > s.start && s.succ[h] == 0 {
			c.run.Violation("C14 block trimmed by the archival node is not removed after the conversion", s.witness(map[string]any{"height": h}))
		}
	}
}

// check compares the store with what the Prune calls that succeeded allow.
func (l *c14storeLife) check(ctx context.Context, r *vkit.RNG, archival bool, succ map[uint64]int) {
	s, c := l.s, l.s.c
	for h := 1; h < len(l.blocks); h++ {
		b := l.blocks[h]
		s.mu.Lock()
		pruned := succ[uint64(h)] > 0
		s.mu.Unlock()
		hash := share.DataHash(b.sq.Roots.Hash())
		c.run.Eval(1)
		c.run.Count("store/blocks_checked", 1)
		hasH, _ := l.st.HasByHeight(ctx, uint64(h))
		hasQ4, _ := l.st.HasQ4ByHash(ctx, hash)
		kind := "in-window"
		if pruned {
			kind = "pruned"
		}
		mode := "pruned-mode"
		if archival {
			mode = "archival"
		}
		c.run.Count("store/"+mode+"/"+kind, 1)
		wit := func(extra map[string]any) map[string]any {
			m := map[string]any{"height": h, "square": b.sq.Desc(), "empty_block": b.empty, "stored_with_q4": b.q4,
				"prune_succeeded": pruned, "has_by_height": hasH, "has_q4": hasQ4, "node_mode": mode}
			for k, v := range extra {
				m[k] = v
			}
			return s.witness(m)
		}
		if !archival && pruned {
			// non-archival: the block is gone
			if hasH {
				c.run.Violation("C14 pruned block still present by height", wit(nil))
			}
			if _, err := l.st.GetByHeight(ctx, uint64(h)); !errors.Is(err, store.ErrNotFound) {
				c.run.Violation("C14 pruned block still readable by height", wit(map[string]any{"err": fmt.Sprint(err)}))
			}
			if !b.empty {
				if ok, _ := l.st.HasByHash(ctx, hash); ok || hasQ4 {
					c.run.Violation("C14 pruned block leaves ODS or Q4 file behind", wit(map[string]any{"has_by_hash": ok}))
				}
			}
			continue
		}
		// archival (pruned or not) and in-window blocks of any node: fully servable
		if !hasH {
			c.run.Violation("C14 block that must stay is gone ("+mode+", "+kind+")", wit(nil))
			continue
		}
		if !b.empty {
			switch {
			case pruned && hasQ4:
				c.run.Violation("C14 archival prune leaves the Q4 file", wit(nil))
			case !pruned && b.q4 && !hasQ4:
				c.run.Violation("C14 Q4 of a block never passed to Prune is gone", wit(nil))
			}
		}
		acc, err := l.st.GetByHeight(ctx, uint64(h))
		if err != nil {
			c.run.Violation("C14 block that must stay cannot be opened ("+mode+", "+kind+")", wit(map[string]any{"err": err.Error()}))
			continue
		}
		calls, probs := vkit.Battery(ctx, r.SplitN("battery", h), acc, b.sq, vkit.BatteryOpts{Samples: 8, ReadSizes: []int{4096}})
		_ = acc.Close()
		c.run.Count("store/battery_calls", calls)
		if len(probs) > 0 {
			c.run.Violation("C14 block not fully servable after pruning ("+mode+", "+kind+"): "+probs[0].Call, wit(map[string]any{"problems": probs}))
		}
	}
}

// ---------------------------------------------------------------------------------------------
// light node

type c14lightGetter struct {
	shwap.Getter
	sq      *vkit.Square
	bs      blockstore.Blockstore
	missing map[shwap.SampleCoords]bool
}

// GetSamples is positional; like the bitswap getter it leaves the fetched sample blocks in the blockstore.
func (g *c14lightGetter) GetSamples(ctx context.Context, h *header.ExtendedHeader, idxs []shwap.SampleCoords) ([]shwap.Sample, error) {
	acc := &eds.Rsmt2D{ExtendedDataSquare: g.sq.EDS}
	out := make([]shwap.Sample, len(idxs))
	var err error
	for i, idx := range idxs {
		if g.missing[idx] {
			err = errors.New("c14: some samples unavailable")
			continue
		}
		smpl, e := acc.Sample(ctx, idx)
		if e != nil {
			return nil, e
		}
		out[i] = smpl
		blk, e := c14sampleBlock(ctx, acc, h.Height(), idx, len(h.DAH.RowRoots))
		if e != nil {
			return nil, e
		}
		if e := g.bs.Put(ctx, blk); e != nil {
			return nil, e
		}
	}
	return out, err
}

func c14sampleBlock(ctx context.Context, acc eds.Accessor, height uint64, idx shwap.SampleCoords, size int) (blocks.Block, error) {
	sb, err := bitswap.NewEmptySampleBlock(height, idx, size)
	if err != nil {
		return nil, err
	}
	if err := sb.Populate(ctx, acc); err != nil {
		return nil, err
	}
	data, err := sb.Marshal()
	if err != nil {
		return nil, err
	}
	return blocks.NewBlockWithCid(data, sb.CID())
}

func c14keys(ctx context.Context, d datastore.Datastore) (map[string]bool, error) {
	res, err := d.Query(ctx, query.Query{KeysOnly: true})
	if err != nil {
		return nil, err
	}
	defer res.Close()
	out := map[string]bool{}
	for e := range res.Next() {
		if e.Error != nil {
			return nil, e.Error
		}
		out[e.Key] = true
	}
	return out, nil
}

func c14cids(ctx context.Context, bs blockstore.Blockstore) (map[string]bool, error) {
	chn, err := bs.AllKeysChan(ctx)
	if err != nil {
		return nil, err
	}
	out := map[string]bool{}
	for k := range chn {
		out[string(k.Hash())] = true
	}
	return out, nil
}

// lightLife: sample several blocks (some samples unavailable), prune some of them, compare the
// datastore and blockstore key sets before/after: exactly the sampling result key and the sample
// blocks listed as available for the pruned header may disappear.
func (c *c14) lightLife(ctx context.Context, r *vkit.RNG, idx int) {
	dsBase := dssync.MutexWrap(datastore.NewMapDatastore())
	bsDS := dssync.MutexWrap(datastore.NewMapDatastore())
	bs := blockstore.NewBlockstore(bsDS)
	nblk := r.Range(3, 6)
	type lb struct {
		sq  *vkit.Square
		hdr *header.ExtendedHeader
	}
	var lbs []*lb
	amount := uint(r.Range(4, 16))
	getter := &c14lightGetter{bs: bs}
	la := light.NewShareAvailability(getter, dsBase, bs, light.WithSampleAmount(amount))
	now := time.Now()
	for i := 0; i < nblk; i++ {
		w := vkit.Pick(r, []int{2, 4, 8})
		sq := vkit.GenSquare(r.SplitN("sq", i), w, vkit.Pick(r, vkit.Layouts), r.Intn(w*w))
		h := &header.ExtendedHeader{RawHeader: header.RawHeader{ChainID: "c14", Height: int64(10 + i), Time: now.Add(-time.Duration(nblk-i) * time.Minute)}, DAH: sq.Roots}
		b := &lb{sq: sq, hdr: h}
		// a random third of the coordinates is unavailable on the first attempt
		miss := map[shwap.SampleCoords]bool{}
		for x := 0; x < 2*w; x++ {
			for y := 0; y < 2*w; y++ {
				if r.Chance(1, 3) {
					miss[shwap.SampleCoords{Row: x, Col: y}] = true
				}
			}
		}
		getter.sq, getter.missing = sq, miss
		_ = la.SharesAvailable(ctx, h) // may legitimately report ErrNotAvailable; the result is stored either way
		if r.Bool() {
			getter.missing = nil
			_ = la.SharesAvailable(ctx, h)
		}
		lbs = append(lbs, b)
	}
	// unrelated material that must survive: a sample block of a height that is never pruned
	extraAcc := &eds.Rsmt2D{ExtendedDataSquare: lbs[0].sq.EDS}
	if blk, err := c14sampleBlock(ctx, extraAcc, 9999, shwap.SampleCoords{Row: 0, Col: 0}, len(lbs[0].sq.Roots.RowRoots)); err == nil {
		_ = bs.Put(ctx, blk)
	}
	_ = dsBase.Put(ctx, datastore.NewKey("/unrelated/key"), []byte("x"))
	if err := la.Close(ctx); err != nil {
		c.run.Inconclusive("C14 light: flush: " + err.Error())
		return
	}
	c.run.Count("scenarios/light", 1)

	order := r.Perm(nblk)
	nprune := r.Range(1, nblk)
	for _, bi := range order[:nprune] {
		b := lbs[bi]
		keysBefore, err1 := c14keys(ctx, dsBase)
		cidsBefore, err2 := c14cids(ctx, bs)
		if err1 != nil || err2 != nil {
			c.run.Inconclusive("C14 light: listing keys failed")
			return
		}
		// the stored sampling result says which sample blocks belong to the header
		resKey := "/sampling_result/" + b.hdr.DAH.String()
		raw, err := dsBase.Get(ctx, datastore.NewKey(resKey))
		var res light.SamplingResult
		if err == nil {
			err = json.Unmarshal(raw, &res)
		}
		if err != nil {
			c.run.Inconclusive("C14 light: sampling result not stored: " + err.Error())
			return
		}
		want := map[string]shwap.SampleCoords{}
		for _, sc := range res.Available {
			sb, err := bitswap.NewEmptySampleBlock(b.hdr.Height(), sc, len(b.hdr.DAH.RowRoots))
			if err != nil {
				continue
			}
			want[string(sb.CID().Hash())] = sc
		}
		err = la.Prune(ctx, b.hdr)
		_ = la.Close(ctx)
		c.run.Eval(1)
		c.run.Count("light/prunes", 1)
		c.run.Count("light/listed_samples", len(want))
		if err != nil {
			c.run.Violation("C14 light Prune fails on a sampled header", map[string]any{"seed": c.seed, "light_scenario": idx, "err": err.Error()})
			continue
		}
		keysAfter, _ := c14keys(ctx, dsBase)
		cidsAfter, _ := c14cids(ctx, bs)
		var goneKeys, goneBlocks, leftBlocks []string
		for k := range keysBefore {
			if !keysAfter[k] {
				goneKeys = append(goneKeys, k)
			}
		}
		for k := range cidsBefore {
			if !cidsAfter[k] {
				if sc, ok := want[k]; ok {
					goneBlocks = append(goneBlocks, fmt.Sprintf("listed(%d,%d)", sc.Row, sc.Col))
				} else {
					goneBlocks = append(goneBlocks, fmt.Sprintf("UNLISTED %x", k))
				}
			}
		}
		for k, sc := range want {
			if cidsAfter[k] {
				leftBlocks = append(leftBlocks, fmt.Sprintf("(%d,%d)", sc.Row, sc.Col))
			}
		}
		sort.Strings(goneKeys)
		sort.Strings(goneBlocks)
		det := map[string]any{"seed": c.seed, "light_scenario": idx, "height": b.hdr.Height(), "square": b.sq.Desc(),
			"available": len(res.Available), "remaining": len(res.Remaining), "keys_gone": goneKeys, "blocks_gone": goneBlocks, "listed_blocks_left": leftBlocks}
		if len(goneKeys) != 1 || goneKeys[0] != resKey {
			c.run.Violation("C14 light Prune removes other datastore keys than the sampling result", det)
		}
		for _, g := range goneBlocks {
			if len(g) > 8 && g[:8] == "UNLISTED" {
				c.run.Violation("C14 light Prune removes a block that is not a listed sample of the header", det)
				break
			}
		}
		if len(leftBlocks) > 0 {
			c.run.Violation("C14 light Prune leaves listed sample blocks behind", det)
		}
		if len(keysAfter) != len(keysBefore)-1 {
			c.run.Count("light/key_count_mismatch", 1)
		}
		c.run.Distinct(fmt.Sprintf("%d|light|%d|%d|a%d|r%d", c.seed, idx, b.hdr.Height(), len(res.Available), len(res.Remaining)))
	}
}
