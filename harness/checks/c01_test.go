package checks

import (
	"bytes"
	"fmt"
	"math"
	"sync"
	"sync/atomic"
	"testing"

	libshare "github.com/celestiaorg/go-square/v4/share"
	"github.com/celestiaorg/nmt"
	"github.com/celestiaorg/rsmt2d"

	"github.com/celestiaorg/celestia-node/share/eds"
	"github.com/celestiaorg/celestia-node/share/shwap"
	"github.com/celestiaorg/celestia-node/zz_verif/vkit"
)

// C01 — verified shares are exactly the shares committed at the requested position.
//
// Oracle: for every candidate response (honest, structural forgery built from valid material,
// wire mutation), `Verify... == nil  ⇒  shares exposed by the container == reference square at the
// requested position` (content, count, order, split into rows). Honest responses must be accepted.

type c01 struct {
	run *vkit.Run
	n   atomic.Int64
}

func (c *c01) tried(kind, op string, sq *vkit.Square, pos string) {
	c.run.Eval(1)
	c.run.Count(kind+"/"+op+"/tried", 1)
	if n := c.n.Add(1); n%9973 == 1 {
		c.run.Sample(map[string]any{"n": n, "square": sq.Desc(), "container": kind, "requested": pos, "candidate": op})
	}
}

// judge applies the oracle: accepted ⇒ equal.
func (c *c01) judge(sq *vkit.Square, kind, op, pos string, accepted, equal bool, detail func() any) {
	if !accepted {
		return
	}
	c.run.Count(kind+"/"+op+"/accepted", 1)
	if equal {
		c.run.Count(kind+"/"+op+"/accepted_equal", 1)
		return
	}
	c.run.Violation(fmt.Sprintf("C01 %s accepted-but-different op=%s", kind, op), map[string]any{
		"square": sq.Desc(), "position": pos, "witness": detail(),
	})
}

func shareHex(s libshare.Share) string {
	b := s.ToBytes()
	return fmt.Sprintf("%x…%x", b[:34], b[len(b)-4:])
}

func TestC01(t *testing.T) {
	run := vkit.NewRun(t, "C01", "exploration",
		"cases = (generated square: width × layout × tail padding) × (container, requested position) × "+
			"(honest | structural forgery operator | wire mutation); distinct = distinct (square, container, position, operator) tuples "+
			"on which the real verifier was called; non-trivial = candidate built from valid proof/share material (not random bytes)")
	defer run.Finish()
	c := &c01{run: run}
	seed := vkit.Seed()
	rng := vkit.NewRNG(seed, "C01")

	type sqcase struct {
		w      int
		layout string
		tail   int
		full   bool // exhaustive over positions
	}
	var cases []sqcase
	// widths 1,2,4: exhaustive positions, every layout, a spread of tail paddings (all for w<=2)
	for _, w := range []int{1, 2, 4} {
		for _, l := range vkit.Layouts {
			tails := []int{0, 1, w - 1, w, w + 1, w*w - 1, w * w / 2}
			if w <= 2 {
				tails = nil
				for p := 0; p < w*w; p++ {
					tails = append(tails, p)
				}
			}
			seen := map[int]bool{}
			for _, p := range tails {
				if p < 0 || p >= w*w || seen[p] {
					continue
				}
				seen[p] = true
				cases = append(cases, sqcase{w, l, p, true})
			}
		}
	}
	big := []int{8, 16}
	nbig := 3
	if vkit.Thorough() {
		big = []int{8, 16, 32, 64, 128}
		nbig = 4
		for _, l := range vkit.Layouts { // every tail padding for width 4
			for p := 0; p < 16; p++ {
				cases = append(cases, sqcase{4, l, p, true})
			}
		}
	}
	for _, w := range big {
		n := nbig
		if w >= 64 {
			n = 1
		}
		for i := 0; i < n; i++ {
			cases = append(cases, sqcase{w, vkit.Pick(rng, vkit.Layouts), rng.Intn(w * w), false})
		}
	}

	var wg sync.WaitGroup
	sem := make(chan struct{}, 16)
	for i, cs := range cases {
		wg.Add(1)
		sem <- struct{}{}
		go func(i int, cs sqcase) {
			defer wg.Done()
			defer func() { <-sem }()
			r := rng.SplitN("square", i)
			sq := vkit.GenSquare(r, cs.w, cs.layout, cs.tail)
			tw := sq.Twin(r.Split("twin"))
			run.Count("squares", 1)
			c.samples(r.Split("samples"), sq, tw, cs.full)
			c.rows(r.Split("rows"), sq, tw, cs.full)
			c.rowNamespace(r.Split("rnd"), sq, tw, cs.full)
			c.ranges(r.Split("ranges"), sq, tw, cs.full)
		}(i, cs)
	}
	wg.Wait()
	// getter level: after the CPU-heavy part (its peers work against real request timeouts)
	c01Getter(t, run, rng.Split("getter"))
	run.Require("sample/honest/accepted", 100)
	run.Require("row/honest/accepted", 20)
	run.Require("rnd/honest/accepted", 20)
	run.Require("range/honest/accepted", 20)
	run.Assume("rsmt2d/nmt/sha256 define what a header commits to; hash collisions out of scope")
}

// ---------------------------------------------------------------------------------------------
// Sample

func (c *c01) samples(r *vkit.RNG, sq, tw *vkit.Square, full bool) {
	n := 2 * sq.W
	acc := eds.Rsmt2D{ExtendedDataSquare: sq.EDS}
	tacc := eds.Rsmt2D{ExtendedDataSquare: tw.EDS}
	type pos struct{ r, c int }
	var positions []pos
	if full {
		for i := 0; i < n; i++ {
			for j := 0; j < n; j++ {
				positions = append(positions, pos{i, j})
			}
		}
	} else {
		// corners, quadrant boundaries and random cells
		for _, i := range []int{0, sq.W - 1, sq.W, n - 1} {
			for _, j := range []int{0, sq.W - 1, sq.W, n - 1} {
				positions = append(positions, pos{i, j})
			}
		}
		for k := 0; k < 24; k++ {
			positions = append(positions, pos{r.Intn(n), r.Intn(n)})
		}
	}
	verify := func(s shwap.Sample, row, col int) (ok bool) {
		p, _ := vkit.Recover(func() { ok = s.Verify(sq.Roots, row, col) == nil })
		if p != nil {
			c.run.Violation("C01 sample Verify panics", map[string]any{"panic": fmt.Sprint(p), "row": row, "col": col, "square": sq.Desc()})
			return false
		}
		return ok
	}
	for _, p := range positions {
		for _, axis := range []rsmt2d.Axis{rsmt2d.Row, rsmt2d.Col} {
			want := sq.Cell(p.r, p.c)
			posS := fmt.Sprintf("(%d,%d) axis=%d", p.r, p.c, axis)
			key := fmt.Sprintf("%s|sample|%s|", sq.Desc(), posS)
			honest, err := acc.SampleForProofAxis(shwap.SampleCoords{Row: p.r, Col: p.c}, axis)
			c.tried("sample", "honest", sq, posS)
			if err != nil || !verify(honest, p.r, p.c) {
				c.run.Violation("C01 sample honest-rejected", map[string]any{"square": sq.Desc(), "pos": posS, "err": fmt.Sprint(err)})
				continue
			}
			c.run.Distinct(key + "honest")
			c.judge(sq, "sample", "honest", posS, true, bytes.Equal(honest.ToBytes(), want), func() any { return shareHex(honest.Share) })

			try := func(op string, s shwap.Sample) {
				c.tried("sample", op, sq, posS)
				c.run.Distinct(key + op)
				ok := verify(s, p.r, p.c)
				c.judge(sq, "sample", op, posS, ok, ok && bytes.Equal(s.ToBytes(), want), func() any {
					return map[string]any{"share": shareHex(s.Share), "want": fmt.Sprintf("%x…", want[:34]), "proof": vkit.OpenProof(s.Proof)}
				})
			}
			// honest samples of other positions, presented for (r,c)
			for _, o := range []struct {
				op     string
				dr, dc int
			}{
				{"pos-row+1", 1, 0}, {"pos-row-1", -1, 0}, {"pos-col+1", 0, 1}, {"pos-col-1", 0, -1},
				{"pos-mirror-col", 0, sq.W}, {"pos-mirror-row", sq.W, 0}, {"pos-mirror-both", sq.W, sq.W},
			} {
				rr, cc := (p.r+o.dr+n)%n, (p.c+o.dc+n)%n
				if rr == p.r && cc == p.c {
					continue
				}
				for _, ax2 := range []rsmt2d.Axis{rsmt2d.Row, rsmt2d.Col} {
					s, err := acc.SampleForProofAxis(shwap.SampleCoords{Row: rr, Col: cc}, ax2)
					if err == nil {
						try(fmt.Sprintf("%s/ax%d", o.op, ax2), s)
					}
				}
			}
			// honest samples of cells related to (r,c) — the whole row and column for small squares, the
			// diagonal cells of the requested row and column otherwise — declared with every proof axis
			// value, valid or not (the axis is a signed enum on the wire: negative values arrive intact)
			{
				type cell struct {
					r, c int
					rel  string
				}
				var rel []cell
				if full && n <= 8 {
					for k := 0; k < n; k++ {
						if k != p.c {
							rel = append(rel, cell{p.r, k, "same-row"})
						}
						if k != p.r {
							rel = append(rel, cell{k, p.c, "same-column"})
						}
					}
				} else {
					rel = []cell{{p.c, p.c, "diagonal-of-column"}, {p.r, p.r, "diagonal-of-row"}}
				}
				for _, o := range rel {
					if o.r == p.r && o.c == p.c {
						continue
					}
					for _, ax2 := range []rsmt2d.Axis{rsmt2d.Row, rsmt2d.Col} {
						s, err := acc.SampleForProofAxis(shwap.SampleCoords{Row: o.r, Col: o.c}, ax2)
						if err != nil {
							continue
						}
						for _, decl := range []struct {
							name string
							ax   rsmt2d.Axis
						}{{"declared-row", rsmt2d.Row}, {"declared-col", rsmt2d.Col}, {"declared-minus1", -1}, {"declared-minus2", -2},
							{"declared-2", 2}, {"declared-min-int32", math.MinInt32}, {"declared-max-int32", math.MaxInt32}} {
							s.ProofType = decl.ax
							try(fmt.Sprintf("pos-%s/proof-ax%d/%s", o.rel, ax2, decl.name), s)
						}
					}
				}
				for _, ax := range []rsmt2d.Axis{-1, -2, math.MinInt32, math.MaxInt32} {
					s := honest
					s.ProofType = ax
					try(fmt.Sprintf("axis-invalid/%d", ax), s)
				}
			}
			if p.r != p.c {
				s, err := acc.SampleForProofAxis(shwap.SampleCoords{Row: p.c, Col: p.r}, axis)
				if err == nil {
					try("pos-transpose", s)
					s.ProofType = 1 - s.ProofType
					try("pos-transpose+axis-swap", s)
				}
			}
			// axis swap: row proof declared as column proof and vice versa
			{
				s := honest
				s.ProofType = 1 - s.ProofType
				try("axis-swap", s)
				s.ProofType = rsmt2d.Axis(2 + r.Intn(250))
				try("axis-invalid", s)
			}
			// twin square: same layout, other payload
			if ts, err := tacc.SampleForProofAxis(shwap.SampleCoords{Row: p.r, Col: p.c}, axis); err == nil {
				try("twin-sample", ts)
				mixed := honest
				mixed.Share = ts.Share
				try("twin-share+honest-proof", mixed)
				mixed = ts
				mixed.Share = honest.Share
				try("honest-share+twin-proof", mixed)
			}
			// share content changed
			{
				b := append([]byte(nil), honest.ToBytes()...)
				b[r.Intn(len(b))] ^= 1 << uint(r.Intn(8))
				sh, _ := libshare.NewShare(b)
				s := honest
				s.Share = sh
				try("share-bitflip", s)
				// namespace replaced by parity namespace / by neighbour namespace
				b2 := append([]byte(nil), honest.ToBytes()...)
				copy(b2, libshare.ParitySharesNamespace.Bytes())
				sh2, _ := libshare.NewShare(b2)
				s.Share = sh2
				try("share-ns-to-parity", s)
			}
			// proof forgeries
			for _, pf := range vkit.ProofForgeries(r, honest.Proof) {
				s := honest
				s.Proof = pf.Proof
				try("proof/"+pf.Op, s)
			}
			{
				s := honest
				s.Proof = nil
				try("proof-nil", s)
				e := nmt.NewEmptyRangeProof(true)
				s.Proof = &e
				try("proof-empty-range", s)
			}
			// wire mutations of the honest encoding
			wire := marshalPB(honest.ToProto())
			nm := 3
			if vkit.Thorough() {
				nm = 12
			}
			for k := 0; k < nm; k++ {
				mb, mop := vkit.MutateBytes(r, wire)
				var s shwap.Sample
				dec := false
				pnc, site := vkit.Recover(func() {
					s2, err := sampleFromWire(mb)
					if err == nil {
						s, dec = s2, true
					}
				})
				c.tried("sample", "wire/"+mop, sq, posS)
				if pnc != nil {
					c.run.Violation("C01 sample decode panics @"+site, map[string]any{"panic": fmt.Sprint(pnc), "bytes": fmt.Sprintf("%x", mb)})
					continue
				}
				if !dec {
					continue
				}
				c.run.Count("sample/wire/decoded", 1)
				ok := verify(s, p.r, p.c)
				c.judge(sq, "sample", "wire/"+mop, posS, ok, ok && bytes.Equal(s.ToBytes(), want), func() any { return fmt.Sprintf("%x", mb) })
			}
		}
	}
}

// ---------------------------------------------------------------------------------------------
// Row

func (c *c01) rows(r *vkit.RNG, sq, tw *vkit.Square, full bool) {
	n := 2 * sq.W
	var rowsIdx []int
	if full || n <= 16 {
		for i := 0; i < n; i++ {
			rowsIdx = append(rowsIdx, i)
		}
	} else {
		rowsIdx = []int{0, sq.W - 1, sq.W, n - 1, r.Intn(n), r.Intn(n)}
	}
	verify := func(row shwap.Row, idx int) (ok bool, shares []libshare.Share) {
		p, site := vkit.Recover(func() {
			if row.Verify(sq.Roots, idx) == nil {
				ok = true
				var err error
				shares, err = row.Shares()
				if err != nil {
					ok = false
				}
			}
		})
		if p != nil {
			c.run.Violation("C01 row Verify panics @"+site, map[string]any{"panic": fmt.Sprint(p), "row": idx, "square": sq.Desc()})
			return false, nil
		}
		return ok, shares
	}
	for _, i := range rowsIdx {
		want := sq.ExtRowShares(i)
		for _, side := range []shwap.RowSide{shwap.Left, shwap.Right, shwap.Both} {
			posS := fmt.Sprintf("row=%d side=%d", i, side)
			key := fmt.Sprintf("%s|row|%s|", sq.Desc(), posS)
			honest, err := shwap.RowFromEDS(sq.EDS, i, side)
			c.tried("row", "honest", sq, posS)
			if err != nil {
				c.run.Violation("C01 row honest-construct-failed", map[string]any{"err": err.Error(), "pos": posS})
				continue
			}
			hs := sideShares(want, side)
			ok, got := verify(shwap.NewRow(cloneShares(hs), side), i)
			if !ok {
				c.run.Violation("C01 row honest-rejected", map[string]any{"square": sq.Desc(), "pos": posS})
				continue
			}
			_ = honest
			c.run.Distinct(key + "honest")
			c.judge(sq, "row", "honest", posS, true, vkit.EqualShares(got, want), func() any { return "honest row differs after Shares()" })

			try := func(op string, shares []libshare.Share, sd shwap.RowSide) {
				c.tried("row", op, sq, posS)
				c.run.Distinct(key + op)
				ok, got := verify(shwap.NewRow(cloneShares(shares), sd), i)
				c.judge(sq, "row", op, posS, ok, ok && vkit.EqualShares(got, want), func() any {
					return map[string]any{"given_len": len(shares), "side": int(sd), "got_len": len(got)}
				})
			}
			// other rows presented as row i
			for _, d := range []int{1, -1, sq.W} {
				j := (i + d + n) % n
				if j != i {
					try(fmt.Sprintf("other-row%+d", d), sideShares(sq.ExtRowShares(j), side), side)
				}
			}
			// column i presented as row i
			try("col-as-row", sideShares(sq.ExtColShares(i), side), side)
			// side confusion
			if side != shwap.Both {
				try("side-swap", hs, 1-side)
				try("side-as-both", hs, shwap.Both)
				try("side-invalid", hs, shwap.RowSide(3+r.Intn(5)))
			} else {
				try("both-as-left", hs, shwap.Left)
				try("both-halves-swapped", append(cloneShares(hs[sq.W:]), hs[:sq.W]...), shwap.Both)
				mixed := cloneShares(hs)
				copy(mixed[sq.W:], sideShares(tw.ExtRowShares(i), shwap.Right))
				try("both-parity-from-twin", mixed, shwap.Both)
			}
			try("twin-row", sideShares(tw.ExtRowShares(i), side), side)
			if len(hs) > 1 {
				sw := cloneShares(hs)
				a := r.Intn(len(sw) - 1)
				sw[a], sw[a+1] = sw[a+1], sw[a]
				if !bytes.Equal(sw[a].ToBytes(), sw[a+1].ToBytes()) {
					try("swap-adjacent", sw, side)
				}
				try("truncate-1", hs[:len(hs)-1], side)
				try("drop-first", hs[1:], side)
				dup := cloneShares(hs)
				dup[len(dup)-1] = dup[0]
				if !bytes.Equal(hs[len(hs)-1].ToBytes(), hs[0].ToBytes()) {
					try("dup-first-over-last", dup, side)
				}
			}
			try("extend+1", append(cloneShares(hs), hs[len(hs)-1]), side)
			try("double", append(cloneShares(hs), hs...), side)
			try("empty", nil, side)
			{
				fl := cloneShares(hs)
				k := r.Intn(len(fl))
				b := append([]byte(nil), fl[k].ToBytes()...)
				b[libshare.NamespaceSize+r.Intn(len(b)-libshare.NamespaceSize)] ^= 1 << uint(r.Intn(8))
				fl[k], _ = libshare.NewShare(b)
				try("share-bitflip", fl, side)
			}
			// wire mutations
			wire := marshalPB(shwap.NewRow(cloneShares(hs), side).ToProto())
			nm := 2
			if vkit.Thorough() {
				nm = 8
			}
			for k := 0; k < nm; k++ {
				mb, mop := vkit.MutateBytes(r, wire)
				var row shwap.Row
				dec := false
				pnc, site := vkit.Recover(func() {
					r2, err := rowFromWire(mb)
					if err == nil {
						row, dec = r2, true
					}
				})
				c.tried("row", "wire/"+mop, sq, posS)
				if pnc != nil {
					c.run.Violation("C01 row decode panics @"+site, map[string]any{"panic": fmt.Sprint(pnc), "bytes_len": len(mb)})
					continue
				}
				if !dec {
					continue
				}
				c.run.Count("row/wire/decoded", 1)
				// a row decoded from the wire is Left or Right; judge against that half's full row
				ok, got := verify(row, i)
				c.judge(sq, "row", "wire/"+mop, posS, ok, ok && vkit.EqualShares(got, want), func() any { return mop })
			}
		}
	}
}

func sideShares(ext []libshare.Share, side shwap.RowSide) []libshare.Share {
	h := len(ext) / 2
	switch side {
	case shwap.Left:
		return ext[:h]
	case shwap.Right:
		return ext[h:]
	default:
		return ext
	}
}

func cloneShares(s []libshare.Share) []libshare.Share {
	out := make([]libshare.Share, len(s))
	copy(out, s)
	return out
}

// ---------------------------------------------------------------------------------------------
// RowNamespaceData

func (c *c01) rowNamespace(r *vkit.RNG, sq, tw *vkit.Square, full bool) {
	w := sq.W
	var rowsIdx []int
	if full || w <= 8 {
		for i := 0; i < w; i++ {
			rowsIdx = append(rowsIdx, i)
		}
	} else {
		rowsIdx = []int{0, w - 1, r.Intn(w), r.Intn(w)}
	}
	verify := func(rnd shwap.RowNamespaceData, ns libshare.Namespace, idx int) (ok bool) {
		p, site := vkit.Recover(func() { ok = rnd.Verify(sq.Roots, ns, idx) == nil })
		if p != nil {
			c.run.Violation("C01 rnd Verify panics @"+site, map[string]any{"panic": fmt.Sprint(p), "row": idx, "ns": ns.String(), "square": sq.Desc()})
			return false
		}
		return ok
	}
	absent := sq.AbsentNamespaces()
	for _, i := range rowsIdx {
		ext := sq.ExtRowShares(i)
		// candidate namespaces: those in the row, the neighbours' and absent ones
		var nss []libshare.Namespace
		seen := map[string]bool{}
		addNS := func(ns libshare.Namespace) {
			if !seen[string(ns.Bytes())] {
				seen[string(ns.Bytes())] = true
				nss = append(nss, ns)
			}
		}
		for col := 0; col < w; col++ {
			addNS(sq.ODS[i*w+col].Namespace())
		}
		for _, l := range absent {
			for _, ns := range l {
				addNS(ns)
			}
		}
		if i > 0 {
			addNS(sq.ODS[(i-1)*w].Namespace())
		}
		if i+1 < w {
			addNS(sq.ODS[(i+1)*w+w-1].Namespace())
		}
		if len(nss) > 6 && !full {
			nss = nss[:6]
		}
		for _, ns := range nss {
			want, from := sq.RowSharesOf(ns, i)
			covers := false
			for _, cr := range sq.RowsCovering(ns) {
				if cr == i {
					covers = true
				}
			}
			posS := fmt.Sprintf("row=%d ns=%x", i, ns.ID()[18:])
			key := fmt.Sprintf("%s|rnd|%s|", sq.Desc(), posS)
			honest, err := shwap.RowNamespaceDataFromShares(ext, ns, i)
			c.tried("rnd", "honest", sq, posS)
			if !covers {
				// honest producer must refuse; any response must be rejected
				if err == nil {
					c.run.Violation("C01 rnd produced-for-uncovered-row", map[string]any{"square": sq.Desc(), "pos": posS})
				}
				c.run.Count("rnd/honest/outside-range", 1)
				// present an honest response for a namespace of this row under the uncovered namespace
				if other, err := shwap.RowNamespaceDataFromShares(ext, sq.ODS[i*w].Namespace(), i); err == nil {
					c.tried("rnd", "other-ns-for-uncovered", sq, posS)
					c.run.Distinct(key + "other-ns-for-uncovered")
					ok := verify(other, ns, i)
					c.judge(sq, "rnd", "other-ns-for-uncovered", posS, ok, false, func() any { return "accepted data for namespace outside the row's range" })
				}
				continue
			}
			if err != nil || !verify(honest, ns, i) {
				c.run.Violation("C01 rnd honest-rejected", map[string]any{"square": sq.Desc(), "pos": posS, "err": fmt.Sprint(err)})
				continue
			}
			c.run.Distinct(key + "honest")
			if len(want) == 0 {
				c.run.Count("rnd/honest/absence", 1)
			}
			c.judge(sq, "rnd", "honest", posS, true, vkit.EqualShares(honest.Shares, want), func() any { return "honest differs" })

			try := func(op string, rnd shwap.RowNamespaceData) {
				c.tried("rnd", op, sq, posS)
				c.run.Distinct(key + op)
				ok := verify(rnd, ns, i)
				c.judge(sq, "rnd", op, posS, ok, ok && vkit.EqualShares(rnd.Shares, want), func() any {
					return map[string]any{"shares": len(rnd.Shares), "want": len(want), "proof": vkit.OpenProof(rnd.Proof)}
				})
			}
			// withholding with an honestly generated inclusion proof for the smaller range
			if len(want) > 1 {
				try("drop-first+valid-subproof", shwap.RowNamespaceData{Shares: cloneShares(want[1:]), Proof: vkit.RangeProof(ext, w, i, from+1, from+len(want))})
				try("drop-last+valid-subproof", shwap.RowNamespaceData{Shares: cloneShares(want[:len(want)-1]), Proof: vkit.RangeProof(ext, w, i, from, from+len(want)-1)})
				try("drop-last+honest-proof", shwap.RowNamespaceData{Shares: cloneShares(want[:len(want)-1]), Proof: honest.Proof})
				sw := cloneShares(want)
				sw[0], sw[1] = sw[1], sw[0]
				if !bytes.Equal(sw[0].ToBytes(), sw[1].ToBytes()) {
					try("swap-shares", shwap.RowNamespaceData{Shares: sw, Proof: honest.Proof})
				}
			}
			if len(want) > 2 {
				mid := append(cloneShares(want[:1]), want[2:]...)
				try("drop-middle", shwap.RowNamespaceData{Shares: mid, Proof: honest.Proof})
			}
			if len(want) > 0 {
				// widen into the neighbour namespace with a valid proof for the wider range
				if from > 0 {
					try("widen-left+valid-proof", shwap.RowNamespaceData{Shares: cloneShares(ext[from-1 : from+len(want)]), Proof: vkit.RangeProof(ext, w, i, from-1, from+len(want))})
				}
				if from+len(want) < w {
					try("widen-right+valid-proof", shwap.RowNamespaceData{Shares: cloneShares(ext[from : from+len(want)+1]), Proof: vkit.RangeProof(ext, w, i, from, from+len(want)+1)})
				}
				try("dup-last", shwap.RowNamespaceData{Shares: append(cloneShares(want), want[len(want)-1]), Proof: honest.Proof})
				try("shares-emptied", shwap.RowNamespaceData{Proof: honest.Proof})
				try("proof-nil", shwap.RowNamespaceData{Shares: cloneShares(want)})
				// claim absence using the absence proof of an absent neighbour namespace of the same row
				for _, l := range absent {
					for _, ans := range l {
						if ap, err := shwap.RowNamespaceDataFromShares(ext, ans, i); err == nil && len(ap.Shares) == 0 {
							try("absence-proof-of-other-ns", ap)
						}
					}
				}
			} else {
				// absent: present some other namespace's shares / proofs
				other := sq.ODS[i*w].Namespace()
				if o, err := shwap.RowNamespaceDataFromShares(ext, other, i); err == nil {
					try("inclusion-of-other-ns", o)
					try("absence+other-shares", shwap.RowNamespaceData{Shares: o.Shares, Proof: honest.Proof})
				}
			}
			// same namespace, other row / twin square
			for _, d := range []int{-1, 1} {
				j := i + d
				if j >= 0 && j < w {
					if o, err := shwap.RowNamespaceDataFromShares(sq.ExtRowShares(j), ns, j); err == nil {
						try(fmt.Sprintf("other-row%+d", d), o)
					}
				}
			}
			if o, err := shwap.RowNamespaceDataFromShares(tw.ExtRowShares(i), ns, i); err == nil {
				try("twin", o)
				try("twin-shares+honest-proof", shwap.RowNamespaceData{Shares: o.Shares, Proof: honest.Proof})
			}
			for _, pf := range vkit.ProofForgeries(r, honest.Proof) {
				try("proof/"+pf.Op, shwap.RowNamespaceData{Shares: cloneShares(honest.Shares), Proof: pf.Proof})
			}
			// wire
			wire := marshalPB(honest.ToProto())
			nm := 2
			if vkit.Thorough() {
				nm = 8
			}
			for k := 0; k < nm; k++ {
				mb, mop := vkit.MutateBytes(r, wire)
				var rnd shwap.RowNamespaceData
				dec := false
				pnc, site := vkit.Recover(func() {
					r2, err := rndFromWire(mb)
					if err == nil {
						rnd, dec = r2, true
					}
				})
				c.tried("rnd", "wire/"+mop, sq, posS)
				if pnc != nil {
					c.run.Violation("C01 rnd decode panics @"+site, map[string]any{"panic": fmt.Sprint(pnc), "bytes_len": len(mb)})
					continue
				}
				if !dec {
					continue
				}
				c.run.Count("rnd/wire/decoded", 1)
				ok := verify(rnd, ns, i)
				c.judge(sq, "rnd", "wire/"+mop, posS, ok, ok && vkit.EqualShares(rnd.Shares, want), func() any { return mop })
			}
		}
		// parity rows must never yield namespace data
		pr := w + i
		for _, ns := range []libshare.Namespace{sq.ODS[0].Namespace(), libshare.ParitySharesNamespace} {
			c.tried("rnd", "parity-row", sq, fmt.Sprintf("row=%d", pr))
			rnd, err := shwap.RowNamespaceDataFromShares(sq.ExtRowShares(pr), ns, pr)
			if err == nil {
				ok := verify(rnd, ns, pr)
				// parity namespace in a parity row: whatever verifies must be the row's own left half
				wantP := sq.ExtRowShares(pr)[:0]
				c.judge(sq, "rnd", "parity-row", fmt.Sprintf("row=%d", pr), ok && !ns.Equals(libshare.ParitySharesNamespace), ok && vkit.EqualShares(rnd.Shares, wantP), func() any { return "data namespace served from parity row" })
			}
		}
	}
}

// ---------------------------------------------------------------------------------------------
// RangeNamespaceData

// verifyRange calls the verifier exactly the way the shrex getter and the bitswap block derive
// its arguments from a [from,to) request.
func verifyRange(sq *vkit.Square, rng *shwap.RangeNamespaceData, from, to int, nsMode bool) error {
	w := sq.W
	fc, err := shwap.SampleCoordsFrom1DIndex(from, w)
	if err != nil {
		return err
	}
	tc, err := shwap.SampleCoordsFrom1DIndex(to-1, w)
	if err != nil {
		return err
	}
	if rng.IsEmpty() {
		return fmt.Errorf("nil response")
	}
	if nsMode {
		return rng.VerifyNamespace(fc, tc, w, sq.Roots.RowRoots[fc.Row:tc.Row+1])
	}
	return rng.VerifyInclusion(fc, tc, w, sq.Roots.RowRoots[fc.Row:tc.Row+1])
}

// refRows splits reference shares [from,to) into their rows.
func refRows(sq *vkit.Square, from, to int) [][]libshare.Share {
	var out [][]libshare.Share
	for i := from; i < to; {
		end := min((i/sq.W+1)*sq.W, to)
		out = append(out, sq.ODS[i:end])
		i = end
	}
	return out
}

func equalRows(a, b [][]libshare.Share) bool {
	if len(a) != len(b) {
		return false
	}
	for i := range a {
		if !vkit.EqualShares(a[i], b[i]) {
			return false
		}
	}
	return true
}

func cloneRange(in shwap.RangeNamespaceData) shwap.RangeNamespaceData {
	out := shwap.RangeNamespaceData{FirstIncompleteRowProof: in.FirstIncompleteRowProof, LastIncompleteRowProof: in.LastIncompleteRowProof}
	for _, r := range in.Shares {
		out.Shares = append(out.Shares, cloneShares(r))
	}
	return out
}

func (c *c01) ranges(r *vkit.RNG, sq, tw *vkit.Square, full bool) {
	w := sq.W
	acc := eds.Rsmt2D{ExtendedDataSquare: sq.EDS}
	tacc := eds.Rsmt2D{ExtendedDataSquare: tw.EDS}
	type rg struct{ from, to int }
	var list []rg
	for _, run := range sq.Runs {
		var cand []rg
		for a := run.Start; a < run.Start+run.Count; a++ {
			for b := a + 1; b <= run.Start+run.Count; b++ {
				cand = append(cand, rg{a, b})
			}
		}
		lim := 40
		if !full {
			lim = 10
		}
		if vkit.Thorough() {
			lim *= 3
		}
		if len(cand) > lim {
			// keep boundary-heavy ones + random
			var keep []rg
			for _, x := range cand {
				if x.from%w == 0 || x.to%w == 0 || x.from == run.Start || x.to == run.Start+run.Count {
					keep = append(keep, x)
				}
			}
			r.Shuffle(len(keep), func(i, j int) { keep[i], keep[j] = keep[j], keep[i] })
			if len(keep) > lim/2 {
				keep = keep[:lim/2]
			}
			for len(keep) < lim {
				keep = append(keep, cand[r.Intn(len(cand))])
			}
			cand = keep
		}
		list = append(list, cand...)
	}
	// ranges crossing a namespace boundary: the honest producer must refuse
	for k := 0; k+1 < len(sq.Runs) && k < 6; k++ {
		b := sq.Runs[k+1].Start
		c.tried("range", "cross-namespace", sq, fmt.Sprintf("[%d,%d)", b-1, b+1))
		if _, err := acc.RangeNamespaceData(nil, b-1, b+1); err == nil { //nolint:staticcheck
			c.run.Violation("C01 range producer serves a range crossing namespaces", map[string]any{"square": sq.Desc(), "from": b - 1, "to": b + 1})
		} else {
			c.run.Count("range/cross-namespace/refused", 1)
		}
	}

	verify := func(rd *shwap.RangeNamespaceData, from, to int, nsMode bool) (ok bool) {
		p, site := vkit.Recover(func() { ok = verifyRange(sq, rd, from, to, nsMode) == nil })
		if p != nil {
			c.run.Violation("C01 range Verify panics @"+site, map[string]any{"panic": fmt.Sprint(p), "from": from, "to": to, "square": sq.Desc(),
				"rows": rowLens(rd.Shares), "first": vkit.OpenProof(rd.FirstIncompleteRowProof), "last": vkit.OpenProof(rd.LastIncompleteRowProof)})
			return false
		}
		return ok
	}
	for _, g := range list {
		from, to := g.from, g.to
		want := refRows(sq, from, to)
		posS := fmt.Sprintf("[%d,%d)", from, to)
		key := fmt.Sprintf("%s|range|%s|", sq.Desc(), posS)
		honest, err := acc.RangeNamespaceData(nil, from, to) //nolint:staticcheck
		c.tried("range", "honest", sq, posS)
		if err != nil {
			c.run.Violation("C01 range honest-construct-failed", map[string]any{"square": sq.Desc(), "pos": posS, "err": err.Error()})
			continue
		}
		h := cloneRange(honest)
		if !verify(&h, from, to, false) {
			c.run.Violation("C01 range honest-rejected", map[string]any{"square": sq.Desc(), "pos": posS})
			continue
		}
		c.run.Distinct(key + "honest")
		c.judge(sq, "range", "honest", posS, true, equalRows(h.Shares, want) && vkit.EqualShares(h.Flatten(), sq.ODS[from:to]), func() any { return "honest differs" })

		try := func(op string, rd shwap.RangeNamespaceData) {
			for _, nsMode := range []bool{false, true} {
				opn := op
				if nsMode {
					opn += "/ns-mode"
				}
				c.tried("range", opn, sq, posS)
				c.run.Distinct(key + opn)
				cand := cloneRange(rd)
				ok := verify(&cand, from, to, nsMode)
				c.judge(sq, "range", opn, posS, ok, ok && equalRows(cand.Shares, want), func() any {
					return map[string]any{"rows_given": rowLens(cand.Shares), "rows_want": rowLens(want),
						"first_proof": vkit.OpenProof(cand.FirstIncompleteRowProof), "last_proof": vkit.OpenProof(cand.LastIncompleteRowProof)}
				})
			}
		}
		fr, fcol := from/w, from%w
		tr, tcol := (to-1)/w, (to-1)%w
		multi := tr > fr

		// honest responses for other ranges of the same length presented for [from,to)
		for _, d := range []int{1, -1, w, -w} {
			a, b := from+d, to+d
			if a < 0 || b > w*w {
				continue
			}
			if o, err := acc.RangeNamespaceData(nil, a, b); err == nil { //nolint:staticcheck
				try(fmt.Sprintf("other-range%+d", d), o)
			}
		}
		// twin
		if o, err := tacc.RangeNamespaceData(nil, from, to); err == nil { //nolint:staticcheck
			try("twin", o)
			mix := cloneRange(honest)
			mix.Shares = cloneRange(o).Shares
			try("twin-shares+honest-proofs", mix)
		}
		// --- re-slicing: same total number of shares, different split / position
		// (a) serve full first row (no proof) + a tail of the last row with a proof ending at to.Col
		if multi {
			rowLen0 := w - fcol
			total := to - from
			// full row fr, then fill rows, last row gets the remainder ending at tcol
			remaining := total - w
			if fcol != 0 && remaining > 0 {
				var shares [][]libshare.Share
				shares = append(shares, cloneShares(sq.ODS[fr*w:fr*w+w]))
				for row := fr + 1; row < tr; row++ {
					shares = append(shares, cloneShares(sq.ODS[row*w:row*w+w]))
					remaining -= w
				}
				if remaining > 0 && remaining <= tcol+1 {
					st := tcol + 1 - remaining
					shares = append(shares, cloneShares(sq.ODS[tr*w+st:tr*w+tcol+1]))
					rd := shwap.RangeNamespaceData{Shares: shares}
					if st > 0 || tcol != w-1 {
						rd.LastIncompleteRowProof = vkit.RangeProof(sq.ExtRowShares(tr), w, tr, st, tcol+1)
					}
					try("reslice/full-first-row+short-last-row", rd)
				}
			}
			_ = rowLen0
			// (b) move k shares from the first row to the last row: first row shorter (proof for
			// [fcol+k, w)), last row longer — only possible if the last row has room.
			if tcol+1 < w && w-fcol > 1 {
				k := 1
				var shares [][]libshare.Share
				shares = append(shares, cloneShares(sq.ODS[fr*w+fcol+k:fr*w+w]))
				for row := fr + 1; row < tr; row++ {
					shares = append(shares, cloneShares(sq.ODS[row*w:row*w+w]))
				}
				shares = append(shares, cloneShares(sq.ODS[tr*w:tr*w+tcol+1+k]))
				rd := shwap.RangeNamespaceData{Shares: shares,
					FirstIncompleteRowProof: vkit.RangeProof(sq.ExtRowShares(fr), w, fr, fcol+k, w),
					LastIncompleteRowProof:  vkit.RangeProof(sq.ExtRowShares(tr), w, tr, 0, tcol+1+k)}
				try("reslice/move-1-first-to-last", rd)
			}
			// (c) move one share from the last row to the first row
			if fcol > 0 && tcol >= 1 {
				var shares [][]libshare.Share
				shares = append(shares, cloneShares(sq.ODS[fr*w+fcol-1:fr*w+w]))
				for row := fr + 1; row < tr; row++ {
					shares = append(shares, cloneShares(sq.ODS[row*w:row*w+w]))
				}
				shares = append(shares, cloneShares(sq.ODS[tr*w:tr*w+tcol]))
				rd := shwap.RangeNamespaceData{Shares: shares,
					FirstIncompleteRowProof: vkit.RangeProof(sq.ExtRowShares(fr), w, fr, fcol-1, w),
					LastIncompleteRowProof:  vkit.RangeProof(sq.ExtRowShares(tr), w, tr, 0, tcol)}
				try("reslice/move-1-last-to-first", rd)
			}
			// (d) rows swapped
			if len(honest.Shares) >= 2 {
				sw := cloneRange(honest)
				sw.Shares[0], sw.Shares[len(sw.Shares)-1] = sw.Shares[len(sw.Shares)-1], sw.Shares[0]
				try("rows-swapped", sw)
				sw2 := cloneRange(honest)
				sw2.FirstIncompleteRowProof, sw2.LastIncompleteRowProof = sw2.LastIncompleteRowProof, sw2.FirstIncompleteRowProof
				if sw2.FirstIncompleteRowProof != sw2.LastIncompleteRowProof {
					try("proofs-swapped", sw2)
				}
			}
			// (e) middle row replaced by a copy of another complete row of the range
			if tr-fr >= 2 {
				rp := cloneRange(honest)
				rp.Shares[1] = cloneShares(sq.ODS[tr*w : tr*w+w])
				if !vkit.EqualShares(rp.Shares[1], honest.Shares[1]) {
					try("middle-row-replaced", rp)
				}
			}
			// (f) a whole row dropped but total kept by lengthening another row is impossible
			// without leaving the square; drop a row outright
			dr := cloneRange(honest)
			dr.Shares = dr.Shares[:len(dr.Shares)-1]
			try("last-row-dropped", dr)
		} else {
			// single row: shifted window of the same length with its own valid proof
			for _, d := range []int{1, -1} {
				a, b := fcol+d, tcol+1+d
				if a < 0 || b > w {
					continue
				}
				rd := shwap.RangeNamespaceData{Shares: [][]libshare.Share{cloneShares(sq.ODS[fr*w+a : fr*w+b])},
					FirstIncompleteRowProof: vkit.RangeProof(sq.ExtRowShares(fr), w, fr, a, b)}
				try(fmt.Sprintf("single-row-window%+d", d), rd)
				// the same, but presented as the *last* row proof (End-1 check only)
				rd2 := shwap.RangeNamespaceData{Shares: rd.Shares, LastIncompleteRowProof: rd.FirstIncompleteRowProof}
				try(fmt.Sprintf("single-row-window%+d-as-last-proof", d), rd2)
			}
			// window with the right end but wrong start, given as last proof
			if tcol+1-fcol >= 1 && fcol > 0 {
				// same length impossible; try same end, same length is the honest one. Use the
				// neighbouring row's equally-placed window.
				for _, d := range []int{-1, 1} {
					rr := fr + d
					if rr < 0 || rr >= w {
						continue
					}
					rd := shwap.RangeNamespaceData{Shares: [][]libshare.Share{cloneShares(sq.ODS[rr*w+fcol : rr*w+tcol+1])},
						FirstIncompleteRowProof: vkit.RangeProof(sq.ExtRowShares(rr), w, rr, fcol, tcol+1)}
					try(fmt.Sprintf("single-row-other-row%+d", d), rd)
				}
			}
			// full row without proofs presented for a partial request is caught by the count; a
			// partial row without proof:
			if fcol != 0 || tcol != w-1 {
				np := cloneRange(honest)
				np.FirstIncompleteRowProof = nil
				try("partial-row-no-proof", np)
			}
		}
		// proofs dropped / added
		if honest.FirstIncompleteRowProof != nil {
			np := cloneRange(honest)
			np.FirstIncompleteRowProof = nil
			try("first-proof-dropped", np)
			for _, pf := range vkit.ProofForgeries(r, honest.FirstIncompleteRowProof) {
				m := cloneRange(honest)
				m.FirstIncompleteRowProof = pf.Proof
				try("first-proof/"+pf.Op, m)
			}
		}
		if honest.LastIncompleteRowProof != nil {
			np := cloneRange(honest)
			np.LastIncompleteRowProof = nil
			try("last-proof-dropped", np)
			for _, pf := range vkit.ProofForgeries(r, honest.LastIncompleteRowProof) {
				m := cloneRange(honest)
				m.LastIncompleteRowProof = pf.Proof
				try("last-proof/"+pf.Op, m)
			}
		}
		// shares reordered / truncated / duplicated inside a row
		{
			m := cloneRange(honest)
			row := m.Shares[r.Intn(len(m.Shares))]
			if len(row) > 1 && !bytes.Equal(row[0].ToBytes(), row[1].ToBytes()) {
				row[0], row[1] = row[1], row[0]
				try("swap-in-row", m)
			}
			m2 := cloneRange(honest)
			li := len(m2.Shares) - 1
			if len(m2.Shares[li]) > 1 {
				m2.Shares[li] = m2.Shares[li][:len(m2.Shares[li])-1]
				try("truncate-last", m2)
			}
			m3 := cloneRange(honest)
			m3.Shares[0] = append(m3.Shares[0], m3.Shares[0][len(m3.Shares[0])-1])
			try("extend-first", m3)
			m4 := cloneRange(honest)
			k := r.Intn(len(m4.Shares))
			b := append([]byte(nil), m4.Shares[k][0].ToBytes()...)
			b[libshare.NamespaceSize+r.Intn(len(b)-libshare.NamespaceSize)] ^= 1 << uint(r.Intn(8))
			m4.Shares[k][0], _ = libshare.NewShare(b)
			try("share-bitflip", m4)
			m5 := cloneRange(honest)
			m5.Shares = append(m5.Shares, nil)
			try("extra-empty-row", m5)
		}
		// wire (length-delimited stream of RowNamespaceData frames)
		var buf bytes.Buffer
		hh := cloneRange(honest)
		if _, err := hh.WriteTo(&buf); err == nil {
			// round trip of the honest one first
			var back shwap.RangeNamespaceData
			c.tried("range", "wire/roundtrip", sq, posS)
			if _, err := back.ReadFrom(bytes.NewReader(buf.Bytes())); err != nil {
				c.run.Violation("C01 range honest wire round trip fails", map[string]any{"pos": posS, "err": err.Error(), "square": sq.Desc()})
			} else {
				ok := verify(&back, from, to, false)
				if !ok {
					c.run.Violation("C01 range honest-rejected after wire round trip", map[string]any{"pos": posS, "square": sq.Desc(), "rows": rowLens(back.Shares)})
				}
				c.judge(sq, "range", "wire/roundtrip", posS, ok, ok && equalRows(back.Shares, want), func() any { return "roundtrip differs" })
			}
			nm := 2
			if vkit.Thorough() {
				nm = 8
			}
			for k := 0; k < nm; k++ {
				mb, mop := vkit.MutateBytes(r, buf.Bytes())
				var rd shwap.RangeNamespaceData
				dec := false
				pnc, site := vkit.Recover(func() {
					if _, err := rd.ReadFrom(bytes.NewReader(mb)); err == nil {
						dec = true
					}
				})
				c.tried("range", "wire/"+mop, sq, posS)
				if pnc != nil {
					c.run.Violation("C01 range decode panics @"+site, map[string]any{"panic": fmt.Sprint(pnc), "bytes_len": len(mb)})
					continue
				}
				if !dec {
					continue
				}
				c.run.Count("range/wire/decoded", 1)
				ok := verify(&rd, from, to, false)
				c.judge(sq, "range", "wire/"+mop, posS, ok, ok && equalRows(rd.Shares, want), func() any { return mop })
			}
		}
	}
}

func rowLens(rows [][]libshare.Share) []int {
	out := make([]int, len(rows))
	for i, r := range rows {
		out[i] = len(r)
	}
	return out
}
