package checks

import (
	"bytes"
	"context"
	"encoding/binary"
	"encoding/json"
	"fmt"
	"math"
	"strings"

	"github.com/cometbft/cometbft/crypto/merkle"

	libhead "github.com/celestiaorg/go-header"

	"github.com/celestiaorg/celestia-node/header"
	"github.com/celestiaorg/celestia-node/nodebuilder/blobstream"
	"github.com/celestiaorg/celestia-node/zz_verif/vkit"
)

// ---------------------------------------------------------------------------------------------
// data-root tuple root + inclusion proof (blobstream.Service over a header getter)

// c12HeaderStore is the header getter of the blobstream service: a contiguous chain 1..N. It
// obeys the libhead.Getter contract the real store implements: GetRangeByHeight returns
// (from.Height, to) and refuses an empty range with an error, unknown heights are errors.
type c12HeaderStore struct {
	libhead.Store[*header.ExtendedHeader]
	chain []*header.ExtendedHeader // chain[i] has height i+1
}

func (s *c12HeaderStore) Head(context.Context, ...libhead.HeadOption[*header.ExtendedHeader]) (*header.ExtendedHeader, error) {
	return s.chain[len(s.chain)-1], nil
}

func (s *c12HeaderStore) GetByHeight(_ context.Context, h uint64) (*header.ExtendedHeader, error) {
	if h == 0 || h > uint64(len(s.chain)) {
		return nil, libhead.ErrNotFound
	}
	return s.chain[h-1], nil
}

func (s *c12HeaderStore) GetRangeByHeight(_ context.Context, from *header.ExtendedHeader, to uint64) ([]*header.ExtendedHeader, error) {
	lo := from.Height() + 1
	if lo >= to {
		return nil, fmt.Errorf("header/store: invalid range(%d,%d)", lo, to)
	}
	if to-1 > uint64(len(s.chain)) {
		return nil, libhead.ErrNotFound
	}
	return s.chain[lo-1 : to-1], nil
}

// c12Tuple is the reference encoding of a data root tuple: abi.encode(uint256 height, bytes32 root).
func c12Tuple(height uint64, dataRoot []byte) []byte {
	out := make([]byte, 64)
	binary.BigEndian.PutUint64(out[24:32], height)
	copy(out[32:], dataRoot)
	return out
}

func c12CloneMP(p *merkle.Proof) *merkle.Proof {
	return &merkle.Proof{Total: p.Total, Index: p.Index, LeafHash: c12clone(p.LeafHash), Aunts: c12clone2(p.Aunts)}
}

func (c *c12) tuples(ctx context.Context, r *vkit.RNG) {
	run := c.run
	const N = 10_060
	hs := &c12HeaderStore{}
	for i := 1; i <= N; i++ {
		eh := &header.ExtendedHeader{}
		eh.RawHeader.Height = int64(i)
		eh.RawHeader.ChainID = "verif"
		eh.RawHeader.DataHash = r.Bytes(32)
		if i%97 == 0 { // equal data roots at different heights (empty blocks do that)
			eh.RawHeader.DataHash = c12clone(hs.chain[i-2].DataHash)
		}
		hs.chain = append(hs.chain, eh)
	}
	svc := blobstream.NewService(hs)
	hashOf := func(h uint64) []byte { return hs.chain[h-1].DataHash }
	refRoot := func(s, e uint64) []byte {
		var leaves [][]byte
		for h := s; h < e; h++ {
			leaves = append(leaves, c12Tuple(h, hashOf(h)))
		}
		return merkle.HashFromByteSlices(leaves)
	}

	// --- range validation: every invalid request is an error, never a panic, never a result
	type req struct {
		name          string
		h, s, e       uint64
		proof, mustOK bool
	}
	head := uint64(N)
	var reqs []req
	for _, q := range []req{
		{name: "start-0", s: 0, e: 5}, {name: "start-0-end-0", s: 0, e: 0}, {name: "start==end", s: 7, e: 7}, {name: "start>end", s: 9, e: 3},
		{name: "end>head+1", s: head - 3, e: head + 2}, {name: "end-far-beyond-head", s: 5, e: head + 5000}, {name: "start-beyond-head", s: head + 1, e: head + 3},
		{name: "length-10001", s: 10, e: 10_011}, {name: "length-huge", s: 1, e: math.MaxUint64}, {name: "start-maxuint", s: math.MaxUint64, e: 5},
	} {
		reqs = append(reqs, q)
		q.proof, q.h = true, q.s
		reqs = append(reqs, q)
	}
	reqs = append(reqs,
		req{name: "height-below-range", proof: true, h: 4, s: 5, e: 10}, req{name: "height==end", proof: true, h: 10, s: 5, e: 10},
		req{name: "height-above-range", proof: true, h: 11, s: 5, e: 10}, req{name: "height-0", proof: true, h: 0, s: 5, e: 10},
		req{name: "ok/end==head+1", s: head - 5, e: head + 1, mustOK: true}, req{name: "ok/end==head+1", proof: true, h: head, s: head - 5, e: head + 1, mustOK: true},
		req{name: "ok/length-10000", s: 20, e: 10_020, mustOK: true}, req{name: "ok/length-10000", proof: true, h: 10_019, s: 20, e: 10_020, mustOK: true},
	)
	for _, q := range reqs {
		kind := "root"
		if q.proof {
			kind = "proof"
		}
		c.tried("tuple", "request/"+kind+"/"+q.name, fmt.Sprintf("h=%d [%d,%d)", q.h, q.s, q.e), nil)
		run.Distinct("tuple|req|" + kind + "|" + q.name)
		var err error
		var root []byte
		var pr *blobstream.DataRootTupleInclusionProof
		pn, site := vkit.Recover(func() {
			if q.proof {
				pr, err = svc.GetDataRootTupleInclusionProof(ctx, q.h, q.s, q.e)
			} else {
				root, err = svc.GetDataRootTupleRoot(ctx, q.s, q.e)
			}
		})
		wit := map[string]any{"request": kind, "case": q.name, "height": q.h, "start": q.s, "end": q.e, "head": head, "err": fmt.Sprint(err)}
		switch {
		case pn != nil:
			wit["panic"] = fmt.Sprint(pn)
			run.Violation("C12 blobstream request panics @"+site, wit)
		case q.mustOK && err != nil:
			run.Violation("C12 blobstream refuses a valid range", wit)
		case q.mustOK:
			run.Count("tuple/valid-boundary-request/served", 1)
			if q.proof {
				if verr := (*merkle.Proof)(pr).Verify(refRoot(q.s, q.e), c12Tuple(q.h, hashOf(q.h))); verr != nil {
					run.Violation("C12 tuple proof honest-rejected", wit)
				}
			} else if !bytes.Equal(root, refRoot(q.s, q.e)) {
				run.Violation("C12 tuple root differs from the reference", wit)
			}
		case err == nil || root != nil || pr != nil:
			run.Violation("C12 blobstream serves an invalid range case="+q.name, wit)
		default:
			run.Count("tuple/invalid-request/refused", 1)
		}
	}

	// --- ranges
	type rng struct{ s, e uint64 }
	var ranges []rng
	for s := uint64(1); s <= 5; s++ {
		for e := s + 1; e <= 7; e++ {
			ranges = append(ranges, rng{s, e})
		}
	}
	for i := 0; i < vkit.Scale(60, 400); i++ {
		l := uint64(r.Range(2, 300))
		if i%10 == 0 {
			l = uint64(r.Range(300, 3000))
		}
		s := uint64(r.Range(1, N-int(l)))
		ranges = append(ranges, rng{s, s + l})
	}
	ranges = append(ranges, rng{head - 1, head + 1}, rng{1, 10_001}, rng{96, 99})
	for _, g := range ranges {
		s, e := g.s, g.e
		dist := fmt.Sprintf("tuple|%d-%d|", s, e)
		c.tried("tuple", "root", fmt.Sprintf("[%d,%d)", s, e), nil)
		var root []byte
		var err error
		if pn, site := vkit.Recover(func() { root, err = svc.GetDataRootTupleRoot(ctx, s, e) }); pn != nil {
			run.Violation("C12 blobstream request panics @"+site, map[string]any{"panic": fmt.Sprint(pn), "start": s, "end": e})
			continue
		}
		if err != nil {
			if e-s == 1 {
				// a one-block range cannot be fetched: GetRangeByHeight(start, start+1) is an empty range,
				// which header stores refuse. No proof is produced, so nothing the property speaks about.
				run.Count("tuple/single-height-range/refused", 1)
				continue
			}
			run.Violation("C12 blobstream refuses a valid range", map[string]any{"start": s, "end": e, "head": head, "err": err.Error()})
			continue
		}
		want := refRoot(s, e)
		run.Distinct(dist + "root")
		if !bytes.Equal(root, want) {
			run.Violation("C12 tuple root differs from the reference", map[string]any{"start": s, "end": e, "got": fmt.Sprintf("%x", root), "want": fmt.Sprintf("%x", want)})
			continue
		}
		run.Count("tuple/root/equal", 1)
		var heights []uint64
		if e-s <= 8 {
			for h := s; h < e; h++ {
				heights = append(heights, h)
			}
		} else {
			heights = []uint64{s, e - 1, s + uint64(r.Intn(int(e-s))), s + uint64(r.Intn(int(e-s)))}
		}
		for _, h := range heights {
			c.tried("tuple", "honest", fmt.Sprintf("h=%d [%d,%d)", h, s, e), nil)
			var pr *blobstream.DataRootTupleInclusionProof
			if pn, site := vkit.Recover(func() { pr, err = svc.GetDataRootTupleInclusionProof(ctx, h, s, e) }); pn != nil || err != nil || pr == nil {
				run.Violation("C12 tuple proof not produced for a height inside a valid range", map[string]any{"height": h, "start": s, "end": e, "err": fmt.Sprint(err), "panic": fmt.Sprint(pn), "site": site})
				continue
			}
			honest := (*merkle.Proof)(pr)
			leaf := c12Tuple(h, hashOf(h))
			if verr := honest.Verify(root, leaf); verr != nil {
				run.Violation("C12 tuple proof honest-rejected", map[string]any{"height": h, "start": s, "end": e, "err": verr.Error()})
				continue
			}
			run.Count("tuple/honest/accepted", 1)
			run.Distinct(dist + fmt.Sprintf("h%d|honest", h))
			hjson, _ := json.Marshal(pr)
			try := func(op string, p *merkle.Proof, rt, lf []byte) {
				c.tried("tuple", op, fmt.Sprintf("h=%d [%d,%d)", h, s, e), nil)
				run.Distinct(dist + fmt.Sprintf("h%d|", h) + op)
				var verr error
				pn, kind, where := c12Recover(func() { verr = p.Verify(rt, lf) })
				opc := op
				if strings.HasPrefix(op, "json/") {
					opc = "json"
				}
				wit := map[string]any{"op": op, "height": h, "start": s, "end": e, "proof": fmt.Sprintf("total=%d index=%d aunts=%d", p.Total, p.Index, len(p.Aunts)),
					"root": fmt.Sprintf("%x", rt), "leaf": fmt.Sprintf("%x", lf), "seed": vkit.Seed()}
				if pn != nil {
					wit["panic"] = fmt.Sprint(pn)
					run.Violation(fmt.Sprintf("C12 tuple proof verification panics: %s in %s", kind, where), wit)
					return
				}
				if verr != nil {
					run.Count("tuple/rejected", 1)
					return
				}
				run.Count("tuple/"+op+"/accepted", 1)
				// accepted: must be the honest statement — the reference root of the range, the tuple
				// of a height of the range at its own position, with that height's data root
				// (the merkle root does not commit to the leaf count, so Total is not part of the claim;
				// the position is fixed by the height inside the leaf)
				j, _ := json.Marshal(p)
				claimTrue := bytes.Equal(rt, want) && len(lf) == 64 && bytes.Equal(lf[:24], make([]byte, 24))
				if claimTrue {
					pos := binary.BigEndian.Uint64(lf[24:32])
					claimTrue = pos >= s && pos < e && bytes.Equal(lf, c12Tuple(pos, hashOf(pos)))
				}
				if !claimTrue {
					run.Violation("C12 tuple proof accepted-but-false op="+opc, wit)
					return
				}
				if !bytes.Equal(j, hjson) || !bytes.Equal(lf, leaf) {
					run.Count("tuple/accepted-nonidentical/"+op, 1)
				}
			}
			// other heights / hashes / roots
			try("leaf-height+1", c12CloneMP(honest), root, c12Tuple(h+1, hashOf(h)))
			try("leaf-height-1", c12CloneMP(honest), root, c12Tuple(h-1, hashOf(h)))
			try("leaf-height-0", c12CloneMP(honest), root, c12Tuple(0, hashOf(h)))
			try("leaf-hash-random", c12CloneMP(honest), root, c12Tuple(h, r.Bytes(32)))
			try("leaf-hash-bitflip", c12CloneMP(honest), root, c12Tuple(h, c12flip(r, hashOf(h))))
			if h+1 <= head && !bytes.Equal(hashOf(h+1), hashOf(h)) {
				try("leaf-hash-of-next-height", c12CloneMP(honest), root, c12Tuple(h, hashOf(h+1)))
				try("leaf-of-next-height", c12CloneMP(honest), root, c12Tuple(h+1, hashOf(h+1)))
			}
			try("leaf-short", c12CloneMP(honest), root, leaf[:63])
			try("leaf-empty", c12CloneMP(honest), root, nil)
			try("leaf-swapped-halves", c12CloneMP(honest), root, append(c12clone(leaf[32:]), leaf[:32]...))
			try("root-bitflip", c12CloneMP(honest), c12flip(r, root), leaf)
			try("root-empty", c12CloneMP(honest), nil, leaf)
			try("root-short", c12CloneMP(honest), root[:31], leaf)
			if e <= head {
				try("root-of-shifted-range", c12CloneMP(honest), refRoot(s+1, e+1), leaf)
				try("root-of-widened-range", c12CloneMP(honest), refRoot(s, e+1), leaf)
			}
			if e-s > 1 {
				try("root-of-narrowed-range", c12CloneMP(honest), refRoot(s, e-1), leaf)
				oh := s + (h-s+1)%(e-s)
				if op, err := svc.GetDataRootTupleInclusionProof(ctx, oh, s, e); err == nil {
					try("proof-of-other-height", (*merkle.Proof)(op), root, leaf)
					mixed := c12CloneMP(honest)
					mixed.Aunts = c12clone2(op.Aunts)
					try("aunts-of-other-height", mixed, root, leaf)
				}
			}
			mp := func(op string, f func(q *merkle.Proof) bool) {
				q := c12CloneMP(honest)
				if f(q) {
					try(op, q, root, leaf)
				}
			}
			mp("index+1", func(q *merkle.Proof) bool { q.Index++; return true })
			mp("index-1", func(q *merkle.Proof) bool { q.Index--; return true })
			mp("index-negative", func(q *merkle.Proof) bool { q.Index = -1; return true })
			mp("index-huge", func(q *merkle.Proof) bool { q.Index = math.MaxInt64; return true })
			mp("total+1", func(q *merkle.Proof) bool { q.Total++; return true })
			mp("total-1", func(q *merkle.Proof) bool { q.Total--; return true })
			mp("total-0", func(q *merkle.Proof) bool { q.Total = 0; return true })
			mp("total-negative", func(q *merkle.Proof) bool { q.Total = -1; return true })
			mp("total-huge", func(q *merkle.Proof) bool { q.Total = math.MaxInt64; return true })
			mp("aunts-nil", func(q *merkle.Proof) bool { q.Aunts = nil; return len(honest.Aunts) > 0 })
			mp("aunts-drop-first", func(q *merkle.Proof) bool {
				if len(q.Aunts) == 0 {
					return false
				}
				q.Aunts = q.Aunts[1:]
				return true
			})
			mp("aunts-drop-last", func(q *merkle.Proof) bool {
				if len(q.Aunts) == 0 {
					return false
				}
				q.Aunts = q.Aunts[:len(q.Aunts)-1]
				return true
			})
			mp("aunts-append-copy", func(q *merkle.Proof) bool {
				if len(q.Aunts) == 0 {
					return false
				}
				q.Aunts = append(q.Aunts, c12clone(q.Aunts[len(q.Aunts)-1]))
				return true
			})
			mp("aunts-append-random", func(q *merkle.Proof) bool { q.Aunts = append(q.Aunts, r.Bytes(32)); return true })
			mp("aunts-dup-first", func(q *merkle.Proof) bool {
				if len(q.Aunts) == 0 {
					return false
				}
				q.Aunts = append([][]byte{c12clone(q.Aunts[0])}, q.Aunts...)
				return true
			})
			mp("aunts-swap", func(q *merkle.Proof) bool {
				if len(q.Aunts) < 2 || bytes.Equal(q.Aunts[0], q.Aunts[1]) {
					return false
				}
				q.Aunts[0], q.Aunts[1] = q.Aunts[1], q.Aunts[0]
				return true
			})
			mp("aunts-reverse", func(q *merkle.Proof) bool {
				if len(q.Aunts) < 3 {
					return false
				}
				for i, j := 0, len(q.Aunts)-1; i < j; i, j = i+1, j-1 {
					q.Aunts[i], q.Aunts[j] = q.Aunts[j], q.Aunts[i]
				}
				return true
			})
			mp("aunt-bitflip", func(q *merkle.Proof) bool {
				if len(q.Aunts) == 0 {
					return false
				}
				i := r.Intn(len(q.Aunts))
				q.Aunts[i] = c12flip(r, q.Aunts[i])
				return true
			})
			mp("aunt-nil", func(q *merkle.Proof) bool {
				if len(q.Aunts) == 0 {
					return false
				}
				q.Aunts[r.Intn(len(q.Aunts))] = nil
				return true
			})
			mp("aunt-short", func(q *merkle.Proof) bool {
				if len(q.Aunts) == 0 {
					return false
				}
				q.Aunts[0] = q.Aunts[0][:5]
				return true
			})
			mp("leafhash-bitflip", func(q *merkle.Proof) bool { q.LeafHash = c12flip(r, q.LeafHash); return true })
			mp("leafhash-nil", func(q *merkle.Proof) bool { q.LeafHash = nil; return true })
			mp("leafhash-is-root", func(q *merkle.Proof) bool { q.LeafHash = c12clone(root); return true })
			mp("zero-proof", func(q *merkle.Proof) bool { *q = merkle.Proof{}; return true })
			// JSON form
			for i := 0; i < vkit.Scale(3, 12); i++ {
				mb, mop := vkit.MutateBytes(r, hjson)
				var p blobstream.DataRootTupleInclusionProof
				var derr error
				if pn, site := vkit.Recover(func() { derr = json.Unmarshal(mb, &p) }); pn != nil {
					run.Violation("C12 tuple proof JSON decode panics @"+site, map[string]any{"panic": fmt.Sprint(pn), "json": string(mb)})
					continue
				}
				if derr != nil {
					run.Count("tuple/json/undecodable", 1)
					continue
				}
				run.Count("tuple/json/decoded", 1)
				try("json/"+mop, (*merkle.Proof)(&p), root, leaf)
			}
		}
	}
}
