package checks

import (
	"bytes"
	"context"
	"fmt"
	"io"
	"os"
	"strings"
	"sync"
	"time"

	"github.com/celestiaorg/rsmt2d"

	"github.com/celestiaorg/celestia-node/share/eds"
	"github.com/celestiaorg/celestia-node/share/shwap"
	"github.com/celestiaorg/celestia-node/zz_verif/vkit"
)

// Concurrent part of C05: the read-equality statement does not depend on how many readers use a
// representation at once. Per (square, file-backed representation): rounds over a freshly opened
// accessor (so that lazily loaded state — the in-memory ODS, the Q4 handle, proof caches — is loaded
// under contention in every round), G goroutines per round whose first operations are pinned to a
// rotating mix (multi-row range, bottom-half sample, parity row, whole share list, …) followed by
// random ones; every result is compared with the reference square. A round that never ends is
// decided by the stable-state oracle (identical goroutine dumps, nothing runnable): the phase runs
// alone, after the parallel sequential batteries, so a stable process is a deadlocked accessor.

const c05Kinds = 7

var c05KindNames = [c05Kinds]string{"Sample/parity-quadrants", "RangeNamespaceData/multi-row", "AxisHalf", "Shares", "RowNamespaceData", "NamespaceData", "Reader"}

// c05randRead issues one read of the given kind and compares it with the reference.
func c05randRead(ctx context.Context, r *vkit.RNG, acc eds.Accessor, sq *vkit.Square, kind int) string {
	w, n := sq.W, 2*sq.W
	switch kind {
	case 0:
		row, col := w+r.Intn(w), r.Intn(n) // bottom half: needs parity data
		if r.Chance(1, 4) {
			row = r.Intn(n)
		}
		s, err := acc.Sample(ctx, shwap.SampleCoords{Row: row, Col: col})
		if err != nil {
			return fmt.Sprintf("Sample(%d,%d): %v", row, col, err)
		}
		if !bytes.Equal(s.ToBytes(), sq.Cell(row, col)) {
			return fmt.Sprintf("Sample(%d,%d): share differs from the square", row, col)
		}
		if err := s.Verify(sq.Roots, row, col); err != nil {
			return fmt.Sprintf("Sample(%d,%d): does not verify: %v", row, col, err)
		}
	case 1:
		if len(sq.Runs) == 0 {
			return ""
		}
		// the longest run gives the widest multi-row ranges
		best := sq.Runs[0]
		for _, run := range sq.Runs {
			if run.Count > best.Count {
				best = run
			}
		}
		if r.Chance(1, 3) {
			best = sq.Runs[r.Intn(len(sq.Runs))]
		}
		a, b := best.Start, best.Start+best.Count
		if best.Count > 2 && r.Bool() {
			a += r.Intn(best.Count / 2)
			b -= r.Intn(best.Count / 2)
		}
		rd, err := acc.RangeNamespaceData(ctx, a, b)
		if err != nil {
			return fmt.Sprintf("RangeNamespaceData[%d,%d): %v", a, b, err)
		}
		if !vkit.EqualShares(rd.Flatten(), sq.ODS[a:b]) {
			return fmt.Sprintf("RangeNamespaceData[%d,%d): shares differ from the square", a, b)
		}
		fc, _ := shwap.SampleCoordsFrom1DIndex(a, w)
		tc, _ := shwap.SampleCoordsFrom1DIndex(b-1, w)
		if err := rd.VerifyInclusion(fc, tc, w, sq.Roots.RowRoots[fc.Row:tc.Row+1]); err != nil {
			return fmt.Sprintf("RangeNamespaceData[%d,%d): does not verify: %v", a, b, err)
		}
	case 2:
		ax := rsmt2d.Axis(r.Intn(2))
		i := r.Intn(n)
		h, err := acc.AxisHalf(ctx, ax, i)
		if err != nil {
			return fmt.Sprintf("AxisHalf(%d,%d): %v", ax, i, err)
		}
		ext, err := h.Extended()
		if err != nil {
			return fmt.Sprintf("AxisHalf(%d,%d): extend: %v", ax, i, err)
		}
		want := sq.ExtRowShares(i)
		if ax == rsmt2d.Col {
			want = sq.ExtColShares(i)
		}
		if !vkit.EqualShares(ext, want) {
			return fmt.Sprintf("AxisHalf(%d,%d): differs from the square", ax, i)
		}
	case 3:
		sh, err := acc.Shares(ctx)
		if err != nil {
			return "Shares: " + err.Error()
		}
		if !vkit.EqualShares(sh, sq.ODS) {
			return "Shares: differ from the square"
		}
	case 4:
		row := r.Intn(w)
		ns := sq.ODS[row*w+r.Intn(w)].Namespace()
		if ns.ValidateForData() != nil {
			return ""
		}
		rnd, err := acc.RowNamespaceData(ctx, ns, row)
		if err != nil {
			return fmt.Sprintf("RowNamespaceData(row %d): %v", row, err)
		}
		want, _ := sq.RowSharesOf(ns, row)
		if !vkit.EqualShares(rnd.Shares, want) {
			return fmt.Sprintf("RowNamespaceData(row %d): differs from the square", row)
		}
		if err := rnd.Verify(sq.Roots, ns, row); err != nil {
			return fmt.Sprintf("RowNamespaceData(row %d): does not verify: %v", row, err)
		}
	case 5:
		ns := sq.ODS[r.Intn(len(sq.ODS))].Namespace()
		if ns.ValidateForData() != nil {
			return ""
		}
		nd, err := eds.NamespaceData(ctx, acc, ns)
		if err != nil {
			return "NamespaceData: " + err.Error()
		}
		if !vkit.EqualShares(nd.Flatten(), sq.SharesOf(ns)) {
			return "NamespaceData: differs from the square"
		}
		if err := nd.Verify(sq.Roots, ns); err != nil {
			return "NamespaceData: does not verify: " + err.Error()
		}
	default:
		st, ok := acc.(eds.Streamer)
		if !ok {
			return ""
		}
		rd, err := st.Reader()
		if err != nil {
			return "Reader: " + err.Error()
		}
		got, err := io.ReadAll(rd)
		if err != nil {
			return "Reader: read: " + err.Error()
		}
		var ref []byte
		for _, s := range sq.ODS {
			ref = append(ref, s.ToBytes()...)
		}
		if len(got) > len(ref) || !bytes.Equal(got, ref[:len(got)]) || len(got) < (len(sq.ODS)-sq.Tail)*512 {
			return "Reader: stream is not the original square"
		}
	}
	return ""
}

var c05concReps = map[string]bool{
	"ods-file": true, "odsq4-file": true, "odsq4-file-q4-deleted": true, "odsq4-file+proofscache": true,
	"store/recent-cache": true, "store/ods-only": true, "store/reopened": true, "store/q4-removed": true,
	"cachedstore/first": true, "cachedstore/second": true,
}

// c05concurrent runs after everything else, alone in the process.
func c05concurrent(run *vkit.Run, rng *vkit.RNG, base string) {
	type cc struct {
		w      int
		layout string
	}
	cases := []cc{{4, "runs"}, {8, "rowfill"}, {16, "runs"}, {16, "rowfill"}}
	if vkit.Thorough() {
		cases = append(cases, cc{8, "runs"}, cc{8, "padded"}, cc{16, "padded"}, cc{32, "runs"}, cc{32, "rowfill"})
	}
	rounds := vkit.Scale(8, 60)
	const G = 6
	have := map[string]bool{}
	for ci, cs := range cases {
		r := rng.SplitN("conc", ci)
		sq := vkit.GenSquare(r, cs.w, cs.layout, r.Intn(cs.w))
		dir := fmt.Sprintf("%s/conc%d", base, ci)
		if err := os.MkdirAll(dir, 0o755); err != nil {
			run.Inconclusive("concurrent part: " + err.Error())
			return
		}
		for _, rep := range c05reps() {
			if !c05concReps[rep.name] {
				continue
			}
			have[rep.name] = true
			for round := 0; round < rounds; round++ {
				acc, cleanup, err := rep.open(dir, sq, uint64(7000+ci))
				if err != nil {
					run.Violation("C05 cannot open representation "+rep.name, map[string]any{"square": sq.Desc(), "err": err.Error()})
					break
				}
				ctx, cancel := context.WithCancel(context.Background())
				var mu sync.Mutex
				var probs []string
				var log []string
				start := make(chan struct{})
				var wg sync.WaitGroup
				for g := 0; g < G; g++ {
					wg.Add(1)
					go func(g int) {
						defer wg.Done()
						gr := r.SplitN(fmt.Sprintf("%s/%d/g", rep.name, round), g)
						<-start
						for k := 0; k < 5; k++ {
							kind := gr.Intn(c05Kinds)
							if k == 0 {
								// pinned first operations, rotated over the rounds: every pair of kinds meets on a fresh accessor
								kind = (g*(1+round/c05Kinds) + round) % c05Kinds
								if g == 0 {
									kind = 1
								} else if g == 1 {
									kind = 0
								}
							}
							mu.Lock()
							log = append(log, fmt.Sprintf("g%d:%s", g, c05KindNames[kind]))
							mu.Unlock()
							var p string
							if pn, site := vkit.Recover(func() { p = c05randRead(ctx, gr, acc, sq, kind) }); pn != nil {
								p = fmt.Sprintf("%s panics: %v @%s", c05KindNames[kind], pn, site)
							}
							run.Count("concurrent/reads/"+c05KindNames[kind], 1)
							if p != "" {
								mu.Lock()
								probs = append(probs, p)
								mu.Unlock()
							}
						}
					}(g)
				}
				done := make(chan struct{})
				go func() { wg.Wait(); close(done) }()
				close(start)
				verdict := "done"
				select {
				case <-done:
				case <-time.After(20 * time.Second):
					var dump string
					for i := 0; i < 10; i++ {
						verdict, dump = vkit.WaitStable(done, vkit.StableOpts{Polls: 40, Every: 50 * time.Millisecond, MaxWait: time.Minute})
						if verdict != "inconclusive" {
							break
						}
					}
					if verdict == "hang" {
						mu.Lock()
						run.Violation("C05 concurrent reads of "+rep.name+" never return (stable state: nothing can end them): "+strings.Join(vkit.RepoFrames(dump), " | "),
							map[string]any{"square": sq.Desc(), "round": round, "operations_started": append([]string(nil), log...), "dump": tailStr(dump, 6000)})
						mu.Unlock()
					} else if verdict == "inconclusive" {
						run.Inconclusive("C05 concurrent round did not end within the outer watchdog although the process kept moving: " + rep.name)
					}
				}
				cancel()
				if verdict != "done" {
					return // the blocked readers stay behind: nothing further can be judged in this process
				}
				cleanup()
				run.Eval(1)
				run.Count("concurrent/rounds", 1)
				run.Count("concurrent/rep/"+rep.name, 1)
				run.Distinct(fmt.Sprintf("conc|%s|%s|%d", sq.Desc(), rep.name, round%c05Kinds))
				mu.Lock()
				for _, p := range probs {
					what := p
					if i := strings.IndexAny(p, "([:"); i > 0 {
						what = p[:i]
					}
					run.Violation(fmt.Sprintf("C05 %s: %s disagrees with the stored square under concurrent readers", rep.name, what),
						map[string]any{"square": sq.Desc(), "round": round, "what": p, "operations_started": append([]string(nil), log...)})
				}
				mu.Unlock()
			}
		}
	}
	run.Require("concurrent/rounds", rounds*len(cases)*len(have)*9/10)
	if len(have) < 6 {
		run.Inconclusive(fmt.Sprintf("concurrent part found only %d of its representations", len(have)))
	}
}
