package checks

import (
	"bytes"
	"context"
	"errors"
	"fmt"
	"runtime"
	"sync"
	"time"

	libhead "github.com/celestiaorg/go-header"
	libshare "github.com/celestiaorg/go-square/v4/share"
	"github.com/celestiaorg/rsmt2d"

	"github.com/celestiaorg/celestia-node/blob"
	"github.com/celestiaorg/celestia-node/header"
	nodeheader "github.com/celestiaorg/celestia-node/nodebuilder/header"
	"github.com/celestiaorg/celestia-node/share/shwap"
	"github.com/celestiaorg/celestia-node/zz_verif/vkit"
)

// Header-feed part of C20: the blob module is wired to nodebuilder/header's Service.Subscribe, not to
// a bare channel. Here the real header Service (around a lossless scripted header subscription) feeds
// the real blob Service. Scenario: an outage of block retrieval while many headers arrive, then
// recovery, then more headers; the consumer reads promptly and nobody cancels. Oracle: the heights
// delivered are exactly the heights fed, in order (no gap, no repetition), with the reference blobs.
// No clock in the verdict: the outage ends after a number of failed attempts (and once the header
// service has taken every offered header, if it ever does); an unfinished stream is decided by the
// watchdog as inconclusive (a slow stream cannot be told from a stopped one); only a gap is a verdict.

type c20FeedSub struct {
	mu     sync.Mutex
	cond   *sync.Cond
	q      []*header.ExtendedHeader
	taken  int
	closed bool
}

func (s *c20FeedSub) Subscribe() (libhead.Subscription[*header.ExtendedHeader], error) { return s, nil }
func (s *c20FeedSub) SetVerifier(func(context.Context, *header.ExtendedHeader) error) error {
	return nil
}

func (s *c20FeedSub) NextHeader(ctx context.Context) (*header.ExtendedHeader, error) {
	stop := context.AfterFunc(ctx, func() {
		s.mu.Lock()
		s.cond.Broadcast()
		s.mu.Unlock()
	})
	defer stop()
	s.mu.Lock()
	defer s.mu.Unlock()
	for s.taken >= len(s.q) {
		if ctx.Err() != nil {
			return nil, ctx.Err()
		}
		if s.closed {
			return nil, errors.New("c20: subscription cancelled")
		}
		s.cond.Wait()
	}
	h := s.q[s.taken]
	s.taken++
	return h, nil
}

func (s *c20FeedSub) Cancel() {
	s.mu.Lock()
	s.closed = true
	s.cond.Broadcast()
	s.mu.Unlock()
}

func (s *c20FeedSub) offer(hs ...*header.ExtendedHeader) {
	s.mu.Lock()
	s.q = append(s.q, hs...)
	s.cond.Broadcast()
	s.mu.Unlock()
}

func (s *c20FeedSub) pending() int {
	s.mu.Lock()
	defer s.mu.Unlock()
	return len(s.q) - s.taken
}

type c20FeedGetter struct {
	mu       sync.Mutex
	outage   bool
	failed   int
	blocks   map[uint64]*c20Block
	key      string
	onFailed func(n int)
}

func (g *c20FeedGetter) GetNamespaceData(_ context.Context, h *header.ExtendedHeader, _ libshare.Namespace) (shwap.NamespaceData, error) {
	g.mu.Lock()
	if g.outage {
		g.failed++
		n := g.failed
		cb := g.onFailed
		g.mu.Unlock()
		runtime.Gosched()
		if cb != nil {
			cb(n)
		}
		return nil, errors.New("c20: scripted retrieval outage")
	}
	b := g.blocks[h.Height()]
	g.mu.Unlock()
	if b == nil {
		return nil, errors.New("c20: unknown height")
	}
	return b.nd[g.key], nil
}

func (g *c20FeedGetter) GetSamples(context.Context, *header.ExtendedHeader, []shwap.SampleCoords) ([]shwap.Sample, error) {
	return nil, shwap.ErrOperationNotSupported
}

func (g *c20FeedGetter) GetEDS(context.Context, *header.ExtendedHeader) (*rsmt2d.ExtendedDataSquare, error) {
	return nil, shwap.ErrOperationNotSupported
}

func (g *c20FeedGetter) GetRow(context.Context, *header.ExtendedHeader, int) (shwap.Row, error) {
	return shwap.Row{}, shwap.ErrOperationNotSupported
}

func (g *c20FeedGetter) GetRangeNamespaceData(context.Context, *header.ExtendedHeader, int, int) (shwap.RangeNamespaceData, error) {
	return shwap.RangeNamespaceData{}, shwap.ErrOperationNotSupported
}

func (c *c20) feedFamily(rng *vkit.RNG) {
	run := c.run
	n := vkit.Scale(12, 120)
	for i := 0; i < n; i++ {
		r := rng.SplitN("feed", i)
		during := vkit.Pick(r, []int{0, 3, 15, 17, 18, 25, 40, 70}) // headers arriving during the outage
		after := r.Range(2, 12)
		before := r.Intn(4)
		nsIdx := r.Intn(len(c.pool.used))
		ns := c.pool.used[nsIdx]
		total := before + during + after
		sub := &c20FeedSub{}
		sub.cond = sync.NewCond(&sub.mu)
		g := &c20FeedGetter{blocks: map[uint64]*c20Block{}, key: c20Key(ns)}
		var hdrs []*header.ExtendedHeader
		byH := map[uint64]*header.ExtendedHeader{}
		for k := 0; k < total; k++ {
			b := c.pool.blocks[(i*5+k*7)%len(c.pool.blocks)]
			h := &header.ExtendedHeader{DAH: b.sq.Roots}
			h.RawHeader.Height = int64(100 + k)
			h.RawHeader.ChainID = "verif"
			h.RawHeader.DataHash = b.sq.Roots.Hash()
			hdrs = append(hdrs, h)
			byH[h.Height()] = h
			g.blocks[h.Height()] = b
		}
		hs := nodeheader.VerifNewSubscribeService(sub)
		svc := blob.NewService(nil, g, func(_ context.Context, height uint64) (*header.ExtendedHeader, error) {
			if h := byH[height]; h != nil {
				return h, nil
			}
			return nil, errors.New("c20: unknown height")
		}, hs.Subscribe)
		_ = svc.Start(context.Background())
		ctx, cancel := context.WithCancel(context.Background())
		desc := map[string]any{"scenario": i, "headers_before_outage": before, "headers_during_outage": during, "headers_after_recovery": after, "namespace": ns.String(), "seed": vkit.Seed()}
		out, err := svc.Subscribe(ctx, ns)
		if err != nil {
			run.Violation("C20 subscribe fails [header service feed]", desc)
			cancel()
			continue
		}
		// consumer: prompt
		var got []uint64
		var gmu sync.Mutex
		done := make(chan struct{})
		gap := make(chan struct{}, 1)
		go func() {
			defer close(done)
			for resp := range out {
				gmu.Lock()
				got = append(got, resp.Height)
				k := len(got)
				gmu.Unlock()
				run.Eval(1)
				want := g.blocks[resp.Height]
				if want != nil {
					ref := want.ref[g.key]
					ok := len(ref) == len(resp.Blobs)
					for j := 0; ok && j < len(ref); j++ {
						ok = bytes.Equal(ref[j].Commitment, resp.Blobs[j].Commitment) && bytes.Equal(ref[j].Data, resp.Blobs[j].Data())
					}
					if !ok {
						run.Violation("C20 response differs from the block's blobs [header service feed]", desc)
					}
				}
				if resp.Height != uint64(100+k-1) {
					select {
					case gap <- struct{}{}:
					default:
					}
					return
				}
				if k == total {
					return
				}
			}
		}()
		sub.offer(hdrs[:before]...)
		// the outage starts once the headers before it were delivered
		for spins := 0; ; spins++ {
			gmu.Lock()
			k := len(got)
			gmu.Unlock()
			if k >= before || spins > 200000 {
				break
			}
			runtime.Gosched()
			if spins%1000 == 999 {
				time.Sleep(time.Millisecond)
			}
		}
		recovered := make(chan struct{})
		var once sync.Once
		g.mu.Lock()
		g.outage = during > 0
		g.onFailed = func(nf int) {
			// the outage ends after 50 failed attempts if the header service has taken every header that
			// was offered, after 3000 otherwise (a correct service holds the next header until it is taken)
			if (nf >= 50 && sub.pending() == 0) || nf >= 3000 {
				once.Do(func() {
					g.mu.Lock()
					g.outage = false
					g.mu.Unlock()
					close(recovered)
				})
			}
		}
		g.mu.Unlock()
		sub.offer(hdrs[before : before+during]...)
		if during > 0 {
			select {
			case <-recovered:
			case <-time.After(3 * time.Second):
				// a service that pauses between its attempts: the outage simply ends now (the timer only
				// schedules the end of the outage, nothing is judged by it)
				g.mu.Lock()
				nf := g.failed
				g.mu.Unlock()
				if nf == 0 {
					run.Inconclusive(fmt.Sprintf("feed scenario %d: the retrieval outage was never exercised (no failing attempts)", i))
				}
				run.Count("feed/outage-ended-by-timer", 1)
				once.Do(func() {
					g.mu.Lock()
					g.outage = false
					g.mu.Unlock()
					close(recovered)
				})
			}
		}
		sub.offer(hdrs[before+during:]...)
		verdict := "done"
		select {
		case <-done:
		case <-time.After(90 * time.Second):
			// not finished: a stream that merely is slow (a retry back-off inside the service) cannot be told
			// from one that stopped by looking at goroutines; only a gap is a verdict here
			verdict = "unfinished"
		}
		gmu.Lock()
		delivered := append([]uint64(nil), got...)
		gmu.Unlock()
		desc["delivered_heights"] = fmt.Sprint(delivered)
		desc["failed_attempts_during_outage"] = g.failed
		run.Count("feed/scenarios", 1)
		run.Count(fmt.Sprintf("feed/headers-during-outage/%d", during), 1)
		run.Distinct(fmt.Sprintf("feed|%d|%d|%d", before, during, after))
		switch {
		case len(gap) > 0:
			run.Violation("C20 delivered heights skip or repeat fed headers although nobody cancelled and the consumer reads promptly [header service feed, retrieval outage]", desc)
		case verdict != "done":
			run.Inconclusive(fmt.Sprintf("feed scenario %d: not every fed header was delivered within the watchdog (no gap seen): %v", i, delivered))
		case len(delivered) == total:
			run.Count("feed/all-headers-delivered-in-order", 1)
		}
		cancel()
		_ = svc.Stop(context.Background())
		sub.Cancel()
	}
	run.Require("feed/all-headers-delivered-in-order", n*8/10)
}
