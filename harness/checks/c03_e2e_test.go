package checks

import (
	"context"
	"fmt"
	"os"
	"strings"
	"sync"
	"sync/atomic"
	"time"

	"github.com/ipfs/go-datastore"
	dssync "github.com/ipfs/go-datastore/sync"
	"github.com/libp2p/go-libp2p/core/host"
	"github.com/libp2p/go-libp2p/core/network"
	"github.com/libp2p/go-libp2p/p2p/net/conngater"
	mocknet "github.com/libp2p/go-libp2p/p2p/net/mock"

	"github.com/celestiaorg/go-libp2p-messenger/serde"
	libshare "github.com/celestiaorg/go-square/v4/share"
	"github.com/celestiaorg/rsmt2d"

	"github.com/celestiaorg/celestia-node/share/availability"
	"github.com/celestiaorg/celestia-node/share/availability/light"
	"github.com/celestiaorg/celestia-node/share/shwap"
	"github.com/celestiaorg/celestia-node/share/shwap/getters"
	"github.com/celestiaorg/celestia-node/share/shwap/p2p/shrex"
	shrexpb "github.com/celestiaorg/celestia-node/share/shwap/p2p/shrex/pb"
	"github.com/celestiaorg/celestia-node/share/shwap/p2p/shrex/peers"
	"github.com/celestiaorg/celestia-node/share/shwap/p2p/shrex/shrex_getter"
	"github.com/celestiaorg/celestia-node/zz_verif/vkit"
)

// End-to-end variant: the real light.ShareAvailability over the REAL shrex getter (directly, and
// behind the CascadeGetter as in the light node's wiring) whose only peers are scripted: a byzantine
// peer answering every sample request with a decodable but wrong sample, with or without an honest
// peer. The same monitor sits at the getter boundary: what the getter stack hands up is verified
// independently, and a coordinate treated as sampled without ever having been validly served is
// the violation.

type c03E2ECase struct {
	Peer      string `json:"byzantine_peer"` // wrong-coord | twin | garbled-share | axis-swap | not-found | honest
	Honest    string `json:"honest_peer"`    // none | with | later
	Stack     string `json:"getter_stack"`   // shrex | cascade(shrex)
	Blacklist bool   `json:"blacklisting"`
}

// c03ServePeer installs a sample handler with the given behaviour on h.
func c03ServePeer(h host.Host, s *c03Sq, beh string, served, wrong *atomic.Int64) {
	pid := shrex.ProtocolID("", shwap.SampleID{}.Name())
	h.SetStreamHandler(pid, func(st network.Stream) {
		defer st.Close()
		var id shwap.SampleID
		if _, err := id.ReadFrom(st); err != nil {
			_ = st.Reset()
			return
		}
		_ = st.CloseRead()
		_ = st.SetWriteDeadline(time.Now().Add(10 * time.Second))
		n := 2 * s.sq.W
		c := c03Coord{Row: id.RowIndex, Col: id.ShareIndex}
		if c.Row < 0 || c.Col < 0 || c.Row >= n || c.Col >= n {
			_ = st.Reset()
			return
		}
		served.Add(1)
		if wrong != nil && beh != "honest" && beh != "not-found" {
			wrong.Add(1)
		}
		if beh == "not-found" {
			_, _ = serde.Write(st, &shrexpb.Response{Status: shrexpb.Status_NOT_FOUND})
			return
		}
		var smpl shwap.Sample
		switch beh {
		case "wrong-coord": // a valid sample of the same row, neighbouring column
			smpl = s.sample(s.sq, c03Coord{Row: c.Row, Col: (c.Col + 1) % n}, rsmt2d.Row)
		case "twin": // requested position, but of another block with the same layout
			smpl = s.sample(s.tw, c, rsmt2d.Row)
		case "garbled-share":
			smpl = s.sample(s.sq, c, rsmt2d.Row)
			b := append([]byte(nil), smpl.ToBytes()...)
			b[len(b)-1] ^= 1
			if sh, err := libshare.NewShare(b); err == nil {
				smpl.Share = sh
			}
		case "axis-swap": // row proof declared as a column proof
			smpl = s.sample(s.sq, c, rsmt2d.Row)
			smpl.ProofType = rsmt2d.Col
		default:
			smpl = s.sample(s.sq, c, rsmt2d.Axis(int(served.Load())%2))
		}
		if _, err := serde.Write(st, &shrexpb.Response{Status: shrexpb.Status_OK}); err != nil {
			return
		}
		_, _ = smpl.WriteTo(st)
	})
}

func (c *c03) e2e(rng *vkit.RNG) {
	var cases []c03E2ECase
	if vkit.Thorough() {
		for _, p := range []string{"wrong-coord", "twin", "garbled-share", "axis-swap", "not-found", "honest"} {
			for _, h := range []string{"none", "with", "later"} {
				for _, st := range []string{"shrex", "cascade(shrex)"} {
					for _, bl := range []bool{false, true} {
						cases = append(cases, c03E2ECase{p, h, st, bl})
					}
				}
			}
		}
	} else {
		for _, p := range []string{"wrong-coord", "twin"} {
			for _, h := range []string{"none", "with"} {
				for _, st := range []string{"shrex", "cascade(shrex)"} {
					cases = append(cases, c03E2ECase{p, h, st, p == "twin"})
				}
			}
		}
		cases = append(cases, c03E2ECase{"honest", "none", "shrex", false}, c03E2ECase{"not-found", "later", "cascade(shrex)", false})
	}
	var wg sync.WaitGroup
	sem := make(chan struct{}, 8)
	for i, cs := range cases {
		wg.Add(1)
		sem <- struct{}{}
		go func(i int, cs c03E2ECase) {
			defer wg.Done()
			defer func() { <-sem }()
			c.run.Distinct(fmt.Sprintf("e2e|%+v", cs))
			if err := c.e2eCase(rng.SplitN("case", i), cs); err != nil {
				c.run.Inconclusive(fmt.Sprintf("e2e case %+v: setup failed: %v", cs, err))
			}
		}(i, cs)
	}
	wg.Wait()
}

func (c *c03) e2eCase(r *vkit.RNG, cs c03E2ECase) error {
	run := c.run
	ctx, cancel := context.WithCancel(context.Background())
	defer cancel()
	sq := vkit.GenSquare(r, 4, vkit.Pick(r, []string{"runs", "padded", "reserved"}), r.Intn(8))
	s := &c03Sq{sq: sq, tw: sq.Twin(r.Split("twin"))}

	mn := mocknet.New()
	defer mn.Close()
	cl, err := mn.GenPeer()
	if err != nil {
		return err
	}
	byz, err := mn.GenPeer()
	if err != nil {
		return err
	}
	hon, err := mn.GenPeer()
	if err != nil {
		return err
	}
	if err := mn.LinkAll(); err != nil {
		return err
	}
	var byzServed, honServed, wrong atomic.Int64
	c03ServePeer(byz, s, cs.Peer, &byzServed, &wrong)
	c03ServePeer(hon, s, "honest", &honServed, nil)
	for _, p := range []host.Host{byz, hon} {
		if _, err := mn.ConnectPeers(cl.ID(), p.ID()); err != nil {
			return err
		}
	}
	client, err := shrex.NewClient(shrex.DefaultClientParameters(), cl)
	if err != nil {
		return err
	}
	mkMgr := func(tag string) (*peers.Manager, error) {
		gater, err := conngater.NewBasicConnectionGater(dssync.MutexWrap(datastore.NewMapDatastore()))
		if err != nil {
			return nil, err
		}
		return peers.NewManager(peers.Parameters{PoolValidationTimeout: time.Minute, PeerCooldown: 50 * time.Millisecond, GcInterval: time.Minute, EnableBlackListing: cs.Blacklist},
			cl, gater, tag)
	}
	full, err := mkMgr("c03-full")
	if err != nil {
		return err
	}
	arch, err := mkMgr("c03-archival")
	if err != nil {
		return err
	}
	sg := shrex_getter.NewGetter(client, full, arch, availability.RequestWindow)
	if err := sg.Start(ctx); err != nil {
		return err
	}
	defer func() {
		sctx, scancel := context.WithTimeout(context.Background(), 5*time.Second)
		_ = sg.Stop(sctx)
		scancel()
	}()
	full.UpdateNodePool(byz.ID(), true)
	if cs.Honest == "with" {
		full.UpdateNodePool(hon.ID(), true)
	}
	var inner shwap.Getter = sg
	if cs.Stack != "shrex" {
		inner = getters.NewCascadeGetter([]shwap.Getter{sg})
	}
	mon := c.newMon("e2e", cs.Stack, cs)
	rec := &c03RecGetter{Getter: inner, mon: mon}
	base := dssync.MutexWrap(datastore.NewMapDatastore())
	const n = 4
	hdr := vkit.MinimalHeader(uint64(r.Range(5, 500)), sq.Roots, time.Now().Add(-time.Hour))
	rt := mon.addRoot("b0", sq, hdr, n, "in")
	sa := light.NewShareAvailability(rec, base, nil, light.WithSampleAmount(n))

	attempt := func() error {
		call := &c03Call{rt: rt, label: "real timeout 2.5s"}
		// real deadline: the shrex getter gives up only when its context ends. The deadline moves
		// nothing in the verdict (judged on the events at the getter boundary), it only bounds the attempt.
		cctx, ccancel := context.WithTimeout(context.WithValue(ctx, c03CallKey{}, call), 2500*time.Millisecond)
		defer ccancel()
		mon.saCall(call)
		var err error
		if run.NoPanic("C03 e2e SharesAvailable", cs, func() { err = sa.SharesAvailable(cctx, hdr) }) {
			return fmt.Errorf("panic")
		}
		mon.saReturn(call, err)
		return err
	}
	res := []string{c03ErrClass(attempt())}
	if cs.Honest == "later" {
		full.UpdateNodePool(hon.ID(), true)
		mon.mu.Lock()
		mon.logf("-- honest peer joins --")
		mon.mu.Unlock()
	}
	res = append(res, c03ErrClass(attempt()))
	if err := sa.Close(ctx); err == nil {
		mon.restart("graceful-restart", 0)
		mon.checkPersisted(base)
		sa = light.NewShareAvailability(rec, base, nil, light.WithSampleAmount(n))
		res = append(res, c03ErrClass(attempt()))
	}
	run.Count("e2e/cases_completed", 1)
	run.Count(fmt.Sprintf("e2e/%s/peer=%s,honest=%s/results=%v", cs.Stack, cs.Peer, cs.Honest, res), 1)
	run.Count("e2e/requests_answered_by_byzantine_peer", int(byzServed.Load()))
	run.Count("e2e/requests_answered_by_honest_peer", int(honServed.Load()))
	if wrong.Load() > 0 {
		run.Count("e2e/wrong_samples_reached_the_real_getter", 1)
	}
	mon.mu.Lock()
	ev := append([]string(nil), mon.log...)
	mon.mu.Unlock()
	if os.Getenv("C03_DEBUG") != "" {
		fmt.Printf("E2E %+v results=%v\n  %s\n", cs, res, strings.Join(ev, "\n  "))
	}
	if cs.Honest == "none" {
		run.Sample(map[string]any{"e2e": cs, "observed": ev, "results": res})
	}
	return nil
}
