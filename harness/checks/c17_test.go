package checks

import (
	"context"
	"fmt"
	"os"
	"runtime"
	"sort"
	"strings"
	"sync"
	"sync/atomic"
	"testing"
	"time"

	"github.com/benbjohnson/clock"
	"github.com/libp2p/go-libp2p/core/peer"

	"github.com/celestiaorg/celestia-node/libs/verifhook"
	"github.com/celestiaorg/celestia-node/share/shwap/p2p/shrex/peers"
	"github.com/celestiaorg/celestia-node/zz_verif/vkit"
)

// C17 — peer selection never deadlocks and never hands out a peer it should not.
//
// Pool level (real pool + real timed queue behind peers.VerifPool, virtual clock):
//   S  sequential random op streams against a small reference model + structural invariants on
//      every snapshot (c17_test.go);
//   C  concurrent histories in rounds: unique-lifecycle ids with a direct interval oracle, a
//      re-add mode, porcupine with a non-deterministic model on the short ones, final-state and
//      wake-up checks at quiescence, passive/widened lock-order monitor (c17_conc_test.go);
//   F  forced lock hand-over windows, wake-up and cancellation scenarios, run serially so that
//      the stable-state oracle can be used inline (c17_conc_test.go).
// Manager level (exported API only, real clock; c17_manager_test.go):
//   M  real Manager on a mocknet host with real conngater and shrexsub and a mock header
//      subscription; random + directed op streams.
//
// A hang is never decided by a timer: an operation that does not return within a soft limit only
// becomes a *suspect*; suspects are decided at the end of a phase, when the workload is a closed
// system, by vkit.WaitStable (identical goroutine dumps, nothing runnable).

const (
	c17SigABBA       = "C17 pool deadlock: putOnCooldown (pool lock -> queue lock) vs cool-down expiry (queue lock -> pool lock)"
	c17SigStaleSeq   = "C17 pool/seq peer active before its cool-down elapsed [cool-down, remove, re-add, cool-down: stale queue item]"
	c17SigEarlySeq   = "C17 pool/seq peer active before its cool-down elapsed [other]"
	c17ABBACap       = 24
	c17SoftPool      = 4 * time.Second
	c17SoftManager   = 5 * time.Second
	c17MarkWantQueue = "peers.lock:pool-held-want-queue"
	c17MarkGotQueue  = "peers.lock:queue-acquired-from-pool"
	c17MarkWantPool  = "peers.lock:queue-held-want-pool"
	c17MarkGotPool   = "peers.lock:pool-acquired-from-queue"
)

type c17 struct {
	run  *vkit.Run
	seed uint64

	susMu sync.Mutex
	sus   []*c17Suspect

	lo        sync.Map // lock key -> *c17LO
	mgrCycles atomic.Int64
	mgrLOs    atomic.Int64
	// number of concurrent histories lost to the pool/queue deadlock; beyond c17ABBACap the
	// remaining histories keep cool-down expiry and putOnCooldown apart (every deadlocked history
	// leaks its goroutines, which makes the stable-state dumps slow)
	abbaSeen atomic.Int64
	// a structural invariant of the pool was seen broken: concurrent workloads on such a pool can
	// panic inside the pool's own goroutines (unrecoverable), so the remaining phases are skipped
	structural atomic.Bool
	nsample    atomic.Int64
}

// ---------------------------------------------------------------------------------------------
// suspects: operations that did not return within the soft limit; decided in a closed system.

type c17Suspect struct {
	what   string // human description of the awaited thing
	done   <-chan struct{}
	onHang func(dump string) // records the violation (or inconclusive)
	onDone func()            // optional: it completed after all
}

func (c *c17) suspect(s *c17Suspect) {
	c.run.Count("suspects", 1)
	c.susMu.Lock()
	c.sus = append(c.sus, s)
	c.susMu.Unlock()
}

// await waits for done up to the soft limit; false means "not yet" (never a verdict).
func c17Await(done <-chan struct{}, soft time.Duration) bool {
	select {
	case <-done:
		return true
	default:
	}
	t := time.NewTimer(soft)
	defer t.Stop()
	select {
	case <-done:
		return true
	case <-t.C:
		return false
	}
}

// resolve decides all suspects of a phase. Must be called when no workload goroutine of the
// phase is still issuing operations.
func (c *c17) resolve(phase string, ignore []string, polls int) {
	c.susMu.Lock()
	sus := c.sus
	c.sus = nil
	c.susMu.Unlock()
	if len(sus) == 0 {
		return
	}
	all := make(chan struct{})
	go func() {
		for _, s := range sus {
			<-s.done
		}
		close(all)
	}()
	// Pool phases use virtual time only (no real timer can unblock anything); in the manager phase
	// the longest real timer is the cool-down / pool validation timeout (<= 50 ms). A dump of a few
	// hundred goroutines takes ~0.5 s in the race binary, so few polls already span seconds.
	verdict, dump := vkit.WaitStable(all, vkit.StableOpts{Ignore: ignore, Polls: polls, Every: 100 * time.Millisecond, MaxWait: 5 * time.Minute})
	for _, s := range sus {
		select {
		case <-s.done:
			c.run.Count("suspects/completed-late", 1)
			if s.onDone != nil {
				s.onDone()
			}
			continue
		default:
		}
		if verdict == "hang" {
			c.run.Count("suspects/hang", 1)
			s.onHang(dump)
		} else {
			c.run.Inconclusive(fmt.Sprintf("phase %s: %s neither returned nor reached a stable state (%s)", phase, s.what, verdict))
		}
	}
}

// c17PeersGoroutines returns the goroutines of a dump that have a frame in the peers package
// (trimmed), as a compact witness.
func c17PeersGoroutines(dump string, max int) []string {
	var out []string
	for _, g := range strings.Split(dump, "\n\n") {
		if !strings.Contains(g, "shrex/peers.") {
			continue
		}
		lines := strings.Split(g, "\n")
		var keep []string
		for _, l := range lines {
			if strings.HasPrefix(l, "\t") {
				continue
			}
			keep = append(keep, l)
			if len(keep) >= 9 {
				break
			}
		}
		out = append(out, strings.Join(keep, " | "))
		if len(out) >= max {
			break
		}
	}
	return out
}

// c17IsABBA: the dump contains a goroutine blocked in timedQueue.push (called with the pool lock
// held) and one blocked in pool.afterCooldown (called with the queue lock held).
func c17IsABBA(dump string) bool {
	push, after := false, false
	for _, g := range strings.Split(dump, "\n\n") {
		if !strings.Contains(g, "sync.(*Mutex).Lock") && !strings.Contains(g, "sync.(*RWMutex).Lock") {
			continue
		}
		if strings.Contains(g, "peers.(*timedQueue).push") && strings.Contains(g, "peers.(*pool).putOnCooldown") {
			push = true
		}
		if strings.Contains(g, "peers.(*pool).afterCooldown") && strings.Contains(g, "peers.(*timedQueue).releaseUnsafe") {
			after = true
		}
	}
	return push && after
}

// ---------------------------------------------------------------------------------------------
// lock-order monitor (DESIGN §3.7) fed by the four verifhook markers; key = the queue pointer.
//
// a: the goroutine holding the pool lock is about to request the queue lock (and has not got it);
// b: the goroutine holding the queue lock is about to request the pool lock (and has not got it).
// a && b at the same instant is a certain deadlock: each waits for what the other holds.

const (
	c17Passive = iota
	c17Widen   // spin a bounded number of scheduler yields at a "want" marker
	c17Park    // park at a "want" marker until the partner arrives or the driver releases
)

type c17LO struct {
	mu       sync.Mutex
	cond     *sync.Cond
	a, b     bool
	mode     int
	released bool
	cycle    bool
	cycleCh  chan struct{}
	parked   chan string // receives the side that parked (buffered)
	nA, nB   int
	first    string // which side arrived first in the cycle
	manager  bool
}

func c17NewLO(mode int) *c17LO {
	lo := &c17LO{mode: mode, cycleCh: make(chan struct{}), parked: make(chan string, 4)}
	lo.cond = sync.NewCond(&lo.mu)
	return lo
}

func (lo *c17LO) release() {
	lo.mu.Lock()
	lo.released = true
	lo.mu.Unlock()
	lo.cond.Broadcast()
}

func (lo *c17LO) stats() (nA, nB int, cycle bool, first string) {
	lo.mu.Lock()
	defer lo.mu.Unlock()
	return lo.nA, lo.nB, lo.cycle, lo.first
}

// want is called at a "hold X, want Y" marker. mine/partner point at the two flags.
func (lo *c17LO) want(side string) (newCycle bool) {
	lo.mu.Lock()
	defer lo.mu.Unlock()
	mine, partner := &lo.a, &lo.b
	if side == "queue-holder" {
		mine, partner = &lo.b, &lo.a
		lo.nB++
	} else {
		lo.nA++
	}
	*mine = true
	if *partner {
		if !lo.cycle {
			lo.cycle = true
			if side == "queue-holder" {
				lo.first = "pool-holder"
			} else {
				lo.first = "queue-holder"
			}
			close(lo.cycleCh)
			newCycle = true
		}
		lo.cond.Broadcast()
		return newCycle
	}
	switch lo.mode {
	case c17Widen:
		for i := 0; i < 300 && !*partner; i++ {
			lo.mu.Unlock()
			runtime.Gosched()
			lo.mu.Lock()
		}
	case c17Park:
		select {
		case lo.parked <- side:
		default:
		}
		for !*partner && !lo.released {
			lo.cond.Wait()
		}
	}
	return false
}

func (lo *c17LO) got(side string) {
	lo.mu.Lock()
	if side == "queue-holder" {
		lo.b = false
	} else {
		lo.a = false
	}
	lo.mu.Unlock()
}

func (c *c17) hookPoint(name string, key any) {
	if !strings.HasPrefix(name, "peers.lock:") {
		return
	}
	v, ok := c.lo.Load(key)
	if !ok {
		// a pool created inside a Manager: passive monitoring
		// every 12th of them widened: a bounded number of scheduler yields at a hand-over marker
		// (schedule perturbation only; more would lose too many streams to the deadlock)
		mode := c17Passive
		if c.mgrLOs.Add(1)%12 == 0 {
			mode = c17Widen
		}
		nl := c17NewLO(mode)
		nl.manager = true
		v, _ = c.lo.LoadOrStore(key, nl)
	}
	lo := v.(*c17LO)
	nc := false
	switch name {
	case c17MarkWantQueue:
		nc = lo.want("pool-holder")
	case c17MarkGotQueue:
		lo.got("pool-holder")
	case c17MarkWantPool:
		nc = lo.want("queue-holder")
	case c17MarkGotPool:
		lo.got("queue-holder")
	}
	if nc && lo.manager {
		c.mgrCycles.Add(1)
	}
}

func (c *c17) registerLO(vp *peers.VerifPool, mode int) *c17LO {
	lo := c17NewLO(mode)
	c.lo.Store(vp.LockKey(), lo)
	return lo
}

func (c *c17) unregisterLO(vp *peers.VerifPool) { c.lo.Delete(vp.LockKey()) }

// ---------------------------------------------------------------------------------------------
// virtual clock: clock.Mock whose AfterFunc timers are tracked, so that the driver can advance
// time one timer at a time and wait (on a logical event) for the callback to have finished.

type c17Clock struct {
	*clock.Mock
	mu    sync.Mutex
	armed []*c17Timer
}

type c17Timer struct {
	hi   time.Time // upper bound of the deadline
	done chan struct{}
	tm   *clock.Timer
}

func c17NewClock() *c17Clock { return &c17Clock{Mock: clock.NewMock()} }

func (c *c17Clock) AfterFunc(d time.Duration, f func()) *clock.Timer {
	c.mu.Lock()
	defer c.mu.Unlock()
	tt := &c17Timer{done: make(chan struct{})}
	t := c.Mock.AfterFunc(d, func() {
		defer close(tt.done)
		f()
	})
	tt.hi = c.Mock.Now().Add(d)
	tt.tm = t
	c.armed = append(c.armed, tt)
	return t
}

func (c *c17Clock) vnow() int64 { return c.Mock.Now().UnixNano() }

// nextDue removes and returns the armed timer with the smallest deadline bound <= target.
func (c *c17Clock) nextDue(target time.Time) *c17Timer {
	c.mu.Lock()
	defer c.mu.Unlock()
	best := -1
	for i, t := range c.armed {
		if t.hi.After(target) {
			continue
		}
		if best < 0 || t.hi.Before(c.armed[best].hi) {
			best = i
		}
	}
	if best < 0 {
		return nil
	}
	t := c.armed[best]
	c.armed = append(c.armed[:best], c.armed[best+1:]...)
	return t
}

func (c *c17Clock) maxArmed() (time.Time, bool) {
	c.mu.Lock()
	defer c.mu.Unlock()
	var m time.Time
	for _, t := range c.armed {
		if t.hi.After(m) {
			m = t.hi
		}
	}
	return m, len(c.armed) > 0
}

// advance moves virtual time by d, firing due timers one by one; wait is called with each fired
// timer's completion channel (nil = do not wait). Only one goroutine per clock may call it.
// It returns the channel it gave up on, if any.
func (c *c17Clock) advance(d time.Duration, wait func(<-chan struct{}) bool) <-chan struct{} {
	target := c.Mock.Now().Add(d)
	for {
		tt := c.nextDue(target)
		if tt == nil {
			break
		}
		// Is the timer still armed? The code under test may have stopped it (then it never fires and
		// there is nothing to wait for), or it fired already. Reset reports "was armed"; a timer that
		// was not is put back to rest at once. Only this goroutine moves the clock, so nothing can fire
		// in between.
		rem := tt.hi.Sub(c.Mock.Now())
		if rem < 0 {
			rem = 0
		}
		if !tt.tm.Reset(rem) {
			tt.tm.Stop()
			continue
		}
		c.Mock.Set(c.Mock.Now().Add(rem))
		if wait != nil && !wait(tt.done) {
			return tt.done
		}
	}
	if target.After(c.Mock.Now()) {
		c.Mock.Set(target)
	}
	return nil
}

// drain advances until no tracked timer is armed (bounded).
func (c *c17Clock) drain(wait func(<-chan struct{}) bool) <-chan struct{} {
	for i := 0; i < 256; i++ {
		m, ok := c.maxArmed()
		if !ok {
			return nil
		}
		d := m.Sub(c.Mock.Now())
		if d < 0 {
			d = 0
		}
		if ch := c.advance(d, wait); ch != nil {
			return ch
		}
	}
	return nil
}

// ---------------------------------------------------------------------------------------------
// reference model (sequential): what the statement says a pool is.

type c17Ref struct {
	ttl   time.Duration
	now   time.Duration // virtual time since start
	st    map[int]int   // id -> peers.VerifActive | VerifCooldown ; absent = removed
	until map[int]time.Duration
	// classification only: expiry times of cool-downs that were ended by a remove
	stale map[int][]time.Duration
}

func c17NewRef(ttl time.Duration) *c17Ref {
	return &c17Ref{ttl: ttl, st: map[int]int{}, until: map[int]time.Duration{}, stale: map[int][]time.Duration{}}
}

func (m *c17Ref) add(p int) {
	if _, ok := m.st[p]; !ok {
		m.st[p] = peers.VerifActive
	}
}

func (m *c17Ref) remove(p int) {
	if s, ok := m.st[p]; ok && s == peers.VerifCooldown {
		m.stale[p] = append(m.stale[p], m.until[p])
	}
	delete(m.st, p)
	delete(m.until, p)
}

func (m *c17Ref) cool(p int) {
	if s, ok := m.st[p]; ok && s == peers.VerifActive {
		m.st[p] = peers.VerifCooldown
		m.until[p] = m.now + m.ttl
	}
}

func (m *c17Ref) advance(d time.Duration) {
	m.now += d
	for p, s := range m.st {
		if s == peers.VerifCooldown && m.until[p] <= m.now {
			m.st[p] = peers.VerifActive
			delete(m.until, p)
		}
	}
}

func (m *c17Ref) active() (n int) {
	for _, s := range m.st {
		if s == peers.VerifActive {
			n++
		}
	}
	return n
}

func (m *c17Ref) desc() string {
	var parts []string
	for p, s := range m.st {
		if s == peers.VerifActive {
			parts = append(parts, fmt.Sprintf("p%d:active", p))
		} else {
			parts = append(parts, fmt.Sprintf("p%d:cool<%v", p, m.until[p]))
		}
	}
	sort.Strings(parts)
	return strings.Join(parts, " ")
}

func c17ID(i int) peer.ID { return peer.ID(fmt.Sprintf("c17-peer-%02d", i)) }

func c17Idx(id peer.ID) int {
	var i int
	if _, err := fmt.Sscanf(string(id), "c17-peer-%d", &i); err != nil {
		return -1
	}
	return i
}

func c17StatusName(s int, ok bool) string {
	if !ok {
		return "absent"
	}
	switch s {
	case peers.VerifActive:
		return "active"
	case peers.VerifCooldown:
		return "cooldown"
	case peers.VerifRemoved:
		return "removed"
	}
	return fmt.Sprintf("status(%d)", s)
}

// c17Invariants checks the structural invariants of one snapshot; returns "" or a description.
func c17Invariants(s peers.VerifPoolSnapshot) (sig, detail string) {
	nact := 0
	for _, st := range s.Statuses {
		if st == peers.VerifActive {
			nact++
		}
		if st != peers.VerifActive && st != peers.VerifCooldown && st != peers.VerifRemoved {
			return "unknown status value", fmt.Sprint(st)
		}
	}
	if nact != s.ActiveCount {
		return "activeCount != number of active statuses", fmt.Sprintf("activeCount=%d active statuses=%d", s.ActiveCount, nact)
	}
	if s.HasPeer != (s.ActiveCount > 0) {
		return "hasPeer != (activeCount > 0)", fmt.Sprintf("hasPeer=%v activeCount=%d", s.HasPeer, s.ActiveCount)
	}
	if s.HasPeerChClosed != s.HasPeer {
		return "hasPeerCh closed != hasPeer", fmt.Sprintf("closed=%v hasPeer=%v", s.HasPeerChClosed, s.HasPeer)
	}
	seen := map[peer.ID]bool{}
	for _, id := range s.PeersList {
		if seen[id] {
			return "peer listed twice in peersList", string(id)
		}
		seen[id] = true
		if _, ok := s.Statuses[id]; !ok {
			return "peersList entry without status", string(id)
		}
	}
	for id, st := range s.Statuses {
		if !seen[id] {
			return "peer with status missing from peersList", fmt.Sprintf("%s status=%s", id, c17StatusName(st, true))
		}
	}
	if s.NextIdx < 0 {
		return "nextIdx negative", fmt.Sprint(s.NextIdx)
	}
	return "", ""
}

func c17SnapDesc(s peers.VerifPoolSnapshot) map[string]any {
	st := map[string]string{}
	for id, v := range s.Statuses {
		st[string(id)] = c17StatusName(v, true)
	}
	var list []string
	for _, id := range s.PeersList {
		list = append(list, string(id))
	}
	return map[string]any{"statuses": st, "peersList": list, "activeCount": s.ActiveCount, "nextIdx": s.NextIdx,
		"hasPeer": s.HasPeer, "hasPeerChClosed": s.HasPeerChClosed, "cleanupThreshold": s.CleanupThreshold}
}

// ---------------------------------------------------------------------------------------------
// phase S: sequential histories

type c17Seq struct {
	c     *c17
	idx   int
	vp    *peers.VerifPool
	clk   *c17Clock
	ref   *c17Ref
	nIDs  int
	trace []string
	stop  bool
	// pending next() calls
	waiters []*c17Waiter
	kinds   []string
	// a suspect was registered: goroutines of this history may still be running
	abandoned bool
}

type c17Waiter struct {
	ch     <-chan peer.ID
	cancel context.CancelFunc
}

func (s *c17Seq) params() map[string]any {
	return map[string]any{"history": s.idx, "seed": s.c.seed, "ttl": s.ref.ttl.String(), "ids": s.nIDs}
}

func (s *c17Seq) violate(sig string, extra map[string]any) {
	d := map[string]any{"params": s.params(), "ops": append([]string(nil), s.trace...), "model": s.ref.desc(),
		"pool": c17SnapDesc(s.vp.Snapshot())}
	for k, v := range extra {
		d[k] = v
	}
	s.c.run.Violation(sig, d)
}

// check compares the real pool with the model after an operation.
func (s *c17Seq) check() {
	run := s.c.run
	snap := s.vp.Snapshot()
	run.Eval(1)
	if sig, det := c17Invariants(snap); sig != "" {
		s.c.structural.Store(true)
		s.violate("C17 pool/seq invariant: "+sig, map[string]any{"invariant_detail": det})
		s.stop = true
		return
	}
	for p := 0; p < s.nIDs; p++ {
		rs, rok := snap.Statuses[c17ID(p)]
		if rok && rs == peers.VerifRemoved {
			rok = false
		}
		ms, mok := s.ref.st[p]
		if rok == mok && (!rok || rs == ms) {
			continue
		}
		if rok && rs == peers.VerifActive && mok && ms == peers.VerifCooldown {
			// real pool offers a peer the statement says is still cooling down
			sig := c17SigEarlySeq
			for i, u := range s.ref.stale[p] {
				if u <= s.ref.now {
					sig = c17SigStaleSeq
					s.ref.stale[p] = append(s.ref.stale[p][:i], s.ref.stale[p][i+1:]...)
					break
				}
			}
			s.violate(sig, map[string]any{"peer": fmt.Sprintf("p%d", p), "virtual_now": s.ref.now.String(),
				"cooling_until": s.ref.until[p].String()})
			run.Count("seq/early-reactivation", 1)
			// resynchronise the model on this one peer so that the rest of the history is still checked;
			// the queue item of the cut-short cool-down is now itself a left-over item
			s.ref.stale[p] = append(s.ref.stale[p], s.ref.until[p])
			s.ref.st[p] = peers.VerifActive
			delete(s.ref.until, p)
			continue
		}
		s.violate(fmt.Sprintf("C17 pool/seq status differs from model: real=%s model=%s", c17StatusName(rs, rok), c17StatusName(ms, mok)),
			map[string]any{"peer": fmt.Sprintf("p%d", p), "virtual_now": s.ref.now.String()})
		s.stop = true
		return
	}
	if n := s.vp.Len(); n != s.ref.active() {
		s.c.structural.Store(true)
		s.violate("C17 pool/seq len() != number of active peers", map[string]any{"len": n, "model_active": s.ref.active()})
		s.stop = true
	}
}

// expire drops stale-classification entries whose time has passed without effect.
func (s *c17Seq) pruneStale() {
	for p, l := range s.ref.stale {
		var keep []time.Duration
		for _, u := range l {
			if u > s.ref.now {
				keep = append(keep, u)
			}
		}
		s.ref.stale[p] = keep
	}
}

// deliverWaiters: the model has an active peer, so every pending next() must deliver one.
func (s *c17Seq) deliverWaiters(after string) {
	if s.ref.active() == 0 || len(s.waiters) == 0 {
		return
	}
	ws := s.waiters
	s.waiters = nil
	for _, w := range ws {
		got := make(chan peer.ID, 1)
		done := make(chan struct{})
		go func() {
			got <- <-w.ch
			close(done)
		}()
		if !c17Await(done, c17SoftPool) {
			tr := append([]string(nil), s.trace...)
			par := s.params()
			c := s.c
			s.abandoned = true
			c.suspect(&c17Suspect{what: "pending next() after " + after, done: done, onHang: func(dump string) {
				c.run.Violation("C17 pool/seq pending next() not woken after "+after, map[string]any{"params": par, "ops": tr,
					"peers_goroutines": c17PeersGoroutines(dump, 12)})
			}})
			s.stop = true
			return
		}
		id := <-got
		s.c.run.Count("seq/next/woken-after-"+after, 1)
		s.judgeGet("next(pending)", id, true)
		w.cancel()
		if s.stop {
			return
		}
	}
}

func (s *c17Seq) judgeGet(op string, id peer.ID, ok bool) {
	run := s.c.run
	run.Eval(1)
	if !ok {
		if s.ref.active() > 0 {
			s.violate("C17 pool/seq "+op+" returned no peer while active peers exist", nil)
			s.stop = true
		}
		run.Count("seq/get/none", 1)
		return
	}
	p := c17Idx(id)
	ms, mok := s.ref.st[p]
	if !mok || ms != peers.VerifActive {
		s.violate("C17 pool/seq get returned a peer that is not active: "+c17StatusName(ms, mok), map[string]any{"op": op, "returned": string(id)})
		s.stop = true
		return
	}
	run.Count("seq/get/peer", 1)
}

// c17SeqOp is one step of a sequential history.
type c17SeqOp struct {
	kind string // add | add3 | remove | remove2 | cool | tryGet | next | advance | observe
	p, q int
	d    time.Duration
}

func (s *c17Seq) apply(op c17SeqOp) {
	if p, site := vkit.Recover(func() { s.applyOp(op) }); p != nil {
		s.violate("C17 pool/seq operation panics @"+site, map[string]any{"panic": fmt.Sprint(p), "op": op.kind})
		s.stop = true
	}
}

func (s *c17Seq) applyOp(op c17SeqOp) {
	c, run, vp := s.c, s.c.run, s.vp
	p, q := op.p, op.q
	id := c17ID(p)
	switch op.kind {
	case "add3": // batch add with a duplicate
		s.trace = append(s.trace, fmt.Sprintf("add(p%d,p%d,p%d)", p, q, p))
		vp.Add(id, c17ID(q), id)
		s.ref.add(p)
		s.ref.add(q)
		s.check()
		if !s.stop {
			s.deliverWaiters("add")
		}
	case "add":
		s.trace = append(s.trace, fmt.Sprintf("add(p%d)", p))
		vp.Add(id)
		s.ref.add(p)
		s.check()
		if !s.stop {
			s.deliverWaiters("add")
		}
	case "remove2":
		s.trace = append(s.trace, fmt.Sprintf("remove(p%d,p%d)", p, q))
		vp.Remove(id, c17ID(q))
		s.ref.remove(p)
		s.ref.remove(q)
		s.check()
	case "remove":
		s.trace = append(s.trace, fmt.Sprintf("remove(p%d)", p))
		vp.Remove(id)
		s.ref.remove(p)
		s.check()
	case "cool":
		s.trace = append(s.trace, fmt.Sprintf("putOnCooldown(p%d)@%v", p, s.ref.now))
		vp.PutOnCooldown(id)
		s.ref.cool(p)
		s.check()
	case "tryGet":
		got, ok := vp.TryGet()
		s.trace = append(s.trace, fmt.Sprintf("tryGet()=%s,%v@%v", string(got), ok, s.ref.now))
		s.judgeGet("tryGet", got, ok)
		if !s.stop {
			s.check()
			if snap := vp.Snapshot(); len(snap.PeersList) > 0 && snap.NextIdx >= len(snap.PeersList) && ok {
				s.violate("C17 pool/seq invariant: nextIdx out of range after a successful tryGet", nil)
				s.stop = true
			}
		}
	case "next":
		ctx, cancel := context.WithCancel(context.Background())
		ch := vp.Next(ctx)
		s.waiters = append(s.waiters, &c17Waiter{ch: ch, cancel: cancel})
		if s.ref.active() > 0 {
			s.trace = append(s.trace, "next() with active peers")
			s.deliverWaiters("being called with active peers")
		} else {
			s.trace = append(s.trace, "next() pending")
			run.Count("seq/next/pending", 1)
		}
	case "advance":
		d := op.d
		s.trace = append(s.trace, fmt.Sprintf("advance(%v)->%v", d, s.ref.now+d))
		wait := func(ch <-chan struct{}) bool { return c17Await(ch, c17SoftPool) }
		if ch := s.clk.advance(d, wait); ch != nil {
			tr := append([]string(nil), s.trace...)
			par := s.params()
			s.abandoned = true
			c.suspect(&c17Suspect{what: "cool-down expiry callback", done: ch, onHang: func(dump string) {
				if !strings.Contains(dump, "peers.(*timedQueue).releaseExpired") {
					c.run.Inconclusive("seq: a tracked cool-down timer never fired (stopped?)")
					return
				}
				c.run.Violation("C17 pool/seq cool-down expiry never completes", map[string]any{"params": par, "ops": tr,
					"peers_goroutines": c17PeersGoroutines(dump, 12)})
			}})
			s.stop = true
			return
		}
		before := s.ref.active()
		s.ref.advance(d)
		s.check()
		s.pruneStale()
		if !s.stop && s.ref.active() > before {
			run.Count("seq/expiry/reactivated", s.ref.active()-before)
			s.deliverWaiters("cool-down expiry")
		}
	case "observe":
		_, mok := s.ref.st[q]
		if h := vp.Has(c17ID(q)); h != mok {
			s.violate("C17 pool/seq has() differs from model", map[string]any{"peer": fmt.Sprintf("p%d", q), "has": h})
			s.stop = true
			return
		}
		got := map[int]bool{}
		for _, id := range vp.Peers() {
			got[c17Idx(id)] = true
		}
		same := len(got) == len(s.ref.st)
		for q := range s.ref.st {
			same = same && got[q]
		}
		if !same {
			s.violate("C17 pool/seq peers() differs from model", map[string]any{"peers": fmt.Sprint(got)})
			s.stop = true
			return
		}
		s.trace = append(s.trace, "has/peers ok")
		run.Eval(1)
	}
	kind := strings.TrimRight(op.kind, "23")
	s.kinds = append(s.kinds, kind)
	run.Count("seq/op/"+kind, 1)
}

func (c *c17) newSeq(idx int, ttl time.Duration, thr, nIDs int) (*c17Seq, *c17LO, func()) {
	clk := c17NewClock()
	vp := peers.NewVerifPool(ttl, clk, thr)
	lo := c.registerLO(vp, c17Passive)
	s := &c17Seq{c: c, idx: idx, vp: vp, clk: clk, ref: c17NewRef(ttl), nIDs: nIDs}
	return s, lo, func() {
		for _, w := range s.waiters {
			w.cancel()
		}
		if !s.abandoned {
			c.unregisterLO(vp) // an abandoned history may still emit markers: keep its monitor
		}
		run := c.run
		run.Count("seq/histories", 1)
		nA, nB, cyc, _ := lo.stats()
		run.Count("seq/marker/pool-held-want-queue", nA)
		run.Count("seq/marker/queue-held-want-pool", nB)
		if cyc {
			run.Inconclusive("seq: lock-order cycle reported in a sequential history (markers inconsistent)")
		}
		run.Distinct("seq|" + strings.Join(s.trace, ";"))
	}
}

// seqDirected: short scripted histories through the same machinery, so that the corners named in
// the DESIGN are reached in every run and their witnesses are minimal.
func (c *c17) seqDirected(r *vkit.RNG, idx int) {
	ttl := time.Second
	d1 := time.Duration(r.Range(1, 900)) * time.Millisecond
	var script []c17SeqOp
	switch idx % 4 {
	case 0: // cool-down, remove, re-add, cool-down again, first expiry
		script = []c17SeqOp{{kind: "add", p: 0}, {kind: "cool", p: 0}, {kind: "advance", d: d1}, {kind: "remove", p: 0}, {kind: "add", p: 0},
			{kind: "cool", p: 0}, {kind: "next"}, {kind: "advance", d: ttl - d1}, {kind: "tryGet"}, {kind: "advance", d: d1}, {kind: "tryGet"}}
	case 1: // re-add of a cooling peer is a no-op; cool-down of a cooling peer does not extend
		script = []c17SeqOp{{kind: "add", p: 0}, {kind: "cool", p: 0}, {kind: "add", p: 0}, {kind: "tryGet"}, {kind: "advance", d: d1},
			{kind: "cool", p: 0}, {kind: "advance", d: ttl - d1}, {kind: "tryGet"}}
	case 2: // cleanup while the round-robin index points past the end
		script = []c17SeqOp{{kind: "add3", p: 0, q: 1}, {kind: "add3", p: 2, q: 3}, {kind: "tryGet"}, {kind: "tryGet"}, {kind: "tryGet"},
			{kind: "remove2", p: 2, q: 3}, {kind: "remove", p: 1}, {kind: "tryGet"}, {kind: "cool", p: 0}, {kind: "tryGet"}, {kind: "next"},
			{kind: "advance", d: ttl}, {kind: "observe", q: 0}}
	case 3: // several cool-downs expiring one after the other, a removed one in between
		script = []c17SeqOp{{kind: "add3", p: 0, q: 1}, {kind: "add", p: 2}, {kind: "cool", p: 0}, {kind: "advance", d: d1 / 2}, {kind: "cool", p: 1},
			{kind: "advance", d: d1 / 2}, {kind: "cool", p: 2}, {kind: "remove", p: 1}, {kind: "next"}, {kind: "advance", d: ttl - d1},
			{kind: "tryGet"}, {kind: "advance", d: d1/2 + 1}, {kind: "advance", d: d1}, {kind: "observe", q: 2}, {kind: "tryGet"}}
	}
	s, _, fin := c.newSeq(100000+idx, ttl, vkit.Pick(r, []int{0, 1, 2, 3}), 4)
	defer fin()
	for _, op := range script {
		if s.stop {
			break
		}
		s.apply(op)
	}
	c.run.Count("seq/directed", 1)
}

func (c *c17) seqHistory(r *vkit.RNG, idx int) {
	run := c.run
	ttl := vkit.Pick(r, []time.Duration{10 * time.Millisecond, time.Second, 3 * time.Second})
	thr := vkit.Pick(r, []int{0, 1, 2, 2, 3, 5})
	nIDs := r.Range(2, 7)
	nOps := r.Range(25, 60)
	s, _, fin := c.newSeq(idx, ttl, thr, nIDs)
	defer fin()
	// weights: add, remove, cool, tryGet, next, advance, observers
	for i := 0; i < nOps && !s.stop; i++ {
		op := c17SeqOp{p: r.Intn(nIDs), q: r.Intn(nIDs)}
		k := r.Intn(100)
		switch {
		case k < 22:
			op.kind = "add"
			if r.Chance(1, 6) {
				op.kind = "add3"
			}
		case k < 36:
			op.kind = "remove"
			if r.Chance(1, 6) {
				op.kind = "remove2"
			}
		case k < 52:
			op.kind = "cool"
		case k < 68:
			op.kind = "tryGet"
		case k < 75:
			op.kind = "next"
		case k < 90:
			op.kind = "advance"
			op.d = vkit.Pick(r, []time.Duration{ttl / 4, ttl / 2, ttl - 1, ttl, ttl + 1, 2 * ttl, 1})
		default:
			op.kind = "observe"
		}
		s.apply(op)
	}
	if n := c.nsample.Add(1); n%499 == 1 {
		run.Sample(map[string]any{"phase": "sequential", "history": idx, "ttl": ttl.String(), "cleanupThreshold": thr, "ops": s.trace})
	}
}

// raceReports reads this process's race-detector log (GORACE log_path, set by bin/check) and turns
// reports whose two accesses are both in the peers package (not in the harness or the hook file)
// into violations: DESIGN 3.5 makes them a deciding signal for this property.
func (c *c17) raceReports() {
	var path string
	for _, f := range strings.Fields(os.Getenv("GORACE")) {
		if strings.HasPrefix(f, "log_path=") {
			path = strings.TrimPrefix(f, "log_path=")
		}
	}
	if path == "" || path == "stderr" || path == "stdout" {
		c.run.Extra("race_log", "not available inside the test (GORACE log_path unset)")
		return
	}
	b, err := os.ReadFile(fmt.Sprintf("%s.%d", path, os.Getpid()))
	if err != nil {
		c.run.Count("race/reports", 0)
		return
	}
	top := func(stack string) string {
		lines := strings.Split(stack, "\n")
		for i := 1; i+1 < len(lines); i++ {
			fn := strings.TrimSpace(lines[i])
			file := strings.TrimSpace(lines[i+1])
			if !strings.HasSuffix(fn, "()") || !strings.Contains(file, ".go:") {
				continue
			}
			if strings.Contains(file, "/share/shwap/p2p/shrex/peers/") && !strings.Contains(file, "verif_export") && !strings.Contains(file, "_test.go") {
				return strings.TrimSuffix(fn[strings.LastIndex(fn, "/")+1:], "()")
			}
			if strings.Contains(file, "zz_verif") || strings.Contains(file, "/verif/harness") {
				return "" // first repository-side frame is the harness itself
			}
		}
		return ""
	}
	for _, block := range strings.Split(string(b), "==================") {
		if !strings.Contains(block, "WARNING: DATA RACE") {
			continue
		}
		c.run.Count("race/reports", 1)
		st := strings.Split(block, "\n\n")
		if len(st) < 2 {
			continue
		}
		a, b2 := top(st[0]), top(st[1])
		if a == "" || b2 == "" {
			c.run.Count("race/reports-not-in-peers", 1)
			continue
		}
		if a > b2 {
			a, b2 = b2, a
		}
		if len(block) > 2500 {
			block = block[:2500] + "..."
		}
		c.run.Violation("C17 data race in peers: "+a+" <-> "+b2, map[string]any{"race_detector_report": block, "seed": c.seed})
	}
}

// ---------------------------------------------------------------------------------------------

func c17Parallel(n, workers int, f func(i int)) {
	var wg sync.WaitGroup
	sem := make(chan struct{}, workers)
	for i := 0; i < n; i++ {
		wg.Add(1)
		sem <- struct{}{}
		go func(i int) {
			defer wg.Done()
			defer func() { <-sem }()
			f(i)
		}(i)
	}
	wg.Wait()
}

func TestC17(t *testing.T) {
	run := vkit.NewRun(t, "C17", "exploration",
		"cases = pool histories (sequential op streams vs reference model; concurrent round-structured histories with unique-lifecycle or "+
			"re-added ids; forced lock hand-over windows; wake-up/cancel scenarios) + manager op streams (random and directed; blacklisting on/off); "+
			"distinct = distinct op/outcome traces (sequential), distinct call-order interleavings (concurrent) and distinct manager event logs; "+
			"non-trivial = history in which the real pool/manager executed at least one mutating op and one get")
	defer run.Finish()
	c := &c17{run: run, seed: vkit.Seed()}
	rng := vkit.NewRNG(c.seed, "C17")
	restore := verifhook.Set(&verifhook.Handler{Point: c.hookPoint})
	defer restore()
	focus := vkit.Focus()
	want := func(phase string) bool {
		if f := os.Getenv("C17_PHASES"); f != "" {
			return strings.Contains(f, phase)
		}
		if focus == "" {
			return true
		}
		switch phase {
		case "S":
			return strings.Contains(focus, "pool/seq")
		case "C", "F":
			return strings.Contains(focus, "pool") && !strings.Contains(focus, "pool/seq")
		default:
			return strings.Contains(focus, "manager") || strings.Contains(focus, "data race")
		}
	}

	phaseStart := time.Now()
	var lastLap atomic.Value
	lastLap.Store("start")
	lap := func(name string) {
		run.Count("wall_ms/"+name, int(time.Since(phaseStart).Milliseconds()))
		phaseStart = time.Now()
		lastLap.Store(name)
	}
	// outer wall-clock watchdog: never a verdict, only "inconclusive" (a harness goroutine stuck
	// outside every soft wait would otherwise run into the driver's kill)
	finished := make(chan struct{})
	defer close(finished)
	go func() {
		t := time.NewTimer(time.Duration(vkit.Scale(11, 70)) * time.Minute)
		defer t.Stop()
		tick := time.NewTicker(15 * time.Second)
		defer tick.Stop()
		lastEvals, quiet := int64(-1), 0
		for {
			select {
			case <-finished:
				return
			case <-tick.C:
				// no evaluation for 45s: is the process in a state that cannot change by itself, with
				// goroutines blocked on the pool's / queue's / manager's locks? Then it is a deadlock, decided by
				// the stable-state oracle (not by the clock: a slow machine keeps goroutines runnable).
				if e := run.Evals(); e != lastEvals {
					lastEvals, quiet = e, 0
					continue
				}
				if quiet++; quiet < 3 {
					continue
				}
				never := make(chan struct{})
				v, dump := vkit.WaitStable(never, vkit.StableOpts{Polls: 40, Every: 50 * time.Millisecond, MaxWait: 20 * time.Second})
				if v != "hang" {
					continue
				}
				var locked []string
				for _, f := range vkit.RepoFrames(dump) {
					if strings.Contains(f, "Mutex") && strings.Contains(f, "peers.") {
						locked = append(locked, f)
					}
				}
				if len(locked) == 0 {
					continue
				}
				run.Violation("C17 deadlock: operations on the peer pool never return (stable state, goroutines blocked on its locks): "+strings.Join(locked, " | "),
					map[string]any{"phase_after": lastLap.Load().(string), "dump": tailStr(dump, 8000)})
				run.Finish()
				os.Exit(1)
			case <-t.C:
				run.Inconclusive("outer watchdog fired; last completed step: " + lastLap.Load().(string))
				run.Finish()
				os.Exit(2)
			}
		}
	}()
	if want("S") {
		r := rng.Split("seq")
		for i := 0; i < 8; i++ { // serial and first: their (minimal) witnesses are the ones recorded
			c.seqDirected(r.SplitN("directed", i), i)
		}
		if c.structural.Load() {
			run.Count("skipped-after-structural-violation-in-directed-scenarios", 1)
			return
		}
		c17Parallel(vkit.Scale(2000, 40000), 16, func(i int) { c.seqHistory(r.SplitN("h", i), i) })
		lap("S-run")
		c.resolve("S", nil, 5)
		lap("S-resolve")
		run.Require("seq/get/peer", 500)
		run.Require("seq/expiry/reactivated", 100)
		run.Require("seq/next/woken-after-add", 20)
		run.Require("seq/next/woken-after-cool-down expiry", 5)
	}
	if c.structural.Load() {
		run.Count("skipped-concurrent-and-manager-phases-after-structural-violation", 1)
		return
	}
	if want("C") {
		r := rng.Split("conc")
		c17Parallel(vkit.Scale(300, 6000), 16, func(i int) { c.concHistory(r.SplitN("h", i), i) })
		lap("C-run") // suspects of C are decided together with those of F (they stay blocked meanwhile)
		run.Require("conc/histories-completed", 50)
		run.Require("conc/porcupine/ok", 30)
		run.Require("conc/get/peer", 200)
	}
	if want("F") {
		r := rng.Split("forced")
		n := vkit.Scale(16, 96)
		for i := 0; i < n; i++ {
			c.forcedWindow(r.SplitN("w", i), i)
		}
		for i := 0; i < vkit.Scale(12, 96); i++ {
			c.wakeScenario(r.SplitN("wake", i), i)
		}
		// every exported read of the pool concurrently with every writer: anything that does not return is a
		// deadlock (added after seeded change C17-a, a re-entrant read lock in peers(), was missed)
		for i := 0; i < vkit.Scale(24, 200); i++ {
			if !c.readersVsWriters(r.SplitN("rvw", i), i) {
				break
			}
		}
		lap("F-run")
		run.Require("readers-vs-writers/scenarios", 10)
		run.Require("forced/windows", 10)
		run.Require("wake/delivered", 20)
	}
	if want("C") || want("F") {
		c.resolve("C+F", nil, 5)
		lap("CF-resolve")
	}
	if want("M") {
		c.managerPhase(rng.Split("manager"))
		lap("M")
	}
	c.resolve("late", c17ManagerIgnore, 10) // suspects registered after their phase was decided (none expected)
	c.raceReports()
	run.Assume("remove followed by add is a new membership: it legitimately ends an earlier cool-down of that id; putOnCooldown of an already cooling peer does not extend the cool-down")
	run.Assume("Manager.Peer(hash) is itself a confirmation of hash (the caller holds the header), exactly as a header from the subscription")
	run.Assume("benbjohnson/clock mock and libp2p mocknet/conngater/eventbus behave as their real counterparts")
}
