package checks

import (
	"context"
	"errors"
	"io"
	"sync"

	cmtp2p "github.com/cometbft/cometbft/proto/tendermint/p2p"
	cmtproto "github.com/cometbft/cometbft/proto/tendermint/types"
	coregrpc "github.com/cometbft/cometbft/rpc/grpc"
	"google.golang.org/grpc"
	"google.golang.org/grpc/metadata"
)

// c15grpc is an in-process fake of the consensus node's gRPC BlockAPI, scripted by a c15src. The
// real core.BlockFetcher runs on top of it (block streamed in parts, commit and validator set in the
// first part, Status for chain id / catching-up, height subscription with broken streams).
type c15grpc struct {
	s *c15src

	mu         sync.Mutex
	subs       int
	breakAfter int // the first subscription stream breaks after this many heights (0 = never)
}

var _ coregrpc.BlockAPIClient = (*c15grpc)(nil)

var c15errStream = errors.New("c15: stream broken")

// c15stream supplies the grpc.ClientStream part of the generated stream interfaces.
type c15stream struct{ ctx context.Context }

func (c15stream) Header() (metadata.MD, error) { return nil, nil }
func (c15stream) Trailer() metadata.MD         { return nil }
func (c15stream) CloseSend() error             { return nil }
func (s c15stream) Context() context.Context   { return s.ctx }
func (c15stream) SendMsg(any) error            { return nil }
func (c15stream) RecvMsg(any) error            { return io.EOF }

type c15blockStream struct {
	c15stream
	b       *c15block
	next    int
	breakAt int // Recv number that fails (-1 = none)
	byHash  bool
}

func (st *c15blockStream) recv() (*cmtproto.Part, bool, error) {
	parts := st.b.parts()
	if st.next == st.breakAt {
		return nil, false, c15errStream
	}
	if st.next >= len(parts) {
		return nil, false, io.EOF
	}
	i := st.next
	st.next++
	return &cmtproto.Part{Index: uint32(i), Bytes: parts[i]}, i == len(parts)-1, nil
}

type c15byHeightStream struct{ *c15blockStream }

func (st c15byHeightStream) Recv() (*coregrpc.BlockByHeightResponse, error) {
	first := st.next == 0
	p, last, err := st.recv()
	if err != nil {
		return nil, err
	}
	resp := &coregrpc.BlockByHeightResponse{BlockPart: p, IsLast: last}
	if first {
		vs, err := st.b.vals.set.Copy().ToProto()
		if err != nil {
			return nil, err
		}
		resp.Commit = st.b.commit.Clone().ToProto()
		resp.ValidatorSet = vs
	}
	return resp, nil
}

type c15byHashStream struct{ *c15blockStream }

func (st c15byHashStream) Recv() (*coregrpc.BlockByHashResponse, error) {
	p, last, err := st.recv()
	if err != nil {
		return nil, err
	}
	return &coregrpc.BlockByHashResponse{BlockPart: p, IsLast: last}, nil
}

func (g *c15grpc) latest() int64 {
	hs := g.s.h.heights
	return hs[len(hs)-1]
}

func (g *c15grpc) BlockByHeight(ctx context.Context, in *coregrpc.BlockByHeightRequest, _ ...grpc.CallOption) (coregrpc.BlockAPI_BlockByHeightClient, error) {
	height := in.Height
	if height == 0 {
		height = g.latest()
	}
	b, out, err := g.s.fetch(height)
	if err != nil {
		return nil, err
	}
	st := &c15blockStream{c15stream: c15stream{ctx}, b: b, breakAt: -1}
	if out == "streamerr" {
		st.breakAt = len(b.parts()) - 1 // the last part never arrives
	}
	return c15byHeightStream{st}, nil
}

func (g *c15grpc) BlockByHash(ctx context.Context, in *coregrpc.BlockByHashRequest, _ ...grpc.CallOption) (coregrpc.BlockAPI_BlockByHashClient, error) {
	for _, ht := range g.s.h.heights {
		if b := g.s.h.blocks[ht]; string(b.commit.BlockID.Hash) == string(in.Hash) {
			b, out, err := g.s.fetch(ht)
			if err != nil {
				return nil, err
			}
			st := &c15blockStream{c15stream: c15stream{ctx}, b: b, breakAt: -1, byHash: true}
			if out == "streamerr" {
				st.breakAt = len(b.parts()) - 1
			}
			return c15byHashStream{st}, nil
		}
	}
	return nil, c15errFetch
}

func (g *c15grpc) Commit(_ context.Context, in *coregrpc.CommitRequest, _ ...grpc.CallOption) (*coregrpc.CommitResponse, error) {
	b := g.s.h.blocks[in.Height]
	if b == nil {
		return &coregrpc.CommitResponse{}, nil
	}
	return &coregrpc.CommitResponse{Commit: b.commit.Clone().ToProto()}, nil
}

func (g *c15grpc) ValidatorSet(_ context.Context, in *coregrpc.ValidatorSetRequest, _ ...grpc.CallOption) (*coregrpc.ValidatorSetResponse, error) {
	b := g.s.h.blocks[in.Height]
	if b == nil {
		return &coregrpc.ValidatorSetResponse{}, nil
	}
	vs, err := b.vals.set.Copy().ToProto()
	if err != nil {
		return nil, err
	}
	return &coregrpc.ValidatorSetResponse{ValidatorSet: vs, Height: in.Height}, nil
}

// Status answers both the start-up chain-id query and the per-block catching-up query (the same
// RPC). Only queries made once the history runs are sync-status queries of the script.
func (g *c15grpc) Status(context.Context, *coregrpc.StatusRequest, ...grpc.CallOption) (*coregrpc.StatusResponse, error) {
	h := g.s.h
	h.mu.Lock()
	started := h.started
	h.mu.Unlock()
	if !started {
		if g.s.chainErr {
			return nil, errors.New("c15: status unavailable")
		}
		return &coregrpc.StatusResponse{NodeInfo: &cmtp2p.DefaultNodeInfo{Network: c15chain}, SyncInfo: &coregrpc.SyncInfo{}}, nil
	}
	syncing, err := g.s.sync(0)
	if err != nil {
		return nil, err
	}
	return &coregrpc.StatusResponse{NodeInfo: &cmtp2p.DefaultNodeInfo{Network: c15chain}, SyncInfo: &coregrpc.SyncInfo{CatchingUp: syncing}}, nil
}

type c15heightStream struct {
	c15stream
	g     *c15grpc
	n     int
	limit int // stream breaks after this many heights (0 = never)
}

func (st *c15heightStream) Recv() (*coregrpc.SubscribeNewHeightsResponse, error) {
	if st.limit > 0 && st.n >= st.limit {
		return nil, c15errStream
	}
	select {
	case ht := <-st.g.s.heights:
		st.n++
		return &coregrpc.SubscribeNewHeightsResponse{Height: ht}, nil
	case <-st.ctx.Done():
		return nil, st.ctx.Err()
	}
}

func (g *c15grpc) SubscribeNewHeights(ctx context.Context, _ *coregrpc.SubscribeNewHeightsRequest, _ ...grpc.CallOption) (coregrpc.BlockAPI_SubscribeNewHeightsClient, error) {
	if err := ctx.Err(); err != nil {
		return nil, err
	}
	g.mu.Lock()
	g.subs++
	limit := 0
	if g.subs == 1 {
		limit = g.breakAfter
	}
	g.mu.Unlock()
	g.s.h.run.Count("grpc/subscriptions", 1)
	return &c15heightStream{c15stream: c15stream{ctx}, g: g, limit: limit}, nil
}
