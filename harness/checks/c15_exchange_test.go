package checks

import (
	"bytes"
	"context"
	"fmt"
	"sync"
	"time"

	"github.com/celestiaorg/celestia-node/core"
	"github.com/celestiaorg/celestia-node/header"
	"github.com/celestiaorg/celestia-node/nodebuilder/p2p"
	"github.com/celestiaorg/celestia-node/share/availability"
	"github.com/celestiaorg/celestia-node/zz_verif/vkit"
)

// core.Exchange: the header-sync path of a bridge. It fetches the block for a requested height /
// hash from the consensus endpoint (real BlockFetcher over the in-process gRPC fake), stores the
// square with the same storeEDS policy as the listener and returns the extended header.

type c15xcall struct {
	op string // height | head | hash
	h  int64
}

func (c *c15ctx) exchangeHistory(id int, r *vkit.RNG) {
	cfg := c15cfg{Family: "exchange", Archival: r.Chance(2, 5), Cache: vkit.Pick(r, []int{10, 10, 0, 2}), Fetcher: "grpc", Drive: "calls", NSrc: 1}
	cfg.Window = vkit.Pick(r, []time.Duration{availability.StorageWindow, availability.StorageWindow, 48 * time.Hour, 0})
	h := c.newHist(id, cfg, r)
	defer h.close()
	h.heights = c.genBlocks(h, r.Split("blocks"), h.base, r.Range(3, 8), cfg.Window)
	s := &c15src{h: h, addr: "core-x.c15:9090", fetchPlan: map[int64][]string{}, fetchN: map[int64]int{}, syncErrAt: map[int]bool{}, heights: make(chan int64)}
	h.srcs = []*c15src{s}
	h.byAddr[s.addr] = s
	h.started = true
	kinds := []string{"fsq4", "fsods"}
	if cfg.Cache == 0 || c15hookWithCache {
		kinds = append(kinds, "hook")
	}
	var calls []c15xcall
	burst := r.Chance(1, 4) // concurrent requests (what GetRangeByHeight does), without faults
	for _, ht := range h.heights {
		n := r.Range(1, 3)
		for k := 0; k < n; k++ {
			op := vkit.Pick(r, []string{"height", "height", "height", "hash"})
			calls = append(calls, c15xcall{op, ht})
			out := "ok"
			if !burst && r.Chance(5, 20) {
				out = vkit.Pick(r, []string{"err", "deadline", "streamerr"})
			}
			s.fetchPlan[ht] = append(s.fetchPlan[ht], out)
		}
		if !burst && r.Chance(4, 20) {
			h.storePlan[ht] = []string{vkit.Pick(r, kinds)}
		}
	}
	r.Shuffle(len(calls), func(i, j int) { calls[i], calls[j] = calls[j], calls[i] })
	if r.Chance(1, 2) {
		calls = append(calls, c15xcall{"head", h.heights[len(h.heights)-1]})
	}
	c15reg.register(h)
	if err := h.openStore(); err != nil {
		c.run.Inconclusive("C15: cannot open a store: " + err.Error())
		return
	}
	opts := []core.Option{core.WithChainID(p2p.Network(c15chain)), core.WithAvailabilityWindow(cfg.Window)}
	if cfg.Archival {
		opts = append(opts, core.WithArchivalMode())
	}
	ex, err := core.NewExchange(core.VerifNewBlockFetcher(&c15grpc{s: s}, s.addr), h.store, header.MakeExtendedHeader, opts...)
	if err != nil {
		c.run.Inconclusive("C15: NewExchange: " + err.Error())
		return
	}
	ctx, cancel := context.WithTimeout(context.Background(), 10*time.Minute)
	defer cancel()

	do := func(cl c15xcall) (*header.ExtendedHeader, error, any, string) {
		var eh *header.ExtendedHeader
		var err error
		pnc, site := vkit.Recover(func() {
			switch cl.op {
			case "head":
				eh, err = ex.Head(ctx)
			case "hash":
				eh, err = ex.Get(ctx, h.blocks[cl.h].commit.BlockID.Hash.Bytes())
			default:
				eh, err = ex.GetByHeight(ctx, uint64(cl.h))
			}
		})
		c.run.Eval(1)
		return eh, err, pnc, site
	}
	// checkHeader: the returned extended header is the block's header with the DAH of its txs
	checkHeader := func(b *c15block, eh *header.ExtendedHeader, w map[string]any) bool {
		if eh == nil {
			h.violation("C15 exchange returned no header and no error", w)
			return false
		}
		if !bytes.Equal(eh.RawHeader.Hash(), b.hdr.Hash()) {
			h.violation("C15 exchange returned a header that is not the header of the requested block", w)
			return false
		}
		if !eh.DAH.Equals(b.pay.blk.Sq.Roots) {
			h.violation("C15 exchange header's DAH is not the DAH of the block's transactions", w)
			return false
		}
		if b.consistent && !bytes.Equal(eh.DAH.Hash(), b.hdr.DataHash) {
			h.violation("C15 consistent block: exchange header's DAH does not hash to the block's data hash", w)
			return false
		}
		return true
	}

	okHeights := map[int64]bool{}
	if burst {
		var wg sync.WaitGroup
		type res struct {
			cl  c15xcall
			eh  *header.ExtendedHeader
			err error
			pnc any
		}
		out := make([]res, len(calls))
		for i, cl := range calls {
			wg.Add(1)
			go func(i int, cl c15xcall) {
				defer wg.Done()
				eh, err, pnc, _ := do(cl)
				out[i] = res{cl, eh, err, pnc}
			}(i, cl)
		}
		wg.Wait()
		for _, rs := range out {
			b := h.blocks[rs.cl.h]
			w := map[string]any{"call": fmt.Sprintf("%s h=%d", rs.cl.op, rs.cl.h), "returned": fmt.Sprint(rs.err), "concurrent": true}
			if rs.pnc != nil {
				h.violation("C15 exchange panics", map[string]any{"panic": fmt.Sprint(rs.pnc), "call": w["call"]})
				continue
			}
			if rs.err != nil {
				h.violation("C15 exchange fails although the endpoint served the block and the store accepted it", w)
				continue
			}
			if checkHeader(b, rs.eh, w) {
				okHeights[rs.cl.h] = true
			}
		}
		c.run.Count("exchange/concurrent-histories", 1)
	} else {
		for _, cl := range calls {
			b := h.blocks[cl.h]
			before, _ := h.store.HasByHeight(ctx, uint64(cl.h))
			from := h.logLen()
			h.note("xchg", "", cl.h, cl.op)
			eh, err, pnc, site := do(cl)
			h.note("xchg-returned", "", cl.h, c15errString(err))
			seg := h.logFrom(from)
			var fetch, put string
			for _, e := range seg {
				if e.h != cl.h {
					continue
				}
				switch e.kind {
				case "fetch":
					fetch = e.out
				case "put":
					put = e.out
				}
			}
			after, _ := h.store.HasByHeight(ctx, uint64(cl.h))
			w := map[string]any{"call": fmt.Sprintf("%s h=%d", cl.op, cl.h), "fetch": fetch, "store_write": put, "returned": fmt.Sprint(err),
				"stored_before": before, "stored_after": after, "in_window": b.inWindow}
			if pnc != nil {
				h.violation("C15 exchange panics @"+site, map[string]any{"panic": fmt.Sprint(pnc), "call": w["call"]})
				continue
			}
			mode := "pruned"
			if cfg.Archival {
				mode = "archival"
			}
			h.run.Distinct(fmt.Sprintf("exchange|%s|%s|in=%v|empty=%v|before=%v|fetch=%s|put=%s", mode, cl.op, b.inWindow, b.pay.empty, before, fetch, put))
			failed := fetch != "ok" || (put != "" && put != "ok")
			switch {
			case failed:
				if err == nil {
					h.violation("C15 exchange hides a failed ingest (fetch "+fetch+", store write "+put+")", w)
				} else {
					h.run.Count("exchange/failure-reported", 1)
				}
				if after && !before {
					h.violation("C15 failed exchange ingest leaves the height stored (fetch "+fetch+", store write "+put+")", w)
				}
			case err != nil:
				h.violation("C15 exchange fails although the endpoint served the block and the store accepted it", w)
			default:
				if !checkHeader(b, eh, w) {
					continue
				}
				if h.prunedHistoric(b) {
					if after {
						h.violation("C15 pruned node stored a block outside the availability window (exchange path)", w)
					} else {
						h.run.Count("exchange/pruned-historic-header-only", 1)
					}
					continue
				}
				if !after {
					h.violation("C15 exchange returned a header whose square is not stored", w)
					continue
				}
				okHeights[cl.h] = true
				h.run.Count("exchange/ok-stored", 1)
				h.checkStored(ctx, "exchange", b, eh.DAH, r.SplitN("read", int(cl.h%1000)), r.Chance(1, 8))
			}
		}
	}
	// end of history
	for _, ht := range h.heights {
		b := h.blocks[ht]
		h.clearFaults(b)
		stored, _ := h.store.HasByHeight(ctx, uint64(ht))
		w := map[string]any{"height": ht, "stored": stored, "returned_successfully": okHeights[ht]}
		switch {
		case h.prunedHistoric(b):
			if stored {
				h.violation("C15 pruned node stored a block outside the availability window (exchange path)", w)
			}
		case okHeights[ht] && !stored:
			h.violation("C15 exchange returned a header whose square is not stored", w)
		case !okHeights[ht] && stored:
			h.violation("C15 height stored although no exchange request of it succeeded", w)
		case stored:
			if burst {
				h.run.Count("exchange/ok-stored", 1)
			}
			h.checkStored(ctx, "exchange", b, b.pay.blk.Sq.Roots, r.SplitN("final", int(ht%1000)), false)
		}
	}
	c.run.Count("histories/exchange", 1)
	c.countCfg(cfg)
	if n := c.nth.Add(1); n%23 == 1 {
		c.run.Sample(map[string]any{"history": id, "config": cfg.String(), "log": c15logStrings(h.logFrom(0))})
	}
}
