package checks

import (
	"context"
	"fmt"
	"runtime"
	"sort"
	"strings"
	"sync"
	"sync/atomic"
	"time"

	"github.com/anishathalye/porcupine"
	"github.com/libp2p/go-libp2p/core/peer"

	"github.com/celestiaorg/celestia-node/share/shwap/p2p/shrex/peers"
	"github.com/celestiaorg/celestia-node/zz_verif/vkit"
)

// ---------------------------------------------------------------------------------------------
// phase C: concurrent pool histories.
//
// A history is a list of rounds; in a round every worker runs its (1-2) operations concurrently
// with the others and with the clock worker (virtual-time advance, which fires the cool-down
// timers). Every operation is recorded at the boundary: logical call stamp + virtual time before
// the call, logical return stamp + virtual time after it, all stamps from one mutex.

const c17MaxPeers = 16

type c17Op struct {
	W     int    `json:"w"`
	Kind  string `json:"op"`
	P     int    `json:"p"`   // argument peer (-1: none)
	Out   int    `json:"out"` // get: returned peer or -1; len: n; has: 0/1
	Call  int64  `json:"call"`
	Ret   int64  `json:"ret"` // 0: never returned
	VCall int64  `json:"vcall_ns"`
	VRet  int64  `json:"vret_ns"`
}

func (o c17Op) String() string {
	arg := ""
	if o.P >= 0 {
		arg = fmt.Sprintf("p%d", o.P)
	}
	res := ""
	switch o.Kind {
	case "tryGet", "next":
		if o.Out >= 0 {
			res = fmt.Sprintf("=p%d", o.Out)
		} else {
			res = "=none"
		}
	case "len", "has":
		res = fmt.Sprintf("=%d", o.Out)
	}
	ret := fmt.Sprint(o.Ret)
	if o.Ret == 0 {
		ret = "NEVER"
	}
	return fmt.Sprintf("w%d %s(%s)%s [%d..%s] v[%s..%s]", o.W, o.Kind, arg, res, o.Call, ret,
		time.Duration(o.VCall), time.Duration(o.VRet))
}

type c17Rec struct {
	mu  sync.Mutex
	t   int64
	ops []c17Op
}

func (r *c17Rec) begin(op c17Op) int {
	r.mu.Lock()
	defer r.mu.Unlock()
	r.t++
	op.Call = r.t
	r.ops = append(r.ops, op)
	return len(r.ops) - 1
}

func (r *c17Rec) end(i int, out int, vret int64) {
	r.mu.Lock()
	defer r.mu.Unlock()
	r.t++
	r.ops[i].Ret = r.t
	r.ops[i].Out = out
	r.ops[i].VRet = vret
}

func (r *c17Rec) snapshot() []c17Op {
	r.mu.Lock()
	defer r.mu.Unlock()
	return append([]c17Op(nil), r.ops...)
}

func c17OpStrings(ops []c17Op) []string {
	out := make([]string, len(ops))
	for i, o := range ops {
		out[i] = o.String()
	}
	return out
}

type c17Step struct {
	kind string
	p    int
	spin int
}

type c17Round struct {
	workers [][]c17Step
	advance time.Duration
	advSpin int
}

type c17CW struct {
	done   chan struct{}
	cancel context.CancelFunc
}

type c17Hist struct {
	c      *c17
	idx    int
	mode   string // "unique" | "readd"
	ttl    time.Duration
	nPeers int
	vp     *peers.VerifPool
	clk    *c17Clock
	lo     *c17LO
	lomode int
	rec    *c17Rec
	rounds []c17Round

	wmu      sync.Mutex
	waiters  []*c17CW
	panicked atomic.Bool
}

func (h *c17Hist) params() map[string]any {
	lm := "passive"
	if h.lomode == c17Widen {
		lm = "widened-windows"
	}
	return map[string]any{"history": h.idx, "seed": h.c.seed, "mode": h.mode, "ttl": h.ttl.String(), "peers": h.nPeers,
		"rounds": len(h.rounds), "workers": len(h.rounds[0].workers), "lock_monitor": lm}
}

func (h *c17Hist) exec(w int, st c17Step) {
	for i := 0; i < st.spin; i++ {
		runtime.Gosched()
	}
	id := c17ID(st.p)
	op := c17Op{W: w, Kind: st.kind, P: st.p, Out: -1, VCall: h.clk.vnow()}
	if st.kind == "tryGet" || st.kind == "len" || st.kind == "next" {
		op.P = -1
	}
	i := h.rec.begin(op)
	out := -1
	defer func() {
		if p := recover(); p != nil {
			h.rec.end(i, -3, h.clk.vnow())
			h.panicked.Store(true)
			h.c.run.Violation("C17 pool/conc operation panics: "+st.kind, map[string]any{"panic": fmt.Sprint(p), "params": h.params(),
				"ops": c17OpStrings(h.rec.snapshot())})
		}
	}()
	switch st.kind {
	case "add":
		h.vp.Add(id)
	case "remove":
		h.vp.Remove(id)
	case "cool":
		h.vp.PutOnCooldown(id)
	case "tryGet":
		if got, ok := h.vp.TryGet(); ok {
			out = c17Idx(got)
			if out < 0 {
				out = -2
			}
		}
	case "len":
		out = h.vp.Len()
	case "has":
		out = 0
		if h.vp.Has(id) {
			out = 1
		}
	case "next":
		ctx, cancel := context.WithCancel(context.Background())
		ch := h.vp.Next(ctx)
		cw := &c17CW{done: make(chan struct{}), cancel: cancel}
		h.wmu.Lock()
		h.waiters = append(h.waiters, cw)
		h.wmu.Unlock()
		go func() {
			select {
			case got := <-ch:
				o := c17Idx(got)
				if o < 0 {
					o = -2
				}
				h.rec.end(i, o, h.clk.vnow())
				close(cw.done)
			case <-ctx.Done():
			}
		}()
		return
	}
	h.rec.end(i, out, h.clk.vnow())
}

// genUnique: every id is added once, cooled at most once, removed at most once, never re-added;
// cool/remove are issued in a later round than the add (so after it returned).
func (h *c17Hist) genUnique(r *vkit.RNG) {
	W, R := r.Range(4, 12), r.Range(3, 8)
	h.nPeers = r.Range(4, 14)
	h.rounds = make([]c17Round, R)
	for i := range h.rounds {
		h.rounds[i].workers = make([][]c17Step, W)
	}
	put := func(round int, st c17Step) {
		w := r.Intn(W)
		st.spin = r.Intn(4)
		h.rounds[round].workers[w] = append(h.rounds[round].workers[w], st)
	}
	for p := 0; p < h.nPeers; p++ {
		ar := r.Intn(R - 1)
		put(ar, c17Step{kind: "add", p: p})
		if r.Chance(7, 10) {
			put(r.Range(ar+1, R-1), c17Step{kind: "cool", p: p})
		}
		if r.Chance(55, 100) {
			put(r.Range(ar+1, R-1), c17Step{kind: "remove", p: p})
		}
	}
	for ri := range h.rounds {
		for w := 0; w < W; w++ {
			k := r.Intn(100)
			var st c17Step
			switch {
			case k < 45:
				st = c17Step{kind: "tryGet"}
			case k < 53:
				st = c17Step{kind: "next"}
			case k < 63:
				st = c17Step{kind: "len"}
			case k < 73:
				st = c17Step{kind: "has", p: r.Intn(h.nPeers)}
			default:
				continue
			}
			st.spin = r.Intn(6)
			ws := h.rounds[ri].workers[w]
			pos := r.Intn(len(ws) + 1)
			ws = append(ws, c17Step{})
			copy(ws[pos+1:], ws[pos:])
			ws[pos] = st
			h.rounds[ri].workers[w] = ws
		}
		if r.Chance(65, 100) {
			h.rounds[ri].advance = vkit.Pick(r, []time.Duration{h.ttl / 3, h.ttl / 2, h.ttl - 1, h.ttl, h.ttl + 1, 2 * h.ttl})
			h.rounds[ri].advSpin = r.Intn(6)
		}
	}
}

// genRecool: the scripted shape "cool-down, remove, re-add, cool-down again, first expiry" with
// concurrent observers, through the same machinery.
func (h *c17Hist) genRecool(r *vkit.RNG) {
	W := r.Range(3, 5)
	h.nPeers = 2
	d1 := time.Duration(r.Range(100, 800)) * time.Millisecond
	obs := func() []c17Step {
		return []c17Step{{kind: vkit.Pick(r, []string{"tryGet", "len", "tryGet", "has"}), p: 0, spin: r.Intn(5)}}
	}
	mk := func(first c17Step, adv time.Duration, observers bool) c17Round {
		rd := c17Round{workers: make([][]c17Step, W), advance: adv}
		rd.workers[0] = []c17Step{first}
		if observers {
			for w := 1; w < W; w++ {
				rd.workers[w] = obs()
			}
		}
		return rd
	}
	h.rounds = []c17Round{
		mk(c17Step{kind: "add", p: 0}, 0, false),
		mk(c17Step{kind: "cool", p: 0}, 0, true),
		mk(c17Step{kind: "has", p: 0}, d1, false),
		mk(c17Step{kind: "remove", p: 0}, 0, true),
		mk(c17Step{kind: "add", p: 0}, 0, false),
		mk(c17Step{kind: "cool", p: 0}, 0, false),
		mk(c17Step{kind: "has", p: 0}, h.ttl-d1, false), // the first cool-down would have elapsed now
		mk(c17Step{kind: "tryGet"}, 0, true),
		mk(c17Step{kind: "has", p: 0}, d1, false),
		mk(c17Step{kind: "tryGet"}, 0, true),
	}
}

// genReadd: few ids, arbitrary concurrent ops on them (re-adds, repeated cool-downs).
func (h *c17Hist) genReadd(r *vkit.RNG) {
	W := r.Range(3, 8)
	R := r.Range(3, 44/W)
	h.nPeers = r.Range(2, 4)
	h.rounds = make([]c17Round, R)
	for ri := range h.rounds {
		h.rounds[ri].workers = make([][]c17Step, W)
		for w := 0; w < W; w++ {
			k := r.Intn(100)
			st := c17Step{p: r.Intn(h.nPeers), spin: r.Intn(5)}
			switch {
			case k < 22:
				st.kind = "add"
			case k < 36:
				st.kind = "remove"
			case k < 58:
				st.kind = "cool"
			case k < 80:
				st.kind = "tryGet"
			case k < 86:
				st.kind = "next"
			case k < 93:
				st.kind = "len"
			default:
				st.kind = "has"
			}
			h.rounds[ri].workers[w] = []c17Step{st}
		}
		if r.Chance(60, 100) {
			h.rounds[ri].advance = vkit.Pick(r, []time.Duration{h.ttl / 4, h.ttl / 2, 3 * h.ttl / 4, h.ttl - 1, h.ttl, h.ttl + 1})
			h.rounds[ri].advSpin = r.Intn(6)
		}
	}
}

func (c *c17) concHistory(r *vkit.RNG, idx int) {
	run := c.run
	h := &c17Hist{c: c, idx: idx, ttl: time.Second, rec: &c17Rec{}, clk: c17NewClock()}
	if idx%50 == 7 {
		h.mode = "readd"
		h.genRecool(r.Split("gen"))
	} else if r.Chance(55, 100) {
		h.mode = "unique"
		h.genUnique(r.Split("gen"))
	} else {
		h.mode = "readd"
		h.genReadd(r.Split("gen"))
	}
	h.lomode = c17Passive
	if r.Bool() {
		h.lomode = c17Widen
	}
	h.vp = peers.NewVerifPool(h.ttl, h.clk, vkit.Pick(r, []int{0, 1, 2, 2, 3}))
	h.lo = c.registerLO(h.vp, h.lomode)
	defer func() {
		h.wmu.Lock()
		for _, w := range h.waiters {
			w.cancel()
		}
		h.wmu.Unlock()
	}()
	run.Count("conc/histories/"+h.mode, 1)

	// wait for a timer callback: gives up on a lock-order cycle (certain deadlock) or the soft limit
	wait := func(ch <-chan struct{}) bool {
		select {
		case <-ch:
			return true
		default:
		}
		t := time.NewTimer(c17SoftPool)
		defer t.Stop()
		select {
		case <-ch:
			return true
		case <-h.lo.cycleCh:
			return false
		case <-t.C:
			return false
		}
	}
	abandon := func(done <-chan struct{}, what string) {
		ops := c17OpStrings(h.rec.snapshot())
		par := h.params()
		lo := h.lo
		c.suspect(&c17Suspect{what: "concurrent pool history (" + what + ")", done: done,
			onHang: func(dump string) {
				_, _, cyc, first := lo.stats()
				sig := "C17 pool/conc operations hang (no lock-order cycle seen)"
				if cyc || c17IsABBA(dump) {
					sig = c17SigABBA
				}
				c.run.Violation(sig, map[string]any{"params": par, "ops (NEVER = did not return)": ops, "lock_order_cycle_seen": cyc,
					"first_arrival": first, "phase": "concurrent history", "peers_goroutines_in_stable_dump": c17PeersGoroutines(dump, 14)})
			},
			onDone: func() {
				if _, _, cyc, _ := lo.stats(); cyc {
					c.run.Inconclusive("conc: lock-order cycle reported but the operations completed (markers do not bracket the locks)")
				}
			}})
	}

	apart := c.abbaSeen.Load() >= c17ABBACap
	if apart {
		run.Count("conc/histories/expiry-kept-apart-from-putOnCooldown", 1)
	}
	for ri := range h.rounds {
		rd := h.rounds[ri]
		var wg sync.WaitGroup
		var stuck atomic.Value
		if apart && rd.advance > 0 {
			// same operations, but the clock moves before the workers start
			if ch := h.clk.advance(rd.advance, wait); ch != nil {
				abandon(ch, "cool-down expiry callback did not finish")
				return
			}
			rd.advance = 0
		}
		for w, steps := range rd.workers {
			if len(steps) == 0 {
				continue
			}
			wg.Add(1)
			go func(w int, steps []c17Step) {
				defer wg.Done()
				for _, st := range steps {
					h.exec(w, st)
				}
			}(w, steps)
		}
		if rd.advance > 0 {
			wg.Add(1)
			go func() {
				defer wg.Done()
				for i := 0; i < rd.advSpin; i++ {
					runtime.Gosched()
				}
				if ch := h.clk.advance(rd.advance, wait); ch != nil {
					stuck.Store(ch)
				}
			}()
		}
		done := make(chan struct{})
		go func() { wg.Wait(); close(done) }()
		t := time.NewTimer(c17SoftPool)
		select {
		case <-done:
			t.Stop()
		case <-h.lo.cycleCh:
			t.Stop()
			run.Count("conc/lock-order-cycle", 1)
			c.abbaSeen.Add(1)
			abandon(done, "lock-order cycle")
			return
		case <-t.C:
			abandon(done, "round did not finish")
			return
		}
		if ch, ok := stuck.Load().(<-chan struct{}); ok && ch != nil {
			select {
			case <-h.lo.cycleCh:
				run.Count("conc/lock-order-cycle", 1)
				c.abbaSeen.Add(1)
			default:
			}
			abandon(ch, "cool-down expiry callback did not finish")
			return
		}
	}

	// quiescence: let every cool-down expire, then judge.
	if ch := h.clk.drain(wait); ch != nil {
		abandon(ch, "cool-down expiry callback did not finish (drain)")
		return
	}
	if h.panicked.Load() {
		return // already reported; the recorded history is not meaningful any more
	}
	run.Count("conc/histories-completed", 1)
	nA, nB, _, _ := h.lo.stats()
	run.Count("conc/marker/pool-held-want-queue", nA)
	run.Count("conc/marker/queue-held-want-pool", nB)
	if h.judge(r) {
		c.unregisterLO(h.vp)
	}
}

func (h *c17Hist) violate(sig string, ops []c17Op, extra map[string]any) {
	d := map[string]any{"params": h.params(), "ops": c17OpStrings(ops), "pool": c17SnapDesc(h.vp.Snapshot())}
	for k, v := range extra {
		d[k] = v
	}
	h.c.run.Violation(sig, d)
}

// judge returns false when it registered a suspect (goroutines of the history may still run).
func (h *c17Hist) judge(r *vkit.RNG) (clean bool) {
	clean = true
	run := h.c.run
	ttl := int64(h.ttl)

	// 1. final state
	snap := h.vp.Snapshot()
	ops := h.rec.snapshot()
	run.Eval(1)
	if sig, det := c17Invariants(snap); sig != "" {
		h.violate("C17 pool/conc invariant at quiescence: "+sig, ops, map[string]any{"invariant_detail": det})
		return
	}
	if n := h.vp.Len(); n != snap.ActiveCount {
		h.violate("C17 pool/conc len() != activeCount at quiescence", ops, map[string]any{"len": n})
		return
	}
	for id, st := range snap.Statuses {
		if st == peers.VerifCooldown {
			h.violate("C17 pool/conc peer still on cool-down after every cool-down timer fired", ops, map[string]any{"peer": string(id)})
			return
		}
	}
	if h.mode == "unique" {
		added, removed := map[int]bool{}, map[int]bool{}
		for _, o := range ops {
			if o.Kind == "add" {
				added[o.P] = true
			}
			if o.Kind == "remove" {
				removed[o.P] = true
			}
		}
		for p := 0; p < h.nPeers; p++ {
			st, ok := snap.Statuses[c17ID(p)]
			realActive := ok && st == peers.VerifActive
			if realActive != (added[p] && !removed[p]) {
				h.violate(fmt.Sprintf("C17 pool/conc final state differs from the completed operations: real=%s expected active=%v",
					c17StatusName(st, ok), added[p] && !removed[p]), ops, map[string]any{"peer": fmt.Sprintf("p%d", p)})
				return
			}
		}
	}

	// 2. wake-ups: at quiescence every pending next() must deliver as soon as a peer is active.
	h.wmu.Lock()
	ws := append([]*c17CW(nil), h.waiters...)
	h.wmu.Unlock()
	var pending []*c17CW
	for _, w := range ws {
		select {
		case <-w.done:
		default:
			pending = append(pending, w)
		}
	}
	if len(pending) > 0 {
		after := "peers are active at quiescence"
		if snap.ActiveCount == 0 {
			after = "add"
			h.exec(99, c17Step{kind: "add", p: h.nPeers})
			h.nPeers++
		}
		for _, w := range pending {
			if !c17Await(w.done, c17SoftPool) {
				o := c17OpStrings(h.rec.snapshot())
				par := h.params()
				c := h.c
				c.suspect(&c17Suspect{what: "pending next() (" + after + ")", done: w.done, onHang: func(dump string) {
					c.run.Violation("C17 pool/conc pending next() not woken: "+after, map[string]any{"params": par, "ops": o,
						"peers_goroutines": c17PeersGoroutines(dump, 12)})
				}})
				return false
			}
			run.Count("conc/next/woken-at-quiescence", 1)
		}
		ops = h.rec.snapshot()
	}

	// 3. per-operation oracles
	type life struct{ add, cool, remove *c17Op }
	lives := map[int]*life{}
	if h.mode == "unique" {
		for i := range ops {
			o := &ops[i]
			if o.P < 0 {
				continue
			}
			l := lives[o.P]
			if l == nil {
				l = &life{}
				lives[o.P] = l
			}
			switch o.Kind {
			case "add":
				l.add = o
			case "cool":
				l.cool = o
			case "remove":
				l.remove = o
			}
		}
	}
	coolingAt := func(l *life, g *c17Op) bool { // definitely cooling during the whole of g
		return l.cool != nil && l.cool.Ret < g.Call && g.VRet < l.cool.VCall+ttl
	}
	activeThroughout := func(l *life, g *c17Op) bool {
		return l.add != nil && l.add.Ret < g.Call && (l.remove == nil || l.remove.Call > g.Ret) && (l.cool == nil || l.cool.Call > g.Ret)
	}
	for i := range ops {
		g := &ops[i]
		run.Eval(1)
		run.Count("conc/op/"+g.Kind, 1)
		isGet := g.Kind == "tryGet" || g.Kind == "next"
		if isGet {
			if g.Out >= 0 {
				run.Count("conc/get/peer", 1)
			} else if g.Out == -1 && g.Kind == "tryGet" {
				run.Count("conc/get/none", 1)
			}
		}
		if isGet && g.Out == -2 {
			h.violate("C17 pool/conc get returned an id that was never added", ops, map[string]any{"op": g.String()})
			return
		}
		if h.mode != "unique" {
			continue
		}
		switch {
		case isGet && g.Out >= 0:
			l := lives[g.Out]
			if l == nil || l.add == nil || l.add.Call > g.Ret {
				h.violate("C17 pool/conc get returned a peer before it was added", ops, map[string]any{"op": g.String()})
				return
			}
			if l.remove != nil && l.remove.Ret < g.Call {
				h.violate("C17 pool/conc get returned a removed peer", ops, map[string]any{"op": g.String(), "remove": l.remove.String()})
				return
			}
			if coolingAt(l, g) {
				h.violate("C17 pool/conc get returned a peer before its cool-down elapsed", ops, map[string]any{"op": g.String(), "cool": l.cool.String()})
				return
			}
			run.Count("conc/interval-oracle/get-checked", 1)
		case g.Kind == "tryGet" && g.Out == -1:
			for p, l := range lives {
				if activeThroughout(l, g) {
					h.violate("C17 pool/conc tryGet returned none while a peer was active throughout the call", ops,
						map[string]any{"op": g.String(), "peer": fmt.Sprintf("p%d", p)})
					return
				}
			}
		case g.Kind == "len":
			lo, hi := 0, 0
			for _, l := range lives {
				if activeThroughout(l, g) {
					lo++
				}
				if l.add != nil && l.add.Call < g.Ret && !(l.remove != nil && l.remove.Ret < g.Call) && !coolingAt(l, g) {
					hi++
				}
			}
			if g.Out < lo || g.Out > hi {
				h.violate("C17 pool/conc len() outside the bounds implied by completed operations", ops,
					map[string]any{"op": g.String(), "lower": lo, "upper": hi})
				return
			}
		case g.Kind == "has":
			l := lives[g.P]
			must1 := l != nil && l.add != nil && l.add.Ret < g.Call && (l.remove == nil || l.remove.Call > g.Ret)
			must0 := l == nil || l.add == nil || l.add.Call > g.Ret || (l.remove != nil && l.remove.Ret < g.Call)
			if (must1 && g.Out != 1) || (must0 && g.Out != 0) {
				h.violate("C17 pool/conc has() contradicts completed operations", ops, map[string]any{"op": g.String()})
				return
			}
		}
	}

	// 4. interleaving signature
	type ev struct {
		t int64
		s string
	}
	var evs []ev
	for _, o := range ops {
		evs = append(evs, ev{o.Call, "c" + o.Kind[:2]}, ev{o.Ret, "r" + o.Kind[:2]})
	}
	sort.Slice(evs, func(i, j int) bool { return evs[i].t < evs[j].t })
	var sb strings.Builder
	overl := 0
	open := 0
	for _, e := range evs {
		sb.WriteString(e.s)
		if e.s[0] == 'c' {
			if open > 0 {
				overl++
			}
			open++
		} else {
			open--
		}
	}
	run.SetAdd("conc_interleavings", h.mode+sb.String())
	run.Distinct("conc|" + h.mode + sb.String())
	run.Max("conc/max-overlapping-calls-in-a-history", overl)

	// 5. linearizability against the non-deterministic model (short histories)
	if len(ops) <= 48 && h.nPeers <= c17MaxPeers {
		var hist []porcupine.Operation
		for _, o := range ops {
			kind := o.Kind
			if kind == "next" || kind == "tryGet" {
				if o.Ret == 0 {
					continue // cancelled next(): no effect
				}
				kind = "get"
			}
			hist = append(hist, porcupine.Operation{ClientId: o.W % 100, Input: c17PIn{kind, o.P, o.VCall, o.VRet}, Call: o.Call, Output: o.Out, Return: o.Ret})
		}
		pt := time.Now()
		res := porcupine.CheckOperationsTimeout(c17PorcupineModel(ttl), hist, 20*time.Second)
		run.Count("conc/porcupine/total_ms", int(time.Since(pt).Milliseconds()))
		switch res {
		case porcupine.Ok:
			run.Count("conc/porcupine/ok", 1)
			run.Count("conc/porcupine/ok/"+h.mode, 1)
		case porcupine.Unknown:
			run.Count("conc/porcupine/unknown(timeout)", 1)
		default:
			run.Count("conc/porcupine/illegal", 1)
			// Label only: is the history explained once a stale queue item (cool-down ended by a
			// remove, item left in the queue) is allowed to re-activate a re-cooled peer early?
			sig := "C17 pool/conc history not linearizable against the pool model [" + h.mode + "]"
			extra := map[string]any{}
			if porcupine.CheckOperationsTimeout(c17PorcupineModelOpt(ttl, true), hist, 20*time.Second) == porcupine.Ok {
				sig = "C17 pool/conc peer active before its cool-down elapsed [cool-down, remove, re-add, cool-down: stale queue item]"
				extra["explained_by"] = "history is linearizable iff a left-over queue item of an earlier cool-down may re-activate the peer"
				if w := c17StalePattern(ops, ttl); w != nil {
					extra["pattern"] = w
				}
			}
			h.violate(sig, ops, extra)
			return
		}
	} else {
		run.Count("conc/porcupine/skipped-long", 1)
	}
	if n := h.c.nsample.Add(1); n%97 == 1 {
		run.Sample(map[string]any{"phase": "concurrent", "params": h.params(), "ops": c17OpStrings(ops)})
	}
	return
}

// c17StalePattern looks for the witness shape of a stale cool-down item: cool C1, remove, add,
// cool C2 (each after the previous returned), then a get returning the peer that started after C2
// returned, ended before C2's cool-down could elapse and not before C1's elapsed.
func c17StalePattern(ops []c17Op, ttl int64) []string {
	by := map[int][]*c17Op{}
	for i := range ops {
		if ops[i].P >= 0 && ops[i].Ret != 0 {
			by[ops[i].P] = append(by[ops[i].P], &ops[i])
		}
	}
	for i := range ops {
		g := &ops[i]
		if (g.Kind != "tryGet" && g.Kind != "next") || g.Out < 0 || g.Ret == 0 {
			continue
		}
		for _, c2 := range by[g.Out] {
			if c2.Kind != "cool" || c2.Ret > g.Call || g.VRet >= c2.VCall+ttl {
				continue
			}
			for _, a := range by[g.Out] {
				if a.Kind != "add" || a.Ret > c2.Call {
					continue
				}
				for _, rm := range by[g.Out] {
					if rm.Kind != "remove" || rm.Ret > a.Call {
						continue
					}
					for _, c1 := range by[g.Out] {
						if c1.Kind == "cool" && c1.Ret < rm.Call && g.VRet >= c1.VCall+ttl {
							return []string{c1.String(), rm.String(), a.String(), c2.String(), g.String()}
						}
					}
				}
			}
		}
	}
	return nil
}

// ---------------------------------------------------------------------------------------------
// porcupine model. Per peer: -1 removed/absent, 0 active, >0 cooling, value = earliest virtual
// time (ns) at which the cool-down can have elapsed (virtual time before the call + ttl).
// Virtual times are inputs (observed at the boundary), so only lower bounds are enforced: a
// cooling peer whose bound has passed when the operation returned may or may not be active yet.

type c17PState struct {
	s [c17MaxPeers]int64
	// relaxed (labelling) model only: smallest bound of a cool-down that was ended by a remove
	stale [c17MaxPeers]int64
}

type c17PIn struct {
	Kind        string
	P           int
	VCall, VRet int64
}

func c17PorcupineModel(ttl int64) porcupine.Model { return c17PorcupineModelOpt(ttl, false) }

func c17PorcupineModelOpt(ttl int64, tolerateStale bool) porcupine.Model {
	nm := porcupine.NondeterministicModel{
		Init: func() []interface{} {
			var s c17PState
			for i := range s.s {
				s.s[i] = -1
			}
			return []interface{}{s}
		},
		Step: func(state, input, output interface{}) []interface{} {
			st := state.(c17PState)
			in := input.(c17PIn)
			out := output.(int)
			s := &st.s
			// maybe: cooling, but the bound has passed when the operation returned
			maybe := func(p int) bool {
				v := s[p]
				if v <= 0 {
					return false
				}
				return v <= in.VRet || (tolerateStale && st.stale[p] > 0 && st.stale[p] <= in.VRet)
			}
			switch in.Kind {
			case "add":
				if s[in.P] == -1 {
					s[in.P] = 0
				}
				return []interface{}{st}
			case "remove":
				if tolerateStale && s[in.P] > 0 && (st.stale[in.P] == 0 || s[in.P] < st.stale[in.P]) {
					st.stale[in.P] = s[in.P]
				}
				s[in.P] = -1
				return []interface{}{st}
			case "cool":
				switch {
				case s[in.P] == 0:
					s[in.P] = in.VCall + ttl
					return []interface{}{st}
				case maybe(in.P):
					// possibly re-activated already (then cooled again) or still cooling (no-op)
					t := st
					t.s[in.P] = in.VCall + ttl
					return []interface{}{st, t}
				}
				return []interface{}{st}
			case "get":
				if out < 0 {
					for _, v := range s {
						if v == 0 {
							return nil
						}
					}
					return []interface{}{st}
				}
				if out >= c17MaxPeers {
					return nil
				}
				switch {
				case s[out] == 0:
					return []interface{}{st}
				case maybe(out):
					s[out] = 0
					return []interface{}{st}
				}
				return nil
			case "len":
				a, p := 0, 0
				for i, v := range s {
					if v == 0 {
						a++
					} else if maybe(i) {
						p++
					}
				}
				if out >= a && out <= a+p {
					return []interface{}{st}
				}
				return nil
			case "has":
				if (s[in.P] != -1) == (out == 1) {
					return []interface{}{st}
				}
				return nil
			}
			return nil
		},
		Equal: func(a, b interface{}) bool { return a.(c17PState) == b.(c17PState) },
	}
	return nm.ToModel()
}

// ---------------------------------------------------------------------------------------------
// phase F: forced lock hand-over windows (serial; the stable-state oracle can be used inline).

func (lo *c17LO) setMode(m int) {
	lo.mu.Lock()
	lo.mode = m
	lo.mu.Unlock()
}

var c17FastStable = vkit.StableOpts{Polls: 8, Every: 12 * time.Millisecond, MaxWait: 30 * time.Second}

func (c *c17) forcedWindow(r *vkit.RNG, idx int) {
	run := c.run
	ttl := time.Second
	clk := c17NewClock()
	vp := peers.NewVerifPool(ttl, clk, vkit.Pick(r, []int{0, 1, 2, 3}))
	lo := c.registerLO(vp, c17Passive)
	defer c.unregisterLO(vp)
	var trace []string
	n := r.Range(2, 6)
	for p := 0; p < n; p++ {
		vp.Add(c17ID(p))
	}
	trace = append(trace, fmt.Sprintf("add(p0..p%d)", n-1))
	k := r.Range(1, n-1)
	plain := func(ch <-chan struct{}) bool { return c17Await(ch, c17SoftPool) }
	for p := 0; p < k; p++ {
		vp.PutOnCooldown(c17ID(p))
		trace = append(trace, fmt.Sprintf("putOnCooldown(p%d)@%v", p, time.Duration(clk.vnow())))
		if d := time.Duration(r.Intn(4)) * ttl / 8; d > 0 && p+1 < k {
			clk.advance(d, plain)
		}
	}
	if r.Chance(1, 3) && k >= 2 {
		vp.Remove(c17ID(0)) // a stale item at the head of the queue
		trace = append(trace, "remove(p0)")
	}
	b := r.Range(k, n-1)
	timerFirst := r.Bool()
	lo.setMode(c17Park)
	run.Count("forced/windows", 1)
	run.Eval(1)

	stop := make(chan struct{})
	var stopOnce sync.Once
	closeStop := func() { stopOnce.Do(func() { close(stop) }) }
	g1done, g2done := make(chan struct{}), make(chan struct{})
	var cbStuck atomic.Value
	startTimer := func() {
		go func() {
			defer close(g1done)
			// advance to the first expiry; the callback runs releaseExpired in its own goroutine
			if ch := clk.advance(ttl, func(ch <-chan struct{}) bool {
				select {
				case <-ch:
					return true
				case <-stop:
					cbStuck.Store(ch)
					return false
				}
			}); ch != nil {
				return
			}
		}()
	}
	startCool := func() {
		go func() {
			defer close(g2done)
			vp.PutOnCooldown(c17ID(b))
		}()
	}
	both := make(chan struct{})
	go func() { <-g1done; <-g2done; close(both) }()
	waitParked := func(other <-chan struct{}) {
		t := time.NewTimer(c17SoftPool)
		defer t.Stop()
		select {
		case <-lo.parked:
		case <-other:
		case <-t.C:
		}
	}
	if timerFirst {
		trace = append(trace, fmt.Sprintf("|| advance(%v) parked at queue-held-want-pool, then putOnCooldown(p%d)", ttl, b))
		startTimer()
		waitParked(g1done)
		startCool()
	} else {
		trace = append(trace, fmt.Sprintf("|| putOnCooldown(p%d) parked at pool-held-want-queue, then advance(%v)", b, ttl))
		startCool()
		waitParked(g2done)
		startTimer()
	}
	run.SetAdd("forced_shapes", fmt.Sprintf("n=%d k=%d timerFirst=%v stale=%v", n, k, timerFirst, strings.Contains(strings.Join(trace, ";"), "remove")))
	run.Distinct("forced|" + strings.Join(trace, ";"))

	decided := make(chan struct{})
	go func() {
		select {
		case <-lo.cycleCh:
		case <-both:
		}
		close(decided)
	}()
	if !c17Await(decided, 300*time.Millisecond) {
		// neither a cycle nor completion: decide by stability, then let the parked side go
		if v, _ := vkit.WaitStable(decided, c17FastStable); v != "done" {
			run.Count("forced/parked-without-partner", 1)
			lo.release()
		}
	}
	par := map[string]any{"window": idx, "seed": c.seed, "ttl": ttl.String()}
	_, _, cyc, first := lo.stats()
	if cyc {
		run.Count("forced/lock-order-cycle", 1)
		// the two real goroutines are now blocked on each other's lock: confirm in the stable state
		cool := g2done
		c.suspect(&c17Suspect{what: "forced window: putOnCooldown vs expiry", done: cool,
			onHang: func(dump string) {
				closeStop()
				c.run.Violation(c17SigABBA, map[string]any{"params": par, "ops": trace, "lock_order_cycle_seen": true, "first_arrival": first,
					"phase": "forced window", "peers_goroutines_in_stable_dump": c17PeersGoroutines(dump, 14)})
			},
			onDone: func() {
				closeStop()
				c.run.Inconclusive("forced: lock-order cycle reported but putOnCooldown returned (markers do not bracket the locks)")
			}})
		return
	}
	lo.release()
	if !c17Await(both, c17SoftPool) {
		c.suspect(&c17Suspect{what: "forced window operations", done: both, onHang: func(dump string) {
			closeStop()
			sig := "C17 pool/forced operations hang (no lock-order cycle seen)"
			if c17IsABBA(dump) {
				sig = c17SigABBA
			}
			c.run.Violation(sig, map[string]any{"params": par, "ops": trace, "lock_order_cycle_seen": false,
				"peers_goroutines_in_stable_dump": c17PeersGoroutines(dump, 14)})
		}, onDone: closeStop})
		return
	}
	closeStop()
	run.Count("forced/no-cycle", 1)
}

// ---------------------------------------------------------------------------------------------
// wake-up / cancellation scenarios (serial)

func c17CountNextGoroutines() int {
	buf := make([]byte, 1<<20)
	for {
		n := runtime.Stack(buf, true)
		if n < len(buf) {
			buf = buf[:n]
			break
		}
		buf = make([]byte, 2*len(buf))
	}
	return strings.Count(string(buf), "peers.(*pool).next.func1")
}

func (c *c17) wakeScenario(r *vkit.RNG, idx int) {
	run := c.run
	ttl := time.Second
	clk := c17NewClock()
	vp := peers.NewVerifPool(ttl, clk, 2)
	lo := c.registerLO(vp, c17Passive)
	_ = lo
	defer c.unregisterLO(vp)
	kind := []string{"add", "expiry", "cancel", "remove-then-add"}[idx%4]
	nw := r.Range(1, 6)
	var trace []string
	plain := func(ch <-chan struct{}) bool { return c17Await(ch, c17SoftPool) }
	target := 0
	switch kind {
	case "expiry":
		vp.Add(c17ID(0))
		vp.PutOnCooldown(c17ID(0))
		trace = append(trace, "add(p0)", "putOnCooldown(p0)")
	case "remove-then-add":
		vp.Add(c17ID(1), c17ID(2))
		vp.Remove(c17ID(1), c17ID(2))
		trace = append(trace, "add(p1,p2)", "remove(p1,p2)")
	}
	base := c17CountNextGoroutines()
	type wt struct {
		ch     <-chan peer.ID
		cancel context.CancelFunc
	}
	var ws []wt
	for i := 0; i < nw; i++ {
		ctx, cancel := context.WithCancel(context.Background())
		ws = append(ws, wt{vp.Next(ctx), cancel})
	}
	trace = append(trace, fmt.Sprintf("%d x next() pending", nw))
	for i := 0; i < r.Intn(20); i++ {
		runtime.Gosched()
	}
	run.Eval(1)
	run.Distinct(fmt.Sprintf("wake|%s|%d", kind, nw))
	par := map[string]any{"scenario": idx, "kind": kind, "waiters": nw, "seed": c.seed}
	switch kind {
	case "add", "remove-then-add":
		vp.Add(c17ID(target))
		trace = append(trace, "add(p0)")
	case "expiry":
		if ch := clk.advance(ttl, plain); ch != nil {
			c.suspect(&c17Suspect{what: "wake scenario expiry callback", done: ch, onHang: func(dump string) {
				c.run.Violation("C17 pool/wake cool-down expiry never completes", map[string]any{"params": par, "ops": trace,
					"peers_goroutines": c17PeersGoroutines(dump, 12)})
			}})
			return
		}
		trace = append(trace, fmt.Sprintf("advance(%v)", ttl))
	case "cancel":
		for _, w := range ws {
			w.cancel()
		}
		trace = append(trace, "cancel all")
		for i := 0; i < 400; i++ {
			if c17CountNextGoroutines() <= base {
				run.Count("wake/cancel-exited", nw)
				return
			}
			time.Sleep(5 * time.Millisecond)
		}
		never := make(chan struct{})
		if v, dump := vkit.WaitStable(never, c17FastStable); v == "hang" && c17CountNextGoroutines() > base {
			run.Violation("C17 pool/wake next() goroutine does not exit after cancellation", map[string]any{"params": par, "ops": trace,
				"peers_goroutines": c17PeersGoroutines(dump, 12)})
		} else if v != "hang" {
			run.Inconclusive("wake/cancel: goroutine count did not settle")
		}
		return
	}
	for _, w := range ws {
		w := w
		done := make(chan struct{})
		var got peer.ID
		go func() { got = <-w.ch; close(done) }()
		if !c17Await(done, c17SoftPool) {
			tr := append([]string(nil), trace...)
			c.suspect(&c17Suspect{what: "pending next() after " + kind, done: done, onHang: func(dump string) {
				c.run.Violation("C17 pool/wake pending next() not woken after "+kind, map[string]any{"params": par, "ops": tr,
					"peers_goroutines": c17PeersGoroutines(dump, 12)})
			}})
			return
		}
		if got != c17ID(target) {
			run.Violation("C17 pool/wake next() delivered a peer that is not the active one", map[string]any{"params": par, "ops": trace, "got": string(got)})
			return
		}
		run.Count("wake/delivered", 1)
		run.Count("wake/delivered-after-"+kind, 1)
		w.cancel()
	}
}

// readersVsWriters runs goroutines that keep calling the pool's read operations (peers, has, len) against
// goroutines that keep mutating it (add, remove, putOnCooldown, tryGet, clock advances). The only oracle is
// termination: a closed system in which some call never returns, with an unchanging goroutine dump, is a
// deadlock. Returns false when a hang was found (the blocked goroutines hold the pool; stop the family).
func (c *c17) readersVsWriters(r *vkit.RNG, idx int) bool {
	run := c.run
	ttl := time.Second
	clk := c17NewClock()
	vp := peers.NewVerifPool(ttl, clk, vkit.Pick(r, []int{0, 1, 2, 3}))
	n := r.Range(3, 8)
	for p := 0; p < n; p++ {
		vp.Add(c17ID(p))
	}
	readers, writers := r.Range(2, 4), r.Range(2, 4)
	iters := r.Range(150, 400)
	var wg sync.WaitGroup
	for g := 0; g < readers; g++ {
		wg.Add(1)
		rr := r.SplitN("reader", g)
		go func() {
			defer wg.Done()
			for i := 0; i < iters; i++ {
				switch rr.Intn(3) {
				case 0:
					for _, id := range vp.Peers() {
						if c17Idx(id) < 0 {
							run.Violation("C17 pool peers() returns an unknown peer", map[string]any{"id": string(id)})
						}
					}
				case 1:
					vp.Has(c17ID(rr.Intn(n)))
				default:
					vp.Len()
				}
			}
		}()
	}
	for g := 0; g < writers; g++ {
		wg.Add(1)
		rw := r.SplitN("writer", g)
		go func() {
			defer wg.Done()
			for i := 0; i < iters; i++ {
				id := c17ID(rw.Intn(n))
				switch rw.Intn(4) {
				case 0:
					vp.Add(id)
				case 1:
					vp.Remove(id)
				case 2:
					vp.PutOnCooldown(id)
				default:
					vp.TryGet()
				}
			}
		}()
	}
	// one goroutine moves the virtual clock (the harness clock is advanced by a single driver): cool-down
	// expiries then run concurrently with the readers and writers
	wg.Add(1)
	go func() {
		defer wg.Done()
		for i := 0; i < iters/8; i++ {
			clk.advance(ttl/3, func(ch <-chan struct{}) bool { return c17Await(ch, c17SoftPool) })
			runtime.Gosched()
		}
	}()
	done := make(chan struct{})
	go func() { wg.Wait(); close(done) }()
	run.Eval(1)
	run.Count("readers-vs-writers/scenarios", 1)
	run.Distinct(fmt.Sprintf("rvw|%d|%d|%d|%d", n, readers, writers, iters))
	v, dump := vkit.WaitStable(done, vkit.StableOpts{Polls: 20, Every: 25 * time.Millisecond, MaxWait: 2 * time.Minute})
	switch v {
	case "hang":
		run.Violation("C17 pool deadlock: concurrent reads (peers/has/len) and writes never return: "+strings.Join(vkit.RepoFrames(dump), " | "),
			map[string]any{"scenario": idx, "peers": n, "readers": readers, "writers": writers, "dump": tailStr(dump, 5000)})
		return false
	case "inconclusive":
		run.Inconclusive("readers-vs-writers scenario did not finish")
		return false
	}
	return true
}
