package checks

import (
	"context"
	"errors"
	"fmt"
	"os"
	"path/filepath"
	"runtime"
	"strings"
	"sync"
	"time"

	pubsub "github.com/libp2p/go-libp2p-pubsub"

	"github.com/celestiaorg/celestia-app/v9/pkg/wrapper"
	"github.com/celestiaorg/rsmt2d"

	"github.com/celestiaorg/celestia-node/core"
	"github.com/celestiaorg/celestia-node/header"
	"github.com/celestiaorg/celestia-node/libs/verifhook"
	"github.com/celestiaorg/celestia-node/share"
	"github.com/celestiaorg/celestia-node/share/shwap/p2p/shrex/shrexsub"
	"github.com/celestiaorg/celestia-node/store"
	"github.com/celestiaorg/celestia-node/zz_verif/vkit"
)

// The monitor's shadow of one history: one store, the blocks of the history, the scripted
// sources, and ONE log of everything that crosses the boundary of the code under test
// (announcements in, fetch / sync-status calls out, store writes reached, broadcasts out), taken
// under one mutex with a logical clock.

type c15cfg struct {
	Family   string        `json:"family"` // listener | avail | mixed | exchange
	Archival bool          `json:"archival"`
	Window   time.Duration `json:"window"`  // listener option; 0 = window disabled
	Cache    int           `json:"cache"`   // store recent-blocks cache size
	Fetcher  string        `json:"fetcher"` // scripted | multi | multi-grpc
	Drive    string        `json:"drive"`   // direct (handler called per event) | loop (Listener.Start)
	NSrc     int           `json:"sources"`
}

func (c c15cfg) String() string {
	m := "pruned"
	if c.Archival {
		m = "archival"
	}
	return fmt.Sprintf("%s/%s/%s/%s/src%d/win=%s/cache%d", c.Family, m, c.Fetcher, c.Drive, c.NSrc, c.Window, c.Cache)
}

type c15entry struct {
	t    int
	kind string // announce | fetch | sync | put | hash | header | avail | getter | xchg
	src  string
	h    int64
	out  string
}

func (e c15entry) String() string {
	s := fmt.Sprintf("%d:%s", e.t, e.kind)
	if e.src != "" {
		s += " " + e.src
	}
	if e.h != 0 {
		s += fmt.Sprintf(" h=%d", e.h)
	}
	if e.out != "" {
		s += " → " + e.out
	}
	return s
}

type c15pub struct {
	t         int
	eh        *header.ExtendedHeader
	storedNow bool // the height was in the store when the header was handed to the broadcaster
}

type c15hist struct {
	born    time.Time
	id      int
	cfg     c15cfg
	run     *vkit.Run
	dir     string
	store   *store.Store
	base    int64
	blocks  map[int64]*c15block
	heights []int64 // heights announced by consensus endpoints (h.blocks may hold more: the availability side)
	usedPay map[int]bool
	srcs    []*c15src
	byAddr  map[string]*c15src
	// storePlan[h][k] is the outcome of the k-th time a store write of height h is reached:
	// "ok" | "hook" (verifhook.Fault) | "fsq4" | "fsods" (a directory sits where the file must go)
	storePlan map[int64][]string
	hashErrAt map[int]bool // hash broadcaster call indexes that return an error

	mu        sync.Mutex
	log       []c15entry
	putN      map[int64]int
	hashN     int
	published map[int64][]c15pub
	hashes    map[int64][]shrexsub.Notification
	sentinels map[int64]bool
	sentinelC chan struct{}
	started   bool // set once the listener / fan-in is up (gRPC fake: Status calls before are start-up ChainID queries)
}

func (h *c15hist) add(kind, src string, height int64, out string) int {
	h.log = append(h.log, c15entry{t: len(h.log), kind: kind, src: src, h: height, out: out})
	return len(h.log) - 1
}

func (h *c15hist) logLen() int {
	h.mu.Lock()
	defer h.mu.Unlock()
	return len(h.log)
}

func (h *c15hist) logFrom(i int) []c15entry {
	h.mu.Lock()
	defer h.mu.Unlock()
	return append([]c15entry(nil), h.log[i:]...)
}

func (h *c15hist) note(kind, src string, height int64, out string) {
	h.mu.Lock()
	h.add(kind, src, height, out)
	h.mu.Unlock()
}

func c15logStrings(es []c15entry) []string {
	out := make([]string, 0, len(es))
	for _, e := range es {
		out = append(out, e.String())
	}
	if len(out) > 120 {
		out = append(out[:60], append([]string{"…"}, out[len(out)-59:]...)...)
	}
	return out
}

// witness is the detail attached to a violation.
func (h *c15hist) witness(extra map[string]any) map[string]any {
	w := map[string]any{"history": h.id, "config": h.cfg.String(), "seed": vkit.Seed(), "log": c15logStrings(h.logFrom(0))}
	var bl []string
	for _, ht := range h.heights {
		b := h.blocks[ht]
		bl = append(bl, fmt.Sprintf("h=%d inWindow=%v consistent=%v age=%s %s", ht, b.inWindow, b.consistent, time.Since(b.time).Round(time.Minute), b.pay.desc()))
	}
	w["blocks"] = bl
	for k, v := range extra {
		w[k] = v
	}
	return w
}

func (h *c15hist) violation(sig string, extra map[string]any) {
	// window membership was fixed ≥ 30 minutes from the boundary when the history was generated; a
	// history that (on a stalled machine) lasted longer than that cannot be judged
	if time.Since(h.born) > 20*time.Minute {
		h.run.Inconclusive(fmt.Sprintf("C15 history %d ran for %s: its in/out-of-window labels are no longer trustworthy", h.id, time.Since(h.born).Round(time.Second)))
		return
	}
	h.run.Violation(sig, h.witness(extra))
}

// prunedHistoric: a block this node must never keep.
func (h *c15hist) prunedHistoric(b *c15block) bool { return !h.cfg.Archival && !b.inWindow }

func (h *c15hist) openStore() error {
	if err := os.MkdirAll(h.dir, 0o755); err != nil {
		return err
	}
	s, err := store.NewStore(&store.Parameters{RecentBlocksCacheSize: h.cfg.Cache}, h.dir)
	h.store = s
	return err
}

func (h *c15hist) close() {
	c15reg.unregister(h)
	if h.store != nil {
		_ = h.store.Stop(context.Background())
	}
	_ = os.RemoveAll(h.dir)
}

// ---------------------------------------------------------------------------------------------
// store-write faults

var c15errInjected = errors.New("c15: injected store failure")
var c15errIO = errors.New("c15: injected input/output error")

// c15registry routes the process-global verifhook markers to the history that owns the height
// (heights are unique across histories) — histories run concurrently.
type c15registry struct {
	byHeight sync.Map // uint64 -> *c15hist
	pending  sync.Map // goroutine id -> struct{}: the next Fault("store.put") on it fails
	// pendingIO: goroutine id -> "ods.create" | "q4.create": that fault marker fails once on it
	pendingIO sync.Map
}

var c15reg = &c15registry{}

func (g *c15registry) register(h *c15hist) {
	for ht := range h.blocks {
		g.byHeight.Store(uint64(ht), h)
	}
}

func (g *c15registry) unregister(h *c15hist) {
	for ht := range h.blocks {
		g.byHeight.Delete(uint64(ht))
	}
}

func c15gid() uint64 {
	var buf [64]byte
	n := runtime.Stack(buf[:], false)
	var id uint64
	for _, c := range buf[len("goroutine "):n] {
		if c < '0' || c > '9' {
			break
		}
		id = id*10 + uint64(c-'0')
	}
	return id
}

func (g *c15registry) install() (restore func()) {
	return verifhook.Set(&verifhook.Handler{
		Point: func(name string, key any) {
			if name != "store.put.cached" { // first marker of a non-empty store write, before the lock
				return
			}
			ht, ok := key.(uint64)
			if !ok {
				return
			}
			if v, ok := g.byHeight.Load(ht); ok {
				v.(*c15hist).onPut(int64(ht))
			}
		},
		Fault: func(name string) error {
			switch name {
			case "store.put":
				if _, ok := g.pending.LoadAndDelete(c15gid()); ok {
					return c15errInjected
				}
			case "ods.create", "q4.create":
				// an I/O error while the file is being created (not "already exists"): the store's own clean-up
				// of a failed write runs
				if v, ok := g.pendingIO.Load(c15gid()); ok && v.(string) == name {
					g.pendingIO.Delete(c15gid())
					return c15errIO
				}
			}
			return nil
		},
	})
}

func (h *c15hist) faultPaths(b *c15block) (q4dir, odsdir string) {
	base := filepath.Join(h.dir, "blocks", b.pay.hash.String())
	return base + ".q4", base + ".ods"
}

func (h *c15hist) clearFaults(b *c15block) {
	q4, ods := h.faultPaths(b)
	for _, p := range []string{q4, ods} {
		if st, err := os.Lstat(p); err == nil && st.IsDir() {
			_ = os.RemoveAll(p)
		}
	}
}

// onPut runs inside store.put (on the writer's goroutine) each time a write of height ht is
// reached, and arranges the scripted outcome of this write.
func (h *c15hist) onPut(ht int64) {
	b := h.blocks[ht]
	if b == nil {
		return
	}
	h.mu.Lock()
	defer h.mu.Unlock()
	k := h.putN[ht]
	h.putN[ht]++
	out := "ok"
	if pl := h.storePlan[ht]; k < len(pl) {
		out = pl[k]
	}
	if out == "fsq4" && !b.inWindow { // this write does not touch the Q4 path
		out = "fsods"
	}
	if out == "ioq4" && !b.inWindow {
		out = "ioods"
	}
	q4, ods := h.faultPaths(b)
	c15reg.pendingIO.Delete(c15gid()) // a fault armed for an earlier write on this goroutine that was never met
	arm := func(dir string) bool { return os.MkdirAll(filepath.Join(dir, "x"), 0o755) == nil }
	switch out {
	case "fsq4", "fsods":
		// the obstacle must really be in place (a regular file left at the path by an earlier failed
		// write cannot be turned into a directory): otherwise this write is an ordinary one
		first, second, alt := q4, ods, "fsods"
		if out == "fsods" {
			first, second, alt = ods, q4, "fsq4"
		}
		switch {
		case arm(first):
		case b.inWindow && arm(second):
			out = alt
		default:
			out = "ok"
		}
	case "hook":
		h.clearFaults(b)
		c15reg.pending.Store(c15gid(), struct{}{})
	case "ioods", "ioq4":
		h.clearFaults(b)
		_, errO := os.Lstat(ods)
		_, errQ := os.Lstat(q4)
		if errO == nil || errQ == nil {
			// a file of an earlier, failed attempt is still there: the creation then also meets "already
			// exists", which sends the store into its validate-and-recreate path — where the write can
			// legitimately succeed on the second creation. The outcome is not determined by the fault, so
			// the fault is not injected: an ordinary write
			out = "ok"
			break
		}
		name := "ods.create"
		if out == "ioq4" {
			name = "q4.create"
		}
		c15reg.pendingIO.Store(c15gid(), name)
	default:
		h.clearFaults(b)
	}
	if out == "ok" {
		h.clearFaults(b)
	}
	h.add("put", "", ht, out)
}

// ---------------------------------------------------------------------------------------------
// scripted consensus endpoints

// c15src is the script of one consensus endpoint.
type c15src struct {
	h    *c15hist
	idx  int
	addr string
	// fetchPlan[height][k]: outcome of the k-th fetch of that height from this source:
	// "ok" | "err" | "deadline" | "canceled" | "badapp" (block whose app version cannot be extended) | "streamerr" (gRPC only)
	fetchPlan map[int64][]string
	fetchN    map[int64]int
	// sync-status script: syncing for the first syncingUntil queries, errors at the listed ones
	syncingUntil int
	syncErrAt    map[int]bool
	syncN        int
	chainErr     bool // ChainID query fails: the fan-in prunes the source at start-up
	subErr       bool // subscription fails
	style        string

	ch      chan core.BlockEvent // leaf subscription (blockSource)
	heights chan int64           // gRPC subscription
}

func (s *c15src) dead() bool { return s.chainErr || s.subErr }

var (
	c15errFetch    = errors.New("c15: endpoint cannot serve the block")
	c15errSync     = errors.New("c15: endpoint status query failed")
	c15errSentinel = errors.New("c15: sentinel height")
)

// fetch is a block request reaching this endpoint.
func (s *c15src) fetch(height int64) (*c15block, string, error) {
	h := s.h
	h.mu.Lock()
	defer h.mu.Unlock()
	if h.sentinels != nil {
		if done, ok := h.sentinels[height]; ok {
			if !done {
				h.sentinels[height] = true
				h.sentinelC <- struct{}{}
			}
			h.add("fetch", s.addr, height, "sentinel")
			return nil, "sentinel", c15errSentinel
		}
	}
	b := h.blocks[height]
	if b == nil {
		h.add("fetch", s.addr, height, "unknown-height")
		return nil, "unknown", c15errFetch
	}
	k := s.fetchN[height]
	s.fetchN[height]++
	out := "ok"
	if pl := s.fetchPlan[height]; k < len(pl) {
		out = pl[k]
	}
	h.add("fetch", s.addr, height, out)
	switch out {
	case "ok", "badapp", "streamerr":
		return b, out, nil
	case "deadline":
		return nil, out, fmt.Errorf("rpc: %w", context.DeadlineExceeded)
	case "canceled":
		return nil, out, fmt.Errorf("rpc: %w", context.Canceled)
	default:
		return nil, out, c15errFetch
	}
}

func (s *c15src) signed(height int64) (*core.SignedBlock, error) {
	b, out, err := s.fetch(height)
	if err != nil {
		return nil, err
	}
	return b.serve(out == "badapp"), nil
}

// sync is a sync-status query reaching this endpoint.
func (s *c15src) sync(askedHeight int64) (bool, error) {
	h := s.h
	h.mu.Lock()
	defer h.mu.Unlock()
	k := s.syncN
	s.syncN++
	if s.syncErrAt[k] {
		h.add("sync", s.addr, askedHeight, "err")
		return false, c15errSync
	}
	syncing := k < s.syncingUntil
	h.add("sync", s.addr, askedHeight, fmt.Sprintf("syncing=%v", syncing))
	return syncing, nil
}

// c15fetcher implements core.Fetcher over all scripted sources of a history (no fan-in).
type c15fetcher struct {
	h    *c15hist
	feed chan core.BlockEvent
}

var _ core.Fetcher = (*c15fetcher)(nil)

func (f *c15fetcher) Verify(_ context.Context, expected string) error {
	if expected != c15chain {
		return fmt.Errorf("c15fetcher: network mismatch: expected %q", expected)
	}
	return nil
}

func (f *c15fetcher) SubscribeNewBlockEvent(context.Context) (chan core.BlockEvent, error) {
	return f.feed, nil
}

func (f *c15fetcher) src(ev core.BlockEvent) (*c15src, error) {
	s := f.h.byAddr[ev.VerifAddr()]
	if s == nil {
		return nil, fmt.Errorf("c15fetcher: unknown source %q", ev.VerifAddr())
	}
	return s, nil
}

func (f *c15fetcher) GetSignedBlockFrom(_ context.Context, ev core.BlockEvent) (*core.SignedBlock, error) {
	s, err := f.src(ev)
	if err != nil {
		return nil, err
	}
	return s.signed(ev.Height)
}

func (f *c15fetcher) ChainID(context.Context) (string, error) { return c15chain, nil }

func (f *c15fetcher) IsSyncingFrom(_ context.Context, ev core.BlockEvent) (bool, error) {
	s, err := f.src(ev)
	if err != nil {
		return false, err
	}
	return s.sync(ev.Height)
}

// c15leaf implements the unexported core.blockSource (one endpoint under the real MultiSource).
type c15leaf struct{ s *c15src }

var _ core.VerifBlockSource = (*c15leaf)(nil)

func (l *c15leaf) SubscribeNewBlockEvent(context.Context) (chan core.BlockEvent, error) {
	if l.s.subErr {
		return nil, errors.New("c15: subscription refused")
	}
	return l.s.ch, nil
}

func (l *c15leaf) GetSignedBlock(_ context.Context, height int64) (*core.SignedBlock, error) {
	return l.s.signed(height)
}

func (l *c15leaf) ChainID(context.Context) (string, error) {
	if l.s.chainErr {
		return "", errors.New("c15: status unavailable")
	}
	return c15chain, nil
}

func (l *c15leaf) IsSyncing(context.Context) (bool, error) { return l.s.sync(0) }

// ---------------------------------------------------------------------------------------------
// recording broadcasters

type c15bcast struct{ h *c15hist }

func (b *c15bcast) Broadcast(ctx context.Context, eh *header.ExtendedHeader, _ ...pubsub.PubOpt) error {
	h := b.h
	stored, _ := h.store.HasByHeight(ctx, eh.Height())
	h.mu.Lock()
	defer h.mu.Unlock()
	t := h.add("header", "", int64(eh.Height()), fmt.Sprintf("stored=%v", stored))
	h.published[int64(eh.Height())] = append(h.published[int64(eh.Height())], c15pub{t: t, eh: eh, storedNow: stored})
	return nil
}

func (h *c15hist) hashBroadcast(_ context.Context, n shrexsub.Notification) error {
	h.mu.Lock()
	defer h.mu.Unlock()
	k := h.hashN
	h.hashN++
	h.hashes[int64(n.Height)] = append(h.hashes[int64(n.Height)], n)
	if h.hashErrAt[k] {
		h.add("hash", "", int64(n.Height), "bcast-err")
		return errors.New("c15: shrexsub publish failed")
	}
	h.add("hash", "", int64(n.Height), "ok")
	return nil
}

// ---------------------------------------------------------------------------------------------
// reading back what is stored

// c15importEDS returns a private copy of a payload's extended square (what a getter hands out).
func c15importEDS(p *c15payload) *rsmt2d.ExtendedDataSquare {
	e, err := rsmt2d.ImportExtendedDataSquare(p.blk.Sq.EDS.Flattened(), share.DefaultRSMT2DCodec(), wrapper.NewConstructor(uint64(p.blk.W)))
	if err != nil {
		panic(err)
	}
	return e
}

// checkStored compares the square stored under a height with the reference square of the block
// (= da.ConstructEDS of its txs) and with the header it belongs to. what names the ingest path.
func (h *c15hist) checkStored(ctx context.Context, what string, b *c15block, dah *share.AxisRoots, r *vkit.RNG, deep bool) {
	acc, err := h.store.GetByHeight(ctx, uint64(b.height))
	if err != nil {
		h.violation("C15 "+what+": stored height cannot be read back", map[string]any{"height": b.height, "err": err.Error()})
		return
	}
	defer acc.Close()
	roots, err := acc.AxisRoots(ctx)
	if err != nil || roots == nil {
		h.violation("C15 "+what+": stored height has no readable axis roots", map[string]any{"height": b.height, "err": fmt.Sprint(err)})
		return
	}
	h.run.Count(what+"/stored_compared", 1)
	if dah != nil && !roots.Equals(dah) {
		h.violation("C15 "+what+": stored square's DAH differs from the header's DAH", map[string]any{
			"height": b.height, "stored": fmt.Sprintf("%X", roots.Hash()), "header": fmt.Sprintf("%X", dah.Hash())})
	}
	if !roots.Equals(b.pay.blk.Sq.Roots) {
		h.violation("C15 "+what+": stored square's DAH differs from ConstructEDS(block txs)", map[string]any{
			"height": b.height, "stored": fmt.Sprintf("%X", roots.Hash()), "reference": b.pay.hash.String()})
		return
	}
	shares, err := acc.Shares(ctx)
	if err != nil || !vkit.EqualShares(shares, b.pay.blk.Sq.ODS) {
		h.violation("C15 "+what+": stored original data square differs from ConstructEDS(block txs)", map[string]any{
			"height": b.height, "err": fmt.Sprint(err), "shares": len(shares), "want": len(b.pay.blk.Sq.ODS)})
		return
	}
	if !b.pay.empty {
		hasQ4, err := h.store.HasQ4ByHash(ctx, b.pay.hash)
		if err != nil {
			h.violation("C15 "+what+": parity quadrant presence cannot be determined", map[string]any{"height": b.height, "err": err.Error()})
		} else if hasQ4 != b.inWindow {
			if b.inWindow {
				h.violation("C15 "+what+": in-window block stored without its parity quadrant", map[string]any{"height": b.height})
			} else {
				h.violation("C15 "+what+": archival node stored an out-of-window block with the parity quadrant", map[string]any{"height": b.height})
			}
		} else if b.inWindow {
			h.run.Count(what+"/stored_with_q4", 1)
		} else {
			h.run.Count(what+"/stored_ods_only", 1)
		}
	}
	if deep {
		calls, probs := vkit.Battery(ctx, r, acc, b.pay.blk.Sq, vkit.BatteryOpts{Samples: 6, ReadSizes: []int{64 << 10}})
		h.run.Count("battery_calls", calls)
		for _, p := range probs {
			h.violation("C15 "+what+": read of the stored block disagrees with the block ("+p.Call+")", map[string]any{"height": b.height, "what": p.What})
		}
	}
}

// c15seq renders the outcome sequence of one height (the "shape" of its history).
func c15seq(parts []string) string { return strings.Join(parts, ",") }
