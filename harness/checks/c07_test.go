package checks

import (
	"context"
	"crypto/sha256"
	"errors"
	"fmt"
	"io"
	"io/fs"
	"os"
	"os/exec"
	"path/filepath"
	"sort"
	"strconv"
	"strings"
	"sync"
	"syscall"
	"testing"

	"github.com/celestiaorg/celestia-node/libs/verifhook"
	"github.com/celestiaorg/celestia-node/share"
	"github.com/celestiaorg/celestia-node/store"
	"github.com/celestiaorg/celestia-node/store/file"
	"github.com/celestiaorg/celestia-node/zz_verif/vkit"
)

// C07 — a crash during a store write or removal never leaves a readable-but-wrong block.
//
// Crash points = every verifhook marker on the put / remove / file-writer paths (the boundary after
// each file-system effect, plus one per share handed to the buffered writers). At each marker the
// goroutine is parked and the store directory is copied: user-space buffered data that was not
// flushed is simply not in the files, so the copy is what a process death at that point leaves.
// Oracle (recovery) on every distinct image: NewStore succeeds; a lookup of the height is absent or
// serves the complete correct block (read-equality battery incl. parity from Q4); re-put succeeds and
// the block is fully readable from disk with files of the right size; removal works.

type c07scenario struct {
	name string
	// prep runs the non-instrumented prefix; op is the instrumented operation.
	prep func(ctx context.Context, s *store.Store, e *c07env) error
	op   func(ctx context.Context, s *store.Store, e *c07env) error
	// opIsNewStore: the instrumented operation is opening the store itself.
	opIsNewStore bool
	// heights whose lookups are judged on the images
	heights func(e *c07env) []uint64
	// usesQ4 says CreateODSQ4 runs two writer goroutines (interleaving modes apply).
	usesQ4 bool
}

type c07env struct {
	dir   string // live store directory (set by c07collect)
	sq    *vkit.Square
	empty *vkit.Square
	h     uint64
	h2    uint64
	hE    uint64
}

func (e *c07env) squareFor(h uint64) *vkit.Square {
	if h == e.hE {
		return e.empty
	}
	return e.sq
}

func c07scenarios() []c07scenario {
	putQ4 := func(ctx context.Context, s *store.Store, e *c07env) error {
		return s.PutODSQ4(ctx, e.sq.Roots, e.h, e.sq.EDS)
	}
	putODS := func(ctx context.Context, s *store.Store, e *c07env) error {
		return s.PutODS(ctx, e.sq.Roots, e.h, e.sq.EDS)
	}
	hs := func(e *c07env) []uint64 { return []uint64{e.h} }
	return []c07scenario{
		{name: "put-odsq4", op: putQ4, heights: hs, usesQ4: true},
		{name: "put-ods", op: putODS, heights: hs},
		{name: "put-empty", op: func(ctx context.Context, s *store.Store, e *c07env) error {
			return s.PutODSQ4(ctx, e.empty.Roots, e.hE, e.empty.EDS)
		}, heights: func(e *c07env) []uint64 { return []uint64{e.hE} }},
		{name: "remove-odsq4", prep: putQ4, op: func(ctx context.Context, s *store.Store, e *c07env) error {
			return s.RemoveODSQ4(ctx, e.h, e.sq.Roots.Hash())
		}, heights: hs},
		{name: "remove-q4", prep: putQ4, op: func(ctx context.Context, s *store.Store, e *c07env) error {
			return s.RemoveQ4(ctx, e.h, e.sq.Roots.Hash())
		}, heights: hs},
		{name: "remove-empty", prep: func(ctx context.Context, s *store.Store, e *c07env) error {
			return s.PutODSQ4(ctx, e.empty.Roots, e.hE, e.empty.EDS)
		}, op: func(ctx context.Context, s *store.Store, e *c07env) error {
			return s.RemoveODSQ4(ctx, e.hE, e.empty.Roots.Hash())
		}, heights: func(e *c07env) []uint64 { return []uint64{e.hE} }},
		{name: "reput-complete", prep: putQ4, op: putQ4, heights: hs, usesQ4: true},
		{name: "putq4-over-ods-only", prep: putODS, op: putQ4, heights: hs, usesQ4: true},
		{name: "putq4-after-removeq4", prep: func(ctx context.Context, s *store.Store, e *c07env) error {
			if err := putQ4(ctx, s, e); err != nil {
				return err
			}
			return s.RemoveQ4(ctx, e.h, e.sq.Roots.Hash())
		}, op: putQ4, heights: hs, usesQ4: true},
		{name: "putods-over-complete", prep: putQ4, op: putODS, heights: hs},
		{name: "second-height-same-hash", prep: putQ4, op: func(ctx context.Context, s *store.Store, e *c07env) error {
			return s.PutODSQ4(ctx, e.sq.Roots, e.h2, e.sq.EDS)
		}, heights: func(e *c07env) []uint64 { return []uint64{e.h, e.h2} }, usesQ4: true},
		{name: "remove-one-of-two-heights", prep: func(ctx context.Context, s *store.Store, e *c07env) error {
			if err := putQ4(ctx, s, e); err != nil {
				return err
			}
			return s.PutODSQ4(ctx, e.sq.Roots, e.h2, e.sq.EDS)
		}, op: func(ctx context.Context, s *store.Store, e *c07env) error {
			return s.RemoveODSQ4(ctx, e.h, e.sq.Roots.Hash())
		}, heights: func(e *c07env) []uint64 { return []uint64{e.h, e.h2} }},
		{name: "reput-over-partial-ods", prep: func(ctx context.Context, s *store.Store, e *c07env) error {
			if err := putQ4(ctx, s, e); err != nil {
				return err
			}
			return c07makePartial(e, ".ods")
		}, op: putQ4, heights: hs, usesQ4: true},
		{name: "reput-over-partial-q4", prep: func(ctx context.Context, s *store.Store, e *c07env) error {
			if err := putQ4(ctx, s, e); err != nil {
				return err
			}
			return c07makePartial(e, ".q4")
		}, op: putQ4, heights: hs, usesQ4: true},
		{name: "newstore-fresh-directory", opIsNewStore: true, heights: func(e *c07env) []uint64 { return []uint64{e.hE} }},
		{name: "newstore-reopen", prep: func(ctx context.Context, s *store.Store, e *c07env) error {
			if err := putQ4(ctx, s, e); err != nil {
				return err
			}
			return s.PutODSQ4(ctx, e.empty.Roots, e.hE, e.empty.EDS)
		}, opIsNewStore: true, heights: func(e *c07env) []uint64 { return []uint64{e.h, e.hE} }},
	}
}

// c07makePartial turns a complete put into a state a crash in the middle of the put leaves: no
// height link, the given file cut in half (its writer died between two flushes).
func c07makePartial(e *c07env, ext string) error {
	hash := share.DataHash(e.sq.Roots.Hash())
	if err := os.Remove(filepath.Join(e.dir, "blocks", "heights", strconv.FormatUint(e.h, 10)+".ods")); err != nil {
		return err
	}
	p := filepath.Join(e.dir, "blocks", hash.String()+ext)
	fi, err := os.Stat(p)
	if err != nil {
		return err
	}
	return os.Truncate(p, fi.Size()/2)
}

// c07tracer serialises marker events of the instrumented operation and lets a callback act while
// the goroutine that hit the marker is parked.
type c07tracer struct {
	mu      sync.Mutex
	active  bool
	n       int
	names   []string
	onEvent func(k int, name string)
	// interleaving control for the two writer goroutines of CreateODSQ4
	mode     string // "natural" | "ods-first" | "q4-first"
	odsDone  chan struct{}
	q4Done   chan struct{}
	odsOnce  sync.Once
	q4Once   sync.Once
	inflight sync.WaitGroup
}

func (tr *c07tracer) handler() *verifhook.Handler {
	return &verifhook.Handler{Point: func(name string, _ any) {
		// forced interleavings: park one writer at its first marker until the other has closed its file
		switch {
		case tr.mode == "ods-first" && name == "q4.before-create":
			<-tr.odsDone
		case tr.mode == "q4-first" && name == "ods.before-create":
			<-tr.q4Done
		}
		tr.mu.Lock()
		if tr.active {
			tr.n++
			tr.names = append(tr.names, name)
			if tr.onEvent != nil {
				tr.onEvent(tr.n, name)
			}
		}
		tr.mu.Unlock()
		switch name {
		case "ods.closed":
			tr.odsOnce.Do(func() { close(tr.odsDone) })
		case "q4.closed":
			tr.q4Once.Do(func() { close(tr.q4Done) })
		}
	}}
}

func c07newTracer(mode string) *c07tracer {
	return &c07tracer{mode: mode, odsDone: make(chan struct{}), q4Done: make(chan struct{})}
}

// release unblocks any parked writer (when the partner never ran, e.g. ErrExist on create).
func (tr *c07tracer) release() {
	tr.odsOnce.Do(func() { close(tr.odsDone) })
	tr.q4Once.Do(func() { close(tr.q4Done) })
}

// c07sig is a cheap signature of a directory tree: names, types, sizes, link structure.
func c07sig(dir string) string {
	var items []string
	_ = filepath.WalkDir(dir, func(p string, d fs.DirEntry, err error) error {
		if err != nil {
			return nil
		}
		rel, _ := filepath.Rel(dir, p)
		fi, err := os.Lstat(p)
		if err != nil {
			return nil
		}
		switch {
		case fi.Mode()&os.ModeSymlink != 0:
			t, _ := os.Readlink(p)
			items = append(items, rel+"@"+t)
		case fi.IsDir():
			items = append(items, rel+"/")
		default:
			st := fi.Sys().(*syscall.Stat_t)
			items = append(items, fmt.Sprintf("%s:%d:n%d", rel, fi.Size(), st.Nlink))
		}
		return nil
	})
	sort.Strings(items)
	return strings.Join(items, "|")
}

// c07copy copies a tree preserving hard links and symlinks.
func c07copy(src, dst string) error {
	inodes := map[uint64]string{}
	return filepath.WalkDir(src, func(p string, d fs.DirEntry, err error) error {
		if err != nil {
			return err
		}
		rel, _ := filepath.Rel(src, p)
		out := filepath.Join(dst, rel)
		fi, err := os.Lstat(p)
		if err != nil {
			if errors.Is(err, os.ErrNotExist) {
				return nil
			}
			return err
		}
		switch {
		case fi.Mode()&os.ModeSymlink != 0:
			t, err := os.Readlink(p)
			if err != nil {
				return err
			}
			return os.Symlink(t, out)
		case fi.IsDir():
			return os.MkdirAll(out, 0o755)
		default:
			st := fi.Sys().(*syscall.Stat_t)
			if prev, ok := inodes[st.Ino]; ok {
				return os.Link(prev, out)
			}
			in, err := os.Open(p)
			if err != nil {
				if errors.Is(err, os.ErrNotExist) {
					return nil
				}
				return err
			}
			defer in.Close()
			o, err := os.OpenFile(out, os.O_CREATE|os.O_WRONLY|os.O_TRUNC, 0o600)
			if err != nil {
				return err
			}
			_, err = io.Copy(o, in)
			if cerr := o.Close(); err == nil {
				err = cerr
			}
			inodes[st.Ino] = out
			return err
		}
	})
}

func c07contentSig(dir string) string {
	h := sha256.New()
	_ = filepath.WalkDir(dir, func(p string, d fs.DirEntry, err error) error {
		if err != nil {
			return nil
		}
		rel, _ := filepath.Rel(dir, p)
		fi, err := os.Lstat(p)
		if err != nil {
			return nil
		}
		fmt.Fprintf(h, "%s|%v|", rel, fi.Mode().Type())
		if fi.Mode().IsRegular() {
			st := fi.Sys().(*syscall.Stat_t)
			fmt.Fprintf(h, "n%d|", st.Nlink)
			if f, err := os.Open(p); err == nil {
				_, _ = io.Copy(h, f)
				f.Close()
			}
		} else if fi.Mode()&os.ModeSymlink != 0 {
			t, _ := os.Readlink(p)
			h.Write([]byte(t))
		}
		return nil
	})
	return fmt.Sprintf("%x", h.Sum(nil)[:12])
}

type c07image struct {
	dir    string
	k      int
	marker string
	mode   string
}

// c07collect runs a scenario once in dir and snapshots the directory at every marker of the
// instrumented operation where the on-disk state differs from the previous snapshot.
func c07collect(ctx context.Context, run *vkit.Run, sc c07scenario, e *c07env, mode, work string, killAt int) (images []c07image, events int, names []string, err error) {
	dir := filepath.Join(work, "live")
	if err := os.MkdirAll(dir, 0o755); err != nil {
		return nil, 0, nil, err
	}
	e.dir = dir
	tr := c07newTracer(mode)
	restore := verifhook.Set(tr.handler())
	defer restore()
	defer tr.release()

	params := &store.Parameters{RecentBlocksCacheSize: 2}
	var s *store.Store
	if !sc.opIsNewStore || sc.prep != nil {
		s, err = store.NewStore(params, dir)
		if err != nil {
			return nil, 0, nil, fmt.Errorf("newstore: %w", err)
		}
	}
	if sc.prep != nil {
		if mode != "natural" {
			tr.mode = "natural" // forced windows only for the instrumented operation
		}
		if err := sc.prep(ctx, s, e); err != nil {
			return nil, 0, nil, fmt.Errorf("prep: %w", err)
		}
		tr.mode = mode
		// fresh channels for the instrumented op
		tr.odsDone, tr.q4Done = make(chan struct{}), make(chan struct{})
		tr.odsOnce, tr.q4Once = sync.Once{}, sync.Once{}
	}
	lastSig := ""
	tr.onEvent = func(k int, name string) {
		if killAt > 0 {
			if k == killAt {
				_ = syscall.Kill(os.Getpid(), syscall.SIGKILL)
				select {}
			}
			return
		}
		sig := c07sig(dir)
		if sig == lastSig {
			return
		}
		lastSig = sig
		img := filepath.Join(work, fmt.Sprintf("img-%04d", k))
		if err := c07copy(dir, img); err != nil {
			run.Inconclusive("snapshot failed: " + err.Error())
			return
		}
		images = append(images, c07image{dir: img, k: k, marker: name, mode: mode})
	}
	tr.mu.Lock()
	tr.active = true
	tr.mu.Unlock()
	var opErr error
	if sc.opIsNewStore {
		if s != nil {
			_ = s.Stop(ctx)
		}
		_, opErr = store.NewStore(params, dir)
	} else {
		// a parked writer whose partner never starts (create fails with "exists") must not hang the run
		done := make(chan struct{})
		go func() {
			opErr = sc.op(ctx, s, e)
			close(done)
		}()
		if v, dump := vkit.WaitStable(done, vkit.StableOpts{Polls: 15}); v != "done" {
			tr.release()
			<-done
			_ = dump
		}
	}
	tr.mu.Lock()
	tr.active = false
	events, names = tr.n, tr.names
	tr.mu.Unlock()
	if opErr != nil {
		return images, events, names, fmt.Errorf("instrumented op failed: %w", opErr)
	}
	return images, events, names, nil
}

// c07recover applies the recovery oracle to one image (the image directory is consumed).
func c07recover(ctx context.Context, run *vkit.Run, sc c07scenario, e *c07env, img c07image, r *vkit.RNG, origin string) {
	where := sc.name // the marker and the failing read are in the detail: one signature per scenario class
	viol := func(what string, detail map[string]any) {
		detail["scenario"] = sc.name
		detail["mode"] = img.mode
		detail["event"] = img.k
		detail["marker"] = img.marker
		detail["square"] = e.sq.Desc()
		detail["image"] = c07sig(img.dir)
		detail["origin"] = origin
		run.Violation(fmt.Sprintf("C07 %s after crash in %s", what, where), detail)
	}
	params := &store.Parameters{RecentBlocksCacheSize: 0}
	opts := vkit.BatteryOpts{Exhaustive: e.sq.W <= 2, Samples: 12}
	preSig := c07sig(img.dir)
	s, err := store.NewStore(params, img.dir)
	if err != nil {
		viol("store cannot be reopened", map[string]any{"err": err.Error()})
		return
	}
	for _, h := range sc.heights(e) {
		sq := e.squareFor(h)
		run.Eval(1)
		// (b) lookup: absent or complete and correct
		acc, err := s.GetByHeight(ctx, h)
		switch {
		case errors.Is(err, store.ErrNotFound):
			run.Count("lookup/absent", 1)
		case err != nil:
			// an error is "not served"; count it (the statement allows absent-or-correct; an error is neither
			// wrong data nor a success) but a height link pointing at an unreadable file is a partial file linked
			run.Count("lookup/error", 1)
			if fi, e2 := os.Lstat(filepath.Join(img.dir, "blocks", "heights", strconv.FormatUint(h, 10)+".ods")); e2 == nil && fi.Mode().IsRegular() {
				viol("height linked to an unreadable file", map[string]any{"height": h, "err": err.Error(), "pre": preSig})
			}
		default:
			run.Count("lookup/served", 1)
			calls, probs := vkit.Battery(ctx, r, acc, sq, opts)
			run.Count("accessor_calls", calls)
			_ = acc.Close()
			for _, p := range probs {
				viol("served block is wrong", map[string]any{"height": h, "read": p.Call, "what": p.What, "pre": preSig})
				break
			}
		}
		// diagnostics only: by-hash lookups are not used by node code paths (cel-shed only)
		if !sq.Roots.Equals(share.EmptyEDSRoots()) {
			if a, err := s.GetByHash(ctx, sq.Roots.Hash()); err == nil {
				_, probs := vkit.Battery(ctx, r, a, sq, vkit.BatteryOpts{Samples: 4, SkipVerify: true})
				_ = a.Close()
				if len(probs) > 0 {
					run.Count("diagnostic/partial-file-readable-by-hash", 1)
				}
			}
		}
	}
	// (c) storing the same block again succeeds and leaves it fully readable (from disk)
	for _, h := range sc.heights(e) {
		sq := e.squareFor(h)
		if err := s.PutODSQ4(ctx, sq.Roots, h, sq.EDS); err != nil {
			viol("re-put fails", map[string]any{"height": h, "err": err.Error(), "pre": preSig})
			continue
		}
		run.Count("reput/ok", 1)
	}
	_ = s.Stop(ctx)
	s, err = store.NewStore(params, img.dir)
	if err != nil {
		viol("store cannot be reopened after re-put", map[string]any{"err": err.Error()})
		return
	}
	for _, h := range sc.heights(e) {
		sq := e.squareFor(h)
		acc, err := s.GetByHeight(ctx, h)
		if err != nil {
			viol("block unreadable after re-put", map[string]any{"height": h, "err": err.Error(), "pre": preSig})
			continue
		}
		calls, probs := vkit.Battery(ctx, r, acc, sq, opts)
		run.Count("accessor_calls", calls)
		_ = acc.Close()
		for _, p := range probs {
			viol("block wrong after re-put", map[string]any{"height": h, "read": p.Call, "what": p.What, "pre": preSig})
			break
		}
		if !sq.Roots.Equals(share.EmptyEDSRoots()) {
			hash := share.DataHash(sq.Roots.Hash())
			pODS := filepath.Join(img.dir, "blocks", hash.String()+".ods")
			pQ4 := filepath.Join(img.dir, "blocks", hash.String()+".q4")
			if err := file.ValidateODSQ4Size(pODS, pQ4, sq.EDS); err != nil {
				viol("files incomplete after re-put", map[string]any{"height": h, "err": err.Error(), "pre": preSig})
			}
		}
	}
	// (d) removal
	for _, h := range sc.heights(e) {
		sq := e.squareFor(h)
		if err := s.RemoveODSQ4(ctx, h, sq.Roots.Hash()); err != nil {
			viol("removal fails after recovery", map[string]any{"height": h, "err": err.Error()})
			continue
		}
		if ok, err := s.HasByHeight(ctx, h); ok || err != nil {
			viol("height still present after removal", map[string]any{"height": h, "err": fmt.Sprint(err)})
		}
	}
	_ = s.Stop(ctx)
	_ = os.RemoveAll(img.dir)
}

func TestC07(t *testing.T) {
	if os.Getenv("C07_CHILD") != "" {
		c07child(t)
		return
	}
	if os.Getenv("C07_STRACE_CHILD") != "" {
		c07straceChild(t)
		return
	}
	run := vkit.NewRun(t, "C07", "fault_enumeration",
		"crash points = every verifhook marker hit by the instrumented store operation (after each file-system effect of put/remove/"+
			"file creation, one per share handed to the buffered ODS/Q4 writers) × scenario (13) × writer interleaving (natural, ODS first, Q4 first) × square; "+
			"at each point the store directory is snapshotted; distinct = distinct on-disk images (content hash) on which the recovery oracle ran")
	defer run.Finish()
	ctx := context.Background()
	seed := vkit.Seed()
	rng := vkit.NewRNG(seed, "C07")
	base := t.TempDir()

	widths := []int{2, 16}
	if vkit.Thorough() {
		widths = []int{1, 2, 4, 16, 32}
	}
	scs := c07scenarios()
	empty := vkit.EmptySquare()
	caseNo := 0
	seenImages := map[string]bool{}
	for _, w := range widths {
		tails := []int{0}
		if w >= 4 {
			tails = []int{0, w + 1}
		}
		for _, tail := range tails {
			r := rng.SplitN(fmt.Sprintf("w%d", w), tail)
			sq := vkit.GenSquare(r, w, vkit.Pick(r, []string{"runs", "reserved", "padded"}), tail)
			e := &c07env{sq: sq, empty: empty, h: uint64(100 + r.Intn(1000)), hE: 7}
			e.h2 = e.h + 1024 // same height-lock stripe
			for _, sc := range scs {
				modes := []string{"natural"}
				if sc.usesQ4 {
					modes = []string{"natural", "ods-first", "q4-first"}
				}
				for _, mode := range modes {
					caseNo++
					work := filepath.Join(base, fmt.Sprintf("case%d", caseNo))
					images, events, names, err := c07collect(ctx, run, sc, e, mode, work, 0)
					if err != nil {
						run.Violation("C07 scenario operation fails on a healthy store: "+sc.name, map[string]any{"err": err.Error(), "mode": mode, "square": sq.Desc()})
					}
					run.Count("crash_points", events)
					run.Count("scenario/"+sc.name+"/crash_points", events)
					run.Count("snapshots", len(images))
					if caseNo%7 == 1 {
						run.Sample(map[string]any{"scenario": sc.name, "mode": mode, "square": sq.Desc(), "crash_points": events,
							"distinct_disk_states": len(images), "marker_trace_head": headN(names, 14)})
					}
					for _, img := range images {
						cs := sc.name + "|" + c07contentSig(img.dir)
						if seenImages[cs] {
							_ = os.RemoveAll(img.dir)
							run.Count("images/duplicate", 1)
							continue
						}
						seenImages[cs] = true
						run.Distinct(cs)
						run.Count("images/checked", 1)
						c07recover(ctx, run, sc, e, img, r.SplitN("rec", img.k), "snapshot")
					}
					_ = os.RemoveAll(work)
				}
			}
			// real process deaths: a child performs the scenario and SIGKILLs itself at the k-th marker
			nKill := vkit.Scale(6, 60)
			for i := 0; i < nKill; i++ {
				sc := scs[r.Intn(len(scs))]
				if sc.opIsNewStore {
					continue
				}
				c07kill(ctx, run, base, sc, e, w, tail, r.SplitN("kill", i))
			}
		}
	}
	c07strace(run, base)
	run.Require("crash_points", 500)
	run.Require("images/checked", 40)
	run.Require("lookup/served", 5)
	run.Require("lookup/absent", 5)
	run.Assume("process death only (page cache survives); power loss / fsync ordering is outside the statement")
	run.Assume("marker completeness is validated by the strace pass for PutODSQ4/PutODS/RemoveQ4/RemoveODSQ4/empty put (counters strace/*); NewStore's empty-file cleanup has two unlinks without a marker between them")
}

func headN(s []string, n int) []string {
	if len(s) > n {
		return s[:n]
	}
	return s
}

// c07kill validates that snapshots equal real deaths: child process, SIGKILL at marker k, recovery
// oracle on what the dead process left.
func c07kill(ctx context.Context, run *vkit.Run, base string, sc c07scenario, e *c07env, w, tail int, r *vkit.RNG) {
	// learn the number of events from a dry run
	work := filepath.Join(base, "killdry")
	_, events, _, err := c07collect(ctx, run, sc, e, "natural", work, 0)
	_ = os.RemoveAll(work)
	if err != nil || events == 0 {
		return
	}
	// the dry run left images; we only need the count
	k := 1 + r.Intn(events)
	dir := filepath.Join(base, fmt.Sprintf("kill-%s-%d", sc.name, k))
	_ = os.RemoveAll(dir)
	cmd := exec.Command(os.Args[0], "-test.run", "^TestC07$", "-test.timeout", "0")
	cmd.Env = append(os.Environ(), fmt.Sprintf("C07_CHILD=%s,%d,%d,%d,%d,%s", sc.name, w, tail, k, e.h, dir), "VERIF_STATUS_FILE=", "VERIF_EVIDENCE_DIR="+filepath.Join(base, "childev"))
	out, err := cmd.CombinedOutput()
	var ee *exec.ExitError
	if err == nil || !errors.As(err, &ee) || ee.Sys().(syscall.WaitStatus).Signal() != syscall.SIGKILL {
		run.Inconclusive(fmt.Sprintf("kill child did not die by SIGKILL (scenario %s k=%d): %v %s", sc.name, k, err, tailStr(string(out), 300)))
		return
	}
	run.Count("sigkill_children", 1)
	img := c07image{dir: filepath.Join(dir, "live"), k: k, marker: "sigkill", mode: "natural"}
	run.Distinct("kill|" + sc.name + "|" + c07contentSig(img.dir))
	c07recover(ctx, run, sc, e, img, r.Split("rec"), "sigkill-child")
	_ = os.RemoveAll(dir)
}

// c07child: C07_CHILD=scenario,w,tail,k,h,dir — regenerate the same square (same seed), run the
// scenario and die at marker k.
func c07child(t *testing.T) {
	parts := strings.Split(os.Getenv("C07_CHILD"), ",")
	w, _ := strconv.Atoi(parts[1])
	tail, _ := strconv.Atoi(parts[2])
	k, _ := strconv.Atoi(parts[3])
	h, _ := strconv.ParseUint(parts[4], 10, 64)
	dir := parts[5]
	rng := vkit.NewRNG(vkit.Seed(), "C07")
	r := rng.SplitN(fmt.Sprintf("w%d", w), tail)
	sq := vkit.GenSquare(r, w, vkit.Pick(r, []string{"runs", "reserved", "padded"}), tail)
	e := &c07env{sq: sq, empty: vkit.EmptySquare(), h: h, hE: 7, h2: h + 1024}
	for _, sc := range c07scenarios() {
		if sc.name == parts[0] {
			run := vkit.NewRun(t, "C07child", "fault_enumeration", "child")
			_, _, _, _ = c07collect(context.Background(), run, sc, e, "natural", dir, k)
			t.Fatalf("child survived marker %d", k)
		}
	}
	t.Fatalf("unknown scenario")
}

// --- marker completeness: every file-system-mutating syscall of put/remove must be separated from
// the next one by a marker (otherwise a crash point between two effects would not be enumerated).
// A child performs the operations with every marker made visible as a recognisable no-op syscall
// (faccessat on /verif-marker/<name>) under strace; the parent parses the trace.

func c07straceChild(t *testing.T) {
	parts := strings.Split(os.Getenv("C07_STRACE_CHILD"), ",")
	dir := parts[0]
	restore := verifhook.Set(&verifhook.Handler{Point: func(name string, _ any) {
		_ = syscall.Faccessat(-100, "/verif-marker/"+name, 0, 0)
	}})
	defer restore()
	ctx := context.Background()
	rng := vkit.NewRNG(7, "C07strace")
	sq := vkit.GenSquare(rng, 16, "runs", 5)
	mark := func(s string) { _ = syscall.Faccessat(-100, "/verif-marker/PHASE:"+s, 0, 0) }
	s, err := store.NewStore(&store.Parameters{RecentBlocksCacheSize: 1}, dir)
	if err != nil {
		t.Fatal(err)
	}
	mark("put-odsq4")
	if err := s.PutODSQ4(ctx, sq.Roots, 5, sq.EDS); err != nil {
		t.Fatal(err)
	}
	mark("remove-q4")
	if err := s.RemoveQ4(ctx, 5, sq.Roots.Hash()); err != nil {
		t.Fatal(err)
	}
	mark("putq4-again")
	if err := s.PutODSQ4(ctx, sq.Roots, 5, sq.EDS); err != nil {
		t.Fatal(err)
	}
	mark("put-ods-second-height")
	if err := s.PutODS(ctx, sq.Roots, 1029, sq.EDS); err != nil {
		t.Fatal(err)
	}
	mark("remove-odsq4")
	if err := s.RemoveODSQ4(ctx, 5, sq.Roots.Hash()); err != nil {
		t.Fatal(err)
	}
	mark("put-empty")
	e := vkit.EmptySquare()
	if err := s.PutODSQ4(ctx, e.Roots, 9, e.EDS); err != nil {
		t.Fatal(err)
	}
	mark("end")
}

// c07strace returns (mutating syscalls seen, gaps = pairs of consecutive mutating syscalls without a
// marker in between, as text).
func c07strace(run *vkit.Run, base string) {
	if _, err := exec.LookPath("strace"); err != nil {
		run.Count("strace/unavailable", 1)
		return
	}
	dir := filepath.Join(base, "strace-store")
	_ = os.MkdirAll(dir, 0o755)
	out := filepath.Join(base, "strace.out")
	cmd := exec.Command("strace", "-f", "-qq", "-s", "200", "-o", out,
		"-e", "trace=openat,open,creat,write,pwrite64,writev,linkat,link,symlinkat,symlink,unlinkat,unlink,renameat,renameat2,rename,ftruncate,truncate,mkdir,mkdirat,faccessat,faccessat2,access",
		os.Args[0], "-test.run", "^TestC07$", "-test.timeout", "0")
	cmd.Env = append(os.Environ(), "C07_STRACE_CHILD="+dir, "VERIF_STATUS_FILE=", "GOMAXPROCS=2")
	if b, err := cmd.CombinedOutput(); err != nil {
		run.Inconclusive("strace child failed: " + err.Error() + " " + tailStr(string(b), 300))
		return
	}
	data, err := os.ReadFile(out)
	if err != nil {
		run.Inconclusive("no strace output")
		return
	}
	fdPath := map[string]string{}
	started := false
	lastMut := ""
	markersSince := 0
	var gaps []string
	muts, marks := 0, 0
	concurrentPairs := 0
	phase := ""
	pendingOpen := map[string]string{} // pid -> path of an openat whose result comes in a "resumed" line
	pendingCreate := map[string]bool{}
	for _, line := range strings.Split(string(data), "\n") {
		pid := ""
		if i := strings.Index(line, " "); i > 0 {
			pid = line[:i]
			line = strings.TrimSpace(line[i+1:]) // strip pid
		}
		if strings.HasPrefix(line, "<... openat resumed>") || strings.HasPrefix(line, "<... open resumed>") {
			if p, ok := pendingOpen[pid]; ok {
				delete(pendingOpen, pid)
				if k := strings.LastIndex(line, "= "); k > 0 {
					fd := strings.Fields(line[k+2:])[0]
					if !strings.HasPrefix(fd, "-") {
						fdPath[fd] = p
						if pendingCreate[pid] && started {
							muts++
							desc := "create " + strings.TrimPrefix(p, dir)
							if lastMut != "" && markersSince == 0 {
								a, b := lastMut, desc
								conc := (strings.HasSuffix(a, ".q4") && strings.HasSuffix(b, ".ods")) || (strings.HasSuffix(a, ".ods") && strings.HasSuffix(b, ".q4"))
								if conc && (phase == "put-odsq4" || phase == "putq4-again") {
									concurrentPairs++
								} else {
									gaps = append(gaps, fmt.Sprintf("[%s] %s  →  %s", phase, lastMut, desc))
								}
							}
							lastMut, markersSince = desc, 0
						}
					}
				}
				delete(pendingCreate, pid)
			}
			continue
		}
		if (strings.HasPrefix(line, "openat(") || strings.HasPrefix(line, "open(")) && strings.Contains(line, "<unfinished") && strings.Contains(line, dir) {
			p := line[strings.Index(line, "\"")+1:]
			p = p[:strings.Index(p, "\"")]
			pendingOpen[pid] = p
			pendingCreate[pid] = strings.Contains(line, "O_CREAT")
			continue
		}
		if strings.Contains(line, "/verif-marker/") {
			name := line[strings.Index(line, "/verif-marker/")+len("/verif-marker/"):]
			if j := strings.Index(name, "\""); j >= 0 {
				name = name[:j]
			}
			if strings.HasPrefix(name, "PHASE:") {
				phase = strings.TrimPrefix(name, "PHASE:")
				started = true
				lastMut = "" // operations are separate API calls; no crash point enumeration across them needed
				continue
			}
			marks++
			markersSince++
			continue
		}
		if !started || strings.Contains(line, "resumed>") {
			continue
		}
		isMut, desc := false, ""
		switch {
		case strings.HasPrefix(line, "openat(") || strings.HasPrefix(line, "open("):
			if strings.Contains(line, dir) {
				// remember fd -> path for successful opens
				if k := strings.LastIndex(line, "= "); k > 0 {
					fd := strings.TrimSpace(line[k+2:])
					p := line[strings.Index(line, "\"")+1:]
					p = p[:strings.Index(p, "\"")]
					if !strings.HasPrefix(fd, "-") {
						fdPath[fd] = p
					}
					if strings.Contains(line, "O_CREAT") && !strings.HasPrefix(fd, "-") {
						isMut, desc = true, "create "+strings.TrimPrefix(p, dir)
					}
				}
			}
		case strings.HasPrefix(line, "write(") || strings.HasPrefix(line, "pwrite64(") || strings.HasPrefix(line, "writev("):
			fd := line[strings.Index(line, "(")+1:]
			fd = fd[:strings.IndexAny(fd, ",")]
			if p, ok := fdPath[fd]; ok && strings.HasPrefix(p, dir) {
				isMut, desc = true, "write "+strings.TrimPrefix(p, dir)
			}
		case strings.HasPrefix(line, "linkat(") || strings.HasPrefix(line, "link(") || strings.HasPrefix(line, "symlinkat(") || strings.HasPrefix(line, "symlink(") ||
			strings.HasPrefix(line, "unlinkat(") || strings.HasPrefix(line, "unlink(") || strings.HasPrefix(line, "rename") || strings.HasPrefix(line, "ftruncate(") || strings.HasPrefix(line, "truncate("):
			if strings.Contains(line, dir) && !strings.Contains(line, "= -1") {
				isMut, desc = true, line[:strings.Index(line, "(")]+" "+shortPaths(line, dir)
			}
		}
		if !isMut {
			continue
		}
		muts++
		if lastMut != "" && markersSince == 0 {
			// the ODS and the Q4 writer of CreateODSQ4 run concurrently: adjacency of one effect on each file is an
			// interleaving (both orders are enumerated by the forced ods-first / q4-first modes), not a missing marker
			a, b := lastMut, desc
			conc := (strings.HasSuffix(a, ".q4") && strings.HasSuffix(b, ".ods")) || (strings.HasSuffix(a, ".ods") && strings.HasSuffix(b, ".q4"))
			if conc && (phase == "put-odsq4" || phase == "putq4-again") {
				concurrentPairs++
			} else {
				gaps = append(gaps, fmt.Sprintf("[%s] %s  →  %s", phase, lastMut, desc))
			}
		}
		lastMut, markersSince = desc, 0
	}
	run.Count("strace/mutating_syscalls", muts)
	run.Count("strace/marker_syscalls", marks)
	// known and harmless: none expected inside put/remove. NewStore's cleanup of the empty-block files is
	// outside the traced phases.
	run.Extra("strace_marker_gaps", gaps)
	run.Count("strace/gaps", len(gaps))
	run.Count("strace/concurrent_writer_adjacencies", concurrentPairs)
	if muts < 10 || marks < 100 {
		run.Inconclusive(fmt.Sprintf("strace validation saw too little (%d mutating syscalls, %d markers)", muts, marks))
	}
	if len(gaps) > 0 {
		run.Inconclusive(fmt.Sprintf("marker set incomplete: %d pairs of file-system effects without a crash point between them, e.g. %s", len(gaps), gaps[0]))
	}
	_ = os.RemoveAll(dir)
	_ = os.Remove(out)
}

func shortPaths(line, dir string) string {
	var ps []string
	rest := line
	for {
		i := strings.Index(rest, "\"")
		if i < 0 {
			break
		}
		rest = rest[i+1:]
		j := strings.Index(rest, "\"")
		if j < 0 {
			break
		}
		ps = append(ps, strings.TrimPrefix(rest[:j], dir))
		rest = rest[j+1:]
	}
	return strings.Join(ps, " ")
}
