package checks

import (
	"bytes"
	"context"
	"encoding/json"
	"fmt"
	"math"
	"strings"

	"github.com/celestiaorg/celestia-app/v9/pkg/appconsts"
	pkgproof "github.com/celestiaorg/celestia-app/v9/pkg/proof"
	"github.com/celestiaorg/go-square/merkle"
	"github.com/celestiaorg/go-square/v4/inclusion"
	"github.com/celestiaorg/nmt"
	"github.com/celestiaorg/nmt/namespace"

	"github.com/celestiaorg/celestia-node/blob"
	"github.com/celestiaorg/celestia-node/zz_verif/vkit"
)

// ---------------------------------------------------------------------------------------------
// blob.CommitmentProof

func c12CloneNMT(p *nmt.Proof) *nmt.Proof {
	if p == nil {
		return nil
	}
	return vkit.OpenProof(p).Build()
}

func c12CloneCP(p *blob.CommitmentProof) *blob.CommitmentProof {
	out := &blob.CommitmentProof{
		SubtreeRoots:     c12clone2(p.SubtreeRoots),
		NamespaceID:      namespace.ID(c12clone(p.NamespaceID)),
		NamespaceVersion: p.NamespaceVersion,
	}
	if p.SubtreeRootProofs != nil {
		out.SubtreeRootProofs = make([]*nmt.Proof, len(p.SubtreeRootProofs))
		for i, sp := range p.SubtreeRootProofs {
			out.SubtreeRootProofs[i] = c12CloneNMT(sp)
		}
	}
	out.RowProof = pkgproof.RowProof{RowRoots: c12clone2(p.RowProof.RowRoots), StartRow: p.RowProof.StartRow, EndRow: p.RowProof.EndRow, Root: c12clone(p.RowProof.Root)}
	if p.RowProof.Proofs != nil {
		out.RowProof.Proofs = make([]*pkgproof.Proof, len(p.RowProof.Proofs))
		for i, rp := range p.RowProof.Proofs {
			if rp != nil {
				out.RowProof.Proofs[i] = &pkgproof.Proof{Total: rp.Total, Index: rp.Index, LeafHash: c12clone(rp.LeafHash), Aunts: c12clone2(rp.Aunts)}
			}
		}
	}
	return out
}

// c12JSON marshals without letting a malformed candidate take the monitor down.
func c12JSON(v any) (out []byte) {
	if p, _ := vkit.Recover(func() {
		b, err := json.Marshal(v)
		if err == nil {
			out = b
		}
	}); p != nil {
		return nil
	}
	return out
}

// c12CPClaim is the reference judgement of what an accepted commitment proof asserts: the
// subtree roots listed are the inner nodes of the square's axes at the positions bound by the
// proof (merkle index of each row proof, NMT start/end), they hash to the commitment, and the
// root is the block's data root.
func c12CPClaim(b *c12Blk, p *blob.CommitmentProof, root, com []byte) (ok bool, why string) {
	if pn, _ := vkit.Recover(func() { ok, why = c12CPClaimInner(b, p, root, com) }); pn != nil {
		return false, fmt.Sprintf("reference evaluation impossible on this object: %v", pn)
	}
	return ok, why
}

func c12CPClaimInner(b *c12Blk, p *blob.CommitmentProof, root, com []byte) (bool, string) {
	if !bytes.Equal(root, b.DataRoot()) {
		return false, "root is not the block's data root"
	}
	if !bytes.Equal(com, merkle.HashFromByteSlices(p.SubtreeRoots)) {
		return false, "commitment is not the hash of the subtree roots"
	}
	// The object a commitment proof is about is the commitment: if a blob with this commitment is in
	// the block, the accepted claim is true whatever position metadata the proof carries (the
	// statement does not promise that the internal ranges of an accepted proof are canonical).
	for _, rec := range b.Blobs {
		if bytes.Equal(rec.Commitment, com) {
			return true, ""
		}
	}
	if len(p.SubtreeRootProofs) != len(p.RowProof.Proofs) || len(p.SubtreeRootProofs) == 0 {
		return false, "proof counts"
	}
	total := 0
	for _, sp := range p.SubtreeRootProofs {
		total += sp.End() - sp.Start()
	}
	width, err := inclusion.SubTreeWidth(total, appconsts.SubtreeRootThreshold)
	if err != nil {
		return false, err.Error()
	}
	cursor := 0
	for i, sp := range p.SubtreeRootProofs {
		ranges, err := nmt.ToLeafRanges(sp.Start(), sp.End(), width)
		if err != nil {
			return false, err.Error()
		}
		idx := int(p.RowProof.Proofs[i].Index)
		for _, rg := range ranges {
			if cursor >= len(p.SubtreeRoots) {
				return false, "fewer subtree roots than proven ranges"
			}
			want, err := b.subtreeRoot(idx, rg.Start, rg.End)
			if err != nil {
				return false, err.Error()
			}
			if !bytes.Equal(want, p.SubtreeRoots[cursor]) {
				return false, fmt.Sprintf("subtree root #%d is not the node over leaves [%d,%d) of axis %d", cursor, rg.Start, rg.End, idx)
			}
			cursor++
		}
	}
	if cursor != len(p.SubtreeRoots) {
		return false, "subtree roots not covered by any proof"
	}
	return true, ""
}

func c12DescCP(p *blob.CommitmentProof) map[string]any {
	d := map[string]any{"subtree_roots": len(p.SubtreeRoots), "start_row": p.RowProof.StartRow, "end_row": p.RowProof.EndRow,
		"row_roots": len(p.RowProof.RowRoots), "row_proofs": len(p.RowProof.Proofs)}
	var sps []any
	for _, sp := range p.SubtreeRootProofs {
		if sp == nil {
			sps = append(sps, nil)
		} else {
			sps = append(sps, fmt.Sprintf("[%d,%d) nodes=%d", sp.Start(), sp.End(), len(sp.Nodes())))
		}
	}
	d["subtree_root_proofs"] = sps
	return d
}

type c12cpCase struct {
	c       *c12
	blk     *c12Blk
	rec     *vkit.BlobRec
	honest  *blob.CommitmentProof
	hjson   []byte
	key     string
	root    []byte
	distKey string
}

// try runs the real verifier on a candidate and judges an acceptance.
func (k *c12cpCase) try(op string, p *blob.CommitmentProof, root, com []byte) {
	c, run := k.c, k.c.run
	c.tried("commitment-proof", op, fmt.Sprintf("ns=%s shares=%d", c11NS(k.rec.NS), k.rec.Len), k.blk.Block)
	run.Distinct(k.distKey + op)
	var err error
	pn, kind, where := c12Recover(func() { err = p.Verify(root, com) })
	if pn != nil {
		run.Violation(fmt.Sprintf("C12 CommitmentProof.Verify panics: %s in %s", kind, where), map[string]any{
			"panic": fmt.Sprint(pn), "block": k.blk.Desc(), "blob": c11Rec(k.blk.W, k.rec), "candidate": c12DescCP(p), "op": op,
			"json": string(c12JSON(p)), "seed": vkit.Seed()})
		run.Count("commitment-proof/panicked", 1)
		return
	}
	if err != nil {
		run.Count("commitment-proof/rejected", 1)
		return
	}
	run.Count("commitment-proof/"+op+"/accepted", 1)
	if ok, why := c12CPClaim(k.blk, p, root, com); !ok {
		opc := op
		if strings.HasPrefix(op, "json/") {
			opc = "json"
		}
		opc = strings.TrimPrefix(strings.TrimPrefix(opc, "sp-first/"), "sp-last/")
		run.Violation("C12 CommitmentProof accepted-but-false op="+opc, map[string]any{
			"block": k.blk.Desc(), "blob": c11Rec(k.blk.W, k.rec), "op": op, "why_false": why, "candidate": c12DescCP(p),
			"root": fmt.Sprintf("%x", root), "commitment": fmt.Sprintf("%x", com), "json": string(c12JSON(p)), "seed": vkit.Seed()})
		return
	}
	if !bytes.Equal(c12JSON(p), k.hjson) || !bytes.Equal(root, k.root) || !bytes.Equal(com, k.rec.Commitment) {
		run.Count("commitment-proof/accepted-nonidentical/"+op, 1)
	}
}

func (c *c12) commitmentProofs(ctx context.Context, r *vkit.RNG, env *c12Env, blk, other *c12Blk) {
	run := c.run
	pairs := c12Pairs(r, blk.Block, vkit.Scale(6, 10))
	prove := func(b *c12Blk, rec *vkit.BlobRec) *blob.CommitmentProof {
		var p *blob.CommitmentProof
		var err error
		if run.NoPanic("C12 GetCommitmentProof", c11Rec(b.W, rec), func() {
			p, err = env.svc.GetCommitmentProof(ctx, b.Height, rec.NS, rec.Commitment)
		}) {
			return nil
		}
		if err != nil || p == nil {
			run.Violation("C12 GetCommitmentProof fails for a present blob", map[string]any{"block": b.Desc(), "blob": c11Rec(b.W, rec), "err": fmt.Sprint(err), "seed": vkit.Seed()})
			return nil
		}
		return p
	}
	var otherRec *vkit.BlobRec
	var otherBlkProof *blob.CommitmentProof
	if other != blk && len(other.Blobs) > 0 {
		otherRec = vkit.Pick(r, other.Blobs)
		otherBlkProof = prove(other, otherRec)
	}
	for pi, rec := range pairs {
		honest := prove(blk, rec)
		c.tried("commitment-proof", "honest", "", blk.Block)
		if honest == nil {
			continue
		}
		root := blk.DataRoot()
		k := &c12cpCase{c: c, blk: blk, rec: rec, honest: honest, hjson: c12JSON(honest), root: root,
			distKey: fmt.Sprintf("%d|cp|%s|%x|", blk.Height, c11NS(rec.NS), rec.Commitment[:8])}
		run.Distinct(k.distKey + "honest")
		var herr error
		if pn, site := vkit.Recover(func() { herr = honest.Verify(root, rec.Commitment) }); pn != nil || herr != nil {
			run.Violation("C12 CommitmentProof honest-rejected", map[string]any{"block": blk.Desc(), "blob": c11Rec(blk.W, rec), "err": fmt.Sprint(herr), "panic": fmt.Sprint(pn), "site": site, "seed": vkit.Seed()})
			continue
		}
		if ok, why := c12CPClaim(blk, honest, root, rec.Commitment); !ok {
			run.Violation("C12 CommitmentProof honest proof does not describe the square", map[string]any{"block": blk.Desc(), "blob": c11Rec(blk.W, rec), "why": why, "proof": c12DescCP(honest), "seed": vkit.Seed()})
			continue
		}
		run.Count("commitment-proof/honest/accepted", 1)
		if len(honest.SubtreeRootProofs) > 1 {
			run.Count("commitment-proof/honest/multi-row", 1)
		}
		// JSON round trip of the honest proof
		{
			var back blob.CommitmentProof
			if err := json.Unmarshal(k.hjson, &back); err != nil || back.Verify(root, rec.Commitment) != nil || !bytes.Equal(c12JSON(&back), k.hjson) {
				run.Violation("C12 CommitmentProof honest JSON round trip differs or is rejected", map[string]any{"block": blk.Desc(), "blob": c11Rec(blk.W, rec), "err": fmt.Sprint(err), "seed": vkit.Seed()})
			} else {
				run.Count("commitment-proof/honest/json-roundtrip", 1)
			}
		}
		mut := func(op string, f func(p *blob.CommitmentProof) bool) {
			p := c12CloneCP(honest)
			if f(p) {
				k.try(op, p, root, rec.Commitment)
			}
		}
		// a sibling blob of the same block with another commitment
		var sib *vkit.BlobRec
		var sibProof *blob.CommitmentProof
		for j := 1; j < len(pairs); j++ {
			if s := pairs[(pi+j)%len(pairs)]; !bytes.Equal(s.Commitment, rec.Commitment) {
				sib = s
				sibProof = prove(blk, s)
				break
			}
		}

		// --- root / commitment
		k.try("root-bitflip", c12CloneCP(honest), c12flip(r, root), rec.Commitment)
		k.try("root-empty", c12CloneCP(honest), nil, rec.Commitment)
		k.try("root-short", c12CloneCP(honest), root[:len(root)-1], rec.Commitment)
		k.try("root-is-commitment", c12CloneCP(honest), rec.Commitment, rec.Commitment)
		if other != blk {
			k.try("root-of-other-block", c12CloneCP(honest), other.DataRoot(), rec.Commitment)
		}
		k.try("commitment-random", c12CloneCP(honest), root, r.Bytes(32))
		k.try("commitment-bitflip", c12CloneCP(honest), root, c12flip(r, rec.Commitment))
		k.try("commitment-empty", c12CloneCP(honest), root, nil)
		k.try("commitment-truncated", c12CloneCP(honest), root, rec.Commitment[:31])
		k.try("commitment-is-root", c12CloneCP(honest), root, root)
		if sib != nil {
			k.try("commitment-of-other-blob", c12CloneCP(honest), root, sib.Commitment)
		}
		if otherRec != nil {
			k.try("commitment-of-other-block-blob", c12CloneCP(honest), root, otherRec.Commitment)
		}

		// --- subtree roots
		mut("sr-append-copy", func(p *blob.CommitmentProof) bool {
			p.SubtreeRoots = append(p.SubtreeRoots, c12clone(p.SubtreeRoots[len(p.SubtreeRoots)-1]))
			return true
		})
		{ // append a root and present the commitment recomputed over the padded list
			p := c12CloneCP(honest)
			p.SubtreeRoots = append(p.SubtreeRoots, c12clone(p.SubtreeRoots[0]))
			k.try("sr-append+recomputed-commitment", p, root, merkle.HashFromByteSlices(p.SubtreeRoots))
			p2 := c12CloneCP(honest)
			p2.SubtreeRoots = append([][]byte{c12clone(p2.SubtreeRoots[0])}, p2.SubtreeRoots...)
			k.try("sr-prepend+recomputed-commitment", p2, root, merkle.HashFromByteSlices(p2.SubtreeRoots))
		}
		mut("sr-drop-last", func(p *blob.CommitmentProof) bool {
			p.SubtreeRoots = p.SubtreeRoots[:len(p.SubtreeRoots)-1]
			return true
		})
		mut("sr-drop-first", func(p *blob.CommitmentProof) bool { p.SubtreeRoots = p.SubtreeRoots[1:]; return true })
		if len(honest.SubtreeRoots) > 1 {
			p := c12CloneCP(honest)
			p.SubtreeRoots = p.SubtreeRoots[:len(p.SubtreeRoots)-1]
			k.try("sr-drop-last+recomputed-commitment", p, root, merkle.HashFromByteSlices(p.SubtreeRoots))
			mut("sr-swap", func(p *blob.CommitmentProof) bool {
				i := r.Intn(len(p.SubtreeRoots) - 1)
				p.SubtreeRoots[i], p.SubtreeRoots[i+1] = p.SubtreeRoots[i+1], p.SubtreeRoots[i]
				return !bytes.Equal(p.SubtreeRoots[i], p.SubtreeRoots[i+1])
			})
			p3 := c12CloneCP(honest)
			p3.SubtreeRoots[0], p3.SubtreeRoots[1] = p3.SubtreeRoots[1], p3.SubtreeRoots[0]
			k.try("sr-swap+recomputed-commitment", p3, root, merkle.HashFromByteSlices(p3.SubtreeRoots))
			mut("sr-dup-first-over-last", func(p *blob.CommitmentProof) bool {
				p.SubtreeRoots[len(p.SubtreeRoots)-1] = c12clone(p.SubtreeRoots[0])
				return true
			})
		}
		mut("sr-nil", func(p *blob.CommitmentProof) bool { p.SubtreeRoots = nil; return true })
		mut("sr-entry-nil", func(p *blob.CommitmentProof) bool { p.SubtreeRoots[r.Intn(len(p.SubtreeRoots))] = nil; return true })
		mut("sr-entry-short", func(p *blob.CommitmentProof) bool {
			i := r.Intn(len(p.SubtreeRoots))
			p.SubtreeRoots[i] = p.SubtreeRoots[i][:10]
			return true
		})
		{
			p := c12CloneCP(honest)
			i := r.Intn(len(p.SubtreeRoots))
			p.SubtreeRoots[i] = c12flip(r, p.SubtreeRoots[i])
			k.try("sr-entry-bitflip", p, root, rec.Commitment)
			k.try("sr-entry-bitflip+recomputed-commitment", c12CloneCP(p), root, merkle.HashFromByteSlices(p.SubtreeRoots))
		}
		if sibProof != nil {
			mut("sr-of-other-blob", func(p *blob.CommitmentProof) bool { p.SubtreeRoots = c12clone2(sibProof.SubtreeRoots); return true })
			p := c12CloneCP(honest)
			p.SubtreeRoots = c12clone2(sibProof.SubtreeRoots)
			k.try("sr-of-other-blob+its-commitment", p, root, sib.Commitment)
			mut("sp-of-other-blob", func(p *blob.CommitmentProof) bool {
				p.SubtreeRootProofs = c12CloneCP(sibProof).SubtreeRootProofs
				return true
			})
			mut("rowproof-of-other-blob", func(p *blob.CommitmentProof) bool { p.RowProof = c12CloneCP(sibProof).RowProof; return true })
			k.try("whole-proof-of-other-blob", c12CloneCP(sibProof), root, rec.Commitment)
		}
		if otherBlkProof != nil {
			mut("sp-of-other-block", func(p *blob.CommitmentProof) bool {
				p.SubtreeRootProofs = c12CloneCP(otherBlkProof).SubtreeRootProofs
				return true
			})
			mut("rowproof-of-other-block", func(p *blob.CommitmentProof) bool { p.RowProof = c12CloneCP(otherBlkProof).RowProof; return true })
			k.try("whole-proof-of-other-block", c12CloneCP(otherBlkProof), root, rec.Commitment)
			k.try("whole-proof-of-other-block+its-commitment", c12CloneCP(otherBlkProof), root, otherRec.Commitment)
			k.try("honest-proof+other-block-root+other-commitment", c12CloneCP(honest), other.DataRoot(), otherRec.Commitment)
		}

		// --- subtree root proofs
		nsp := len(honest.SubtreeRootProofs)
		mut("sp-nil-list", func(p *blob.CommitmentProof) bool { p.SubtreeRootProofs = nil; return true })
		mut("sp-entry-nil", func(p *blob.CommitmentProof) bool { p.SubtreeRootProofs[r.Intn(nsp)] = nil; return true })
		mut("sp-drop-last", func(p *blob.CommitmentProof) bool { p.SubtreeRootProofs = p.SubtreeRootProofs[:nsp-1]; return true })
		mut("sp-append-copy", func(p *blob.CommitmentProof) bool {
			p.SubtreeRootProofs = append(p.SubtreeRootProofs, c12CloneNMT(p.SubtreeRootProofs[nsp-1]))
			return true
		})
		mut("sp-append-copy+rowproof-append-copy", func(p *blob.CommitmentProof) bool {
			p.SubtreeRootProofs = append(p.SubtreeRootProofs, c12CloneNMT(p.SubtreeRootProofs[nsp-1]))
			n := len(p.RowProof.Proofs)
			p.RowProof.Proofs = append(p.RowProof.Proofs, c12CloneCP(honest).RowProof.Proofs[n-1])
			p.RowProof.RowRoots = append(p.RowProof.RowRoots, c12clone(p.RowProof.RowRoots[n-1]))
			p.RowProof.EndRow++
			return true
		})
		if nsp > 1 {
			mut("sp-swap", func(p *blob.CommitmentProof) bool {
				p.SubtreeRootProofs[0], p.SubtreeRootProofs[nsp-1] = p.SubtreeRootProofs[nsp-1], p.SubtreeRootProofs[0]
				return true
			})
			mut("sp-dup-first-over-last", func(p *blob.CommitmentProof) bool {
				p.SubtreeRootProofs[nsp-1] = c12CloneNMT(p.SubtreeRootProofs[0])
				return true
			})
			// drop the last row entirely and present the commitment of the remaining roots
			p := c12CloneCP(honest)
			last := p.SubtreeRootProofs[nsp-1]
			total := 0
			for _, sp := range p.SubtreeRootProofs {
				total += sp.End() - sp.Start()
			}
			if w, err := inclusion.SubTreeWidth(total, appconsts.SubtreeRootThreshold); err == nil {
				if rgs, err := nmt.ToLeafRanges(last.Start(), last.End(), w); err == nil && len(rgs) < len(p.SubtreeRoots) {
					p.SubtreeRoots = p.SubtreeRoots[:len(p.SubtreeRoots)-len(rgs)]
					p.SubtreeRootProofs = p.SubtreeRootProofs[:nsp-1]
					p.RowProof.Proofs = p.RowProof.Proofs[:nsp-1]
					p.RowProof.RowRoots = p.RowProof.RowRoots[:nsp-1]
					p.RowProof.EndRow--
					k.try("last-row-trimmed", c12CloneCP(p), root, rec.Commitment)
					k.try("last-row-trimmed+recomputed-commitment", p, root, merkle.HashFromByteSlices(p.SubtreeRoots))
				}
			}
		}
		// a coarser inner node presented as a single leaf-level subtree root, with the commitment
		// recomputed over it: a commitment that no blob of the block has
		if sp0 := honest.SubtreeRootProofs[0]; nsp == 1 && sp0.Start() == 0 && sp0.End() >= 2 && sp0.End()&(sp0.End()-1) == 0 && len(honest.SubtreeRoots) == sp0.End() {
			if node, err := blk.subtreeRoot(int(honest.RowProof.Proofs[0].Index), 0, sp0.End()); err == nil {
				p := c12CloneCP(honest)
				p.SubtreeRoots = [][]byte{node}
				pp := vkit.OpenProof(sp0)
				pp.End = 1
				p.SubtreeRootProofs[0] = pp.Build()
				k.try("coarser-node-as-leaf+recomputed-commitment", p, root, merkle.HashFromByteSlices(p.SubtreeRoots))
			}
		}
		for _, which := range []int{0, nsp - 1} {
			if which == nsp-1 && nsp == 1 {
				continue
			}
			tag := "sp-first/"
			if which > 0 {
				tag = "sp-last/"
			}
			for _, pf := range vkit.ProofForgeries(r, honest.SubtreeRootProofs[which]) {
				p := c12CloneCP(honest)
				p.SubtreeRootProofs[which] = pf.Proof
				k.try(tag+pf.Op, p, root, rec.Commitment)
			}
		}

		// --- row proof
		nrp := len(honest.RowProof.Proofs)
		mut("rp-rowroots-drop-last", func(p *blob.CommitmentProof) bool { p.RowProof.RowRoots = p.RowProof.RowRoots[:nrp-1]; return true })
		mut("rp-rowroots-append", func(p *blob.CommitmentProof) bool {
			p.RowProof.RowRoots = append(p.RowProof.RowRoots, c12clone(p.RowProof.RowRoots[0]))
			return true
		})
		mut("rp-rowroots-nil", func(p *blob.CommitmentProof) bool { p.RowProof.RowRoots = nil; return true })
		mut("rp-rowroot-bitflip", func(p *blob.CommitmentProof) bool {
			i := r.Intn(nrp)
			p.RowProof.RowRoots[i] = c12flip(r, p.RowProof.RowRoots[i])
			return true
		})
		mut("rp-rowroot-nil", func(p *blob.CommitmentProof) bool { p.RowProof.RowRoots[r.Intn(nrp)] = nil; return true })
		mut("rp-rowroot-short", func(p *blob.CommitmentProof) bool {
			i := r.Intn(nrp)
			p.RowProof.RowRoots[i] = p.RowProof.RowRoots[i][:10]
			return true
		})
		mut("rp-rowroot-is-other-row", func(p *blob.CommitmentProof) bool {
			i := r.Intn(nrp)
			o := (int(p.RowProof.Proofs[i].Index) + 1) % (2 * blk.W)
			p.RowProof.RowRoots[i] = c12clone(blk.Sq.Roots.RowRoots[o])
			return true
		})
		mut("rp-proofs-drop-last", func(p *blob.CommitmentProof) bool { p.RowProof.Proofs = p.RowProof.Proofs[:nrp-1]; return true })
		mut("rp-proofs-nil", func(p *blob.CommitmentProof) bool { p.RowProof.Proofs = nil; return true })
		mut("rp-proofs-entry-nil", func(p *blob.CommitmentProof) bool { p.RowProof.Proofs[r.Intn(nrp)] = nil; return true })
		if nrp > 1 {
			mut("rp-proofs-swap", func(p *blob.CommitmentProof) bool {
				p.RowProof.Proofs[0], p.RowProof.Proofs[nrp-1] = p.RowProof.Proofs[nrp-1], p.RowProof.Proofs[0]
				return true
			})
			mut("rp-rowroots-swap", func(p *blob.CommitmentProof) bool {
				p.RowProof.RowRoots[0], p.RowProof.RowRoots[nrp-1] = p.RowProof.RowRoots[nrp-1], p.RowProof.RowRoots[0]
				return true
			})
			mut("rows-swapped-consistently", func(p *blob.CommitmentProof) bool {
				p.RowProof.Proofs[0], p.RowProof.Proofs[nrp-1] = p.RowProof.Proofs[nrp-1], p.RowProof.Proofs[0]
				p.RowProof.RowRoots[0], p.RowProof.RowRoots[nrp-1] = p.RowProof.RowRoots[nrp-1], p.RowProof.RowRoots[0]
				p.SubtreeRootProofs[0], p.SubtreeRootProofs[nrp-1] = p.SubtreeRootProofs[nrp-1], p.SubtreeRootProofs[0]
				return true
			})
		}
		mp := func(op string, f func(q *pkgproof.Proof) bool) {
			mut("rp-proof/"+op, func(p *blob.CommitmentProof) bool { return f(p.RowProof.Proofs[r.Intn(nrp)]) })
		}
		mp("index+1", func(q *pkgproof.Proof) bool { q.Index++; return true })
		mp("index-1", func(q *pkgproof.Proof) bool { q.Index--; return true })
		mp("index-negative", func(q *pkgproof.Proof) bool { q.Index = -1; return true })
		mp("index-huge", func(q *pkgproof.Proof) bool { q.Index = math.MaxInt64; return true })
		mp("total+1", func(q *pkgproof.Proof) bool { q.Total++; return true })
		mp("total-0", func(q *pkgproof.Proof) bool { q.Total = 0; return true })
		mp("total-negative", func(q *pkgproof.Proof) bool { q.Total = -1; return true })
		mp("total-huge", func(q *pkgproof.Proof) bool { q.Total = math.MaxInt64; return true })
		mp("aunts-drop-first", func(q *pkgproof.Proof) bool {
			if len(q.Aunts) == 0 {
				return false
			}
			q.Aunts = q.Aunts[1:]
			return true
		})
		mp("aunts-drop-last", func(q *pkgproof.Proof) bool {
			if len(q.Aunts) == 0 {
				return false
			}
			q.Aunts = q.Aunts[:len(q.Aunts)-1]
			return true
		})
		mp("aunts-append-copy", func(q *pkgproof.Proof) bool {
			if len(q.Aunts) == 0 {
				return false
			}
			q.Aunts = append(q.Aunts, c12clone(q.Aunts[len(q.Aunts)-1]))
			return true
		})
		mp("aunts-swap", func(q *pkgproof.Proof) bool {
			if len(q.Aunts) < 2 {
				return false
			}
			q.Aunts[0], q.Aunts[1] = q.Aunts[1], q.Aunts[0]
			return true
		})
		mp("aunts-nil", func(q *pkgproof.Proof) bool { q.Aunts = nil; return true })
		mp("aunt-nil", func(q *pkgproof.Proof) bool {
			if len(q.Aunts) == 0 {
				return false
			}
			q.Aunts[0] = nil
			return true
		})
		mp("aunt-bitflip", func(q *pkgproof.Proof) bool {
			if len(q.Aunts) == 0 {
				return false
			}
			q.Aunts[0] = c12flip(r, q.Aunts[0])
			return true
		})
		mp("leafhash-bitflip", func(q *pkgproof.Proof) bool { q.LeafHash = c12flip(r, q.LeafHash); return true })
		mp("leafhash-nil", func(q *pkgproof.Proof) bool { q.LeafHash = nil; return true })
		mut("rp-rows-shifted", func(p *blob.CommitmentProof) bool { p.RowProof.StartRow++; p.RowProof.EndRow++; return true })
		mut("rp-endrow+1", func(p *blob.CommitmentProof) bool { p.RowProof.EndRow++; return true })
		mut("rp-startrow>endrow", func(p *blob.CommitmentProof) bool { p.RowProof.StartRow = p.RowProof.EndRow + 1; return true })
		mut("rp-endrow-maxuint32", func(p *blob.CommitmentProof) bool {
			p.RowProof.StartRow, p.RowProof.EndRow = 0, math.MaxUint32
			return true
		})
		mut("rp-endrow-wraps-to-count", func(p *blob.CommitmentProof) bool {
			// StartRow - EndRow chosen so that the uint32 difference + 1 wraps to the row count
			p.RowProof.StartRow = math.MaxUint32
			p.RowProof.EndRow = uint32(nrp - 2) // (nrp-2) - MaxUint32 + 1 == nrp (mod 2^32)
			return true
		})
		mut("all-empty", func(p *blob.CommitmentProof) bool {
			*p = blob.CommitmentProof{}
			return true
		})
		{
			p := &blob.CommitmentProof{}
			k.try("all-empty+hash-of-nothing", p, root, merkle.HashFromByteSlices(nil))
			// a fully emptied proof whose row range is inverted: the uint32 row count wraps to the 0 row
			// roots it carries (added after seeded change C12-a was missed)
			for _, sr := range []uint32{1, 7, uint32(nrp) + 1, math.MaxUint32} {
				q := &blob.CommitmentProof{}
				q.RowProof.StartRow, q.RowProof.EndRow = sr, sr-1
				k.try("all-empty+inverted-row-range+hash-of-nothing", q, root, merkle.HashFromByteSlices(nil))
			}
			// the honest subtree roots and commitment, but no row at all (nothing ties them to the data root)
			q := &blob.CommitmentProof{SubtreeRoots: c12CloneCP(honest).SubtreeRoots}
			q.RowProof.StartRow, q.RowProof.EndRow = 1, 0
			k.try("honest-subtree-roots+no-rows+inverted-row-range", q, r.Bytes(32), rec.Commitment)
		}
		// metadata that Verify does not look at (counted, not judged false: the claim stays true)
		mut("nsid-other", func(p *blob.CommitmentProof) bool { p.NamespaceID = c12flip(r, p.NamespaceID); return true })
		mut("nsversion-other", func(p *blob.CommitmentProof) bool { p.NamespaceVersion++; return true })

		// --- JSON form
		jtry := func(op string, js []byte) {
			var p blob.CommitmentProof
			var err error
			pn, site := vkit.Recover(func() { err = json.Unmarshal(js, &p) })
			if pn != nil {
				c.tried("commitment-proof", "json-decode", "", blk.Block)
				run.Violation("C12 CommitmentProof JSON decode panics @"+site, map[string]any{"panic": fmt.Sprint(pn), "json": string(js), "seed": vkit.Seed()})
				return
			}
			if err != nil {
				run.Count("commitment-proof/json/undecodable", 1)
				return
			}
			run.Count("commitment-proof/json/decoded", 1)
			k.try(op, &p, root, rec.Commitment)
		}
		for i := 0; i < vkit.Scale(6, 24); i++ {
			mb, mop := vkit.MutateBytes(r, k.hjson)
			jtry("json/"+mop, mb)
		}
		// targeted: a null where an object is expected
		if i := bytes.Index(k.hjson, []byte(`"subtree_root_proofs":[{`)); i >= 0 {
			j := i + len(`"subtree_root_proofs":[`)
			if e := bytes.IndexByte(k.hjson[j:], '}'); e > 0 {
				js := append(append(append([]byte{}, k.hjson[:j]...), []byte("null")...), k.hjson[j+e+1:]...)
				jtry("json-null-subtree-root-proof", js)
			}
		}
		if i := bytes.Index(k.hjson, []byte(`"proofs":[{`)); i >= 0 {
			j := i + len(`"proofs":[`)
			if e := bytes.IndexByte(k.hjson[j:], '}'); e > 0 {
				js := append(append(append([]byte{}, k.hjson[:j]...), []byte("null")...), k.hjson[j+e+1:]...)
				jtry("json-null-row-proof", js)
			}
		}
	}
}
