package checks

import (
	"bytes"
	"context"
	"encoding/json"
	"fmt"
	"strings"

	libshare "github.com/celestiaorg/go-square/v4/share"

	"github.com/celestiaorg/celestia-node/blob"
	"github.com/celestiaorg/celestia-node/share/shwap"
	"github.com/celestiaorg/celestia-node/zz_verif/vkit"
)

// ---------------------------------------------------------------------------------------------
// blob.Proof + Service.Included
//
// Truth table: Included answers true (true, nil)  ⇔  a blob with that commitment is in the block
// under that namespace ∧ the supplied proof equals the one the node derives itself (GetProof).
// Proof equality is taken over what a proof consists of: per row start, end, nodes, leaf hash.

func c12ProofsEqual(a, b blob.Proof) bool {
	if len(a) != len(b) {
		return false
	}
	for i := range a {
		if a[i] == nil || b[i] == nil {
			return false
		}
		if a[i].Start() != b[i].Start() || a[i].End() != b[i].End() || !bytes.Equal(a[i].LeafHash(), b[i].LeafHash()) ||
			len(a[i].Nodes()) != len(b[i].Nodes()) {
			return false
		}
		for j := range a[i].Nodes() {
			if !bytes.Equal(a[i].Nodes()[j], b[i].Nodes()[j]) {
				return false
			}
		}
	}
	return true
}

// c12ExtraNodesOnly: same rows, ranges and leaf hashes; every row's node list starts with the
// node's own nodes and at least one row carries more.
func c12ExtraNodesOnly(supplied, own blob.Proof) bool {
	if len(supplied) != len(own) {
		return false
	}
	extra := false
	for i := range own {
		a, b := supplied[i], own[i]
		if a == nil || b == nil || a.Start() != b.Start() || a.End() != b.End() || !bytes.Equal(a.LeafHash(), b.LeafHash()) || len(a.Nodes()) < len(b.Nodes()) {
			return false
		}
		for j := range b.Nodes() {
			if !bytes.Equal(a.Nodes()[j], b.Nodes()[j]) {
				return false
			}
		}
		extra = extra || len(a.Nodes()) > len(b.Nodes())
	}
	return extra
}

func c12CloneProof(p blob.Proof) blob.Proof {
	out := make(blob.Proof, len(p))
	for i := range p {
		out[i] = c12CloneNMT(p[i])
	}
	return out
}

func c12DescProof(p blob.Proof) []any {
	var out []any
	for _, x := range p {
		if x == nil {
			out = append(out, nil)
		} else {
			out = append(out, fmt.Sprintf("[%d,%d) nodes=%d leafhash=%d ignoremax=%v", x.Start(), x.End(), len(x.Nodes()), len(x.LeafHash()), x.IsMaxNamespaceIDIgnored()))
		}
	}
	return out
}

func (c *c12) included(ctx context.Context, r *vkit.RNG, env *c12Env, blk, other *c12Blk) {
	run := c.run
	h := blk.Height
	getProof := func(b *c12Blk, rec *vkit.BlobRec) blob.Proof {
		var p *blob.Proof
		var err error
		if run.NoPanic("C12 GetProof", c11Rec(b.W, rec), func() { p, err = env.svc.GetProof(ctx, b.Height, rec.NS, rec.Commitment) }) {
			return nil
		}
		if err != nil || p == nil {
			run.Violation("C12 GetProof fails for a present blob", map[string]any{"block": b.Desc(), "blob": c11Rec(b.W, rec), "err": fmt.Sprint(err), "seed": vkit.Seed()})
			return nil
		}
		return *p
	}
	pairs := c12Pairs(r, blk.Block, vkit.Scale(5, 8))
	own := map[*vkit.BlobRec]blob.Proof{}
	for _, rec := range pairs {
		own[rec] = getProof(blk, rec)
	}
	var otherBlkProof blob.Proof
	if other != blk && len(other.Blobs) > 0 {
		otherBlkProof = getProof(other, vkit.Pick(r, other.Blobs))
	}
	absentNS := blk.AbsentBlobNamespaces(r.Split("absent"))

	for pi, rec := range pairs {
		honest := own[rec]
		if honest == nil {
			continue
		}
		dist := fmt.Sprintf("%d|incl|%s|%x|", h, c11NS(rec.NS), rec.Commitment[:8])
		// ask is one row of the truth table
		ask := func(op string, ns libshare.Namespace, supplied *blob.Proof, com []byte, present bool, nodeOwn blob.Proof) (answer bool) {
			c.tried("included", op, fmt.Sprintf("ns=%s shares=%d rows=%d", c11NS(rec.NS), rec.Len, len(honest)), blk.Block)
			run.Distinct(dist + op)
			expected := present && supplied != nil && nodeOwn != nil && c12ProofsEqual(*supplied, nodeOwn)
			var ok bool
			var err error
			pn, kind, where := c12Recover(func() { ok, err = env.svc.Included(ctx, h, ns, supplied, com) })
			var desc any
			if supplied != nil {
				desc = c12DescProof(*supplied)
			}
			wit := map[string]any{"block": blk.Desc(), "blob": c11Rec(blk.W, rec), "op": op, "ns": c11NS(ns), "commitment": fmt.Sprintf("%x", com),
				"supplied": desc, "node_own": c12DescProof(nodeOwn), "expected": expected, "answer": ok, "err": fmt.Sprint(err), "seed": vkit.Seed()}
			if pn != nil {
				wit["panic"] = fmt.Sprint(pn)
				run.Violation(fmt.Sprintf("C12 Included panics: %s in %s", kind, where), wit)
				run.Count("included/panicked/"+op, 1)
				return false
			}
			answer = ok && err == nil
			switch {
			case answer && !expected:
				opc := op
				if strings.HasPrefix(op, "json/") {
					opc = "json"
				}
				opc = strings.TrimPrefix(strings.TrimPrefix(opc, "row-first/"), "row-last/")
				if c12ExtraNodesOnly(*supplied, nodeOwn) {
					// one root cause whatever operator produced it: the node's own nodes are a prefix
					opc = "extra-nodes-after-the-node's-own"
				}
				run.Violation("C12 Included answers true for a proof that is not the node's own op="+opc, wit)
			case !answer && expected:
				run.Violation("C12 Included answers false for the node's own proof of a present blob", wit)
			case answer:
				run.Count("included/answered-true/"+op, 1)
			default:
				run.Count("included/answered-false-or-error", 1)
			}
			return answer
		}
		// the node's own proof is the namespace proof of exactly the rows the blob lies in (for
		// twins: the first blob with that commitment), valid against the row roots
		{
			first := rec
			for _, o := range blk.BlobsOf(rec.NS) {
				if bytes.Equal(o.Commitment, rec.Commitment) {
					first = o
					break
				}
			}
			r0, r1 := first.Start/blk.W, (first.Start+first.Len-1)/blk.W
			okRows := len(honest) == r1-r0+1
			why := fmt.Sprintf("proof has %d rows, the blob lies in rows %d..%d", len(honest), r0, r1)
			for i := 0; okRows && i < len(honest); i++ {
				want, from := blk.Sq.RowSharesOf(rec.NS, r0+i)
				if honest[i] == nil || honest[i].Start() != from || honest[i].End() != from+len(want) {
					okRows, why = false, fmt.Sprintf("row %d: proof range differs from the namespace's shares [%d,%d)", r0+i, from, from+len(want))
					break
				}
				rnd := shwap.RowNamespaceData{Shares: want, Proof: honest[i]}
				if err := rnd.Verify(blk.Sq.Roots, rec.NS, r0+i); err != nil {
					okRows, why = false, fmt.Sprintf("row %d: proof does not verify: %v", r0+i, err)
				}
			}
			c.tried("blob-proof", "honest", "", blk.Block)
			if !okRows {
				run.Violation("C12 GetProof result is not the namespace proof of the blob's rows", map[string]any{"block": blk.Desc(), "blob": c11Rec(blk.W, rec),
					"why": why, "proof": c12DescProof(honest), "ns_layout": c11Layout(blk.Block, rec.NS), "seed": vkit.Seed()})
			} else {
				run.Count("blob-proof/honest/verifies", 1)
			}
		}
		hp := c12CloneProof(honest)
		if ask("honest", rec.NS, &hp, rec.Commitment, true, honest) {
			run.Count("included/honest/true", 1)
		}
		// honest through JSON
		if js, err := json.Marshal(honest); err == nil {
			var back blob.Proof
			if err := json.Unmarshal(js, &back); err != nil {
				run.Violation("C12 blob.Proof honest JSON round trip fails", map[string]any{"err": err.Error(), "json": string(js)})
			} else {
				ask("honest-json-roundtrip", rec.NS, &back, rec.Commitment, true, honest)
			}
			for i := 0; i < vkit.Scale(4, 16); i++ {
				mb, mop := vkit.MutateBytes(r, js)
				var p blob.Proof
				var derr error
				if pn, site := vkit.Recover(func() { derr = json.Unmarshal(mb, &p) }); pn != nil {
					run.Violation("C12 blob.Proof JSON decode panics @"+site, map[string]any{"panic": fmt.Sprint(pn), "json": string(mb)})
					continue
				}
				if derr != nil {
					run.Count("included/json/undecodable", 1)
					continue
				}
				run.Count("included/json/decoded", 1)
				ask("json/"+mop, rec.NS, &p, rec.Commitment, true, honest)
			}
			// targeted: null entry
			if i := bytes.IndexByte(js, '{'); i >= 0 {
				if e := bytes.IndexByte(js[i:], '}'); e > 0 {
					mb := append(append(append([]byte{}, js[:i]...), []byte("null")...), js[i+e+1:]...)
					var p blob.Proof
					if json.Unmarshal(mb, &p) == nil {
						ask("json-null-entry", rec.NS, &p, rec.Commitment, true, honest)
					}
				}
			}
		}
		mut := func(op string, f func(p blob.Proof) (blob.Proof, bool)) {
			if p, ok := f(c12CloneProof(honest)); ok {
				ask(op, rec.NS, &p, rec.Commitment, true, honest)
			}
		}
		n := len(honest)
		ask("proof-nil-pointer", rec.NS, nil, rec.Commitment, true, honest)
		mut("rows-empty", func(p blob.Proof) (blob.Proof, bool) { return blob.Proof{}, true })
		mut("row-append-copy", func(p blob.Proof) (blob.Proof, bool) { return append(p, c12CloneNMT(p[n-1])), true })
		mut("row-drop-last", func(p blob.Proof) (blob.Proof, bool) { return p[:n-1], true })
		mut("row-drop-first", func(p blob.Proof) (blob.Proof, bool) { return p[1:], true })
		mut("row-entry-nil", func(p blob.Proof) (blob.Proof, bool) { p[r.Intn(n)] = nil; return p, true })
		if n > 1 {
			mut("rows-swap", func(p blob.Proof) (blob.Proof, bool) { p[0], p[n-1] = p[n-1], p[0]; return p, true })
			mut("row-dup-first-over-last", func(p blob.Proof) (blob.Proof, bool) { p[n-1] = c12CloneNMT(p[0]); return p, true })
		}
		for _, which := range []int{0, n - 1} {
			if which == n-1 && n == 1 {
				continue
			}
			tag := "row-first/"
			if which > 0 {
				tag = "row-last/"
			}
			for _, pf := range vkit.ProofForgeries(r, honest[which]) {
				p := c12CloneProof(honest)
				p[which] = pf.Proof
				ask(tag+pf.Op, rec.NS, &p, rec.Commitment, true, honest)
			}
			// nodes extended by a foreign node / by one random node
			p := c12CloneProof(honest)
			pp := vkit.OpenProof(p[which])
			pp.Nodes = append(pp.Nodes, r.Bytes(90))
			p[which] = pp.Build()
			ask(tag+"node-append-random", rec.NS, &p, rec.Commitment, true, honest)
			p2 := c12CloneProof(honest)
			pp2 := vkit.OpenProof(p2[which])
			if len(pp2.Nodes) > 0 {
				pp2.Nodes = pp2.Nodes[:0]
				pp2.Nodes = append(pp2.Nodes, vkit.OpenProof(honest[which]).Nodes[0])
				p2[which] = pp2.Build()
				if len(honest[which].Nodes()) > 1 {
					ask(tag+"nodes-only-first", rec.NS, &p2, rec.Commitment, true, honest)
				}
			}
		}
		// proofs of sibling objects: the answer is decided by equality with the node's own
		for j := 1; j < len(pairs); j++ {
			sib := pairs[(pi+j)%len(pairs)]
			if own[sib] == nil {
				continue
			}
			sp := c12CloneProof(own[sib])
			kind := "proof-of-other-blob-other-ns"
			if sib.NS.Equals(rec.NS) {
				kind = "proof-of-other-blob-same-ns"
			}
			ask(kind, rec.NS, &sp, rec.Commitment, true, honest)
			// this proof with the sibling's commitment
			if !bytes.Equal(sib.Commitment, rec.Commitment) {
				mine := c12CloneProof(honest)
				ask("own-proof+commitment-of-other-blob", sib.NS, &mine, sib.Commitment, true, own[sib])
			}
			if j >= 2 {
				break
			}
		}
		if otherBlkProof != nil {
			op := c12CloneProof(otherBlkProof)
			ask("proof-of-other-block", rec.NS, &op, rec.Commitment, true, honest)
		}
		// absent commitments and namespaces: never true
		for _, ac := range [][2]any{{"absent/random-commitment", r.Bytes(32)}, {"absent/bitflip-commitment", c12flip(r, rec.Commitment)},
			{"absent/empty-commitment", []byte(nil)}, {"absent/truncated-commitment", c12clone(rec.Commitment[:31])}} {
			mine := c12CloneProof(honest)
			ask(ac[0].(string), rec.NS, &mine, ac[1].([]byte), false, nil)
		}
		for i, ns := range absentNS {
			if i >= 2 {
				break
			}
			mine := c12CloneProof(honest)
			ask("absent/namespace", ns, &mine, rec.Commitment, false, nil)
		}
		// a commitment of the block under the wrong namespace
		for _, o := range blk.Blobs {
			if !o.NS.Equals(rec.NS) {
				has := false
				for _, x := range blk.BlobsOf(o.NS) {
					has = has || bytes.Equal(x.Commitment, rec.Commitment)
				}
				if !has {
					mine := c12CloneProof(honest)
					ask("absent/commitment-under-other-namespace", o.NS, &mine, rec.Commitment, false, nil)
				}
				break
			}
		}
	}
}
