package checks

import (
	"bufio"
	"bytes"
	"context"
	"encoding/json"
	"errors"
	"fmt"
	"io"
	"math"
	"os"
	"os/exec"
	"path/filepath"
	"strings"
	"sync"
	"sync/atomic"
	"testing"
	"time"

	"github.com/libp2p/go-libp2p"
	"github.com/libp2p/go-libp2p/core/host"
	"github.com/libp2p/go-libp2p/core/peer"
	rcmgr "github.com/libp2p/go-libp2p/p2p/host/resource-manager"
	"github.com/libp2p/go-libp2p/p2p/security/noise"
	"github.com/libp2p/go-libp2p/p2p/transport/tcp"
	ma "github.com/multiformats/go-multiaddr"

	libshare "github.com/celestiaorg/go-square/v4/share"

	"github.com/celestiaorg/celestia-node/share/shwap"
	"github.com/celestiaorg/celestia-node/share/shwap/p2p/shrex"
	"github.com/celestiaorg/celestia-node/zz_verif/vkit"
)

// C09 — shrex serves exactly what is asked and survives anything it is sent.
//
// System under test: a real shrex.Server over a real store.Store on a real libp2p host (TCP on
// loopback, noise, yamux) whose resource manager carries the bridge node's limits
// (shrex.SetResourceLimits) — in a *child process*, so that a crash of the served path is an
// observation and not the end of the monitor. The monitor talks to it with the real shrex.Client
// and with a raw-stream client that writes arbitrary request bytes.
//
// Oracles (placed at the wire / at the resource manager / at the AccessorGetter boundary):
//   (a) well-formed request for a stored block  ⇒ reply decodes, the client-side verifier accepts
//       it against the block's roots and the data equals the reference square; unknown height ⇒
//       "not found" (shrex.ErrNotFound / status NOT_FOUND);
//   (b) any request byte string ⇒ never OK for an identifier that is malformed, truncated or out
//       of bounds for the block, and never data that differs from the reference for the
//       identifier the bytes decode to; refusal = error status, reset or EOF;
//   (c) after every batch the server process is alive and an honest canary request succeeds;
//   (d) at quiescence (all client calls returned, no handler goroutine left in the server) every
//       accessor handed out by GetByHeight was closed, the shrex service scope holds 0 bytes and
//       0 streams, the protocol scopes hold 0 streams, and no stream ever released more memory
//       than it had reserved.

type c09env struct {
	run    *vkit.Run
	blocks []c09block
	byH    map[uint64]*c09block
	cl     host.Host
	srv    peer.ID
	client *shrex.Client
	child  *c09proc
	nreq   atomic.Int64
	overN  int64   // over-releases already reported
	base   c09held // what the server held at the last quiescence (zero unless a leak was reported)
	abort  atomic.Bool

	slowMu   sync.Mutex
	slowList []string

	t0, last time.Time
	timeline []string
}

// ---------------------------------------------------------------------------------------------
// server child process

type c09proc struct {
	cmd     *exec.Cmd
	stdin   io.WriteCloser
	lines   chan string
	dead    chan struct{}
	waitErr error
	errPath string
	mu      sync.Mutex
}

func c09spawn(dir string) (*c09proc, map[string]any, error) {
	p := &c09proc{lines: make(chan string, 64), dead: make(chan struct{}), errPath: filepath.Join(dir, "server.stderr")}
	storeDir := filepath.Join(dir, "store")
	if err := os.MkdirAll(storeDir, 0o755); err != nil {
		return nil, nil, err
	}
	args := []string{"-test.run", "^TestC09$", "-test.timeout", "0"}
	if prof := os.Getenv("C09_CHILD_CPUPROFILE"); prof != "" { // development aid
		args = append(args, "-test.cpuprofile", prof)
	}
	p.cmd = exec.Command(os.Args[0], args...)
	p.cmd.Env = append(os.Environ(), "C09_CHILD="+storeDir, "VERIF_STATUS_FILE=")
	ef, err := os.Create(p.errPath)
	if err != nil {
		return nil, nil, err
	}
	p.cmd.Stderr = ef
	p.stdin, err = p.cmd.StdinPipe()
	if err != nil {
		return nil, nil, err
	}
	out, err := p.cmd.StdoutPipe()
	if err != nil {
		return nil, nil, err
	}
	if err := p.cmd.Start(); err != nil {
		return nil, nil, err
	}
	readerDone := make(chan struct{})
	go func() {
		defer close(readerDone)
		sc := bufio.NewScanner(out)
		sc.Buffer(make([]byte, 1<<20), 1<<24)
		for sc.Scan() {
			if l := sc.Text(); strings.HasPrefix(l, "C09>") {
				p.lines <- l[4:]
			}
		}
	}()
	go func() {
		<-readerDone
		p.waitErr = p.cmd.Wait()
		_ = ef.Close()
		close(p.dead)
	}()
	select {
	case l := <-p.lines:
		if !strings.HasPrefix(l, "READY ") {
			return nil, nil, fmt.Errorf("server child: %s", l)
		}
		var rd map[string]any
		if err := json.Unmarshal([]byte(l[6:]), &rd); err != nil {
			return nil, nil, err
		}
		return p, rd, nil
	case <-p.dead:
		return nil, nil, fmt.Errorf("server child ended during start-up: %v; stderr: %s", p.waitErr, p.stderrTail(2000))
	case <-time.After(5 * time.Minute):
		_ = p.cmd.Process.Kill()
		return nil, nil, errors.New("server child did not become ready within 5 minutes")
	}
}

func (p *c09proc) isDead() bool {
	select {
	case <-p.dead:
		return true
	default:
		return false
	}
}

func (p *c09proc) stderrTail(n int) string {
	b, _ := os.ReadFile(p.errPath)
	// prefer the part where the process dies, if it says so
	for _, marker := range []string{"\npanic: ", "\nfatal error: ", "\tFATAL\t", "[signal "} {
		if i := bytes.Index(b, []byte(marker)); i >= 0 {
			return string(b[i:min(i+n, len(b))])
		}
	}
	if len(b) > n {
		b = b[len(b)-n:]
	}
	return string(b)
}

// logLines returns the last n lines of the server's log that contain one of the markers.
func (p *c09proc) logLines(n int, markers ...string) []string {
	b, _ := os.ReadFile(p.errPath)
	var out []string
	for _, l := range strings.Split(string(b), "\n") {
		for _, m := range markers {
			if strings.Contains(l, m) {
				if len(l) > 500 {
					l = l[:500]
				}
				out = append(out, l)
				break
			}
		}
	}
	if len(out) > n {
		out = out[len(out)-n:]
	}
	return out
}

var c09errDead = errors.New("server process is dead")

func (p *c09proc) stat() (*c09stat, error) {
	p.mu.Lock()
	defer p.mu.Unlock()
	if p.isDead() {
		return nil, c09errDead
	}
	if _, err := io.WriteString(p.stdin, "stat\n"); err != nil {
		return nil, c09errDead
	}
	for {
		select {
		case l := <-p.lines:
			if strings.HasPrefix(l, "STAT ") {
				var s c09stat
				if err := json.Unmarshal([]byte(l[5:]), &s); err != nil {
					return nil, err
				}
				return &s, nil
			}
		case <-p.dead:
			return nil, c09errDead
		case <-time.After(2 * time.Minute):
			return nil, errors.New("server child does not answer the control channel")
		}
	}
}

func (p *c09proc) stop() {
	p.mu.Lock()
	defer p.mu.Unlock()
	if p.isDead() {
		return
	}
	_, _ = io.WriteString(p.stdin, "quit\n")
	select {
	case <-p.dead:
	case <-time.After(30 * time.Second):
		_ = p.cmd.Process.Kill()
		<-p.dead
	}
}

// ---------------------------------------------------------------------------------------------

func c09clientHost() (host.Host, error) {
	rm, err := rcmgr.NewResourceManager(rcmgr.NewFixedLimiter(rcmgr.InfiniteLimits))
	if err != nil {
		return nil, err
	}
	return libp2p.New(
		libp2p.NoListenAddrs,
		libp2p.Transport(tcp.NewTCPTransport),
		libp2p.Security(noise.ID, noise.New),
		libp2p.ResourceManager(rm),
		libp2p.DisableRelay(),
		libp2p.DisableMetrics(),
	)
}

func c09connect(ctx context.Context, h host.Host, id peer.ID, addr string) error {
	m, err := ma.NewMultiaddr(addr)
	if err != nil {
		return err
	}
	cctx, cancel := context.WithTimeout(ctx, time.Minute)
	defer cancel()
	return h.Connect(cctx, peer.AddrInfo{ID: id, Addrs: []ma.Multiaddr{m}})
}

func (e *c09env) dead() bool { return e.abort.Load() || e.child.isDead() }

// parallel runs jobs on conc workers; stops issuing when the server process has died.
func (e *c09env) parallel(conc int, n int, job func(i int)) {
	var wg sync.WaitGroup
	var next atomic.Int64
	for w := 0; w < conc; w++ {
		wg.Add(1)
		go func() {
			defer wg.Done()
			for {
				i := int(next.Add(1) - 1)
				if i >= n || e.dead() {
					return
				}
				job(i)
			}
		}()
	}
	wg.Wait()
}

func (e *c09env) sample(q *c09req, o c09outcome, phase string) {
	if n := e.nreq.Add(1); n%997 == 1 {
		e.run.Sample(map[string]any{"n": n, "phase": phase, "protocol": q.proto, "request_bytes": c09hex(q.raw), "decoded": q.idString(),
			"class": q.class + "/" + q.why, "generator": q.op, "outcome": o.label(), "payload_bytes": len(o.payload)})
	}
}

func (e *c09env) witness(q *c09req, o c09outcome, extra map[string]any) map[string]any {
	w := map[string]any{"protocol": q.proto, "request_bytes": c09hex(q.raw), "decoded": q.idString(), "class": q.class + "/" + q.why,
		"generator": q.op, "outcome": o.label(), "outcome_err": o.err + o.perr, "payload_bytes": len(o.payload), "seed": vkit.Seed(), "tier": vkit.Tier()}
	if q.blk != nil {
		w["block"] = fmt.Sprintf("height=%d %s q4=%v", q.blk.h, q.blk.sq.Desc(), q.blk.q4)
	}
	for k, v := range extra {
		w[k] = v
	}
	if l := e.child.logLines(4, "send data", "closing stream", "sending response status"); len(l) > 0 {
		w["server_log_send_errors"] = l
	}
	return w
}

// rawOne issues one raw request and judges the outcome with oracle (b) (and (a) for class serve).
func (e *c09env) rawOne(ctx context.Context, h host.Host, q *c09req, phase string) (final string) {
	run := e.run
	defer func() {
		if final == "" {
			final = "judged"
		}
	}()
	t0 := time.Now()
	mode := c09closeWrite
	if q.seg > 0 {
		mode = c09segmentedBase + c09rawMode(q.seg)
		run.Count("raw/requests-sent-in-two-segments/"+q.proto, 1)
	}
	o := c09raw(ctx, h, e.srv, q.proto, q.raw, mode)
	if d := time.Since(t0); d > 3*time.Second { // diagnostic only
		e.slow(fmt.Sprintf("%s %s %s/%s -> %s took %s (phase %s)", q.proto, q.op, q.class, q.why, o.label(), d.Round(time.Millisecond), phase))
	}
	run.Eval(1)
	run.Distinct(q.proto + "|" + string(q.raw))
	run.Count("why/"+q.why, 1)
	e.sample(q, o, phase)
	for attempt := 0; ; attempt++ {
		lab := o.label()
		run.Count(fmt.Sprintf("raw/%s/%s/%s", q.proto, q.class, lab), 1)
		if o.kind == "timeout" || (o.kind == "ok" && o.pkind == "timeout") {
			run.Inconclusive(fmt.Sprintf("raw %s request got no answer within the client deadline (phase %s, class %s)", q.proto, phase, q.class))
			return
		}
		if o.kind == "ok" {
			switch q.class {
			case c09refuse:
				run.Violation(fmt.Sprintf("C09 %s request that must be refused (%s) was answered OK", q.proto, q.why), e.witness(q, o, nil))
				return
			case c09notfound:
				run.Violation(fmt.Sprintf("C09 %s request for a height that is not held was answered OK", q.proto), e.witness(q, o, nil))
				return
			}
			if o.perr == "" {
				prob := c09checkPayload(q, o.payload)
				if prob == "" {
					run.Count("raw/served_equal_reference", 1)
					run.Count("served/"+q.proto, 1)
					return
				}
				if !e.truncated(ctx, h, q, o.payload) {
					run.Violation(fmt.Sprintf("C09 %s reply differs from the reference for the identifier the request decodes to (%s)", q.proto, q.class),
						e.witness(q, o, map[string]any{"problem": prob}))
					return
				}
				// the send was cut short (a proper prefix of the right reply arrived): a failed transfer, not an answer
				o.perr, o.pkind = "reply cut short: "+prob, "truncated"
			}
			// OK status, then the stream broke: not an answer
		}
		switch q.class {
		case c09refuse, c09either:
			run.Count("raw/refused", 1)
			return
		case c09notfound:
			if o.isNotFound() {
				run.Count("raw/notfound_ok", 1)
				return
			}
		}
		if o.kind == "resource" || o.pkind == "resource" {
			run.Count("refused_by_resource_limits", 1)
			return "resource"
		}
		if attempt >= 3 {
			if q.class == c09notfound {
				run.Violation(fmt.Sprintf("C09 %s request for a height that is not held was not answered NOT_FOUND", q.proto), e.witness(q, o, nil))
			} else {
				run.Violation(fmt.Sprintf("C09 well-formed %s request was refused", q.proto), e.witness(q, o, map[string]any{"attempts": attempt + 1}))
			}
			return
		}
		if e.dead() {
			return
		}
		run.Count("retries", 1)
		time.Sleep(time.Duration(20*(attempt+1)) * time.Millisecond)
		o = c09raw(ctx, h, e.srv, q.proto, q.raw, mode)
	}
}

// truncated reports whether bad is a proper prefix of the reply the server gives to the same
// request when asked again (and that reply is the reference data): then the transfer was cut
// short — the server's send failed or timed out and it half-closed the stream — which is a failed
// request, not wrong data. Counted as a diagnostic.
func (e *c09env) truncated(ctx context.Context, h host.Host, q *c09req, bad []byte) bool {
	for attempt := 0; attempt < 4 && !e.dead(); attempt++ {
		o := c09raw(ctx, h, e.srv, q.proto, q.raw, c09closeWrite)
		if o.kind != "ok" || o.perr != "" || c09checkPayload(q, o.payload) != "" {
			time.Sleep(time.Duration(50*(attempt+1)) * time.Millisecond)
			continue
		}
		if len(bad) < len(o.payload) && bytes.Equal(bad, o.payload[:len(bad)]) {
			e.run.Count("diagnostic/replies_cut_short_then_half_closed", 1)
			return true
		}
		return false
	}
	return false
}

// c09tee keeps the payload bytes the real client's response container consumed.
type c09tee struct {
	inner io.ReaderFrom
	buf   bytes.Buffer
}

func (t *c09tee) ReadFrom(r io.Reader) (int64, error) {
	t.buf.Reset()
	return t.inner.ReadFrom(io.TeeReader(r, &t.buf))
}

// ---------------------------------------------------------------------------------------------
// honest requests through the real client

type c09honest struct {
	blk    *c09block
	proto  string
	a, b   int
	ns     libshare.Namespace
	height uint64 // for unknown-height requests (blk == nil)
}

func (c *c09honest) req() *c09req {
	h := c.height
	if c.blk != nil {
		h = c.blk.h
	}
	var nsb []byte
	if c.proto == c09pND {
		nsb = c.ns.Bytes()
	}
	q := &c09req{proto: c.proto, raw: c09enc(c.proto, h, uint32(c.a), uint32(c.b), nsb), h: h, a: c.a, b: c.b, ns: c.ns, blk: c.blk, op: "honest", class: c09serve, why: "valid"}
	if c.blk == nil {
		q.class, q.why = c09notfound, "unknown-height"
	}
	return q
}

// get performs the request with the real client and returns (error from the client, problem of the data).
func (e *c09env) get(ctx context.Context, c *c09honest) (err error, problem string, payload []byte) {
	ctx, cancel := context.WithTimeout(ctx, c09clientDeadline)
	defer cancel()
	h := c.height
	var w int
	if c.blk != nil {
		h, w = c.blk.h, c.blk.sq.W
	} else {
		w = 1 << 14 // bounds are the server's business for an unknown block
	}
	pnc, site := vkit.Recover(func() {
		switch c.proto {
		case c09pSample:
			id, ierr := shwap.NewSampleID(h, shwap.SampleCoords{Row: c.a, Col: c.b}, 2*w)
			if ierr != nil {
				err = fmt.Errorf("client refuses to build the id: %w", ierr)
				return
			}
			var s shwap.Sample
			tee := &c09tee{inner: &s}
			if err = e.client.Get(ctx, &id, tee, e.srv); err == nil && c.blk != nil {
				problem, payload = c09cmpSample(c.blk.sq, s, c.a, c.b), tee.buf.Bytes()
			}
		case c09pRow:
			id, ierr := shwap.NewRowID(h, c.a, 2*w)
			if ierr != nil {
				err = fmt.Errorf("client refuses to build the id: %w", ierr)
				return
			}
			var r shwap.Row
			tee := &c09tee{inner: &r}
			if err = e.client.Get(ctx, &id, tee, e.srv); err == nil && c.blk != nil {
				problem, payload = c09cmpRow(c.blk.sq, r, c.a), tee.buf.Bytes()
			}
		case c09pND:
			id, ierr := shwap.NewNamespaceDataID(h, c.ns)
			if ierr != nil {
				err = fmt.Errorf("client refuses to build the id: %w", ierr)
				return
			}
			var nd shwap.NamespaceData
			tee := &c09tee{inner: &nd}
			if err = e.client.Get(ctx, &id, tee, e.srv); err == nil && c.blk != nil {
				problem, payload = c09cmpND(c.blk.sq, nd, c.ns), tee.buf.Bytes()
			}
		case c09pRange:
			eid, ierr := shwap.NewEdsID(h)
			if ierr != nil {
				err = ierr
				return
			}
			id, ierr := shwap.NewRangeNamespaceDataID(eid, c.a, c.b, w)
			if ierr != nil {
				err = fmt.Errorf("client refuses to build the id: %w", ierr)
				return
			}
			var rg shwap.RangeNamespaceData
			tee := &c09tee{inner: &rg}
			if err = e.client.Get(ctx, &id, tee, e.srv); err == nil && c.blk != nil {
				problem, payload = c09cmpRange(c.blk.sq, &rg, c.a, c.b, true), tee.buf.Bytes()
			}
		case c09pEDS:
			id, ierr := shwap.NewEdsID(h)
			if ierr != nil {
				err = ierr
				return
			}
			buf := &bytes.Buffer{}
			if err = e.client.Get(ctx, &id, buf, e.srv); err == nil && c.blk != nil {
				problem, payload = c09cmpEDS(c.blk.sq, buf.Bytes()), buf.Bytes()
			}
		}
	})
	if pnc != nil {
		return nil, fmt.Sprintf("client panics at %s: %v", site, pnc), nil
	}
	return err, problem, payload
}

func (e *c09env) honestOne(ctx context.Context, c *c09honest, phase string) (ok bool) {
	run := e.run
	q := c.req()
	run.Eval(1)
	run.Distinct("honest|" + q.proto + "|" + string(q.raw))
	for attempt := 0; ; attempt++ {
		err, prob, payload := e.get(ctx, c)
		if n := e.nreq.Add(1); n%997 == 1 {
			run.Sample(map[string]any{"n": n, "phase": phase, "protocol": q.proto, "decoded": q.idString(), "client": "shrex.Client", "err": fmt.Sprint(err), "problem": prob})
		}
		if c.blk == nil {
			if errors.Is(err, shrex.ErrNotFound) {
				run.Count("honest/"+q.proto+"/unknown-height/ErrNotFound", 1)
				return true
			}
		} else if err == nil {
			if prob == "" {
				run.Count("honest/"+q.proto+"/ok", 1)
				run.Count("honest/ok", 1)
				return true
			}
			if !e.truncated(ctx, e.cl, q, payload) {
				run.Violation(fmt.Sprintf("C09 honest %s reply through shrex.Client is not the requested data", q.proto),
					e.witness(q, c09outcome{kind: "ok", payload: payload}, map[string]any{"problem": prob}))
				return false
			}
			err = fmt.Errorf("reply cut short: %s", prob)
		}
		kind := "error"
		switch {
		case errors.Is(err, shrex.ErrResourceExhausted):
			kind = "resource"
		case errors.Is(err, context.DeadlineExceeded):
			kind = "timeout"
		case errors.Is(err, shrex.ErrNotFound):
			kind = "ErrNotFound"
		case errors.Is(err, shrex.ErrInternalServer):
			kind = "ErrInternalServer"
		case errors.Is(err, shrex.ErrInvalidResponse):
			kind = "ErrInvalidResponse"
		case err == nil:
			kind = "served"
		}
		run.Count("honest/"+q.proto+"/attempt-failed/"+kind, 1)
		if kind == "timeout" {
			run.Inconclusive(fmt.Sprintf("honest %s request got no answer within the client deadline (phase %s)", q.proto, phase))
			return false
		}
		limit := 4
		if kind == "resource" {
			limit = 40 // a busy server may refuse; it must not do so forever once the load is gone
		}
		if attempt >= limit || e.dead() {
			if e.dead() {
				return false
			}
			if c.blk == nil {
				run.Violation(fmt.Sprintf("C09 %s request for a height that is not held: shrex.Client does not report ErrNotFound", q.proto),
					e.witness(q, c09outcome{kind: kind, err: fmt.Sprint(err)}, nil))
			} else {
				run.Violation(fmt.Sprintf("C09 honest %s request through shrex.Client fails", q.proto),
					e.witness(q, c09outcome{kind: kind, err: fmt.Sprint(err)}, map[string]any{"attempts": attempt + 1}))
			}
			return false
		}
		run.Count("retries", 1)
		time.Sleep(time.Duration(20*(attempt+1)) * time.Millisecond)
	}
}

// ---------------------------------------------------------------------------------------------
// case generation

func c09nsCandidates(r *vkit.RNG, b *c09block) []libshare.Namespace {
	var out []libshare.Namespace
	seen := map[string]bool{}
	add := func(ns libshare.Namespace) {
		if ns.ValidateForData() != nil || seen[string(ns.Bytes())] {
			return
		}
		seen[string(ns.Bytes())] = true
		out = append(out, ns)
	}
	present := b.sq.DistinctNamespaces()
	if !b.full && len(present) > 5 {
		p2 := []libshare.Namespace{present[0], present[len(present)-1]}
		for k := 0; k < 3; k++ {
			p2 = append(p2, vkit.Pick(r, present))
		}
		present = p2
	}
	for _, ns := range present {
		add(ns)
	}
	for _, l := range b.sq.AbsentNamespaces() {
		for i, ns := range l {
			if b.full || i < 2 {
				add(ns)
			}
		}
	}
	// absent namespaces at the edges of the namespace space
	add(libshare.MaxPrimaryReservedNamespace)
	add(libshare.MinSecondaryReservedNamespace)
	add(vkit.MkNamespace(1 << 40))
	return out
}

func c09honestCases(r *vkit.RNG, b *c09block) []*c09honest {
	var out []*c09honest
	w, n := b.sq.W, 2*b.sq.W
	// samples
	if b.full {
		for i := 0; i < n; i++ {
			for j := 0; j < n; j++ {
				out = append(out, &c09honest{blk: b, proto: c09pSample, a: i, b: j})
			}
		}
	} else {
		for _, i := range []int{0, w - 1, w, n - 1} {
			for _, j := range []int{0, w - 1, w, n - 1} {
				out = append(out, &c09honest{blk: b, proto: c09pSample, a: i, b: j})
			}
		}
		for k := 0; k < 12; k++ {
			out = append(out, &c09honest{blk: b, proto: c09pSample, a: r.Intn(n), b: r.Intn(n)})
		}
	}
	// rows
	rows := []int{0, w - 1, w, n - 1, r.Intn(n), r.Intn(n)}
	if b.full || n <= 16 {
		rows = rows[:0]
		for i := 0; i < n; i++ {
			rows = append(rows, i)
		}
	}
	for _, i := range rows {
		out = append(out, &c09honest{blk: b, proto: c09pRow, a: i})
	}
	// namespaces
	for _, ns := range c09nsCandidates(r, b) {
		out = append(out, &c09honest{blk: b, proto: c09pND, ns: ns})
	}
	// ranges inside one namespace
	type rg struct{ a, b int }
	var ranges []rg
	for _, rn := range b.sq.Runs {
		var cand []rg
		for a := rn.Start; a < rn.Start+rn.Count; a++ {
			for c := a + 1; c <= rn.Start+rn.Count; c++ {
				cand = append(cand, rg{a, c})
			}
		}
		lim := 24
		if !b.full {
			lim = 3
		}
		if vkit.Thorough() {
			lim *= 4
		}
		if len(cand) > lim {
			keep := []rg{{rn.Start, rn.Start + rn.Count}, {rn.Start, rn.Start + 1}, {rn.Start + rn.Count - 1, rn.Start + rn.Count}}
			for _, x := range cand {
				if len(keep) < lim/2 && (x.a%w == 0 || x.b%w == 0) && r.Chance(1, 3) {
					keep = append(keep, x)
				}
			}
			for len(keep) < lim {
				keep = append(keep, vkit.Pick(r, cand))
			}
			cand = keep[:lim]
		}
		ranges = append(ranges, cand...)
	}
	maxR := 80
	if !b.full {
		maxR = 14
	}
	if vkit.Thorough() {
		maxR *= 4
	}
	if len(ranges) > maxR {
		r.Shuffle(len(ranges), func(i, j int) { ranges[i], ranges[j] = ranges[j], ranges[i] })
		ranges = ranges[:maxR]
	}
	for _, x := range ranges {
		out = append(out, &c09honest{blk: b, proto: c09pRange, a: x.a, b: x.b})
	}
	// the whole square
	out = append(out, &c09honest{blk: b, proto: c09pEDS})
	return out
}

var c09unknownHeights = []uint64{1, 49, 51, 99, 101, 1 << 40, 1 << 63, math.MaxUint64}

// c09boundCases: each field at bound-1, bound, bound+1, max for the stored block.
func c09boundCases(b *c09block) []*c09req {
	var out []*c09req
	w := b.sq.W
	n := uint32(2 * w)
	w2 := uint32(w * w)
	mk := func(proto string, a, c uint32, ns []byte, op string) {
		out = append(out, &c09req{proto: proto, raw: c09enc(proto, b.h, a, c, ns), op: op})
	}
	edge := []uint32{0, n - 1, n, n + 1, math.MaxUint16}
	for _, i := range edge {
		for _, j := range edge {
			mk(c09pSample, i, j, nil, "bounds")
		}
	}
	for _, i := range []uint32{0, uint32(w) - 1, uint32(w), n - 1, n, n + 1, 2 * n, math.MaxUint16} {
		mk(c09pRow, i, 0, nil, "bounds")
	}
	m32 := uint32(math.MaxUint32)
	for _, p := range [][2]uint32{
		{0, w2}, {0, w2 + 1}, {w2 - 1, w2}, {w2 - 1, w2 + 1}, {w2, w2 + 1}, {w2 + 1, w2 + 2}, {0, 1}, {0, 0}, {1, 1}, {1, 0}, {w2, w2}, {w2, 0},
		{0, 1 << 16}, {0, 1<<16 + 1}, {1 << 16, 1<<16 + 1}, // the legacy 16-bit encoding's wrap-around points
		{0, 1 << 21}, {0, 1 << 23}, {0, 1 << 31}, {0, m32}, {m32 - 1, m32}, {m32, m32}, {m32, 0}, {1, m32}, // reservation (to-from)*512 far above any limit
		{w2 - 1, m32}, {0, m32 - 1},
	} {
		mk(c09pRange, p[0], p[1], nil, "bounds")
	}
	nsb := func(ver byte, fill byte, last byte) []byte {
		x := bytes.Repeat([]byte{fill}, libshare.NamespaceSize)
		x[0] = ver
		x[libshare.NamespaceSize-1] = last
		return x
	}
	v0 := func(last ...byte) []byte {
		x := make([]byte, libshare.NamespaceSize)
		copy(x[libshare.NamespaceSize-len(last):], last)
		return x
	}
	for _, x := range []struct {
		ns []byte
		op string
	}{
		{libshare.ParitySharesNamespace.Bytes(), "ns-parity"},
		{libshare.TailPaddingNamespace.Bytes(), "ns-tailpadding"},
		{libshare.PrimaryReservedPaddingNamespace.Bytes(), "ns-reserved-padding"},
		{libshare.TxNamespace.Bytes(), "ns-tx"},
		{libshare.PayForBlobNamespace.Bytes(), "ns-pfb"},
		{v0(), "ns-zero"},
		{v0(1, 0, 0, 0, 0, 0, 0, 0, 0, 0, 0), "ns-v0-bad-prefix"},
		{nsb(1, 0, 7), "ns-version-1"},
		{nsb(254, 0xff, 0xff), "ns-version-254"},
		{nsb(255, 0xff, 0xfd), "ns-secondary-reserved"},
		{nsb(255, 0x11, 0x11), "ns-version-255-other"},
		{nsb(0, 0xff, 0xff), "ns-v0-all-ff"},
	} {
		mk(c09pND, 0, 0, x.ns, x.op)
	}
	mk(c09pEDS, 0, 0, nil, "bounds")
	return out
}

func c09validRaw(c *c09honest, op string) *c09req {
	q := c.req()
	return &c09req{proto: q.proto, raw: q.raw, op: op}
}

// c09lengthCases: the valid identifier cut / extended to every length 0..2×.
func c09lengthCases(r *vkit.RNG, cases []*c09honest) []*c09req {
	var out []*c09req
	for _, c := range cases {
		q := c.req()
		n := len(q.raw)
		for l := 0; l <= 2*n; l++ {
			var raw []byte
			if l <= n {
				raw = append(raw, q.raw[:l]...)
			} else {
				raw = append(append(raw, q.raw...), r.Bytes(l-n)...)
			}
			out = append(out, &c09req{proto: q.proto, raw: raw, op: fmt.Sprintf("length-%d-of-%d", l, n)})
		}
	}
	return out
}

// c09fuzzCases: PRNG request strings — structured (known heights, fields around the bounds) and flat.
func c09fuzzCases(r *vkit.RNG, proto string, blocks []c09block, count int) []*c09req {
	out := make([]*c09req, 0, count)
	n := c09idSize(proto)
	field := func(bound int, bits int) uint32 {
		switch r.Intn(6) {
		case 0, 1:
			return uint32(r.Intn(bound + 2))
		case 2:
			return uint32(bound - 1 + r.Intn(3))
		case 3:
			return uint32(r.Intn(4 * (bound + 1)))
		case 4:
			if bits == 16 {
				return uint32(math.MaxUint16 - r.Intn(3))
			}
			return math.MaxUint32 - uint32(r.Intn(3))
		default:
			if bits == 16 {
				return uint32(r.Intn(1 << 16))
			}
			return r.Uint32()
		}
	}
	for len(out) < count {
		if r.Chance(1, 5) {
			out = append(out, &c09req{proto: proto, raw: r.Bytes(r.Intn(2*n + 1)), op: "prng-flat"})
			continue
		}
		b := &blocks[r.Intn(len(blocks))]
		h := b.h
		switch r.Intn(10) {
		case 0:
			h = 0
		case 1:
			h = b.h + 1
		case 2:
			h = r.Uint64()
		}
		w := b.sq.W
		var raw []byte
		switch proto {
		case c09pSample:
			raw = c09enc(proto, h, field(2*w, 16), field(2*w, 16), nil)
		case c09pRow:
			raw = c09enc(proto, h, field(2*w, 16), 0, nil)
		case c09pRange:
			from := field(w*w, 32)
			to := field(w*w, 32)
			if r.Chance(1, 2) && w*w > 1 {
				// a range inside one run
				rn := vkit.Pick(r, b.sq.Runs)
				from = uint32(rn.Start + r.Intn(rn.Count))
				to = from + 1 + uint32(r.Intn(rn.Start+rn.Count-int(from)))
				if r.Chance(1, 6) {
					to += uint32(r.Intn(3))
				}
			}
			raw = c09enc(proto, h, from, to, nil)
		case c09pND:
			var ns []byte
			switch r.Intn(10) {
			case 0, 1, 2, 3:
				ns = vkit.Pick(r, b.sq.Runs).NS.Bytes()
			case 4, 5:
				ns = vkit.MkNamespace(uint64(r.Intn(1 << 20))).Bytes()
			case 6:
				ns = libshare.ParitySharesNamespace.Bytes()
			case 7:
				ns = libshare.TailPaddingNamespace.Bytes()
			case 8:
				ns = r.Bytes(libshare.NamespaceSize)
			default:
				ns = append([]byte{255}, r.Bytes(libshare.NamespaceSize-1)...)
				if r.Bool() {
					for i := 1; i < libshare.NamespaceSize-1; i++ {
						ns[i] = 0xff
					}
				}
			}
			raw = c09enc(proto, h, 0, 0, ns)
		case c09pEDS:
			raw = c09enc(proto, h, 0, 0, nil)
		}
		op := "prng-structured"
		switch r.Intn(20) {
		case 0, 1:
			raw = raw[:r.Intn(len(raw))]
			op = "prng-structured-truncated"
		case 2:
			raw = append(raw, r.Bytes(1+r.Intn(n))...)
			op = "prng-structured-extended"
		case 3:
			raw[r.Intn(len(raw))] ^= 1 << uint(r.Intn(8))
			op = "prng-structured-bitflip"
		}
		out = append(out, &c09req{proto: proto, raw: raw, op: op})
	}
	return out
}

// ---------------------------------------------------------------------------------------------
// oracles (c) and (d)

func (e *c09env) checkAlive(phase string) bool {
	if !e.child.isDead() {
		return true
	}
	if e.abort.CompareAndSwap(false, true) {
		e.run.Violation("C09 server process died while serving requests", map[string]any{"phase": phase, "exit": fmt.Sprint(e.child.waitErr),
			"server_stderr": e.child.stderrTail(6000), "seed": vkit.Seed(), "tier": vkit.Tier()})
	}
	return false
}

func (e *c09env) canary(ctx context.Context, phase string) {
	if !e.checkAlive(phase) {
		return
	}
	b := &e.blocks[2]
	for _, c := range []*c09honest{{blk: b, proto: c09pSample, a: 1, b: 0}, {blk: b, proto: c09pND, ns: b.sq.Runs[0].NS}, {blk: b, proto: c09pEDS}} {
		q := c.req()
		ok := false
		var last string
		for attempt := 0; attempt < 60 && !e.dead(); attempt++ {
			err, prob, _ := e.get(ctx, c)
			if err == nil && prob == "" {
				ok = true
				break
			}
			last = fmt.Sprint(err) + " " + prob
			if errors.Is(err, context.DeadlineExceeded) {
				e.run.Inconclusive("canary request got no answer within the client deadline after phase " + phase)
				return
			}
			e.run.Count("canary/retries", 1)
			time.Sleep(50 * time.Millisecond)
		}
		if !e.checkAlive(phase) {
			return
		}
		e.run.Eval(1)
		if !ok {
			e.run.Violation(fmt.Sprintf("C09 server stops serving honest %s requests after a batch of %s requests", q.proto, strings.SplitN(phase, "/", 2)[0]),
				map[string]any{"phase": phase, "request": q.idString(), "last_error": last, "seed": vkit.Seed()})
			return
		}
		e.run.Count("canary/ok", 1)
	}
}

// quiesce: every client call has returned. Poll the server's counters until they are balanced, or
// until no handler goroutine is left and they still are not (nothing can release them any more).
func (e *c09env) quiesce(phase string) {
	if !e.checkAlive(phase) {
		return
	}
	run := e.run
	start := time.Now()
	stuck := 0
	var prev c09held
	for {
		st, err := e.child.stat()
		if err != nil {
			if !e.checkAlive(phase) {
				return
			}
			run.Inconclusive("control channel: " + err.Error())
			return
		}
		if st.OverReleaseN > e.overN {
			e.overN = st.OverReleaseN
			run.Violation("C09 a stream released more memory to the resource manager than it had reserved", map[string]any{"phase": phase,
				"events": st.OverRelease, "count": st.OverReleaseN, "seed": vkit.Seed()})
		}
		run.Count("server/recovered_handler_panics", 0)
		run.Max("server/recovered_handler_panics", int(st.Panics))
		if st.Panics > 0 {
			run.Extra("recovered_handler_panic_samples", st.PanicSamples)
		}
		held := st.held()
		if held == e.base {
			run.Count("quiescence/balanced", 1)
			run.Max("server/accessors_opened", int(st.Opened))
			run.Max("server/accessors_closed", int(st.Closed))
			run.Max("server/stream_memory_reservations", int(st.Reserves))
			run.Max("server/largest_reservation_bytes", int(st.ReservedMax))
			run.Max("server/service_scope_memory_max_bytes", int(st.SvcMemMax))
			run.Max("server/service_scope_streams_max", st.SvcStreamsMax)
			run.Max("server/blocked_memory_reservations", int(st.BlockedMem))
			run.Max("server/store_not_found", int(st.NotFound))
			for k, v := range st.BlockedStreams {
				run.Max("server/blocked_streams/"+k, int(v))
			}
			run.Extra("last_quiescent_state", st.brief())
			return
		}
		if st.Handlers == 0 && held == prev {
			stuck++
		} else {
			stuck = 0
		}
		prev = held
		if stuck >= 12 {
			// e.base: what earlier phases already leaked (and were reported for)
			w := map[string]any{"phase": phase, "state": st.brief(), "held_before_this_phase": e.base, "seed": vkit.Seed(), "tier": vkit.Tier(),
				"why_stable": "all client calls returned, no goroutine is inside a shrex handler, counters identical over 12 polls"}
			if held.Accessors != e.base.Accessors {
				run.Violation("C09 block accessor not released: GetByHeight accessors outnumber Close calls at quiescence", w)
			}
			if held.SvcMemory != e.base.SvcMemory {
				run.Violation("C09 reserved memory not released: shrex service scope holds memory at quiescence", w)
			}
			if held.SvcStreams != e.base.SvcStreams {
				run.Violation("C09 stream not released: shrex service scope holds streams at quiescence", w)
			}
			if held.ProtoStreams != e.base.ProtoStreams || held.ProtoMemory != e.base.ProtoMemory {
				run.Violation("C09 stream not released: shrex protocol scope holds streams at quiescence", w)
			}
			e.base = held
			return
		}
		if time.Since(start) > 3*time.Minute {
			b, _ := json.Marshal(st.brief())
			run.Inconclusive(fmt.Sprintf("no quiescence 3 minutes after phase %s: %s", phase, b))
			return
		}
		time.Sleep(30 * time.Millisecond)
	}
}

func (e *c09env) endPhase(ctx context.Context, phase string) {
	e.run.Count("phases", 1)
	t0 := time.Now()
	e.canary(ctx, phase)
	t1 := time.Now()
	e.quiesce(phase)
	e.mark(phase + " [canary " + t1.Sub(t0).Round(time.Millisecond).String() + ", quiescence " + time.Since(t1).Round(time.Millisecond).String() + "]")
}

func (e *c09env) slow(what string) {
	e.slowMu.Lock()
	defer e.slowMu.Unlock()
	e.run.Count("diagnostic/slow_requests", 1)
	if len(e.slowList) < 12 {
		e.slowList = append(e.slowList, what)
		e.run.Extra("slow_request_samples", e.slowList)
	}
}

// mark records wall-clock per phase in the evidence (diagnostic only, never a verdict).
func (e *c09env) mark(phase string) {
	now := time.Now()
	if e.last.IsZero() {
		e.last = e.t0
	}
	e.timeline = append(e.timeline, fmt.Sprintf("%s: %.1fs", phase, now.Sub(e.last).Seconds()))
	e.last = now
	e.run.Extra("phase_wall_seconds", e.timeline)
}

// ---------------------------------------------------------------------------------------------

func TestC09(t *testing.T) {
	if os.Getenv("C09_CHILD") != "" {
		c09child(t)
		return
	}
	run := vkit.NewRun(t, "C09", "exploration",
		"cases = (stored block: widths 1,2,4 × layouts × tail paddings exhaustively over coordinates / rows / namespaces incl. absent / in-namespace ranges, "+
			"widths 8-32 sampled, the empty block, unknown heights) × request byte string per protocol (every valid identifier; each field at bound-1, bound, bound+1, max; "+
			"every length 0..2×; height 0; parity / tail-padding / invalid namespaces; from>=to; reservations beyond every limit; PRNG strings) × client behaviour "+
			"(complete, stalled, abandoned, reset) at concurrency up to 256; distinct = distinct (protocol, request bytes) sent to the real server; "+
			"each case = one exchange over TCP with a real shrex.Server in a child process, judged against the reference square")
	defer run.Finish()
	ctx := context.Background()
	rng := vkit.NewRNG(vkit.Seed(), "C09")
	dir := t.TempDir()

	e := &c09env{run: run, blocks: nil, byH: map[uint64]*c09block{}, t0: time.Now()}
	// the server child builds the same block list from the seed while we do
	var ready map[string]any
	var spawnErr error
	spawned := make(chan struct{})
	go func() {
		defer close(spawned)
		e.child, ready, spawnErr = c09spawn(dir)
	}()
	e.blocks = c09blocks()
	for i := range e.blocks {
		e.byH[e.blocks[i].h] = &e.blocks[i]
	}
	<-spawned
	if spawnErr != nil {
		run.Inconclusive("cannot start the server process: " + spawnErr.Error())
		return
	}
	defer e.child.stop()
	srvID, err := peer.Decode(ready["id"].(string))
	if err != nil {
		run.Inconclusive("server id: " + err.Error())
		return
	}
	e.srv = srvID
	var loop, other string
	for _, a := range ready["addrs"].([]any) {
		s := a.(string)
		if strings.HasPrefix(s, "/ip4/127.") {
			loop = s
		} else if strings.HasPrefix(s, "/ip4/") && other == "" {
			other = s
		}
	}
	e.cl, err = c09clientHost()
	if err != nil {
		run.Inconclusive("client host: " + err.Error())
		return
	}
	defer e.cl.Close()
	if err := c09connect(ctx, e.cl, e.srv, loop); err != nil {
		run.Inconclusive("connect: " + err.Error())
		return
	}
	cp := shrex.DefaultClientParameters()
	cp.WithNetworkID(c09net)
	e.client, err = shrex.NewClient(cp, e.cl)
	if err != nil {
		run.Inconclusive("client: " + err.Error())
		return
	}
	run.Count("blocks", len(e.blocks))
	e.mark("start-up (blocks generated, server child ready, connected)")

	classify := func(qs []*c09req) []*c09req {
		for i, q := range qs {
			c := c09classify(q.proto, q.raw, e.byH)
			c.op, c.seg = q.op, q.seg
			qs[i] = c
		}
		return qs
	}
	// VERIF_C09_PHASES=honest,lengths,... restricts the run to some phases (development aid; a
	// restricted run cannot reach the required coverage and ends inconclusive).
	on := func(phase string) bool {
		sel := os.Getenv("VERIF_C09_PHASES")
		if sel == "" {
			return true
		}
		for _, p := range strings.Split(sel, ",") {
			if strings.HasPrefix(phase, p) {
				return true
			}
		}
		return false
	}
	rawRun := func(phase string, conc int, qs []*c09req) {
		qs = classify(qs)
		rng.Split("shuffle/"+phase).Shuffle(len(qs), func(i, j int) { qs[i], qs[j] = qs[j], qs[i] })
		e.parallel(conc, len(qs), func(i int) { e.rawOne(ctx, e.cl, qs[i], phase) })
	}
	rawBatch := func(phase string, conc int, qs []*c09req) {
		if !on(phase) {
			return
		}
		rawRun(phase, conc, qs)
		e.endPhase(ctx, phase)
	}

	// ---- phase 1: honest sweep through the real client (+ stalled truncated requests alongside)
	var honest []*c09honest
	perBlock := make([][]*c09honest, len(e.blocks))
	for i := range e.blocks {
		perBlock[i] = c09honestCases(rng.SplitN("honest", i), &e.blocks[i])
		honest = append(honest, perBlock[i]...)
	}
	for _, p := range c09protos {
		for _, h := range c09unknownHeights {
			c := &c09honest{proto: p, height: h, a: 0, b: 1}
			if p == c09pND {
				c.ns = e.blocks[0].sq.Runs[0].NS
			}
			honest = append(honest, c)
		}
	}
	rng.Split("shuffle/honest").Shuffle(len(honest), func(i, j int) { honest[i], honest[j] = honest[j], honest[i] })
	stallDone := make(chan struct{})
	go func() {
		defer close(stallDone)
		if !on("honest") {
			return
		}
		// truncated request, write side left open: the server has to give up by itself
		var qs []*c09req
		for _, p := range c09protos {
			full := c09enc(p, e.blocks[3].h, 0, 1, e.blocks[3].sq.Runs[0].NS.Bytes())
			qs = append(qs, &c09req{proto: p, raw: full[:len(full)-1], op: "stalled-truncated"}, &c09req{proto: p, raw: nil, op: "stalled-empty"})
		}
		qs = classify(qs)
		e.parallel(len(qs), len(qs), func(i int) {
			q := qs[i]
			o := c09raw(ctx, e.cl, e.srv, q.proto, q.raw, c09stall)
			run.Eval(1)
			run.Distinct("stall|" + q.proto + "|" + string(q.raw))
			run.Count("stalled/"+q.proto+"/"+o.label(), 1)
			switch o.kind {
			case "ok":
				run.Violation(fmt.Sprintf("C09 %s request that must be refused (%s) was answered OK", q.proto, "short, stalled"), e.witness(q, o, nil))
			case "timeout":
				run.Inconclusive("stalled truncated request: the server did not give up within the client deadline")
			default:
				run.Count("stalled/refused", 1)
			}
		})
	}()
	if on("honest") {
		e.parallel(16, len(honest), func(i int) { e.honestOne(ctx, honest[i], "honest") })
	}
	<-stallDone
	e.endPhase(ctx, "honest")

	// ---- phase 1b: faults below the handler. A request for height c09panicBase+h is served through an
	// accessor whose data methods panic. The client side is not what decides (how long a client waits
	// is its own business): the server-side tap around the stream handler reports every handler that
	// returned leaving its stream neither closed nor reset, and quiescence shows the accessor and the
	// reserved memory released.
	if on("honest") && !e.dead() {
		var faults []*c09req
		for i := range e.blocks {
			b := &e.blocks[i]
			if b.sq.Layout == "empty" || len(faults) >= 5*vkit.Scale(3, 12) {
				continue
			}
			cases := c09honestCases(rng.SplitN("handler-fault", i), b)
			seen := map[string]bool{}
			for _, c := range cases {
				if seen[c.proto] {
					continue
				}
				seen[c.proto] = true
				q := c.req()
				var nsb []byte
				if c.proto == c09pND {
					nsb = c.ns.Bytes()
				}
				q.raw = c09enc(c.proto, c09panicBase+b.h, uint32(c.a), uint32(c.b), nsb)
				q.op, q.class, q.why = "handler-fault", c09either, "accessor-panics"
				faults = append(faults, q)
			}
		}
		e.parallel(16, len(faults), func(i int) {
			q := faults[i]
			o := c09rawD(ctx, e.cl, e.srv, q.proto, q.raw, c09closeWrite, 40*time.Second)
			run.Eval(1)
			run.Count("handler-fault/requests/"+q.proto, 1)
			run.Count("handler-fault/client-saw/"+o.label(), 1)
			if o.kind == "ok" && o.perr == "" && c09checkPayload(q, o.payload) != "" {
				run.Violation(fmt.Sprintf("C09 %s reply differs from the reference for the identifier the request decodes to (%s)", q.proto, "handler-fault"), e.witness(q, o, nil))
			}
		})
		e.quiesce("handler-fault")
		if st, err := e.child.stat(); err == nil {
			run.Max("server/streams_handled", int(st.StreamsHandled))
			if st.StreamsAbandoned > 0 {
				run.Violation("C09 a request whose handling panicked was neither answered nor reset: the handler returned leaving the stream open [fault injected inside the block accessor]",
					map[string]any{"abandoned_streams": st.StreamsAbandoned, "protocols": st.AbandonedProtocols, "streams_handled": st.StreamsHandled, "seed": vkit.Seed(),
						"recovered_panics_logged": st.Panics})
			}
		}
		e.endPhase(ctx, "handler-fault")
	}

	// ---- phase 2: every valid identifier of the exhaustive blocks as raw bytes
	var valid []*c09req
	nw4 := 0
	for i := range e.blocks {
		if !e.blocks[i].full {
			continue
		}
		if e.blocks[i].sq.W == 4 && !vkit.Thorough() {
			if nw4++; nw4 > 2 { // quick: the width-4 blocks were swept by the real client; two of them again raw
				continue
			}
		}
		for _, c := range perBlock[i] {
			valid = append(valid, c09validRaw(c, "valid"))
		}
	}
	rawBatch("valid", 64, valid)

	// ---- phase 2b: valid requests that reach the server in two segments (every split point of the
	// identifier for a few requests of each type): served exactly like the same bytes in one write
	{
		var segd []*c09req
		per := map[string]int{}
		for _, q := range valid {
			if per[q.proto] >= vkit.Scale(3, 12) {
				continue
			}
			per[q.proto]++
			for k := 1; k < len(q.raw); k++ {
				if len(q.raw) > 16 && k%3 != per[q.proto]%3 { // long identifiers: every third split point
					continue
				}
				cp := *q
				cp.seg, cp.op, cp.why = k, "valid-segmented", "valid-in-two-segments"
				segd = append(segd, &cp)
			}
		}
		rawBatch("segmented", 32, segd)
	}

	// ---- phase 3: fields at and beyond their bounds, heights, lengths
	var bounds []*c09req
	for i := range e.blocks {
		bounds = append(bounds, c09boundCases(&e.blocks[i])...)
	}
	for _, p := range c09protos {
		for _, h := range append([]uint64{0}, c09unknownHeights...) {
			for _, f := range [][2]uint32{{0, 1}, {math.MaxUint16, math.MaxUint16}, {7, 3}} {
				bounds = append(bounds, &c09req{proto: p, raw: c09enc(p, h, f[0], f[1], e.blocks[0].sq.Runs[0].NS.Bytes()), op: "height"})
			}
		}
	}
	rawBatch("bounds", 64, bounds)

	var lengthSeeds []*c09honest
	for _, bi := range []int{4, len(e.blocks) - 3} {
		seen := map[string]bool{}
		for _, c := range perBlock[bi] {
			if !seen[c.proto] {
				seen[c.proto] = true
				lengthSeeds = append(lengthSeeds, c)
			}
		}
	}
	rawBatch("lengths", 64, c09lengthCases(rng.Split("lengths"), lengthSeeds))

	// ---- phase 4: PRNG request strings, one batch per protocol
	for _, p := range c09protos {
		nf := vkit.Scale(1500, 30000)
		if p == c09pEDS { // the identifier is the height alone
			nf = vkit.Scale(400, 6000)
		}
		rawBatch("prng/"+p, 64, c09fuzzCases(rng.Split("fuzz/"+p), p, e.blocks, nf))
	}

	// ---- phase 5: clients that go away: abandon after the status, reset right after the request
	if on("client-goes-away") {
		var qs []*c09req
		big := &e.blocks[len(e.blocks)-2]
		for k := 0; k < vkit.Scale(12, 60); k++ {
			for _, c := range []*c09honest{{blk: big, proto: c09pEDS}, {blk: big, proto: c09pRow, a: k % (2 * big.sq.W)},
				{blk: big, proto: c09pND, ns: big.sq.Runs[k%len(big.sq.Runs)].NS}, {blk: big, proto: c09pSample, a: k % big.sq.W, b: 1},
				{blk: big, proto: c09pRange, a: big.sq.Runs[0].Start, b: big.sq.Runs[0].Start + big.sq.Runs[0].Count}} {
				qs = append(qs, c09validRaw(c, "client-goes-away"))
			}
		}
		qs = classify(qs)
		e.parallel(32, len(qs), func(i int) {
			q := qs[i]
			mode := c09abandon
			if i%2 == 1 {
				mode = c09resetEarly
			}
			o := c09raw(ctx, e.cl, e.srv, q.proto, q.raw, mode)
			run.Eval(1)
			run.Distinct(fmt.Sprintf("away%d|%s|%s", mode, q.proto, q.raw))
			run.Count(fmt.Sprintf("client-goes-away/%s/%s", q.proto, o.label()), 1)
		})
		e.endPhase(ctx, "client-goes-away")
	}

	// ---- phase 6: flood, 256 parallel requests from one peer to run into the per-peer limits
	{
		var qs []*c09req
		big := &e.blocks[len(e.blocks)-2]
		mid := &e.blocks[len(e.blocks)-3]
		for k := 0; k < vkit.Scale(320, 4000); k++ {
			var c *c09honest
			switch k % 4 {
			case 0:
				c = &c09honest{blk: big, proto: c09pEDS}
			case 1:
				c = &c09honest{blk: mid, proto: c09pEDS}
			case 2:
				c = &c09honest{blk: big, proto: c09pRow, a: k % (2 * big.sq.W)}
			default:
				c = &c09honest{blk: &e.blocks[k%len(e.blocks)], proto: c09pSample}
			}
			qs = append(qs, c09validRaw(c, "flood"))
		}
		// huge reservations in parallel
		for k := 0; k < 64; k++ {
			qs = append(qs, &c09req{proto: c09pRange, raw: c09enc(c09pRange, big.h, 0, uint32(1<<19+k), nil), op: "flood-reserve"})
		}
		// ... on top of streams that sit inside their handlers (truncated request, write side open, until
		// the server's read timeout): enough of them to exceed the per-peer stream limit of the service
		// scope, so that the handler's own SetService refusal path runs
		held := make(chan struct{})
		go func() {
			defer close(held)
			if !on("flood") {
				return
			}
			short := c09enc(c09pSample, big.h, 0, 1, nil)[:11]
			n := 320
			e.parallel(n, n, func(i int) {
				q := c09classify(c09pSample, short, e.byH)
				q.op = "flood-stalled"
				o := c09raw(ctx, e.cl, e.srv, q.proto, q.raw, c09stall)
				run.Eval(1)
				run.Count("flood-stalled/"+o.label(), 1)
				switch o.kind {
				case "ok":
					run.Violation(fmt.Sprintf("C09 %s request that must be refused (%s) was answered OK", q.proto, "short, stalled"), e.witness(q, o, nil))
				case "timeout":
					run.Inconclusive("stalled truncated request: the server did not give up within the client deadline")
				}
			})
		}()
		if on("flood") {
			rawRun("flood", 256, qs)
		}
		<-held
		if on("flood") {
			e.endPhase(ctx, "flood")
		}
	}

	// ---- phase 7: a peer on a non-loopback address is subject to the per-IP rate limiter
	if other != "" && !e.dead() && on("ratelimit") {
		h2, err := c09clientHost()
		if err == nil {
			if err := c09connect(ctx, h2, e.srv, other); err != nil {
				run.Count("ratelimit_phase_skipped", 1)
				run.Extra("ratelimit_phase", "no usable non-loopback address: "+err.Error())
			} else {
				var qs []*c09req
				for k := 0; k < vkit.Scale(400, 3000); k++ {
					b := &e.blocks[k%len(e.blocks)]
					qs = append(qs, c09validRaw(&c09honest{blk: b, proto: c09pSample, a: k % (2 * b.sq.W), b: (k / 3) % (2 * b.sq.W)}, "ratelimit"))
				}
				qs = classify(qs)
				var limited atomic.Int64
				e.parallel(64, len(qs), func(i int) {
					if e.rawOne(ctx, h2, qs[i], "ratelimit") == "resource" {
						limited.Add(1)
					}
				})
				run.Count("ratelimit_phase/refused_by_limits", int(limited.Load()))
				run.Extra("ratelimit_phase", fmt.Sprintf("dialled %s; %d of %d requests refused by limits", other, limited.Load(), len(qs)))
				_ = h2.Close()
				e.endPhase(ctx, "ratelimit")
			}
		}
	} else {
		run.Count("ratelimit_phase_skipped", 1)
	}

	// ---- end: disconnect, the server must be empty
	_ = e.cl.Close()
	e.quiesceFinal()

	run.Require("honest/ok", 500)
	run.Require("raw/served_equal_reference", 500)
	run.Require("raw/refused", 1000)
	run.Require("raw/notfound_ok", 50)
	run.Require("canary/ok", 20)
	run.Require("quiescence/balanced", 8)
	run.Require("server/stream_memory_reservations", 1000)
	for _, p := range c09protos {
		run.Require("honest/"+p+"/ok", 10)
		run.Require("served/"+p, 10)
	}
	run.Assume("reference = rsmt2d extension of the generated ODS; verification = the client-side shwap verifiers (their soundness is C01/C02)")
	run.Assume("resource limits = shrex.SetResourceLimits over libp2p defaults, auto-scaled to this machine, as nodebuilder/p2p.bridgeResources does")
	run.Assume("server parameters: defaults, except WriteTimeout and HandleRequestTimeout raised to 15 min so that machine load cannot become a truncated reply (the server half-closes, not resets, after a failed send); the 5 s ReadTimeout is what ends stalled requests")
	run.Assume("recovered handler panics end in a stream reset, which the statement allows: counted as a diagnostic (server/recovered_handler_panics), not a violation")
}

func (e *c09env) quiesceFinal() {
	if !e.checkAlive("final") {
		return
	}
	e.quiesce("final (client disconnected)")
}
