package checks

import (
	"context"
	"encoding/binary"
	"fmt"
	"os"
	"strings"
	"sync"
	"testing"
	"time"

	bspb "github.com/ipfs/boxo/bitswap/message/pb"
	"github.com/ipfs/boxo/blockstore"
	"github.com/ipfs/boxo/exchange"
	blocks "github.com/ipfs/go-block-format"
	"github.com/ipfs/go-cid"
	ipld "github.com/ipfs/go-ipld-format"
	"github.com/libp2p/go-libp2p/core/host"
	"github.com/libp2p/go-libp2p/core/protocol"
	mocknet "github.com/libp2p/go-libp2p/p2p/net/mock"
	"google.golang.org/protobuf/proto"

	"github.com/celestiaorg/celestia-node/share/shwap/p2p/bitswap"
	"github.com/celestiaorg/celestia-node/zz_verif/vkit"
)

// End-to-end: the REAL boxo client (bitswap.NewClient, the node's configuration) on a mocknet
// against (1) a real boxo server over a byzantine blockstore, (2) a raw libp2p peer pushing crafted
// bitswap messages, (3) a real server over bitswap.Blockstore (honest, gated so that it answers
// after the hostile peer). Verdict only on the outcome: a Fetch that returns nil holds the
// reference data; whatever it put into the local blockstore verifies for its CID; no panic.
// A Fetch that times out / errs is counted, never a violation.

type c10ByzStore struct {
	answer func(k cid.Cid) []byte
	served chan cid.Cid
}

func (s *c10ByzStore) Has(_ context.Context, k cid.Cid) (bool, error) { return s.answer(k) != nil, nil }
func (s *c10ByzStore) GetSize(_ context.Context, k cid.Cid) (int, error) {
	if b := s.answer(k); b != nil {
		return len(b), nil
	}
	return 0, ipld.ErrNotFound{Cid: k}
}
func (s *c10ByzStore) Get(_ context.Context, k cid.Cid) (blocks.Block, error) {
	b := s.answer(k)
	if b == nil {
		return nil, ipld.ErrNotFound{Cid: k}
	}
	select {
	case s.served <- k:
	default:
	}
	return blocks.NewBlockWithCid(b, k)
}
func (s *c10ByzStore) DeleteBlock(context.Context, cid.Cid) error    { return nil }
func (s *c10ByzStore) Put(context.Context, blocks.Block) error       { return nil }
func (s *c10ByzStore) PutMany(context.Context, []blocks.Block) error { return nil }
func (s *c10ByzStore) HashOnRead(bool)                               {}
func (s *c10ByzStore) AllKeysChan(context.Context) (<-chan cid.Cid, error) {
	ch := make(chan cid.Cid)
	close(ch)
	return ch, nil
}

// c10GateStore is the honest serving blockstore; silent while shut.
type c10GateStore struct {
	inner blockstore.Blockstore
	mu    sync.Mutex
	open  chan struct{} // closed = open
	isOpn bool
}

func c10NewGate(inner blockstore.Blockstore) *c10GateStore {
	g := &c10GateStore{inner: inner, open: make(chan struct{}), isOpn: true}
	close(g.open)
	return g
}

func (g *c10GateStore) release() {
	g.mu.Lock()
	if !g.isOpn {
		g.isOpn = true
		close(g.open)
	}
	g.mu.Unlock()
}

func (g *c10GateStore) shut() {
	g.mu.Lock()
	if g.isOpn {
		g.isOpn = false
		g.open = make(chan struct{})
	}
	g.mu.Unlock()
}

func (g *c10GateStore) wait(ctx context.Context) error {
	g.mu.Lock()
	ch := g.open
	g.mu.Unlock()
	select {
	case <-ch:
		return nil
	case <-ctx.Done():
		return ctx.Err()
	}
}
func (g *c10GateStore) Has(ctx context.Context, k cid.Cid) (bool, error) {
	if err := g.wait(ctx); err != nil {
		return false, err
	}
	return g.inner.Has(ctx, k)
}
func (g *c10GateStore) GetSize(ctx context.Context, k cid.Cid) (int, error) {
	if err := g.wait(ctx); err != nil {
		return 0, err
	}
	return g.inner.GetSize(ctx, k)
}
func (g *c10GateStore) Get(ctx context.Context, k cid.Cid) (blocks.Block, error) {
	if err := g.wait(ctx); err != nil {
		return nil, err
	}
	return g.inner.Get(ctx, k)
}
func (g *c10GateStore) DeleteBlock(context.Context, cid.Cid) error    { return nil }
func (g *c10GateStore) Put(context.Context, blocks.Block) error       { return nil }
func (g *c10GateStore) PutMany(context.Context, []blocks.Block) error { return nil }
func (g *c10GateStore) HashOnRead(bool)                               {}
func (g *c10GateStore) AllKeysChan(context.Context) (<-chan cid.Cid, error) {
	ch := make(chan cid.Cid)
	close(ch)
	return ch, nil
}

type c10Node struct {
	ctx        context.Context
	cancel     context.CancelFunc
	mn         mocknet.Mocknet
	cl         exchange.SessionExchange
	byz        *c10ByzStore
	gate       *c10GateStore
	attacker   host.Host
	victim     host.Host
	byzHost    host.Host
	honestHost host.Host
	closers    []func()
}

// c10NewNode builds victim + byzantine server + honest server + raw peer, all linked, none
// connected. The node's client broadcasts a want once, to peers that answered before plus ONE
// random other peer (broadcast control), and never re-sends it; so servers are connected one by
// one and "warmed" (made broadcast targets by answering a first fetch) before the measured fetch.
func c10NewNode(honest blockstore.Blockstore, answer func(cid.Cid) []byte) (*c10Node, error) {
	ctx, cancel := context.WithCancel(context.Background())
	mn, err := mocknet.FullMeshLinked(4)
	if err != nil {
		cancel()
		return nil, err
	}
	hs := mn.Hosts()
	n := &c10Node{ctx: ctx, cancel: cancel, mn: mn, attacker: hs[3], victim: hs[2], byzHost: hs[0], honestHost: hs[1]}
	n.byz = &c10ByzStore{answer: answer, served: make(chan cid.Cid, 64)}
	n.gate = c10NewGate(honest)
	for i, st := range []blockstore.Blockstore{n.byz, n.gate} {
		net := bitswap.NewNetwork(hs[i], "/c10")
		srv := bitswap.NewServer(ctx, net, st)
		net.Start(srv)
		n.closers = append(n.closers, func() { srv.Close(); net.Stop() })
	}
	net := bitswap.NewNetwork(hs[2], "/c10")
	cl := bitswap.NewClient(ctx, net, &c10MemStore{})
	net.Start(cl)
	n.cl = cl
	n.closers = append(n.closers, func() { _ = cl.Close(); net.Stop() })
	return n, nil
}

// connect connects the victim with a server and warms it: a first fetch (of a CID both servers
// serve honestly) makes the server a broadcast target of the client.
func (n *c10Node) connect(w *c10World, srv host.Host, warm *c10Req) error {
	if _, err := n.mn.ConnectPeers(n.victim.ID(), srv.ID()); err != nil {
		return err
	}
	time.Sleep(20 * time.Millisecond) // connection notifications are asynchronous (coverage only)
	f := n.fetch(w, 15*time.Second, warm)
	<-f.done
	if f.err != nil || f.pnc != nil || warm.diff() != "" {
		return fmt.Errorf("warm-up fetch from %s failed: err=%v panic=%v container=%s", srv.ID(), f.err, f.pnc, c10OrOK(warm.diff()))
	}
	return nil
}

func (n *c10Node) close() {
	n.gate.release()
	n.cancel()
	for _, f := range n.closers {
		f()
	}
	_ = n.mn.Close()
}

// push writes one crafted bitswap message from the raw peer onto a fresh stream to the victim.
func (n *c10Node) push(msg []c10Payload) error {
	var pid string
	for _, p := range n.victim.Mux().Protocols() {
		if strings.HasSuffix(string(p), "/ipfs/bitswap/1.2.0") {
			pid = string(p)
		}
	}
	if pid == "" {
		return fmt.Errorf("victim does not speak bitswap 1.2.0: %v", n.victim.Mux().Protocols())
	}
	ctx, cancel := context.WithTimeout(n.ctx, 10*time.Second)
	defer cancel()
	s, err := n.attacker.NewStream(ctx, n.victim.ID(), protocol.ID(pid))
	if err != nil {
		return err
	}
	m := &bspb.Message{}
	for _, p := range msg {
		m.Payload = append(m.Payload, &bspb.Message_Block{Prefix: p.Prefix.Bytes(), Data: p.Data})
	}
	b, err := proto.Marshal(m)
	if err != nil {
		return err
	}
	frame := binary.AppendUvarint(nil, uint64(len(b)))
	frame = append(frame, b...)
	if _, err := s.Write(frame); err != nil {
		return err
	}
	return s.Close()
}

// c10Sess tells the harness when Fetch reached GetBlocks (its verifiers are registered by then).
type c10Sess struct {
	inner exchange.Fetcher
	reg   chan struct{}
	once  sync.Once
}

func (s *c10Sess) GetBlock(ctx context.Context, k cid.Cid) (blocks.Block, error) {
	return s.inner.GetBlock(ctx, k)
}
func (s *c10Sess) GetBlocks(ctx context.Context, ks []cid.Cid) (<-chan blocks.Block, error) {
	s.once.Do(func() { close(s.reg) })
	return s.inner.GetBlocks(ctx, ks)
}

type c10E2EFetch struct {
	reqs  []*c10Req
	done  chan struct{}
	err   error
	pnc   any
	site  string
	store *c10MemStore
	reg   chan struct{}
}

func (n *c10Node) fetch(w *c10World, timeout time.Duration, reqs ...*c10Req) *c10E2EFetch {
	f := &c10E2EFetch{reqs: reqs, done: make(chan struct{}), store: &c10MemStore{}, reg: make(chan struct{})}
	blks := make([]bitswap.Block, len(reqs))
	for i, q := range reqs {
		blks[i] = q.blk
	}
	ctx, cancel := context.WithTimeout(n.ctx, timeout)
	sess := &c10Sess{inner: n.cl.NewSession(ctx), reg: f.reg}
	go func() {
		defer close(f.done)
		defer cancel()
		f.pnc, f.site = vkit.Recover(func() {
			f.err = bitswap.Fetch(ctx, n.cl, w.sq.Roots, blks, bitswap.WithStore(f.store), bitswap.WithFetcher(sess))
		})
	}()
	return f
}

func c10WaitCh(ch <-chan struct{}, d time.Duration) bool {
	select {
	case <-ch:
		return true
	case <-time.After(d):
		return false
	}
}

// judge applies the outcome oracle to a finished end-to-end fetch.
func (c *c10) e2eJudge(w *c10World, scenario, mode string, f *c10E2EFetch, hostile []byte, sigOnEmpty string) {
	run := c.run
	detail := func(q *c10Req, extra map[string]any) map[string]any {
		inner, _, _ := c10Open(hostile)
		m := map[string]any{"scenario": "e2e/" + scenario, "mode": mode, "square": w.sq.Desc(), "height": w.h, "seed": vkit.Seed(),
			"request": q.kind + " " + q.pos, "cid": q.cid.String(), "fetch_err": fmt.Sprint(f.err), "container": c10OrOK(q.diff()),
			"hostile_bytes_head": fmt.Sprintf("%x", hostile[:min(len(hostile), 96)]), "hostile_inner_kind": c10KindOf(inner)}
		for k, v := range extra {
			m[k] = v
		}
		return m
	}
	if f.pnc != nil {
		run.Violation("C10 Fetch panics @"+f.site+" (end-to-end "+scenario+")", detail(f.reqs[0], map[string]any{"panic": fmt.Sprint(f.pnc)}))
		return
	}
	ok := f.err == nil
	for _, q := range f.reqs {
		d := q.diff()
		foreign := false
		switch {
		case f.err == nil && d != "":
			ok = false
			sig := "C10 Fetch over the real client returned nil without the reference data (" + scenario + ")"
			if sigOnEmpty != "" && q.zero() {
				sig = sigOnEmpty
				foreign = true
			}
			run.Violation(sig, detail(q, map[string]any{"why": "bitswap.Fetch returned nil although the requested Block was never populated with data verifying for it"}))
		case !q.zero() && d != "":
			ok = false
			run.Violation("C10 "+q.kind+" filled-but-different (end-to-end "+scenario+")", detail(q, nil))
		}
		if stored, has := f.store.get(q.cid); has && !foreign {
			run.Count("store/put", 1)
			if why := w.storedDiff(q, stored); why != "" {
				if os.Getenv("C10_DEBUG") != "" {
					fmt.Printf("C10-DEBUG e2e store poison %s/%s %s: %s\n", scenario, mode, q.kind, why)
				}
				run.Violation("C10 local blockstore receives unverified bytes accepted after the request was populated",
					detail(q, map[string]any{"stored_head": fmt.Sprintf("%x", stored[:min(len(stored), 96)]), "why": why, "boundary": "real boxo client"}))
			}
		}
	}
	if ok {
		run.Count("e2e/fetch-ok", 1)
		run.Count("e2e/fetch-ok/"+scenario, 1)
	} else if f.err != nil {
		run.Count("e2e/fetch-error/"+scenario, 1)
		run.SetAdd("e2e_errors", scenario+": "+f.err.Error())
		if os.Getenv("C10_DEBUG") != "" {
			fmt.Printf("C10-DEBUG e2e %s/%s: %v\n", scenario, mode, f.err)
		}
	}
}

func (c *c10) endToEnd(t *testing.T, r *vkit.RNG) {
	run := c.run
	type job func()
	var jobs []job
	// every job gets its own square at its own height: the verifier registry is process-global, so
	// jobs running in parallel must not share CIDs
	nworld := 0
	world := func() func() *c10ScenReqs {
		i := nworld
		nworld++
		return func() *c10ScenReqs {
			s := c.scenarioWorld(r.Split("ew"), 300+i, []int{4, 2, 8}[i%3], vkit.Layouts[(i*5+1)%len(vkit.Layouts)])
			if s == nil || len(s.reqs) < 3 {
				run.Count("e2e/world-unusable", 1)
				return nil
			}
			return s
		}
	}
	const fetchTimeout = 20 * time.Second // a fetch the client can complete does so within ~2 s on an idle machine
	modes := []string{"other-id-same-kind", "other-kind", "twin-square", "garbage", "mutated", "inner-mismatch"}
	hostileFor := func(w *c10World, s *c10ScenReqs, q *c10Req, mode string, rr *vkit.RNG) []byte {
		hq, _ := w.honest(q.cid)
		_, cq, _ := c10Open(hq)
		switch mode {
		case "other-id-same-kind":
			for _, nb := range w.neighbours(q) {
				if nb.kind == q.kind {
					if b, err := w.honest(nb.cid); err == nil {
						return b
					}
				}
			}
		case "other-kind":
			for _, o := range s.reqs {
				if o.kind != q.kind {
					b, _ := w.honest(o.cid)
					return b
				}
			}
		case "twin-square":
			if tb, err := w.twbs.Get(c.ctx, q.cid); err == nil {
				return tb.RawData()
			}
		case "mutated":
			for i := 0; i < 20; i++ {
				mc, _ := vkit.MutateBytes(rr, cq)
				b := c10Envelope(q.cid.Bytes(), mc)
				probe := q.fresh()
				var perr error
				if p, _ := vkit.Recover(func() { perr = probe.blk.UnmarshalFn(w.sq.Roots)(mc, probe.idBin) }); p == nil && perr != nil {
					return b
				}
			}
		case "inner-mismatch":
			if o := w.sameAtHeight(q, w.h+1); o != nil {
				return c10Envelope(o.cid.Bytes(), cq)
			}
		}
		return c10Envelope(q.cid.Bytes(), rr.Bytes(rr.Range(1, 400)))
	}

	// warm-up requests: two samples no measured request of the job asks for
	warmReqs := func(w *c10World, avoid ...*c10Req) (a, b *c10Req) {
		n := 2 * w.sq.W
		used := map[cid.Cid]bool{}
		for _, q := range avoid {
			used[q.cid] = true
		}
		var out []*c10Req
		for i := n - 1; i >= 0 && len(out) < 2; i-- {
			for j := n - 1; j >= 0 && len(out) < 2; j-- {
				if q, err := c10SampleReq(w.sq, w.h, i, j); err == nil && !used[q.cid] {
					out = append(out, q)
				}
			}
		}
		return out[0], out[1]
	}
	// setup connects + warms honest then byzantine server; the byzantine one serves warm-ups honestly
	setup := func(w *c10World, hostile func(k cid.Cid) []byte, withByz bool, avoid ...*c10Req) *c10Node {
		w1, w2 := warmReqs(w, avoid...)
		h1, err1 := w.honest(w1.cid)
		h2, err2 := w.honest(w2.cid)
		if err1 != nil || err2 != nil {
			run.Count("e2e/setup-failed", 1)
			return nil
		}
		node, err := c10NewNode(c.bs, func(k cid.Cid) []byte {
			switch {
			case k.Equals(w1.cid):
				return h1
			case k.Equals(w2.cid):
				return h2
			}
			return hostile(k)
		})
		if err != nil {
			run.Inconclusive("mocknet: " + err.Error())
			return nil
		}
		if err := node.connect(w, node.honestHost, w1); err != nil {
			run.Count("e2e/setup-failed", 1)
			run.SetAdd("e2e_errors", "setup: "+err.Error())
			node.close()
			return nil
		}
		if withByz {
			node.gate.shut() // only the byzantine server can answer the second warm-up
			err := node.connect(w, node.byzHost, w2)
			if err != nil {
				run.Count("e2e/setup-failed", 1)
				run.SetAdd("e2e_errors", "setup: "+err.Error())
				node.close()
				return nil
			}
		}
		return node
	}

	// --- (1) byzantine real server first, honest real server afterwards
	n1 := vkit.Scale(4, 48)
	for i := 0; i < n1; i++ {
		mk := world()
		mode := modes[(i/4+i)%len(modes)]
		rr := r.SplitN("byz", i)
		jobs = append(jobs, func() {
			s := mk()
			if s == nil {
				return
			}
			q := s.reqs[i%len(s.reqs)].fresh()
			w := s.w
			hostile := hostileFor(w, s, q, mode, rr)
			node := setup(w, func(k cid.Cid) []byte {
				if k.Equals(q.cid) {
					return hostile
				}
				return nil
			}, true, q)
			if node == nil {
				return
			}
			defer node.close()
			run.Eval(1)
			run.Count("e2e/byz-server/"+mode, 1)
			run.Distinct(fmt.Sprintf("e2e|byz|%s|%d|%s|%s|%s", w.sq.Desc(), w.h, q.kind, q.pos, mode))
			t0 := time.Now()
			f := node.fetch(w, fetchTimeout, q) // honest server is shut: only the byzantine one answers
			// coverage only: let the hostile answer arrive before the honest server speaks
			select {
			case <-node.byz.served:
				run.Count("e2e/byz-served-before-honest", 1)
				c10WaitCh(f.done, 200*time.Millisecond)
			case <-f.done:
			case <-time.After(3 * time.Second):
				run.Count("e2e/byz-never-asked", 1)
			}
			node.gate.release()
			if !c10WaitCh(f.done, fetchTimeout+c10Watchdog) {
				run.Inconclusive("e2e: Fetch did not return after its context expired")
				return
			}
			if os.Getenv("C10_DEBUG") != "" {
				fmt.Printf("C10-DEBUG byz-server %s %s cid=%s: err=%v after %v, byz served again %d times\n", q.kind, mode, q.cid, f.err, time.Since(t0), len(node.byz.served))
			}
			c.e2eJudge(w, "byz-server", mode, f, hostile, "")
		})
	}

	// --- (2) a block of ANOTHER kind whose identifier extends the requested one (same height/row):
	// the sample stays pending (nobody serves it yet), the byzantine server answers the row want
	// with the honest sample block.
	n2 := vkit.Scale(1, 6)
	for i := 0; i < n2; i++ {
		mk := world()
		rr := r.SplitN("trunc", i)
		jobs = append(jobs, func() {
			s := mk()
			if s == nil {
				return
			}
			w := s.w
			n := 2 * w.sq.W
			row := rr.Intn(n)
			qs, err1 := c10SampleReq(w.sq, w.h, row, rr.Intn(n))
			qr, err2 := c10RowReq(w.sq, w.h, row)
			if err1 != nil || err2 != nil {
				return
			}
			hs, err := w.honest(qs.cid)
			if err != nil {
				return
			}
			node := setup(w, func(k cid.Cid) []byte {
				if k.Equals(qr.cid) {
					return hs
				}
				return nil
			}, true, qs, qr)
			if node == nil {
				return
			}
			defer node.close()
			run.Eval(1)
			run.Count("e2e/longer-identifier", 1)
			run.Distinct(fmt.Sprintf("e2e|trunc|%s|%d|row=%d", w.sq.Desc(), w.h, row))
			fsmp := node.fetch(w, fetchTimeout, qs)
			if !c10WaitCh(fsmp.reg, c10Watchdog) {
				run.Inconclusive("e2e: Fetch did not reach GetBlocks")
				return
			}
			frow := node.fetch(w, fetchTimeout, qr)
			select {
			case <-frow.done: // the hostile answer completed it
			case <-time.After(3 * time.Second):
			}
			node.gate.release()
			if !c10WaitCh(frow.done, fetchTimeout+c10Watchdog) || !c10WaitCh(fsmp.done, fetchTimeout+c10Watchdog) {
				run.Inconclusive("e2e: Fetch did not return after its context expired")
				return
			}
			c.e2eJudge(w, "longer-identifier", "row-want answered with sample block", frow, hs, c10SigForeign)
			c.e2eJudge(w, "longer-identifier", "sample", fsmp, hs, "")
		})
	}

	// --- (3) raw peer: one message = honest block + unverifiable bytes naming the same CID
	n3 := vkit.Scale(2, 8)
	for i := 0; i < n3; i++ {
		mk := world()
		rr := r.SplitN("raw", i)
		jobs = append(jobs, func() {
			s := mk()
			if s == nil {
				return
			}
			q := s.reqs[(i+1)%len(s.reqs)].fresh()
			w := s.w
			hq, err := w.honest(q.cid)
			if err != nil {
				return
			}
			g := c10Envelope(q.cid.Bytes(), rr.Bytes(rr.Range(1, 300)))
			node := setup(w, func(cid.Cid) []byte { return nil }, false, q)
			if node == nil {
				return
			}
			defer node.close()
			node.gate.shut()
			run.Eval(1)
			run.Count("e2e/raw-message", 1)
			run.Distinct(fmt.Sprintf("e2e|raw|%s|%d|%s|%s", w.sq.Desc(), w.h, q.kind, q.pos))
			f := node.fetch(w, fetchTimeout, q)
			if !c10WaitCh(f.reg, c10Watchdog) {
				run.Inconclusive("e2e: Fetch did not reach GetBlocks")
				return
			}
			time.Sleep(50 * time.Millisecond) // coverage only: let the session register its wants
			if err := node.push([]c10Payload{{q.cid.Prefix(), hq}, {q.cid.Prefix(), g}}); err != nil {
				run.Inconclusive("e2e: raw push failed: " + err.Error())
				return
			}
			if c10WaitCh(f.done, 3*time.Second) {
				run.Count("e2e/raw-message/completed-by-pushed-message", 1)
			}
			node.gate.release()
			if !c10WaitCh(f.done, fetchTimeout+c10Watchdog) {
				run.Inconclusive("e2e: Fetch did not return after its context expired")
				return
			}
			c.e2eJudge(w, "raw-message", "honest+garbage in one message", f, g, "")
		})
	}

	// --- (4) concurrent fetches of the same identifiers from an honest server (race detector)
	n4 := vkit.Scale(1, 6)
	for i := 0; i < n4; i++ {
		mk := world()
		rr := r.SplitN("conc", i)
		jobs = append(jobs, func() {
			s := mk()
			if s == nil {
				return
			}
			w := s.w
			node := setup(w, func(cid.Cid) []byte { return nil }, false, s.reqs...)
			if node == nil {
				return
			}
			defer node.close()
			k := rr.Range(3, 6)
			run.Eval(1)
			run.Count("e2e/concurrent-rounds", 1)
			run.Distinct(fmt.Sprintf("e2e|conc|%s|%d|k=%d", w.sq.Desc(), w.h, k))
			var fs []*c10E2EFetch
			for j := 0; j < k; j++ {
				var reqs []*c10Req
				for _, x := range rr.Perm(len(s.reqs))[:rr.Range(1, len(s.reqs))] {
					reqs = append(reqs, s.reqs[x].fresh())
				}
				fs = append(fs, node.fetch(w, fetchTimeout, reqs...))
			}
			for _, f := range fs {
				if !c10WaitCh(f.done, fetchTimeout+c10Watchdog) {
					run.Inconclusive("e2e: Fetch did not return after its context expired")
					return
				}
				c.e2eJudge(w, "concurrent-honest", "", f, nil, "")
			}
		})
	}

	// the first job runs alone: boxo lazily initialises a field of the client configuration that
	// all clients of the process share (a benign race between parallel clients otherwise)
	if len(jobs) > 0 {
		jobs[len(jobs)-1]()
		jobs = jobs[:len(jobs)-1]
	}
	var wg sync.WaitGroup
	sem := make(chan struct{}, 12)
	for _, j := range jobs {
		wg.Add(1)
		sem <- struct{}{}
		go func(j job) {
			defer wg.Done()
			defer func() { <-sem }()
			j()
		}(j)
	}
	wg.Wait()
	_ = t
}
