package checks

import (
	"bytes"
	"encoding/json"
	"fmt"
	"strings"
	"sync"
	"sync/atomic"
	"testing"
	"time"

	tmproto "github.com/cometbft/cometbft/proto/tendermint/types"
	core "github.com/cometbft/cometbft/types"
	pubsubpb "github.com/libp2p/go-libp2p-pubsub/pb"

	"github.com/celestiaorg/celestia-node/header"
	"github.com/celestiaorg/celestia-node/header/headertest"
	hpb "github.com/celestiaorg/celestia-node/header/pb"
	"github.com/celestiaorg/celestia-node/zz_verif/vkit"
)

// C16 — only internally consistent, properly signed headers are accepted.
//
// Oracles (all on ExtendedHeader.Validate / Verify / Hash / Marshal* / Unmarshal* / MsgID):
//   - soundness: Validate()==nil ⇒ the four facts recomputed by the reference model
//     (c16_model_test.go): hash(DAH)==DataHash, hash(ValidatorSet)==ValidatorsHash, the commit is for
//     hash(RawHeader) at the same height, valid signatures for that block id carry > 2/3 of the power;
//   - every mutation that changes a committed part (raw header leaf found by reflection, DAH roots,
//     validator (key,power) list) while the commit is left as it was must be rejected;
//   - re-encoding (protobuf, JSON) changes neither the verdict nor Hash(); MsgID is a function of the
//     commit's block id only;
//   - trusted.Verify(untrusted)==nil ⇒ adjacent: linked; non-adjacent: ≥ 1/3 of trusted power signed;
//   - honest headers / pairs are accepted (a validator that rejects everything must not pass);
//   - a panic on an input that went through UnmarshalBinary (the network path) is reported.

type c16 struct {
	run    *vkit.Run
	n      atomic.Int64
	leaves []c16leaf
	ids    sync.Map // block key -> message id
}

const (
	c16rejected = 0
	c16accepted = 1
	c16panicked = 2
)

var c16verdictName = [...]string{"rejected", "accepted", "panicked"}

func c16validate(h *c16hdr) (v int, msg, site string) {
	var err error
	p, s := vkit.Recover(func() { err = h.Validate() })
	switch {
	case p != nil:
		return c16panicked, fmt.Sprint(p), s
	case err != nil:
		return c16rejected, err.Error(), ""
	}
	return c16accepted, "", ""
}

func (c *c16) witness(ctx, label string, m *c16hdr, extra map[string]any) map[string]any {
	w := map[string]any{"context": ctx, "mutation": label, "seed": vkit.Seed(), "tier": vkit.Tier()}
	var js []byte
	vkit.Recover(func() { js, _ = m.MarshalJSON() })
	if js != nil {
		w["header_json"] = json.RawMessage(js)
	} else {
		w["header"] = fmt.Sprintf("%+v", m)
	}
	for k, v := range extra {
		w[k] = v
	}
	return w
}

func (c *c16) checkID(ctx, label string, id core.BlockID, msgID string, how string) {
	c.run.Count("msgid/same-block-checked", 1)
	prev, loaded := c.ids.LoadOrStore(c16blockKey(id), msgID)
	if loaded && prev.(string) != msgID {
		c.run.Violation("C16 MsgID differs between two encodings committing to the same block ("+how+")", map[string]any{
			"context": ctx, "mutation": label, "block_id": c16blockKey(id), "id_a": fmt.Sprintf("%q", prev), "id_b": fmt.Sprintf("%q", msgID)})
	}
}

func c16msgID(b []byte) (id string, p any, site string) {
	p, site = vkit.Recover(func() { id = header.MsgID(&pubsubpb.Message{Data: b}) })
	return
}

// judge applies acceptance soundness to one verdict.
func (c *c16) judge(path, ctx, label, field string, m *c16hdr, f c16facts, must []string) {
	if !f.Known {
		c.run.Count("model/not-applicable", 1)
		return
	}
	if !f.all() {
		c.run.Violation(fmt.Sprintf("C16 Validate accepts a header failing [%s] path=%s mutation=%s", f.failed(), path, field),
			c.witness(ctx, label, m, map[string]any{"facts": f}))
	}
	if len(must) > 0 {
		c.run.Violation(fmt.Sprintf("C16 Validate accepts a change of committed %s under the original commit path=%s", must[0], path),
			c.witness(ctx, label, m, map[string]any{"changed": must, "facts": f}))
	}
}

func (c *c16) panicAt(wire bool, where, site, msg, ctx, label string, m *c16hdr, raw []byte) {
	if !wire {
		c.run.Count("panic_not_reachable_from_wire/"+where+"@"+site, 1)
		return
	}
	ex := map[string]any{"panic": msg, "where": where}
	if raw != nil {
		ex["wire_bytes_hex"] = fmt.Sprintf("%x", raw)
	}
	c.run.Violation("C16 panic@"+site+" "+where, c.witness(ctx, label, m, ex))
}

// eval runs every oracle on one candidate m derived from the honest header h0.
func (c *c16) eval(ctx string, h0, m *c16hdr, class, field, op string, fromWire bool) {
	label := class + "/" + field + "/" + op
	sigField := field // violation signatures name the operator family, not every pair / byte operator
	if class == "two" {
		sigField = "two-field"
	} else if class == "wire" {
		sigField = "wire-bytes"
	}
	c.run.Eval(1)
	c.run.Count("class/"+class+"/tried", 1)
	c.run.Count("mut/"+field+"/tried", 1)
	c.run.Distinct(ctx + "|" + label)
	changed := c16committedChanged(c.leaves, h0, m)
	sameCommit := c16commitEqual(h0.Commit, m.Commit)
	var must []string
	if sameCommit {
		must = changed
		if len(changed) == 0 {
			c.run.Count("class/"+class+"/left-header-unchanged", 1)
		}
	}
	thr := ""
	if field == "commit.threshold" {
		thr = "threshold/" + op[:strings.LastIndex(op, "/")]
		c.run.Count(thr+"/tried", 1)
	}

	// --- as a Go value (the path of headers constructed in-process)
	v0, e0, site0 := c16validate(m)
	f0 := c16Facts(m)
	switch v0 {
	case c16panicked:
		c.panicAt(fromWire, "Validate", site0, e0, ctx, label, m, nil)
	case c16accepted:
		c.run.Count("mut/"+field+"/accepted", 1)
		c.run.Count("class/"+class+"/accepted", 1)
		if thr != "" {
			c.run.Count(thr+"/accepted", 1)
		}
		if f0.Known && f0.all() && len(must) == 0 {
			c.run.Count("accepted-and-consistent", 1)
		}
		c.judge("value", ctx, label, sigField, m, f0, must)
	default:
		c.run.Count("class/"+class+"/rejected", 1)
		if f0.Known && f0.all() {
			c.run.Count("rejected-though-facts-hold", 1)
		}
	}
	if n := c.n.Add(1); n%2003 == 1 {
		c.run.Sample(map[string]any{"n": n, "context": ctx, "mutation": label, "verdict": c16verdictName[v0], "error": e0,
			"committed_parts_changed": changed, "facts": f0})
	}
	hashOf := func(h *c16hdr) (out []byte) {
		vkit.Recover(func() { out = h.Hash() })
		return
	}

	// --- protobuf (the network path)
	var b []byte
	var merr error
	if p, _ := vkit.Recover(func() { b, merr = m.MarshalBinary() }); p != nil || merr != nil {
		c.run.Count("enc/binary/not-encodable", 1)
	} else {
		c.run.Count("enc/binary/roundtrip", 1)
		d := new(c16hdr)
		var uerr error
		p, site := vkit.Recover(func() { uerr = d.UnmarshalBinary(b) })
		switch {
		case p != nil:
			c.panicAt(true, "UnmarshalBinary", site, fmt.Sprint(p), ctx, label, m, b)
		case uerr != nil:
			c.run.Count("enc/binary/refused-by-decoder", 1)
			if v0 == c16accepted {
				c.run.Violation("C16 header accepted as a value is refused after binary re-encoding", c.witness(ctx, label, m, map[string]any{"decode_error": uerr.Error()}))
			}
		default:
			v1, e1, site1 := c16validate(d)
			if v1 == c16panicked {
				c.panicAt(true, "Validate(after UnmarshalBinary)", site1, e1, ctx, label, d, b)
			}
			if v1 == c16accepted {
				c.run.Count("enc/binary/accepted", 1)
				c.judge("binary", ctx, label, sigField, d, c16Facts(d), must)
			}
			if (v0 == c16accepted) != (v1 == c16accepted) {
				c.run.Violation(fmt.Sprintf("C16 verdict changes with binary re-encoding (value %s, decoded %s)", c16verdictName[v0], c16verdictName[v1]),
					c.witness(ctx, label, m, map[string]any{"value_error": e0, "decoded_error": e1}))
			}
			if m.Commit != nil {
				if !bytes.Equal(hashOf(m), hashOf(d)) {
					c.run.Violation("C16 Hash changes with binary re-encoding", c.witness(ctx, label, m, nil))
				}
				c.run.Count("enc/binary/hash-compared", 1)
			}
			id, p, site := c16msgID(b)
			if p != nil {
				c.panicAt(true, "MsgID", site, fmt.Sprint(p), ctx, label, m, b)
			} else if d.Commit != nil {
				c.checkID(ctx, label, d.Commit.BlockID, id, "binary")
				if !sameCommit && c16blockIDEqual(d.Commit.BlockID, h0.Commit.BlockID) {
					c.run.Count("msgid/same-block-different-commit", 1)
				}
			}
		}
	}

	// --- JSON (RPC representation; never fed to Validate by the node itself)
	var js []byte
	if p, _ := vkit.Recover(func() { js, merr = m.MarshalJSON() }); p != nil || merr != nil {
		c.run.Count("enc/json/not-encodable", 1)
		return
	}
	c.run.Count("enc/json/roundtrip", 1)
	d := new(c16hdr)
	var uerr error
	p, site := vkit.Recover(func() { uerr = d.UnmarshalJSON(js) })
	switch {
	case p != nil:
		c.panicAt(false, "UnmarshalJSON", site, fmt.Sprint(p), ctx, label, m, nil)
	case uerr != nil:
		c.run.Count("enc/json/refused-by-decoder", 1)
		if v0 == c16accepted {
			c.run.Violation("C16 header accepted as a value is refused after JSON re-encoding", c.witness(ctx, label, m, map[string]any{"decode_error": uerr.Error()}))
		}
	default:
		v2, e2, site2 := c16validate(d)
		if v2 == c16panicked {
			c.panicAt(false, "Validate(after UnmarshalJSON)", site2, e2, ctx, label, d, nil)
		}
		if v2 == c16accepted {
			c.run.Count("enc/json/accepted", 1)
			c.judge("json", ctx, label, sigField, d, c16Facts(d), must)
		}
		if (v0 == c16accepted) != (v2 == c16accepted) {
			c.run.Violation(fmt.Sprintf("C16 verdict changes with JSON re-encoding (value %s, decoded %s)", c16verdictName[v0], c16verdictName[v2]),
				c.witness(ctx, label, m, map[string]any{"value_error": e0, "decoded_error": e2}))
		}
		if m.Commit != nil && d.Commit != nil {
			if !bytes.Equal(hashOf(m), hashOf(d)) {
				c.run.Violation("C16 Hash changes with JSON re-encoding", c.witness(ctx, label, m, nil))
			}
			c.run.Count("enc/json/hash-compared", 1)
		}
		// JSON -> value -> protobuf must still carry the id of the block
		var b2 []byte
		if p, _ := vkit.Recover(func() { b2, merr = d.MarshalBinary() }); p == nil && merr == nil && d.Commit != nil {
			if id, p, _ := c16msgID(b2); p == nil {
				if c2, err := core.CommitFromProto(d.Commit.ToProto()); err == nil && c2 != nil {
					c.checkID(ctx, label, d.Commit.BlockID, id, "json->binary")
				}
			}
		}
	}
}

// honest: the unmodified header must be accepted, the model must agree with it.
func (c *c16) honest(ctx string, h0 *c16hdr) bool {
	m := c16clone(h0)
	c.run.Eval(1)
	c.run.Count("honest/tried", 1)
	// the model and the library must agree on honest material, otherwise the model is stale
	if !bytes.Equal(c16headerHash(&m.RawHeader), m.RawHeader.Hash()) {
		c.run.Inconclusive("reference model: header hash disagrees with cometbft on an honest header: " + ctx)
		return false
	}
	if vh, ok := c16valsetHash(m.ValidatorSet); !ok || !bytes.Equal(vh, c16cloneVals(m.ValidatorSet).Hash()) {
		c.run.Inconclusive("reference model: validator set hash disagrees with cometbft on an honest header: " + ctx)
		return false
	}
	if !bytes.Equal(c16dahHash(m.DAH.RowRoots, m.DAH.ColumnRoots), c16cloneDAH(m.DAH).Hash()) {
		c.run.Inconclusive("reference model: data root disagrees with celestia-app on an honest header: " + ctx)
		return false
	}
	f := c16Facts(m)
	if !f.all() {
		c.run.Inconclusive(fmt.Sprintf("generator produced a header failing [%s]: %s", f.failed(), ctx))
		return false
	}
	v, e, site := c16validate(m)
	if v != c16accepted {
		c.run.Violation("C16 honest header "+c16verdictName[v], c.witness(ctx, "honest", m, map[string]any{"error": e, "site": site, "facts": f}))
		return false
	}
	c.run.Count("honest/accepted", 1)
	return true
}

func (c *c16) applyMut(ctx string, h0 *c16hdr, mus ...c16mut) *c16hdr {
	m := c16clone(h0)
	for _, mu := range mus {
		if p, site := vkit.Recover(func() { mu.apply(m) }); p != nil {
			c.run.Inconclusive(fmt.Sprintf("mutator %s/%s/%s panicked at %s: %v (%s)", mu.class, mu.field, mu.op, site, p, ctx))
			return nil
		}
	}
	return m
}

// header runs the whole battery on header hi of a chain.
func (c *c16) header(r *vkit.RNG, ch *c16chain, hi int) {
	h0 := ch.hdrs[hi]
	ctx := fmt.Sprintf("%s header#%d height=%d validators=%d dah=%dx%d", ch.desc, hi, h0.RawHeader.Height, len(h0.ValidatorSet.Validators), len(h0.DAH.RowRoots), len(h0.DAH.ColumnRoots))
	if !c.honest(ctx, h0) {
		return
	}
	c.run.Count("headers", 1)
	var prev, next *c16hdr
	if hi > 0 {
		prev = ch.hdrs[hi-1]
	}
	if hi+1 < len(ch.hdrs) {
		next = ch.hdrs[hi+1]
	}
	nb := prev
	if nb == nil {
		nb = next
	}
	// the honest header itself through every path (registers the message id of the block)
	c.eval(ctx, h0, c16clone(h0), "honest", "none", "identity", false)

	var muts []c16mut
	muts = append(muts, c16rawMuts(r.Split("raw"), c.leaves, nb, func(s string) {
		c.run.Inconclusive("RawHeader field of a kind the mutator does not know: " + s)
	})...)
	other := c16freshDAH(r.Split("otherdah"))
	muts = append(muts, c16dahMuts(r.Split("dah"), h0, other)...)
	muts = append(muts, c16commitMuts(r.Split("commit"), h0, nb, len(h0.Commit.Signatures))...)
	muts = append(muts, c16valsetMuts(r.Split("valset"), h0)...)
	muts = append(muts, c16substMuts(prev, "prev")...)
	muts = append(muts, c16substMuts(next, "next")...)
	for _, mu := range muts {
		if m := c.applyMut(ctx, h0, mu); m != nil {
			c.eval(ctx, h0, m, mu.class, mu.field, mu.op, false)
		}
	}
	// two-field mutations
	r2 := r.Split("two")
	for k, n := 0, vkit.Scale(40, 400); k < n; k++ {
		a, b := muts[r2.Intn(len(muts))], muts[r2.Intn(len(muts))]
		if a.field == b.field && a.op == b.op {
			continue
		}
		if m := c.applyMut(ctx, h0, a, b); m != nil {
			c.eval(ctx, h0, m, "two", a.field+" & "+b.field, a.op+" & "+b.op, false)
		}
	}
	// wire mutations of the honest encoding: the real attack surface
	wire, err := c16clone(h0).MarshalBinary()
	if err != nil {
		c.run.Violation("C16 honest header cannot be marshalled", map[string]any{"context": ctx, "error": err.Error()})
		return
	}
	rw := r.Split("wire")
	for k, n := 0, vkit.Scale(60, 200); k < n; k++ {
		mb, mop := vkit.MutateBytes(rw, wire)
		c.run.Eval(1)
		c.run.Count("class/wire/bytes-tried", 1)
		if _, p, site := c16msgID(mb); p != nil {
			c.panicAt(true, "MsgID", site, fmt.Sprint(p), ctx, "wire/"+mop, h0, mb)
		}
		d := new(c16hdr)
		var uerr error
		if p, site := vkit.Recover(func() { uerr = d.UnmarshalBinary(mb) }); p != nil {
			c.panicAt(true, "UnmarshalBinary", site, fmt.Sprint(p), ctx, "wire/"+mop, h0, mb)
			continue
		}
		if uerr != nil {
			c.run.Count("class/wire/refused-by-decoder", 1)
			continue
		}
		c.run.Count("class/wire/decoded", 1)
		c.eval(ctx, h0, d, "wire", "wire."+mop, fmt.Sprintf("#%d", k), true)
	}
	// non-canonical but valid protobuf encodings: a field may occur several times and occurrences are merged
	// (later scalar fields win). An extra commit fragment naming ANOTHER block in front of the canonical bytes
	// decodes to the very same header; its message id must still be the one of the block it commits to.
	// (added after seeded change C16-b was missed)
	for _, nbh := range []*c16hdr{prev, next} {
		if nbh == nil || nbh.Commit == nil {
			continue
		}
		frag := &hpb.ExtendedHeader{Commit: &tmproto.Commit{BlockID: nbh.Commit.BlockID.ToProto()}}
		fb, err := frag.Marshal()
		if err != nil {
			continue
		}
		for _, enc := range []struct {
			name string
			b    []byte
		}{{"foreign-commit-fragment-prepended", append(append([]byte{}, fb...), wire...)}, {"own-encoding-twice", append(append([]byte{}, wire...), wire...)}} {
			c.run.Eval(1)
			c.run.Count("class/proto-merge/tried", 1)
			d := new(c16hdr)
			var uerr error
			if p, site := vkit.Recover(func() { uerr = d.UnmarshalBinary(enc.b) }); p != nil {
				c.panicAt(true, "UnmarshalBinary", site, fmt.Sprint(p), ctx, "proto-merge/"+enc.name, h0, enc.b)
				continue
			}
			if uerr != nil || d.Commit == nil {
				c.run.Count("class/proto-merge/refused-by-decoder", 1)
				continue
			}
			id, p, site := c16msgID(enc.b)
			if p != nil {
				c.panicAt(true, "MsgID", site, fmt.Sprint(p), ctx, "proto-merge/"+enc.name, h0, enc.b)
				continue
			}
			c.run.Count("class/proto-merge/decoded", 1)
			c.checkID(ctx, "proto-merge/"+enc.name, d.Commit.BlockID, id, "proto-merge:"+enc.name)
			c.eval(ctx, h0, d, "wire", "proto-merge."+enc.name, "", true)
		}
	}
}

func TestC16(t *testing.T) {
	run := vkit.NewRun(t, "C16", "exploration",
		"cases = (honest header from generated chains: validator-set size × power profile × set changes × DAH of a generated square) × "+
			"(mutation operator on a raw-header leaf found by reflection | DAH roots | commit | validator set | part substituted from a neighbour | "+
			"pair of operators | wire-byte mutation) × (Go value, protobuf, JSON) plus (trusted, untrusted) pairs at distance 1..6 × verify operators; "+
			"distinct = distinct (header, operator, parameters) and (pair, operator) tuples on which the real Validate / Verify ran; non-trivial = derived from a validly signed header")
	defer run.Finish()
	c := &c16{run: run}
	var unexp []string
	c.leaves, unexp = c16rawLeaves()
	for _, u := range unexp {
		run.Inconclusive("RawHeader has an unexported field the monitor cannot mutate: " + u)
	}
	// the model hash must cover exactly the fields reflection finds
	{
		have := map[string]bool{}
		for _, l := range c.leaves {
			have[l.name] = true
		}
		for _, n := range c16modelLeaves {
			if !have[n] {
				run.Inconclusive("reference model covers a RawHeader field that no longer exists: " + n)
			}
			delete(have, n)
		}
		for n := range have {
			run.Inconclusive("RawHeader has a field the reference model hash does not cover: " + n)
		}
	}
	// minimum coverage, declared first so that an aborted run can never read as "held"
	run.Require("honest/accepted", 30)
	for _, l := range c.leaves {
		run.Require("mut/raw."+l.name+"/tried", 100)
	}
	for _, cl := range []string{"raw", "dah", "commit", "valset", "subst", "two"} {
		run.Require("class/"+cl+"/tried", 500)
	}
	run.Require("class/wire/decoded", 200)
	run.Require("accepted-and-consistent", 50)
	run.Require("threshold/at-or-below-2/3/tried", 20)
	run.Require("threshold/exactly-2/3/tried", 3)
	run.Require("threshold/min-above-2/3/accepted", 20)
	run.Require("enc/binary/roundtrip", 5000)
	run.Require("enc/json/roundtrip", 5000)
	run.Require("enc/binary/accepted", 50)
	run.Require("enc/json/accepted", 50)
	run.Require("msgid/same-block-checked", 5000)
	run.Require("msgid/same-block-different-commit", 100)
	run.Require("verify/adjacent/honest/accepted", 50)
	run.Require("verify/non-adjacent/honest/accepted", 50)
	run.Require("verify/non-adjacent/honest/rejected-insufficient-overlap", 5)
	run.Require("verify/mutants/tried", 2000)
	run.Require("verify/threshold/at-or-below-1/3/tried", 20)
	run.Require("verify/threshold/min-above-1/3/accepted", 20)
	seed := vkit.Seed()
	rng := vkit.NewRNG(seed, "C16")

	type cfg struct {
		n       int
		profile string
	}
	cfgs := []cfg{{1, "equal"}, {2, "unequal"}, {3, "equal"}, {3, "ones"}, {4, "equal"}, {4, "unequal"}, {6, "ones"},
		{7, "unequal"}, {7, "dominant"}, {9, "third"}, {10, "equal"}, {10, "unequal"}, {5, "huge"}}
	chainLen, perChain := 7, 3
	if vkit.Thorough() {
		perChain = 6
		profiles := []string{"equal", "unequal", "ones", "dominant", "third", "huge"}
		for len(cfgs) < 96 {
			cfgs = append(cfgs, cfg{vkit.Pick(rng, []int{1, 2, 3, 4, 5, 6, 7, 9, 10, 12, 16}), vkit.Pick(rng, profiles)})
		}
		cfgs = append(cfgs, cfg{32, "unequal"}, cfg{32, "ones"})
	}
	var chains []*c16chain
	for i, cf := range cfgs {
		chains = append(chains, c16genChain(rng.SplitN("chain", i), chainLen, cf.n, cf.profile))
	}
	// the repository's own generator (equal powers, constant set, empty block; keys are not seeded)
	for _, n := range []int{1, 3, 4, 7, 10} {
		// the suite asserts on its own headers with require (FailNow): keep that inside a subtest
		ok := t.Run(fmt.Sprintf("headertest-%d", n), func(st *testing.T) {
			ts := headertest.NewTestSuite(st, headertest.WithValidators(n), headertest.WithBlockTime(6*time.Second), headertest.WithStartTime(c16baseTime))
			ch := &c16chain{desc: fmt.Sprintf("chain=headertest.TestSuite vals=%d", n)}
			for _, h := range ts.GenExtendedHeaders(chainLen) {
				ch.hdrs = append(ch.hdrs, c16clone(h))
			}
			chains = append(chains, ch)
		})
		if !ok {
			run.Violation("C16 honest header rejected (headertest.TestSuite's own assertion on a header it generated)", map[string]any{"validators": n})
		}
	}
	run.Count("chains", len(chains))

	var wg sync.WaitGroup
	sem := make(chan struct{}, 16)
	spawn := func(f func()) {
		wg.Add(1)
		sem <- struct{}{}
		go func() {
			defer wg.Done()
			defer func() { <-sem }()
			f()
		}()
	}
	for ci, ch := range chains {
		ci, ch := ci, ch
		r := rng.SplitN("work", ci)
		k := perChain
		if strings.Contains(ch.desc, "TestSuite") && !vkit.Thorough() {
			k = 1
		}
		for _, hi := range r.Perm(len(ch.hdrs))[:k] {
			hi := hi
			spawn(func() { c.header(r.SplitN("hdr", hi), ch, hi) })
		}
		spawn(func() { c.pairs(r.Split("pairs"), ch) })
	}
	wg.Wait()

	run.Assume("sha256 / ed25519 are secure; Commit.VoteSignBytes (canonical vote encoding) is taken from cometbft as the definition of what a validator signs")
	run.Assume("a panic counts as a violation only for inputs that passed UnmarshalBinary (the only path on which the node validates foreign headers); JSON is an RPC output format")
	run.Assume("'enough of the trusted validators' is read as at least one third of the trusted voting power")
	run.Assume("headertest.TestSuite chains use unseeded keys; the case list (operators, positions) is still fixed by the seed")
}
