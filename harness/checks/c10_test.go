package checks

import (
	"context"
	"fmt"
	"os"
	"path/filepath"
	"sort"
	"strings"
	"sync"
	"sync/atomic"
	"testing"
	"time"

	"github.com/ipfs/go-cid"
	mh "github.com/multiformats/go-multihash"

	libshare "github.com/celestiaorg/go-square/v4/share"

	"github.com/celestiaorg/celestia-node/share/shwap/p2p/bitswap"
	"github.com/celestiaorg/celestia-node/store"
	"github.com/celestiaorg/celestia-node/zz_verif/vkit"
)

// C10 — Bitswap blocks are accepted only if they verify for the requested identifier.
//
// Boundary: boxo accepts incoming bytes for the request whose CID equals prefix.Sum(bytes); that
// call runs the hasher registered by share/shwap/p2p/bitswap, which verifies and populates the
// requesting Block. The harness keeps real bitswap.Fetch calls pending on a fake exchange that
// reproduces boxo's receive path (c10Ex), offers candidate bytes, and inspects the Blocks.
//
// Oracle, applied to EVERY pending request R after EVERY offered (prefix, bytes):
//
//	S1  R's container went from untouched to filled  ⇒  the bytes' envelope names R's CID and the
//	    container equals the reference square at R's position (and verifies against R's roots);
//	S2  boxo accepts the bytes for R (Sum == R.CID)  ⇒  the same, and the Fetch that is handed the
//	    block returns nil with exactly that data (no panic, nothing else in the local blockstore);
//	S3  the honest block (bitswap.Blockstore.Get over a real store) for R is accepted and fills R;
//	S4  ID → CID → ID is the identity, CID → ID → CID too, CIDs are injective.
//
// Files: c10_harness_test.go (fake exchange, requests + reference answers, pending fetches),
// c10_test.go (per-square workload: candidates, oracle), c10_ids_test.go (S4),
// c10_scen_test.go (already-populated requests, duplicate/concurrent fetches),
// c10_e2e_test.go (real boxo client/server on mocknet, byzantine servers, raw crafted messages).
//
// Everything keyed by CID in the package under test is process-global (the verifier registry), so
// every unit that runs in parallel works on its own height. Under the race detector goroutine
// creation is the dominant cost: requests are re-armed in place (container emptied) instead of
// re-issuing Fetch wherever boxo's once-per-call delivery rule allows it.
//
// Diagnostics (never verdicts): second-delivery/* (what the predicate says about bytes naming an
// already populated request), diag/orphaned-duplicate/* (a duplicate Fetch whose original was
// cancelled or returned: the verifier is unregistered with the original, so even the honest block
// is refused until somebody asks again), ids/legacy-range-last-share-unaddressable.
type c10 struct {
	run *vkit.Run
	n   atomic.Int64
	bs  *bitswap.Blockstore // serving side over a real store.Store
	st  *store.Store
	ctx context.Context
}

func (c *c10) tried(kind, op string, w *c10World, pos string) {
	c.run.Eval(1)
	c.run.Count("offer/"+kind+"/"+op, 1)
	if n := c.n.Add(1); n%4999 == 1 {
		c.run.Sample(map[string]any{"n": n, "square": w.sq.Desc(), "height": w.h, "request": kind + " " + pos, "candidate": op})
	}
}

// c10SigForeign: one root cause (digest truncation in the acceptance predicate), one signature;
// the (requested kind <- carried kind) pairs seen are in the evidence set foreign_identifier_accepted.
const c10SigForeign = "C10 request accepts a block carrying an identifier of another kind"

var c10Kinds = map[uint64]string{0x7810: "sample", 0x7800: "row", 0x7820: "rnd", 0x7830: "range"}

func c10KindOf(k cid.Cid) string {
	if !k.Defined() {
		return "none"
	}
	if s, ok := c10Kinds[k.Type()]; ok {
		return s
	}
	return fmt.Sprintf("codec-%#x", k.Type())
}

// c10World is one square stored at one height, with its twin and a private exchange.
type c10World struct {
	c     *c10
	sq    *vkit.Square
	tw    *vkit.Square
	h     uint64
	ex    *c10Ex
	twbs  *bitswap.Blockstore
	cache *c10Cache
	r     *vkit.RNG
}

type c10Cache struct {
	mu sync.Mutex
	m  map[cid.Cid][]byte
}

func (c *c10) newWorld(r *vkit.RNG, sq, tw *vkit.Square, h uint64) (*c10World, error) {
	if err := c.st.PutODSQ4(c.ctx, sq.Roots, h, sq.EDS); err != nil {
		return nil, fmt.Errorf("store put: %w", err)
	}
	if tw == nil {
		tw = sq.Twin(r.Split("twin"))
	}
	g := &c10MemGetter{}
	g.put(h, tw)
	return &c10World{c: c, sq: sq, tw: tw, h: h, ex: c10NewEx(), twbs: &bitswap.Blockstore{Getter: g}, cache: &c10Cache{m: map[cid.Cid][]byte{}}, r: r}, nil
}

// honest returns the bytes a serving node produces for the CID from the stored square.
func (w *c10World) honest(k cid.Cid) ([]byte, error) {
	w.cache.mu.Lock()
	b, ok := w.cache.m[k]
	w.cache.mu.Unlock()
	if ok {
		return b, nil
	}
	var out []byte
	var err error
	p, site := vkit.Recover(func() {
		blk, e := w.c.bs.Get(w.c.ctx, k)
		if e != nil {
			err = e
			return
		}
		out = blk.RawData()
	})
	if p != nil {
		w.c.run.Violation("C10 Blockstore.Get panics @"+site, map[string]any{"panic": fmt.Sprint(p), "cid": k.String(), "kind": c10KindOf(k), "square": w.sq.Desc()})
		return nil, fmt.Errorf("panic")
	}
	if err == nil {
		w.cache.mu.Lock()
		w.cache.m[k] = out
		w.cache.mu.Unlock()
	}
	return out, err
}

// c10Group is one pending bitswap.Fetch over one or more requests; c10Slot one request in it.
type c10Group struct {
	reqs []*c10Req
	p    *c10Pend
}

type c10Slot struct {
	req *c10Req
	g   *c10Group
}

// restart re-issues the group's Fetch over the same (emptied) Block objects.
func (w *c10World) restart(g *c10Group) {
	if g.p != nil {
		if !g.p.finished() {
			g.p.stop(w.c.run)
		}
		if g.p.pnc != nil {
			w.c.run.Violation("C10 Fetch panics @"+g.p.site, map[string]any{"panic": fmt.Sprint(g.p.pnc), "square": w.sq.Desc(), "requests": len(g.reqs)})
		}
	}
	for _, q := range g.reqs {
		q.reset()
	}
	g.p = c10Start(w.c.run, w.ex, w.sq.Roots, true, g.reqs...)
	w.c.run.Count("fetch/started", 1)
}

// offer sends one (prefix, data) through the receive path and applies the oracle to every slot.
// focus is the request the candidate was built against (only used for naming).
func (w *c10World) offer(set []*c10Slot, focus *c10Slot, op string, prefix cid.Prefix, data []byte) (acceptedForFocus bool) {
	c := w.c
	c.tried(focus.req.kind, op, w, focus.req.pos)
	c.run.Distinct(fmt.Sprintf("%s|h=%d|%s|%s|%s", w.sq.Desc(), w.h, focus.req.kind, focus.req.pos, op))
	zeroBefore := make([]bool, len(set))
	for i, s := range set {
		zeroBefore[i] = s.req.zero()
	}
	var sum cid.Cid
	var served []*c10Call
	var err error
	notifsBefore := w.ex.notifs.Load()
	pnc, site := vkit.Recover(func() { sum, served, err = w.ex.receive(prefix, data) })
	witness := func(s *c10Slot, extra map[string]any) map[string]any {
		inner, _, ok := c10Open(data)
		m := map[string]any{
			"square": w.sq.Desc(), "height": w.h, "seed": vkit.Seed(),
			"request": s.req.kind + " " + s.req.pos, "request_cid": s.req.cid.String(),
			"candidate": op, "built_against": focus.req.kind + " " + focus.req.pos,
			"prefix":    fmt.Sprintf("v%d codec=%#x mh=%#x len=%d", prefix.Version, prefix.Codec, prefix.MhType, prefix.MhLength),
			"bytes_len": len(data), "bytes_head": fmt.Sprintf("%x", data[:min(len(data), 96)]),
			"envelope_ok": ok, "inner_cid": inner.String(), "inner_kind": c10KindOf(inner),
			"sum": sum.String(), "sum_err": fmt.Sprint(err),
		}
		for k, v := range extra {
			m[k] = v
		}
		return m
	}
	if pnc != nil {
		c.run.Violation(fmt.Sprintf("C10 receive path panics @%s op=%s", site, op), witness(focus, map[string]any{"panic": fmt.Sprint(pnc)}))
		seen := map[*c10Group]bool{}
		for _, s := range set {
			if !seen[s.g] {
				seen[s.g] = true
				w.restart(s.g)
			}
		}
		return false
	}
	inner, _, envOK := c10Open(data)
	var again []*c10Group
	anyAccepted := false
	for _, s := range set {
		anyAccepted = anyAccepted || (err == nil && sum.Equals(s.req.cid))
	}
	switch {
	case anyAccepted:
		c.run.Count("outcome/accepted-for-a-pending-request", 1)
	case err != nil:
		c.run.Count("outcome/rejected-by-hasher", 1)
	default:
		c.run.Count("outcome/rejected-cid-not-wanted", 1)
	}
	for i, s := range set {
		accepted := err == nil && sum.Equals(s.req.cid)
		innerIs := envOK && inner.Equals(s.req.cid)
		zero := s.req.zero()
		role := "neighbour"
		if s == focus {
			role = "focus"
		}
		delivered := false
		if accepted {
			c.run.Count("accepted/"+s.req.kind+"/"+op, 1)
			if s == focus {
				acceptedForFocus = true
			}
			for _, call := range served {
				delivered = delivered || call == s.g.p.call
			}
		}
		if zeroBefore[i] && !zero {
			c.run.Count("filled/"+role+"/"+s.req.kind, 1)
			if !accepted {
				c.run.Count("filled-without-acceptance/"+s.req.kind, 1) // legitimate: right block sent under a foreign prefix
			}
		}
		// the Fetch that is handed the block takes it from its channel (NotifyNewBlocks is the
		// logical event) and, when it was its last one, returns
		taken := false
		if delivered {
			if len(s.g.reqs) == 1 {
				taken = s.g.p.wait(c.run)
			} else {
				taken = w.ex.awaitNotifs(c.run, notifsBefore+1)
			}
		}
		foreign := accepted && !innerIs
		flagged := false
		viol := func(sig string, detail any) { flagged = true; c.run.Violation(sig, detail) }
		switch {
		case foreign:
			// S2: bytes carrying another identifier (or none) are taken for this request
			after := "(not handed to a Fetch)"
			if taken && len(s.g.reqs) == 1 {
				after = fmt.Sprintf("Fetch returned err=%v panic=%v; requested container: %s", s.g.p.err, s.g.p.pnc, c10OrOK(s.req.diff()))
			} else if taken {
				after = "handed to the pending Fetch as the block for the requested CID; requested container: " + c10OrOK(s.req.diff())
			}
			if taken && s.g.p.store != nil {
				if _, ok := s.g.p.store.get(s.req.cid); ok {
					after += "; the foreign block was Put into the WithStore blockstore under the requested CID"
				}
			}
			c.run.SetAdd("foreign_identifier_accepted", s.req.kind+"<-"+c10KindOf(inner))
			c.run.Count("foreign-identifier-accepted/"+s.req.kind+"<-"+c10KindOf(inner), 1)
			viol(c10SigForeign,
				witness(s, map[string]any{"requested_kind": s.req.kind, "after": after, "why": "prefix.Sum(bytes) equals the requested CID although the envelope names an identifier of another kind: the hasher looks the verifier up by the INNER CID, returns the inner identifier as digest, and go-multihash cuts the digest to the requested length; identifiers of different kinds share their leading bytes (height|row|…)"}))
		case accepted && (zero || s.req.diff() != ""):
			viol(fmt.Sprintf("C10 %s accepted-but-different op=%s", s.req.kind, op), witness(s, map[string]any{"container": c10OrOK(s.req.diff())}))
		case zeroBefore[i] && !zero && !innerIs:
			viol(fmt.Sprintf("C10 %s filled by a block carrying a %s identifier op=%s", s.req.kind, c10KindOf(inner), op), witness(s, map[string]any{"container": c10OrOK(s.req.diff())}))
		case zeroBefore[i] && !zero && s.req.diff() != "":
			viol(fmt.Sprintf("C10 %s filled-but-different op=%s", s.req.kind, op), witness(s, map[string]any{"container": s.req.diff()}))
		case !zeroBefore[i] && s.req.diff() != "":
			viol(fmt.Sprintf("C10 %s populated container changed op=%s", s.req.kind, op), witness(s, map[string]any{"container": s.req.diff()}))
		}
		switch {
		case delivered:
			if taken && !flagged {
				if len(s.g.reqs) == 1 {
					c.run.Count("fetch/completed", 1)
					switch {
					case s.g.p.pnc != nil:
						c.run.Violation(fmt.Sprintf("C10 Fetch panics @%s after delivery op=%s", s.g.p.site, op), witness(s, map[string]any{"panic": fmt.Sprint(s.g.p.pnc)}))
					case s.g.p.err != nil:
						c.run.Violation(fmt.Sprintf("C10 %s Fetch fails after an accepted block op=%s", s.req.kind, op), witness(s, map[string]any{"err": s.g.p.err.Error()}))
					case s.req.diff() != "":
						c.run.Violation(fmt.Sprintf("C10 %s Fetch returned nil without the reference data op=%s", s.req.kind, op), witness(s, map[string]any{"container": s.req.diff()}))
					}
				}
				w.checkStore(s, op, witness)
			}
			again = append(again, s.g) // boxo hands a CID to a GetBlocks call once: ask again
		case !zero:
			s.req.reset() // filled as a side effect (legitimately or flagged above): empty it, the request stays pending
		}
	}
	seen := map[*c10Group]bool{}
	for _, g := range again {
		if !seen[g] {
			seen[g] = true
			w.restart(g)
		}
	}
	return acceptedForFocus
}

func c10OrOK(s string) string {
	if s == "" {
		return "equals the reference"
	}
	return s
}

// checkStore: whatever Fetch put into the local blockstore under the request's CID must be a
// block that itself carries that CID and decodes to the reference data.
func (w *c10World) checkStore(s *c10Slot, op string, witness func(*c10Slot, map[string]any) map[string]any) {
	if s.g.p.store == nil {
		return
	}
	stored, ok := s.g.p.store.get(s.req.cid)
	if !ok {
		return
	}
	w.c.run.Count("store/put", 1)
	if why := w.storedDiff(s.req, stored); why != "" {
		w.c.run.Violation(fmt.Sprintf("C10 local blockstore holds unverified bytes for a %s CID op=%s", s.req.kind, op),
			witness(s, map[string]any{"stored_head": fmt.Sprintf("%x", stored[:min(len(stored), 96)]), "why": why}))
	}
}

// storedDiff re-validates stored bytes with a brand-new request object through the real verifier.
func (w *c10World) storedDiff(req *c10Req, stored []byte) string {
	inner, container, ok := c10Open(stored)
	if !ok || !inner.Equals(req.cid) {
		return "stored bytes do not carry the CID they are stored under"
	}
	probe := req.fresh()
	var err error
	if p, _ := vkit.Recover(func() { err = probe.blk.UnmarshalFn(w.sq.Roots)(container, probe.idBin) }); p != nil {
		return fmt.Sprintf("verifier panics on the stored bytes: %v", p)
	}
	if err != nil {
		return "stored bytes do not verify: " + err.Error()
	}
	return probe.diff()
}

type c10Cand struct {
	op     string
	prefix cid.Prefix
	data   []byte
}

func c10BadCids(W *c10Req, r *vkit.RNG) []struct {
	name string
	b    []byte
} {
	type bc = struct {
		name string
		b    []byte
	}
	var out []bc
	id := W.idBin
	pw := W.cid.Prefix()
	mk := func(codec, mhc uint64, digest []byte) []byte {
		h, err := mh.Encode(digest, mhc)
		if err != nil {
			return nil
		}
		return cid.NewCidV1(codec, h).Bytes()
	}
	for codec, kind := range c10Kinds {
		if codec != pw.Codec {
			out = append(out, bc{"codec=" + kind, mk(codec, pw.MhType, id)})
			out = append(out, bc{"mh=" + kind, mk(pw.Codec, codec+1, id)})
			out = append(out, bc{"codec+mh=" + kind, mk(codec, codec+1, id)})
		}
	}
	out = append(out,
		bc{"codec=raw", mk(0x55, pw.MhType, id)},
		bc{"mh=sha2-256", mk(pw.Codec, mh.SHA2_256, id)},
		bc{"mh=identity", mk(pw.Codec, mh.IDENTITY, id)},
		bc{"digest-1", mk(pw.Codec, pw.MhType, id[:len(id)-1])},
		bc{"digest+1", mk(pw.Codec, pw.MhType, append(append([]byte(nil), id...), 0))},
		bc{"digest-empty", mk(pw.Codec, pw.MhType, nil)},
		bc{"cid-empty", nil},
		bc{"cid-random", r.Bytes(len(W.cid.Bytes()))},
		bc{"cid-trailing-byte", append(append([]byte(nil), W.cid.Bytes()...), 0)},
	)
	v2 := append([]byte(nil), W.cid.Bytes()...)
	v2[0] = 2
	out = append(out, bc{"cid-version=2", v2})
	// zero height in an otherwise valid identifier
	zh := append([]byte(nil), id...)
	for i := 0; i < 8; i++ {
		zh[i] = 0
	}
	out = append(out, bc{"height=0", mk(pw.Codec, pw.MhType, zh)})
	return out
}

func (w *c10World) candidates(W *c10Req, neigh []*c10Req, nmut int) []c10Cand {
	var out []c10Cand
	hW, err := w.honest(W.cid)
	if err != nil {
		return nil
	}
	_, cW, _ := c10Open(hW)
	pW := W.cid.Prefix()
	add := func(op string, p cid.Prefix, d []byte) { out = append(out, c10Cand{op, p, d}) }
	env := func(c []byte, container []byte) []byte { return c10Envelope(c, container) }
	for _, N := range neigh {
		rel := "other-kind:" + N.kind
		if N.kind == W.kind {
			rel = "same-kind"
		}
		hN, err := w.honest(N.cid)
		if err == nil {
			_, cN, _ := c10Open(hN)
			add("other-id/"+rel, pW, hN)
			add("inner=own+container-of/"+rel, pW, env(W.cid.Bytes(), cN))
		}
		add("inner=other+own-container/"+rel, pW, env(N.cid.Bytes(), cW))
		if N.kind != W.kind {
			add("foreign-prefix/"+N.kind, N.cid.Prefix(), hW)
		}
	}
	// same identifier, other square
	if tb, err := w.twbs.Get(w.c.ctx, W.cid); err == nil {
		add("twin-square", pW, tb.RawData())
		_, ct, _ := c10Open(tb.RawData())
		if W.kind == "sample" || W.kind == "rnd" {
			// mix: twin shares are in ct; a block with the twin container but re-marshalled envelope
			add("twin-square/re-enveloped", pW, env(W.cid.Bytes(), ct))
		}
	}
	// inner CID of the same position at a height nobody asked for
	if o := w.sameAtHeight(W, w.h^0x5a5a); o != nil {
		add("inner=unrequested-height", pW, env(o.cid.Bytes(), cW))
	}
	for _, v := range c10BadCids(W, w.r) {
		add("bad-cid/"+v.name, pW, env(v.b, cW))
	}
	// prefix chosen by the sender
	for _, v := range []struct {
		name string
		f    func(p *cid.Prefix)
	}{
		{"version=0", func(p *cid.Prefix) { p.Version = 0 }},
		{"version=2", func(p *cid.Prefix) { p.Version = 2 }},
		{"codec=raw", func(p *cid.Prefix) { p.Codec = 0x55 }},
		{"mh=sha2-256", func(p *cid.Prefix) { p.MhType = mh.SHA2_256 }},
		{"mh=unknown", func(p *cid.Prefix) { p.MhType = 0x7899 }},
		{"len-1", func(p *cid.Prefix) { p.MhLength-- }},
		{"len+1", func(p *cid.Prefix) { p.MhLength++ }},
		{"len=0", func(p *cid.Prefix) { p.MhLength = 0 }},
		{"len=-1", func(p *cid.Prefix) { p.MhLength = -1 }},
	} {
		p := pW
		v.f(&p)
		add("prefix/"+v.name, p, hW)
	}
	for k := 0; k < nmut; k++ {
		mb, mop := vkit.MutateBytes(w.r, hW)
		add("mutate/"+mop, pW, mb)
		mc, mop2 := vkit.MutateBytes(w.r, cW)
		add("container-mutate/"+mop2, pW, env(W.cid.Bytes(), mc))
	}
	add("empty", pW, nil)
	add("random-bytes", pW, w.r.Bytes(w.r.Range(1, 200)))
	add("container-empty", pW, env(W.cid.Bytes(), nil))
	add("container-random", pW, env(W.cid.Bytes(), w.r.Bytes(w.r.Range(1, 600))))
	return out
}

// sameAtHeight builds the same position at another height.
func (w *c10World) sameAtHeight(W *c10Req, h uint64) *c10Req {
	if h == 0 {
		h = 3
	}
	var r *c10Req
	switch b := W.blk.(type) {
	case *bitswap.SampleBlock:
		r, _ = c10SampleReq(w.sq, h, b.ID.RowIndex, b.ID.ShareIndex)
	case *bitswap.RowBlock:
		r, _ = c10RowReq(w.sq, h, b.ID.RowIndex)
	case *bitswap.RowNamespaceDataBlock:
		r, _ = c10RNDReq(w.sq, h, b.ID.RowIndex, b.ID.DataNamespace)
	case *bitswap.RangeNamespaceDataBlock:
		r, _ = c10RangeReq(w.sq, h, b.ID.From, b.ID.To)
	}
	return r
}

// focus keeps W and its neighbours pending, offers every hostile candidate, then the honest block.
func (w *c10World) focus(W *c10Req, neigh []*c10Req, nmut int) {
	c := w.c
	seen := map[cid.Cid]bool{W.cid: true}
	var ns []*c10Req
	for _, n := range neigh {
		if n == nil || seen[n.cid] {
			continue
		}
		seen[n.cid] = true
		ns = append(ns, n)
	}
	hW, err := w.honest(W.cid)
	if err != nil {
		c.run.Count("server-refused/"+W.kind, 1)
		return
	}
	gw := &c10Group{reqs: []*c10Req{W}}
	set := []*c10Slot{{req: W, g: gw}}
	groups := []*c10Group{gw}
	if len(ns) > 0 {
		gn := &c10Group{reqs: ns}
		groups = append(groups, gn)
		for _, n := range ns {
			set = append(set, &c10Slot{req: n, g: gn})
		}
	}
	for _, g := range groups {
		w.restart(g)
	}
	fs := set[0]
	for _, cd := range w.candidates(W, ns, nmut) {
		w.offer(set, fs, cd.op, cd.prefix, cd.data)
	}
	// direct verifier boundary: UnmarshalFn(container, id) with material of another identifier
	w.verifierBoundary(W, ns)
	// finally the honest block: must be accepted and fill the request
	if !w.offer(set, fs, "honest", W.cid.Prefix(), hW) {
		c.run.Violation("C10 "+W.kind+" honest-rejected", map[string]any{"square": w.sq.Desc(), "height": w.h, "request": W.kind + " " + W.pos, "cid": W.cid.String(), "seed": vkit.Seed()})
	} else {
		c.run.Count("honest-accepted/"+W.kind, 1)
	}
	for _, g := range groups {
		if !g.p.finished() {
			g.p.stop(c.run)
		}
		if g.p.pnc != nil {
			c.run.Violation("C10 Fetch panics @"+g.p.site, map[string]any{"panic": fmt.Sprint(g.p.pnc), "square": w.sq.Desc()})
		}
	}
}

// verifierBoundary calls the exported per-type verifier (Block.UnmarshalFn) the way the hasher and
// the duplicate path do, but with the identifier + container of ANOTHER request: it must refuse
// unless that identifier is the requested one (statement: "carries exactly the identifier").
func (w *c10World) verifierBoundary(W *c10Req, neigh []*c10Req) {
	c := w.c
	others := append([]*c10Req(nil), neigh...)
	// the same position of the same square stored at another height: container verifies, id differs
	if o := w.sameAtHeight(W, w.h^0x5a5a); o != nil {
		others = append(others, o)
	}
	hW, _ := w.honest(W.cid)
	_, cW, _ := c10Open(hW)
	for _, o := range others {
		if o.kind != W.kind {
			continue
		}
		var container []byte
		if hb, err := w.honest(o.cid); err == nil {
			_, container, _ = c10Open(hb)
		} else {
			container = cW // other height: the square is the same, so W's own container
		}
		for _, variant := range []struct {
			name string
			cont []byte
		}{{"id-of-other+its-container", container}, {"id-of-other+own-container", cW}} {
			probe := W.fresh()
			var err error
			c.run.Eval(1)
			c.run.Count("verifier/"+W.kind+"/"+variant.name, 1)
			p, site := vkit.Recover(func() { err = probe.blk.UnmarshalFn(w.sq.Roots)(variant.cont, o.idBin) })
			if p != nil {
				c.run.Violation(fmt.Sprintf("C10 %s UnmarshalFn panics @%s", W.kind, site), map[string]any{"panic": fmt.Sprint(p), "request": W.kind + " " + W.pos, "given_id": o.pos, "square": w.sq.Desc()})
				continue
			}
			if err == nil || !probe.zero() {
				c.run.Violation(fmt.Sprintf("C10 %s verifier fills a request from a block carrying another identifier (%s)", W.kind, variant.name), map[string]any{
					"square": w.sq.Desc(), "height": w.h, "seed": vkit.Seed(), "request": W.kind + " " + W.pos, "request_id": fmt.Sprintf("%x", W.idBin),
					"given_id": fmt.Sprintf("%x (%s, height %d)", o.idBin, o.pos, o.blk.Height()), "returned_err": fmt.Sprint(err), "container_after": c10OrOK(probe.diff())})
			}
		}
	}
}

// honestBatch: the S3 pass — one Fetch over a batch of identifiers; the block a serving node
// produces from the stored square for each of them must be accepted, fill exactly that request
// with the reference data, and the Fetch must return nil at the end.
func (w *c10World) honestBatch(batch []*c10Req, mustServe []bool) {
	c := w.c
	var reqs []*c10Req
	var data [][]byte
	for i, q := range batch {
		h, err := w.honest(q.cid)
		if err != nil {
			if mustServe[i] {
				c.run.Violation("C10 serving node cannot produce a "+q.kind+" block from a stored square", map[string]any{"square": w.sq.Desc(), "height": w.h, "request": q.kind + " " + q.pos, "err": err.Error()})
			} else {
				c.run.Count("server-refused/"+q.kind, 1)
			}
			continue
		}
		c.run.Count("served/"+q.kind, 1)
		reqs = append(reqs, q)
		data = append(data, h)
	}
	if len(reqs) == 0 {
		return
	}
	g := &c10Group{reqs: reqs}
	w.restart(g)
	for i, q := range reqs {
		c.tried(q.kind, "honest", w, q.pos)
		c.run.Distinct(fmt.Sprintf("%s|h=%d|%s|%s|honest", w.sq.Desc(), w.h, q.kind, q.pos))
		var sum cid.Cid
		var served []*c10Call
		var err error
		detail := func(extra string) map[string]any {
			return map[string]any{"square": w.sq.Desc(), "height": w.h, "request": q.kind + " " + q.pos, "cid": q.cid.String(), "seed": vkit.Seed(),
				"sum": sum.String(), "sum_err": fmt.Sprint(err), "container": c10OrOK(q.diff()), "note": extra}
		}
		if p, site := vkit.Recover(func() { sum, served, err = w.ex.receive(q.cid.Prefix(), data[i]) }); p != nil {
			c.run.Violation("C10 receive path panics @"+site+" op=honest", detail(fmt.Sprint(p)))
			continue
		}
		if err != nil || !sum.Equals(q.cid) || len(served) == 0 {
			c.run.Violation("C10 "+q.kind+" honest-rejected", detail("block produced by bitswap.Blockstore.Get over the store"))
			continue
		}
		if d := q.diff(); d != "" {
			c.run.Violation(fmt.Sprintf("C10 %s accepted-but-different op=honest", q.kind), detail(""))
			continue
		}
		c.run.Count("honest-accepted/"+q.kind, 1)
		// nothing else may have been touched
		for j := i + 1; j < len(reqs); j++ {
			if !reqs[j].zero() {
				c.run.Violation(fmt.Sprintf("C10 %s filled by a block carrying a %s identifier op=honest", reqs[j].kind, q.kind), detail("other request: "+reqs[j].pos))
				reqs[j].reset()
			}
		}
	}
	if g.p.outstanding(w.ex) > 0 {
		g.p.stop(c.run)
		return
	}
	if !g.p.wait(c.run) {
		return
	}
	c.run.Count("fetch/completed", 1)
	if g.p.pnc != nil || g.p.err != nil {
		c.run.Violation("C10 Fetch over honest blocks fails @"+g.p.site, map[string]any{"err": fmt.Sprint(g.p.err), "panic": fmt.Sprint(g.p.pnc), "square": w.sq.Desc()})
		return
	}
	for _, q := range reqs {
		if d := q.diff(); d != "" {
			c.run.Violation(fmt.Sprintf("C10 %s Fetch returned nil without the reference data op=honest", q.kind), map[string]any{"square": w.sq.Desc(), "request": q.kind + " " + q.pos, "container": d})
		}
		if stored, ok := g.p.store.get(q.cid); ok {
			c.run.Count("store/put", 1)
			if why := w.storedDiff(q, stored); why != "" {
				c.run.Violation("C10 local blockstore holds unverified bytes for a "+q.kind+" CID op=honest", map[string]any{"why": why, "request": q.pos})
			}
		}
	}
}

// ---------------------------------------------------------------------------------------------

type c10IDs struct {
	samples [][2]int
	rows    []int
	rnds    []struct {
		row    int
		ns     libshare.Namespace
		covers bool
	}
	ranges [][2]int
}

// allIDs enumerates every identifier of a square a client can ask for (ranges: inside one run).
func (w *c10World) allIDs() c10IDs {
	sq := w.sq
	n := 2 * sq.W
	var ids c10IDs
	for i := 0; i < n; i++ {
		ids.rows = append(ids.rows, i)
		for j := 0; j < n; j++ {
			ids.samples = append(ids.samples, [2]int{i, j})
		}
	}
	absent := sq.AbsentNamespaces()
	for r := 0; r < sq.W; r++ {
		seen := map[string]bool{}
		addNS := func(ns libshare.Namespace) {
			if seen[string(ns.Bytes())] || ns.ValidateForData() != nil {
				return
			}
			seen[string(ns.Bytes())] = true
			covers := false
			for _, cr := range sq.RowsCovering(ns) {
				covers = covers || cr == r
			}
			ids.rnds = append(ids.rnds, struct {
				row    int
				ns     libshare.Namespace
				covers bool
			}{r, ns, covers})
		}
		for col := 0; col < sq.W; col++ {
			addNS(sq.ODS[r*sq.W+col].Namespace())
		}
		for _, l := range absent {
			for _, ns := range l {
				addNS(ns)
			}
		}
	}
	for _, run := range sq.Runs {
		for a := run.Start; a < run.Start+run.Count; a++ {
			for b := a + 1; b <= run.Start+run.Count; b++ {
				ids.ranges = append(ids.ranges, [2]int{a, b})
			}
		}
	}
	return ids
}

func c10Sub[T any](r *vkit.RNG, xs []T, n int) []T {
	if n <= 0 || len(xs) <= n {
		return xs
	}
	out := append([]T(nil), xs...)
	r.Shuffle(len(out), func(i, j int) { out[i], out[j] = out[j], out[i] })
	return out[:n]
}

// neighbours returns requests related to W: other identifiers of the same kind, and identifiers
// of other kinds whose binary form shares a prefix with W's (same height/row/...).
func (w *c10World) neighbours(W *c10Req) []*c10Req {
	sq, h := w.sq, w.h
	n := 2 * sq.W
	var out []*c10Req
	add := func(r *c10Req, err error) {
		if err == nil && r != nil {
			out = append(out, r)
		}
	}
	nsAt := func(row int) libshare.Namespace { return sq.ODS[(row%sq.W)*sq.W].Namespace() }
	runOf := func(idx int) (int, int) {
		for _, run := range sq.Runs {
			if idx >= run.Start && idx < run.Start+run.Count {
				return run.Start, run.Start + run.Count
			}
		}
		return idx, idx + 1
	}
	switch b := W.blk.(type) {
	case *bitswap.SampleBlock:
		r, c := b.ID.RowIndex, b.ID.ShareIndex
		add(c10SampleReq(sq, h, r, (c+1)%n))
		add(c10SampleReq(sq, h, (r+1)%n, c))
		if r != c {
			add(c10SampleReq(sq, h, c, r))
		}
		add(c10RowReq(sq, h, r))
		add(c10RNDReq(sq, h, r, nsAt(r)))
		add(c10RangeReq(sq, h, r, c)) // binary form identical to the sample's: height|r|c
		if r < sq.W && c < sq.W {
			a, e := runOf(r*sq.W + c)
			add(c10RangeReq(sq, h, a, e))
		}
	case *bitswap.RowBlock:
		r := b.ID.RowIndex
		add(c10RowReq(sq, h, (r+1)%n))
		add(c10RowReq(sq, h, (r+sq.W)%n))
		add(c10SampleReq(sq, h, r, 0))
		add(c10SampleReq(sq, h, r, n-1))
		add(c10RNDReq(sq, h, r, nsAt(r)))
		a, e := runOf((r % sq.W) * sq.W)
		add(c10RangeReq(sq, h, a, e))
		if r+1 <= sq.W*sq.W {
			add(c10RangeReq(sq, h, r, r+1))
		}
	case *bitswap.RowNamespaceDataBlock:
		r, ns := b.ID.RowIndex, b.ID.DataNamespace
		for col := sq.W - 1; col >= 0; col-- {
			if o := sq.ODS[(r%sq.W)*sq.W+col].Namespace(); !o.Equals(ns) && o.ValidateForData() == nil {
				add(c10RNDReq(sq, h, r, o))
				break
			}
		}
		add(c10RNDReq(sq, h, (r+1)%sq.W, ns))
		add(c10RowReq(sq, h, r))
		add(c10SampleReq(sq, h, r, 0))
		add(c10SampleReq(sq, h, r, int(ns.Bytes()[0])<<8|int(ns.Bytes()[1])))
		for col := 0; col < sq.W; col++ {
			if sq.ODS[(r%sq.W)*sq.W+col].Namespace().Equals(ns) {
				a, e := runOf((r%sq.W)*sq.W + col)
				add(c10RangeReq(sq, h, a, min(e, (r%sq.W+1)*sq.W)))
				break
			}
		}
	case *bitswap.RangeNamespaceDataBlock:
		f, t := b.ID.From, b.ID.To
		add(c10RangeReq(sq, h, f+1, t))
		add(c10RangeReq(sq, h, f, t-1))
		add(c10RangeReq(sq, h, f+sq.W, t+sq.W))
		add(c10RangeReq(sq, h, f-sq.W, t-sq.W))
		add(c10RangeReq(sq, h, f+1, t+1))
		add(c10SampleReq(sq, h, f, t)) // binary form identical to the range's: height|from|to
		add(c10RowReq(sq, h, f/sq.W))
		add(c10RowReq(sq, h, f))
		add(c10RNDReq(sq, h, f/sq.W, sq.ODS[f].Namespace()))
	}
	return out
}

func TestC10(t *testing.T) {
	run := vkit.NewRun(t, "C10", "exploration",
		"cases = (generated square stored at a height in a real store, widths 1..16 × layout × tail) × (requested identifier of each of the 4 kinds, "+
			"kept pending in a real bitswap.Fetch together with related identifiers) × (candidate (prefix, bytes): honest | honest block of another identifier same/other kind | "+
			"same identifier from a twin square | envelope/inner-CID mismatch | malformed inner CID | sender-chosen prefix variants | wire and container mutations), "+
			"plus identifier↔CID round trips, duplicate/concurrent fetches, repeated deliveries and a real boxo client/server pair with byzantine servers; "+
			"distinct = distinct (square, height, request, candidate operator) tuples pushed through prefix.Sum (the boxo acceptance predicate); "+
			"non-trivial = candidate derived from valid blocks of the same or a twin square (not random bytes)")
	defer run.Finish()
	// a block delivery that blocks forever inside the acceptance path (the scripted exchange calls it
	// synchronously, like boxo's message decoder) is decided by the stable-state oracle
	defer run.WatchDeadlock("C10 block deliveries never return (stable state: blocked on a lock of the acceptance path): ",
		func(f string) bool { return strings.Contains(f, "bitswap.") })()
	ctx := context.Background()
	dir := filepath.Join(t.TempDir(), "store")
	if err := os.MkdirAll(dir, 0o755); err != nil {
		run.Inconclusive("cannot create the store directory: " + err.Error())
		return
	}
	st, err := store.NewStore(&store.Parameters{RecentBlocksCacheSize: 16}, dir)
	if err != nil {
		run.Inconclusive("cannot open the store: " + err.Error())
		return
	}
	defer st.Stop(ctx) //nolint:errcheck
	c := &c10{run: run, st: st, bs: &bitswap.Blockstore{Getter: st}, ctx: ctx}
	seed := vkit.Seed()
	rng := vkit.NewRNG(seed, "C10")

	type sqcase struct {
		w      int
		layout string
		tail   int
		full   bool
	}
	var cases []sqcase
	for _, w := range []int{1, 2, 4} {
		for _, l := range vkit.Layouts {
			tails := []int{0, w * w / 2}
			if vkit.Thorough() {
				tails = []int{0, 1, w - 1, w, w + 1, w*w - 1, w * w / 2}
			}
			seen := map[int]bool{}
			for _, p := range tails {
				if p < 0 || p >= w*w || seen[p] {
					continue
				}
				seen[p] = true
				cases = append(cases, sqcase{w, l, p, true})
			}
		}
	}
	for _, w := range []int{8, 16} {
		for i := 0; i < vkit.Scale(2, 6); i++ {
			cases = append(cases, sqcase{w, vkit.Pick(rng, vkit.Layouts), rng.Intn(w * w), false})
		}
	}
	// Unit of parallelism: one square stored at one height (the verifier registry is process-global
	// and keyed by CID, so concurrent tasks must not share CIDs). Larger squares are stored at
	// several heights, each height working on its slice of the requests. The three boundary
	// heights go to the first three squares, the others are spread out.
	type task struct{ ci, part, parts int }
	var tasks []task
	for ci, cs := range cases {
		parts := 1
		switch {
		case cs.w >= 8:
			parts = vkit.Scale(6, 12)
		case cs.w == 4:
			parts = vkit.Scale(3, 8)
		case cs.w == 2 && vkit.Thorough():
			parts = 2
		}
		for p := 0; p < parts; p++ {
			tasks = append(tasks, task{ci, p, parts})
		}
	}
	sort.SliceStable(tasks, func(a, b int) bool { return cases[tasks[a].ci].w > cases[tasks[b].ci].w })
	heightOf := func(ci, part int) uint64 {
		if part == 0 {
			switch ci {
			case 0:
				return 1
			case 1:
				return 1 << 32
			case 2:
				return ^uint64(0)
			}
		}
		return 1000 + uint64(ci)*7919 + uint64(part)*104729
	}

	part := os.Getenv("C10_PART") // development aid: run only one part
	if part != "" && part != "squares" {
		tasks = nil
	}
	// the end-to-end part mostly waits for the network: it runs beside everything else (own heights)
	parts := map[string]float64{}
	var pmu sync.Mutex
	e2eDone := make(chan struct{})
	go func() {
		defer close(e2eDone)
		if part == "" || part == "e2e" {
			t1 := time.Now()
			c.endToEnd(t, rng.Split("e2e"))
			pmu.Lock()
			parts["e2e"] = time.Since(t1).Seconds()
			pmu.Unlock()
		}
	}()
	type built struct {
		once   sync.Once
		sq, tw *vkit.Square
	}
	squares := make([]built, len(cases))
	t0 := time.Now()
	var wg sync.WaitGroup
	sem := make(chan struct{}, 16)
	for _, tk := range tasks {
		wg.Add(1)
		sem <- struct{}{}
		go func(tk task) {
			defer wg.Done()
			defer func() { <-sem }()
			cs := cases[tk.ci]
			rs := rng.SplitN("square", tk.ci)
			b := &squares[tk.ci]
			b.once.Do(func() {
				b.sq = vkit.GenSquare(rs, cs.w, cs.layout, cs.tail)
				b.tw = b.sq.Twin(rs.Split("twin"))
			})
			w, err := c.newWorld(rs.SplitN("part", tk.part), b.sq, b.tw, heightOf(tk.ci, tk.part))
			if err != nil {
				run.Inconclusive("cannot store square: " + err.Error())
				return
			}
			if tk.part == 0 {
				run.Count("squares", 1)
			}
			run.Count("square-heights", 1)
			c.square(w, rs.Split("pick"), cs.full, tk.part, tk.parts)
		}(tk)
	}
	wg.Wait()
	pmu.Lock()
	parts["squares"] = time.Since(t0).Seconds()
	pmu.Unlock()
	timed := func(name string, f func()) {
		if part == "" || part == name {
			t1 := time.Now()
			f()
			pmu.Lock()
			parts[name] = time.Since(t1).Seconds()
			pmu.Unlock()
		}
	}
	timed("ids", func() { c.identifiers(rng.Split("ids")) })
	timed("scen", func() { c.scenarios(rng.Split("scenarios")) })
	timed("conc", func() { c.concurrent(rng.Split("conc")) })
	<-e2eDone
	run.Extra("wall_s_per_part", parts)
	if part != "" {
		run.Inconclusive("development run restricted to part " + part)
	}

	for _, k := range []string{"sample", "row", "rnd", "range"} {
		run.Require("honest-accepted/"+k, 20)
		run.Require("served/"+k, 20)
	}
	run.Require("fetch/completed", 200)
	run.Require("outcome/rejected-by-hasher", 5000)
	run.Require("outcome/rejected-cid-not-wanted", 1000)
	run.Require("outcome/accepted-for-a-pending-request", 200)
	run.Require("scenario/notify-bypass", 4)
	run.Require("scenario/same-message/honest-then-garbage", 4)
	run.Require("scenario/late-duplicate/honest-again", 4)
	run.Require("ids/roundtrip", 1000)
	run.Require("conc/fetches-populated", 50)
	run.Require("e2e/fetch-ok", 4)
	run.Assume("the fake exchange reproduces boxo's receive path (message.newMessageFromProto: CID := prefix.Sum(data), blocks keyed by CID; client: only wanted CIDs are published, once per GetBlocks call; NotifyNewBlocks publishes without hashing); the end-to-end part cross-checks this against the real client")
	run.Assume("rsmt2d/nmt/sha256 define what a header commits to; hash collisions out of scope")
}

// square runs the per-square workload: S3 pass over the identifiers, then hostile candidates
// against a selection of focus requests.
func (c *c10) square(w *c10World, r *vkit.RNG, full bool, part, parts int) {
	ids := w.allIDs()
	thorough := vkit.Thorough()
	var items []func()
	// --- S3: every identifier (exhaustive for widths 1,2,4; sampled above), in batches
	type s3item struct {
		q    *c10Req
		must bool
	}
	var s3 []s3item
	add3 := func(q *c10Req, err error, must bool) {
		if err == nil && q != nil {
			s3 = append(s3, s3item{q, must})
		}
	}
	smp, rows, rnds, rngs := ids.samples, ids.rows, ids.rnds, ids.ranges
	if !full {
		smp = c10Sub(r, smp, vkit.Scale(24, 96))
		rnds = c10Sub(r, rnds, vkit.Scale(8, 32))
		rngs = c10Sub(r, rngs, vkit.Scale(16, 64))
	} else if len(rngs) > vkit.Scale(40, 136) {
		rngs = c10Sub(r, rngs, vkit.Scale(40, 136))
	}
	for _, p := range smp {
		q, err := c10SampleReq(w.sq, w.h, p[0], p[1])
		add3(q, err, true)
	}
	for _, i := range rows {
		q, err := c10RowReq(w.sq, w.h, i)
		add3(q, err, true)
	}
	for _, x := range rnds {
		q, err := c10RNDReq(w.sq, w.h, x.row, x.ns)
		add3(q, err, x.covers)
	}
	for _, g := range rngs {
		q, err := c10RangeReq(w.sq, w.h, g[0], g[1])
		add3(q, err, true)
	}
	{
		var batch []*c10Req
		var must []bool
		flush := func() {
			if len(batch) > 0 {
				w.honestBatch(batch, must)
			}
			batch, must = nil, nil
		}
		for i, it := range s3 {
			if i%parts != part {
				continue
			}
			batch, must = append(batch, it.q), append(must, it.must)
			if len(batch) == 32 {
				flush()
			}
		}
		flush()
	}
	// --- hostile candidates against focus requests
	nf := map[string]int{"sample": 3, "row": 2, "rnd": 2, "range": 3}
	nmut := 2
	if thorough {
		nf = map[string]int{"sample": 24, "row": 8, "rnd": 10, "range": 24}
		nmut = 6
	}
	// boundary positions first, random ones after
	n := 2 * w.sq.W
	fs := [][2]int{{0, 0}, {n - 1, n - 1}, {0, n - 1}, {w.sq.W - 1, w.sq.W}}
	fs = append(fs, c10Sub(r, ids.samples, nf["sample"])...)
	for _, p := range fs[:min(len(fs), nf["sample"])] {
		items = append(items, func() {
			if q, err := c10SampleReq(w.sq, w.h, p[0], p[1]); err == nil {
				w.focus(q, w.neighbours(q), nmut)
			}
		})
	}
	fr := append([]int{0, n - 1, w.sq.W}, c10Sub(r, ids.rows, nf["row"])...)
	for _, i := range fr[:min(len(fr), nf["row"])] {
		items = append(items, func() {
			if q, err := c10RowReq(w.sq, w.h, i); err == nil {
				w.focus(q, w.neighbours(q), nmut)
			}
		})
	}
	var covered []int
	for i, x := range ids.rnds {
		if x.covers {
			covered = append(covered, i)
		}
	}
	for _, i := range c10Sub(r, covered, nf["rnd"]) {
		x := ids.rnds[i]
		items = append(items, func() {
			if q, err := c10RNDReq(w.sq, w.h, x.row, x.ns); err == nil {
				w.focus(q, w.neighbours(q), nmut)
			}
		})
	}
	for _, g := range c10Sub(r, ids.ranges, nf["range"]) {
		items = append(items, func() {
			if q, err := c10RangeReq(w.sq, w.h, g[0], g[1]); err == nil {
				w.focus(q, w.neighbours(q), nmut)
			}
		})
	}
	for i, it := range items {
		if i%parts == part {
			it()
		}
	}
}
